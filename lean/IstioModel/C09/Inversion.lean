import IstioModel.C09.Model
import IstioModel.C09.Lemmas

/-!
C09 - inversion lemmas: what a successful result of each modelled function implies, branch by
branch.  Helper file (its lemmas are used by Theorems.lean and are not counted as obligations).
-/
namespace IstioModel.C09

/-- the certificate data of the leaf of a response -/
def leafData {κ : Type} (decode : κ → CertData) : Resp κ → Option CertData
  | .ok (.leaf c :: _) => some (decode c)
  | _ => none

/-! ### Inversion lemmas: what a successful result implies, branch by branch -/

theorem genTemplate_inv {g : Bool} {cn : String} {ids : List String} {ttl : Int} {isCA : Bool} {sna now : Int}
    {t : Template} (h : genTemplate g cn ids ttl isCA (some sna) now = some t) :
    (g = true → ∀ id ∈ ids, hasChar ',' id = false) ∧ now < sna ∧
    t = mkTemplate cn ids ttl isCA (some sna) now := by
  unfold genTemplate at h
  split at h
  · simp at h
  · rename_i hg
    split at h
    · simp at h
    · rename_i hexp
      simp only [Option.some.injEq] at h
      refine ⟨?_, ?_, h.symm⟩
      · intro hgt id hid
        simp only [hgt, true_and, List.any_eq_true, not_exists, not_and] at hg
        simpa using hg id hid
      · simpa [signerExpired] using hexp

theorem sign_inv {g : Fixes} {ca : CA} {csr : CSR} {ids : List String} {req : Int} {cl fc : Bool} {now : Int}
    {d : CertData} (h : sign g ca csr ids req cl fc now = .ok d) :
    ∃ sna t, ca.bundle.signerNotAfter = some sna ∧ csr.pemOk = true ∧ csr.derOk = true ∧ csr.sigOk = true ∧
      ¬ (cl = true ∧ req > ca.maxTTL) ∧
      genTemplate g.comma csr.cn ids (lifetimeOf g.capDefault ca req cl) fc (some sna) now = some t ∧
      d = { tmpl := t, pubKey := csr.pubKey } := by
  unfold sign at h
  split at h
  · simp at h
  · rename_i sna hs
    split at h
    · simp at h
    · rename_i h1
      split at h
      · simp at h
      · rename_i h2
        split at h
        · simp at h
        · rename_i h3
          split at h
          · simp at h
          · rename_i h4
            split at h
            · simp at h
            · rename_i t ht
              simp only [SignRes.ok.injEq] at h
              exact ⟨sna, t, hs, by simpa using h1, by simpa using h2, by simpa using h3, h4, ht, h.symm⟩

theorem create_inv {κ : Type} {g : Fixes} {encode : CertData → κ} {srv : Server} {ctx : Ctx} {outs : List AuthOut}
    {req : Request} {now : Int} {chain : List (Entry κ)}
    (h : createCertificate g encode srv ctx outs req now = .ok chain) :
    ∃ caller sans d, authenticate ctx outs = some caller ∧ effectiveSans srv ctx caller req = some sans ∧
      sign g srv.ca req.csr sans (requestedTTL req.validity) true false now = .ok d ∧
      chain = [Entry.leaf (encode d)] ++ srv.ca.bundle.chain.map (fun c => Entry.chain c.name)
                ++ (if srv.ca.bundle.hasRoot then [Entry.root] else []) := by
  unfold createCertificate at h
  split at h
  · simp at h
  · rename_i caller hc
    split at h
    · simp at h
    · rename_i sans hs
      split at h
      · simp at h
      · simp at h
      · rename_i d hd
        simp only [Resp.ok.injEq] at h
        exact ⟨caller, sans, d, hc, hs, hd, h.symm⟩

theorem firstCaller_inv {outs : List AuthOut} {c : Caller} (h : firstCaller outs = some c) :
    (⟨some c, false⟩ : AuthOut) ∈ outs ∧ c.identities ≠ [] := by
  induction outs with
  | nil => simp [firstCaller] at h
  | cons o os ih =>
    unfold firstCaller at h
    split at h
    · rename_i c' hc'
      split at h
      · rename_i hok
        simp only [Option.some.injEq] at h
        subst h
        have he : o.err = false := by simpa using hok.2
        have hid : c'.identities ≠ [] := by
          intro e; simp [e] at hok
        refine ⟨?_, hid⟩
        have : o = ⟨some c', false⟩ := by
          cases o; simp_all
        simp [this]
      · have := ih h
        exact ⟨by simp [this.1], this.2⟩
    · have := ih h
      exact ⟨by simp [this.1], this.2⟩

theorem authenticate_inv {ctx : Ctx} {outs : List AuthOut} {c : Caller} (h : authenticate ctx outs = some c) :
    ctx.xdsAuth = true ∧ ctx.hasPeer = true ∧ (ctx.tls = true ∨ ctx.authPlaintext = true) ∧
    (⟨some c, false⟩ : AuthOut) ∈ outs ∧ c.identities ≠ [] := by
  unfold authenticate at h
  split at h
  · simp at h
  · rename_i h1
    split at h
    · simp at h
    · rename_i h2
      split at h
      · simp at h
      · rename_i h3
        have := firstCaller_inv h
        refine ⟨by simpa using h1, by simpa using h2, ?_, this.1, this.2⟩
        cases ht : ctx.tls <;> cases hp : ctx.authPlaintext <;> simp_all

theorem effectiveSans_inv {srv : Server} {ctx : Ctx} {caller : Caller} {req : Request} {sans : List String}
    (h : effectiveSans srv ctx caller req = some sans) :
    (req.impersonated = "" ∧ sans = caller.identities) ∨
    (req.impersonated ≠ "" ∧ sans = [req.impersonated] ∧
      ∃ na, srv.nodeAuth = some na ∧ impersonationOK na ctx caller.kube req.impersonated = true) := by
  unfold effectiveSans at h
  split at h
  · rename_i he
    simp only [Option.some.injEq] at h
    exact Or.inl ⟨he, h.symm⟩
  · rename_i he
    split at h
    · simp at h
    · rename_i na hna
      split at h
      · rename_i hok
        simp only [Option.some.injEq] at h
        exact Or.inr ⟨he, h.symm, na, hna, hok⟩
      · simp at h

/-- everything a successful response implies, in one place -/
theorem issued_inv {κ : Type} {g : Fixes} {encode : CertData → κ} {srv : Server} {ctx : Ctx} {outs : List AuthOut}
    {req : Request} {now : Int} {chain : List (Entry κ)}
    (h : createCertificate g encode srv ctx outs req now = .ok chain) :
    ∃ caller sans sna t,
      authenticate ctx outs = some caller ∧ effectiveSans srv ctx caller req = some sans ∧
      srv.ca.bundle.signerNotAfter = some sna ∧
      req.csr.pemOk = true ∧ req.csr.derOk = true ∧ req.csr.sigOk = true ∧
      ¬ (requestedTTL req.validity > srv.ca.maxTTL) ∧
      genTemplate g.comma req.csr.cn sans (lifetimeOf g.capDefault srv.ca (requestedTTL req.validity) true) false (some sna) now = some t ∧
      chain = [Entry.leaf (encode { tmpl := t, pubKey := req.csr.pubKey })]
                ++ srv.ca.bundle.chain.map (fun c => Entry.chain c.name)
                ++ (if srv.ca.bundle.hasRoot then [Entry.root] else []) := by
  obtain ⟨caller, sans, d, hc, hs, hd, hch⟩ := create_inv h
  obtain ⟨sna, t, h1, h2, h3, h4, h5, h6, h7⟩ := sign_inv hd
  subst h7
  exact ⟨caller, sans, sna, t, hc, hs, h1, h2, h3, h4, by simpa using h5, h6, hch⟩

theorem leafData_of_issued {κ : Type} {encode : CertData → κ} {decode : κ → CertData}
    (hdec : ∀ d, decode (encode d) = d) (d : CertData) (rest : List (Entry κ)) :
    leafData decode (.ok ([Entry.leaf (encode d)] ++ rest)) = some d := by
  simp [leafData, hdec]

/-- `issued_inv` with the leaf read back through `decode` -/
theorem issued_leaf {κ : Type} {g : Fixes} {encode : CertData → κ} {decode : κ → CertData}
    (hdec : ∀ d, decode (encode d) = d) {srv : Server} {ctx : Ctx} {outs : List AuthOut}
    {req : Request} {now : Int} {chain : List (Entry κ)}
    (h : createCertificate g encode srv ctx outs req now = .ok chain) :
    ∃ caller sans sna t,
      authenticate ctx outs = some caller ∧ effectiveSans srv ctx caller req = some sans ∧
      srv.ca.bundle.signerNotAfter = some sna ∧
      req.csr.pemOk = true ∧ req.csr.derOk = true ∧ req.csr.sigOk = true ∧
      ¬ (requestedTTL req.validity > srv.ca.maxTTL) ∧
      genTemplate g.comma req.csr.cn sans (lifetimeOf g.capDefault srv.ca (requestedTTL req.validity) true) false (some sna) now = some t ∧
      leafData decode (.ok chain) = some { tmpl := t, pubKey := req.csr.pubKey } := by
  obtain ⟨caller, sans, sna, t, hc, hs, h1, h2, h3, h4, h5, ht, hch⟩ := issued_inv h
  refine ⟨caller, sans, sna, t, hc, hs, h1, h2, h3, h4, h5, ht, ?_⟩
  rw [hch, List.append_assoc]
  exact leafData_of_issued hdec _ _

end IstioModel.C09
