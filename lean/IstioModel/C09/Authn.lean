import IstioModel.C09.Model

/-! C09 - authenticator post-processing (placeholder, filled in by scope 2). -/
namespace IstioModel.C09

def stepAuthn (_ : List String) : String := "bad-op"

end IstioModel.C09
