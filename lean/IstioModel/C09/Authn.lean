import IstioModel.C09.Model

/-!
C09 - authenticator post-processing: how each authenticator of the CA server turns a validated
credential into `Caller.Identities`.

Go sources modelled (istio/istio):
  security/pkg/server/ca/authenticate/oidc.go                JwtAuthenticator.authenticate (sub parsing, checkAudience)
  security/pkg/server/ca/authenticate/kubeauth/kube_jwt.go   authenticateGrpc, authenticate, getKubeClient
  security/pkg/k8s/tokenreview/k8sauthn.go                   getTokenReviewResult, extractExtra
  security/pkg/server/ca/authenticate/xfcc_authenticator.go  Authenticate, isTrustedAddress, isInRange, buildSecurityCaller
  security/pkg/server/ca/authenticate/cert_authenticator.go  authenticateGrpc
  security/pkg/pki/util/san.go                               ExtractIDs (values of the SAN entries)
  pkg/spiffe/spiffe.go                                       genSpiffeURI, sanitizeTrustDomain
  net (Go 1.26)                                              SplitHostPort
  net/netip (Go 1.26)                                        ParsePrefix, Prefix.Contains, Addr.IsLoopback, MustParseAddr
  pkg/spiffe/spiffe.go                                       PeerCertVerifier (AddMapping, VerifyPeerCert), RetrieveSpiffeBundleRootCerts (entry filter)

Outside the model (inputs): token cryptography (the OIDC verifier's verdict and the claims it
releases; the TokenReview answer of the API server), the third-party XFCC header grammar
(`xfccparser.ParseXFCCHeader`: its parse result is an input), TLS chain verification.

`fixed` selects the code before (`false`) / after (`true`) the `fix:` commits on the OIDC authenticator:
the bounds check on the fields of `sub` (90fe2f5), the rejection of an empty namespace / service
account field (8474d0e), and the nil mesh holder (cb98066, `oidcEntryH`).
-/
namespace IstioModel.C09

/-- result of `Authenticator.Authenticate`: panic, `(nil, nil)`, `(nil, err)`, `(caller, nil)` -/
inductive AuthRes
  | crash
  | nil
  | err
  | ok (c : Caller)
  deriving DecidableEq, Repr

/-- `sanitizeTrustDomain`: '@' becomes '.' -/
def sanitizeTD (td : String) : String := String.ofList (td.toList.map (fun c => if c = '@' then '.' else c))

/-- `genSpiffeURI` -/
def spiffeURI (td ns sa : String) : String := "spiffe://" ++ sanitizeTD td ++ "/ns/" ++ ns ++ "/sa/" ++ sa

/-! ## Bearer token extraction (`security.ExtractBearerToken` / `ExtractRequestToken`) -/

/-- gRPC request (the CA service) or plain HTTP request (istiod's debug endpoints) -/
inductive Transport
  | grpc | http
  deriving DecidableEq, Repr

/-- `strings.CutPrefix` -/
def cutPrefix (p s : String) : Option String :=
  if hasPrefix s p then some (String.ofList (s.toList.drop p.toList.length)) else none

/-- the token presented in the `authorization` values: gRPC takes the first value with the
    `Bearer ` prefix; HTTP looks at the first value only and also accepts the `Istio ` prefix -/
def extractToken (t : Transport) (vals : List String) : Option String :=
  match t with
  | .grpc => vals.findSome? (cutPrefix "Bearer ")
  | .http =>
    match vals.head? with
    | none => none
    | some v =>
      if v = "" then none
      else
        match cutPrefix "Bearer " v with
        | some tok => some tok
        | none => cutPrefix "Istio " v

/-! ## OIDC (`oidc.go`) -/

/-- what the OIDC verifier made of the bearer token -/
inductive OidcTok
  | noHeader                                   -- no bearer token in the metadata
  | rejected                                   -- verifier.Verify failed (signature, issuer, expiry, format)
  | badClaims                                  -- verified, but the payload does not unmarshal into JwtPayload
  | claims (sub : String) (aud : List String)  -- verified payload
  deriving DecidableEq, Repr

def checkAudience (toCheck expected : List String) : Bool := toCheck.any (fun a => expected.contains a)

def oidcSubPrefix : String := "system:serviceaccount"

/-- `JwtAuthenticator.authenticate` after the verifier accepted the token and released its claims -/
def oidcClaims (fixed : Bool) (td : String) (expected : List String) (sub : String) (aud : List String) : AuthRes :=
  if !hasPrefix sub oidcSubPrefix then .err
  else if fixed ∧ (split ':' sub).length < 4 then .err
  else
    match (split ':' sub)[2]?, (split ':' sub)[3]? with
    | some ns, some sa =>
      if fixed ∧ (ns = "" ∨ sa = "") then .err
      else if !checkAudience aud expected then .err
      else .ok { identities := [spiffeURI td ns sa] }
    | _, _ => .crash

/-- `JwtAuthenticator.Authenticate` for a gRPC request. -/
def oidcAuthenticate (fixed : Bool) (td : String) (expected : List String) : OidcTok → AuthRes
  | .noHeader => .err
  | .rejected => .err
  | .badClaims => .err
  | .claims sub aud => oidcClaims fixed td expected sub aud

/-- `Authenticate` entry: token extraction first; `verify` is the OIDC verifier (signature, issuer,
    expiry, claims) as a function of the token that was extracted - and of nothing else. -/
def oidcEntry (fixed : Bool) (td : String) (expected : List String) (t : Transport) (authVals : List String)
    (verify : String → OidcTok) : AuthRes :=
  match extractToken t authVals with
  | none => .err
  | some tok => oidcAuthenticate fixed td expected (verify tok)

/-- `Authenticate` of an authenticator as CONSTRUCTED: `holder` is the mesh holder handed to
    `NewJwtAuthenticator` - `some td`: a mesh config whose trust domain is `td` at the time of the request;
    `none`: a nil `mesh.Holder`, which is what `pilot/pkg/bootstrap` `RunCA` passed for the out-of-cluster
    authenticator (TOKEN_ISSUER set, no KUBERNETES_SERVICE_HOST) until fix cb98066.  Every check precedes
    the one use of the holder (`j.meshHolder.Mesh()` when the identity is built): with a nil holder a token
    that passes all checks made the code dereference nil (`fixed = false`), and is an error since. -/
def oidcEntryH (fixed : Bool) (holder : Option String) (expected : List String) (t : Transport) (authVals : List String)
    (verify : String → OidcTok) : AuthRes :=
  match holder with
  | some td => oidcEntry fixed td expected t authVals verify
  | none =>
    match oidcEntry fixed "" expected t authVals verify with
    | .ok _ => if fixed then .err else .crash
    | r => r

/-- The code as it is in /repo now. -/
def repoOidcFixed : Bool := true

/-! ## Kubernetes JWT (`kube_jwt.go`, `tokenreview`) -/

/-- the API server's answer to the TokenReview -/
structure Review where
  apiErr        : Bool := false                   -- the Create call failed
  error         : String := ""                    -- Status.Error
  authenticated : Bool := true
  groups        : List String := []
  username      : String := ""
  podName       : Option (List String) := none    -- Extra["authentication.kubernetes.io/pod-name"]
  podUID        : Option (List String) := none    -- Extra["authentication.kubernetes.io/pod-uid"]
  deriving DecidableEq, Repr

def extractExtra : Option (List String) → String
  | some (v :: _) => v
  | _ => ""

/-- `getTokenReviewResult` (after a successful Create) -/
def tokenReviewResult (r : Review) : Option KubeInfo :=
  if r.apiErr then none
  else if r.error ≠ "" then none
  else if !r.authenticated then none
  else if !r.groups.contains "system:serviceaccounts" then none
  else
    match split ':' r.username with
    | [_, _, ns, sa] => some { podName := extractExtra r.podName, podNamespace := ns, podUID := extractExtra r.podUID, podSA := sa }
    | _ => none

structure KubeCfg where
  primary : String                        -- clusterID of the primary cluster
  aliases : List (String × String)        -- clusterAliases
  remotes : Option (List String)          -- clusters the remote getter has clients for; `none`: no getter
  deriving DecidableEq, Repr

def aliasOf (cfg : KubeCfg) (id : String) : String :=
  match cfg.aliases.find? (fun kv => kv.1 = id) with
  | some kv => kv.2
  | none => ""

inductive Client
  | primary
  | remote (id : String)
  deriving DecidableEq, Repr

/-- `getKubeClient` -/
def getKubeClient (cfg : KubeCfg) (clusterID : String) : Option Client :=
  if cfg.primary = clusterID ∨ cfg.primary = aliasOf cfg clusterID ∨ clusterID = "" then some .primary
  else
    match cfg.remotes with
    | none => none
    | some rs =>
      if rs.contains clusterID then some (.remote clusterID)
      else if rs.contains (aliasOf cfg clusterID) then some (.remote (aliasOf cfg clusterID))
      else none

/-- `ExtractClusterID` on the gRPC metadata values (exactly one value, else ""); for HTTP
    `req.Header.Get("clusterid")` (the first value) -/
def clusterIDOf (t : Transport) (vals : Option (List String)) : String :=
  match t, vals with
  | .grpc, some [x] => x
  | .http, some (x :: _) => x
  | _, _ => ""

/-- the TokenReview submitted to an API server -/
structure ReviewCall where
  client    : Client
  token     : String
  audiences : List String
  deriving DecidableEq, Repr

/-- `KubeJWTAuthenticator.Authenticate`: the result and the TokenReview that was submitted (which
    cluster, which token, which audiences = `security.TokenAudiences`).  `api` is the API servers'
    answer as a function of exactly that submission. -/
def kubeAuthenticate (t : Transport) (td : String) (cfg : KubeCfg) (clusterHdr : Option (List String))
    (authVals : List String) (tokenAudiences : List String) (api : ReviewCall → Review) : AuthRes × Option ReviewCall :=
  match extractToken t authVals with
  | none => (.err, none)
  | some tok =>
    match getKubeClient cfg (clusterIDOf t clusterHdr) with
    | none => (.err, none)
    | some cl =>
      let call : ReviewCall := { client := cl, token := tok, audiences := tokenAudiences }
      match tokenReviewResult (api call) with
      | none => (.err, some call)
      | some k =>
        if k.podSA = "" then (.err, some call)
        else if k.podNamespace = "" then (.err, some call)
        else (.ok { identities := [spiffeURI td k.podNamespace k.podSA], kube := k }, some call)

/-! ## XFCC (`xfcc_authenticator.go`) -/

/-- `netip.Addr` as far as `Prefix.Contains` / `IsLoopback` read it -/
structure Addr where
  v6    : Bool
  bytes : List Nat
  zone  : Bool
  deriving DecidableEq, Repr

/-- `netip.ParseAddr` keeping family and zone -/
def parseAddrFull (s : List Char) : Option Addr :=
  match firstSpecial s with
  | none => none
  | some c =>
    if c = '.' then (ipv4Fields s).map (fun b => { v6 := false, bytes := b, zone := false })
    else if c = ':' then (parseIPv6 s).map (fun b => { v6 := true, bytes := b, zone := s.contains '%' })
    else none

def lastIndexOf (c : Char) (s : List Char) : Option Nat :=
  (List.range s.length).reverse.find? (fun i => s[i]? = some c)

/-- `net.SplitHostPort`: the host part, `none` on any error -/
def splitHostPort (s : List Char) : Option (List Char) :=
  match lastIndexOf ':' s with
  | none => none
  | some i =>
    if s.head? = some '[' then
      match s.findIdx? (· == ']') with
      | none => none
      | some e =>
        if e + 1 = s.length then none
        else if e + 1 ≠ i then none
        else
          let host := (s.take e).drop 1
          if (s.drop 1).contains '[' then none
          else if (s.drop (e + 1)).contains ']' then none
          else some host
    else
      let host := s.take i
      if host.contains ':' then none
      else if s.contains '[' then none
      else if s.contains ']' then none
      else some host

/-- decimal digits only, no sign -/
def parseBits (s : List Char) : Option Nat :=
  if s.isEmpty then none
  else if s.length > 1 ∧ (s.head? = some '0' ∨ !(s.headD '0').isDigit) then none
  else if s.all Char.isDigit then some (s.foldl (fun a c => a * 10 + (c.toNat - 48)) 0) else none

/-- `netip.ParsePrefix` -/
def parsePrefix (s : List Char) : Option (Addr × Nat) :=
  match lastIndexOf '/' s with
  | none => none
  | some i =>
    match parseAddrFull (s.take i) with
    | none => none
    | some ip =>
      if ip.v6 ∧ ip.zone then none
      else
        match parseBits (s.drop (i + 1)) with
        | none => none
        | some bits => if bits > (if ip.v6 then 128 else 32) then none else some (ip, bits)

def bytesToNat (b : List Nat) : Nat := b.foldl (fun a x => a * 256 + x) 0

/-- `Prefix.Contains` -/
def prefixContains (p : Addr × Nat) (ip : Addr) : Bool :=
  if ip.zone then false
  else if p.1.v6 ≠ ip.v6 then false
  else
    let w := if ip.v6 then 128 else 32
    bytesToNat ip.bytes >>> (w - p.2) == bytesToNat p.1.bytes >>> (w - p.2)

/-- `Addr.IsLoopback` -/
def isLoopback (ip : Addr) : Bool :=
  let b := if ip.v6 then shorten4in6 ip.bytes else ip.bytes
  if b.length = 4 then b.head? = some 127 else b = List.replicate 15 0 ++ [1]

inductive Trust
  | crash | no | yes
  deriving DecidableEq, Repr

/-- `isInRange(ip, cidr)`: `MustParseAddr(ip)` is reached only once the CIDR has parsed -/
def isInRange (ip : Option Addr) (cidr : String) : Trust :=
  if !cidr.toList.contains '/' then .no
  else
    match parsePrefix cidr.toList with
    | none => .no
    | some p =>
      match ip with
      | none => .crash
      | some a => if prefixContains p a then .yes else .no

def inAnyRange (ip : Option Addr) : List String → Trust
  | [] => .no
  | c :: cs =>
    match isInRange ip c with
    | .crash => .crash
    | .yes => .yes
    | .no => inAnyRange ip cs

/-- `isTrustedAddress(addr, trustedCidrs)` -/
def isTrustedAddress (addr : String) (cidrs : List String) : Trust :=
  match splitHostPort addr.toList with
  | none => .no
  | some host =>
    match inAnyRange (parseAddrFull host) cidrs with
    | .crash => .crash
    | .yes => .yes
    | .no =>
      match parseAddrFull host with
      | none => .crash
      | some a => if isLoopback a then .yes else .no

/-- one element of a parsed XFCC header (`xfccparser.ClientCert`) -/
structure XfccElem where
  uris    : List String
  dns     : List String
  subject : Option String     -- Subject.CommonName when a Subject is present
  deriving DecidableEq, Repr

def xfccIDs (es : List XfccElem) : List String :=
  es.flatMap (fun e => e.uris ++ e.dns ++ (match e.subject with | some cn => [cn] | none => []))

/-- `XfccAuthenticator.Authenticate`; `parse` is the third-party `xfccparser.ParseXFCCHeader`, applied
    to the FIRST header value. -/
def xfccAuthenticate (cidrs : List String) (remoteAddr : String) (headers : List String)
    (parse : String → Option (List XfccElem)) : AuthRes :=
  if remoteAddr.isEmpty ∨ headers.isEmpty then .err
  else
    match isTrustedAddress remoteAddr cidrs with
    | .crash => .crash
    | .no => .err
    | .yes =>
      match parse (headers.headD "") with
      | none => .err
      | some [] => .err
      | some (e :: es) => .ok { identities := xfccIDs (e :: es) }

/-! ## Client certificate (`cert_authenticator.go`) -/

inductive PeerKind
  | noPeer | noAuth | other | tls
  deriving DecidableEq, Repr

/-- the SAN extension of a certificate as `ExtractIDs` sees it -/
inductive CertSAN
  | noSan
  | bad
  | san (values : List String)
  deriving DecidableEq, Repr

/-- `ClientCertAuthenticator.authenticateGrpc` over `tlsInfo.State.VerifiedChains` -/
def certAuthenticate (k : PeerKind) (chains : List (List CertSAN)) : AuthRes :=
  match k with
  | .tls =>
    match chains with
    | (c :: _) :: _ =>
      match c with
      | .san vs => .ok { identities := vs }
      | _ => .err
    | _ => .err
  | _ => .err

/-! ## Which client certificates are "validated": crypto/tls + `spiffe.PeerCertVerifier` (`pkg/spiffe/spiffe.go`)

istiod's secure gRPC port (pilot/pkg/bootstrap initSecureDiscoveryService) uses
`ClientAuth = VerifyClientCertIfGiven`, `ClientCAs = verifier.GetGeneralCertPool()` and
`VerifyPeerCertificate = verifier.VerifyPeerCert`: the standard chain verification against ALL
registered roots, then a second verification against the roots registered for the TRUST DOMAIN of the
peer's URI SAN.  X.509 path building is modelled on names: a certificate names its issuer; signatures,
and everything else crypto/x509 checks, are outside the model. -/

inductive EKU
  | both | client | server | none
  deriving DecidableEq, Repr

/-- an intermediate certificate the client presents -/
structure CACert where
  name   : String
  issuer : String
  isCA   : Bool := true
  timeOk : Bool := true
  deriving DecidableEq, Repr

/-- the client's leaf certificate -/
structure PLeaf where
  issuer : String
  sans   : List (String × String)   -- SAN entries in order: (kind "U" | "D" | "I", value)
  timeOk : Bool := true
  eku    : EKU := .both
  deriving DecidableEq, Repr

def PLeaf.uris (l : PLeaf) : List String := (l.sans.filter (fun e => e.1 = "U")).map (·.2)
def PLeaf.values (l : PLeaf) : List String := l.sans.map (·.2)

/-- an issuer name is a trusted root, or a presented, valid CA certificate that itself chains up -/
def chainsTo (roots : List String) (ints : List CACert) : Nat → String → Bool
  | 0, _ => false
  | fuel + 1, iss =>
    roots.contains iss ||
      ints.any (fun i => i.name == iss && i.isCA && i.timeOk && chainsTo roots ints fuel i.issuer)

/-- may a certificate with this extended key usage be used as a TLS client / server certificate? -/
def EKU.allows (e : EKU) (server : Bool) : Bool :=
  match e with
  | .both => true
  | .none => true
  | .client => !server
  | .server => server

/-- `x509.Certificate.Verify` as modelled: validity period, key usage, a path to one of `roots` -/
def x509Verify (server : Bool) (roots : List String) (leaf : PLeaf) (ints : List CACert) : Bool :=
  leaf.timeOk && leaf.eku.allows server && chainsTo roots ints (ints.length + 1) leaf.issuer

/-- `PeerCertVerifier.AddMapping`: pools merge per trust domain -/
def poolOf (pools : List (String × List String)) (td : String) : Option (List String) :=
  if pools.any (fun p => p.1 == td) then some ((pools.filter (fun p => p.1 == td)).flatMap (·.2)) else none

def generalPool (pools : List (String × List String)) : List String := pools.flatMap (·.2)

/-! ### Federated trust domains: SPIFFE bundle endpoints (`RetrieveSpiffeBundleRootCerts`)

A bundle document is a JWK set.  Only entries with `use = "x509-svid"` are X.509 trust roots, and each must
carry exactly one certificate (`x5c`); `jwt-svid` entries (keys for validating JWT-SVIDs) and entries
without a use are skipped whatever they carry.  HTTP / TLS / JSON decoding are outside the model.

Scope (review round 5, M2): in /repo the ONLY non-test caller of `RetrieveSpiffeBundleRootCerts` is
pilot/pkg/trustbundle (the fetched anchors go into the trust bundle distributed to proxies); istiod's own
verifier (`createPeerCertVerifier`) is filled by `AddMappingFromPEM` alone, and `PeerCertVerifier.AddMappings`
has no caller.  `bundleRoots` models the function itself; `resolvePools` - handing its result to the
verifier - is a composition the HARNESS makes (tlscert.go), not one istiod makes today.  The theorems about
`resolvePools` therefore say what would hold IF a caller registered the retrieved roots, nothing about istiod. -/

/-- one JWK entry of a bundle document: its `use` and the certificates (by name) of its `x5c` -/
structure BundleKey where
  use   : String
  certs : List String
  deriving DecidableEq, Repr

def x509SVID : String := "x509-svid"

/-- the loop over `doc.Keys`; `none` = error -/
def bundleRootsLoop : List BundleKey → Option (List String)
  | [] => some []
  | k :: ks =>
    if k.use = x509SVID then
      match k.certs with
      | [c] => (bundleRootsLoop ks).map (c :: ·)
      | _ => none
    else bundleRootsLoop ks

/-- the roots one bundle document contributes; a bundle without any X.509-SVID entry is an error -/
def bundleRoots (keys : List BundleKey) : Option (List String) :=
  match bundleRootsLoop keys with
  | some [] => none
  | r => r

/-- how the roots of a trust domain are configured: listed, or fetched from its bundle endpoint -/
inductive PoolSrc
  | roots (l : List String)
  | bundle (keys : List BundleKey)
  | unreachable     -- the endpoint is no URL, or does not answer 200 within the retries
  deriving DecidableEq, Repr

/-- `RetrieveSpiffeBundleRootCerts` over every endpoint (one failing endpoint fails the call), its result
    registered by `AddMappings` next to the listed pools - the harness' composition, see the scope note
    above; `none`: the retrieval returned an error -/
def resolvePools : List (String × PoolSrc) → Option (List (String × List String))
  | [] => some []
  | (td, .roots l) :: rest => (resolvePools rest).map ((td, l) :: ·)
  | (td, .bundle keys) :: rest =>
    match bundleRoots keys with
    | none => none
    | some l => (resolvePools rest).map ((td, l) :: ·)
  | (_, .unreachable) :: _ => none

/-- `url.URL.String()` of a parsed URI SAN as far as it matters here: the scheme (up to the first
    ':') comes back in lower case; nothing else of the URIs the harness generates changes. -/
def urlString (u : String) : String :=
  String.ofList ((u.toList.takeWhile (· ≠ ':')).map lowerAscii ++ u.toList.dropWhile (· ≠ ':'))

/-- `PeerCertVerifier.VerifyPeerCert` for a peer that presented a certificate: exactly one URI SAN,
    `peerCert.URIs[0].String()` parses as a SPIFFE identity, its trust domain has a pool, the leaf
    verifies against THAT pool (default key usage of `Verify`: server authentication). -/
def verifyPeerCert (pools : List (String × List String)) (leaf : PLeaf) (ints : List CACert) : Bool :=
  match leaf.uris with
  | [u] =>
    match parseIdentity (urlString u) with
    | none => false
    | some (td, _, _) =>
      match poolOf pools td with
      | none => false
      | some roots => x509Verify true roots leaf ints
  | _ => false

/-- does the TLS handshake accept the client? (no certificate: accepted, other authenticators may apply) -/
def tlsAccepts (pools : List (String × List String)) : Option (PLeaf × List CACert) → Bool
  | none => true
  | some (leaf, ints) => x509Verify false (generalPool pools) leaf ints && verifyPeerCert pools leaf ints

/-- handshake + `ClientCertAuthenticator`; `none` = handshake refused, there is no request -/
def tlsCertAuthenticate (pools : List (String × List String)) (peer : Option (PLeaf × List CACert)) : Option AuthRes :=
  if !tlsAccepts pools peer then none
  else
    match peer with
    | none => some .err
    | some (leaf, _) => some (certAuthenticate .tls [[.san leaf.values]])

end IstioModel.C09
