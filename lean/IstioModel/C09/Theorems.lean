import IstioModel.C09.Model
import IstioModel.C09.Lemmas
import IstioModel.C09.Inversion

/-!
C09 - property theorems for certificate issuance (`Server.CreateCertificate` over `IstioCA`).

Crypto / ASN.1 assumption, explicit in every theorem that looks inside the issued certificate:
`decode (encode d) = d` (what `crypto/x509` parses back is what the template said).

`g : Fixes` selects the code version (`Fixes.all` = /repo now, `Fixes.none` = before the `fix:` commits);
theorems with a free `g` hold for every version.
-/
namespace IstioModel.C09

/-! ### 1. Only authenticated callers -/

/-- No successful authentication => `Unauthenticated`, whatever the CSR, TTL or metadata. -/
theorem no_cert_without_authn {κ : Type} (g : Fixes) (encode : CertData → κ) (srv : Server) (ctx : Ctx)
    (outs : List AuthOut) (req : Request) (now : Int) (h : authenticate ctx outs = none) :
    createCertificate g encode srv ctx outs req now = .err .unauthenticated := by
  simp [createCertificate, h]

/-- If no authenticator returned (caller with >= 1 identity, no error), nothing is issued. -/
theorem no_authenticator_succeeded {κ : Type} (g : Fixes) (encode : CertData → κ) (srv : Server) (ctx : Ctx)
    (outs : List AuthOut) (req : Request) (now : Int)
    (h : ∀ o ∈ outs, ∀ c, o.caller = some c → c.identities = [] ∨ o.err = true) :
    createCertificate g encode srv ctx outs req now = .err .unauthenticated := by
  apply no_cert_without_authn
  cases ha : authenticate ctx outs with
  | none => rfl
  | some c =>
    obtain ⟨_, _, _, hm, hid⟩ := authenticate_inv ha
    rcases h _ hm c rfl with h1 | h1
    · exact absurd h1 hid
    · simp at h1

/-- A certificate is issued only on an authenticating context, for a caller some authenticator
    returned without error and with at least one identity. -/
theorem issued_implies_authenticated {κ : Type} {g : Fixes} {encode : CertData → κ} {srv : Server} {ctx : Ctx}
    {outs : List AuthOut} {req : Request} {now : Int} {chain : List (Entry κ)}
    (h : createCertificate g encode srv ctx outs req now = .ok chain) :
    ∃ caller, authenticate ctx outs = some caller ∧ (⟨some caller, false⟩ : AuthOut) ∈ outs ∧
      caller.identities ≠ [] ∧ ctx.xdsAuth = true ∧ ctx.hasPeer = true ∧
      (ctx.tls = true ∨ ctx.authPlaintext = true) := by
  obtain ⟨caller, _, _, _, hc, _⟩ := issued_inv h
  obtain ⟨h1, h2, h3, h4, h5⟩ := authenticate_inv hc
  exact ⟨caller, hc, h4, h5, h1, h2, h3⟩

/-! ### 2. SANs are exactly the authenticated (or the authorised impersonated) identities -/

theorem effectiveSans_ne_nil {srv : Server} {ctx : Ctx} {caller : Caller} {req : Request} {sans : List String}
    (hid : caller.identities ≠ []) (h : effectiveSans srv ctx caller req = some sans) : sans ≠ [] := by
  rcases effectiveSans_inv h with ⟨_, rfl⟩ | ⟨_, rfl, _⟩
  · exact hid
  · simp

/-- SAN exactness, any version of the code, under the hypothesis that no identity contains ','. -/
theorem san_exact_partial {κ : Type} {g : Fixes} {encode : CertData → κ} {decode : κ → CertData}
    (hdec : ∀ d, decode (encode d) = d) {srv : Server} {ctx : Ctx} {outs : List AuthOut} {req : Request}
    {now : Int} {chain : List (Entry κ)}
    (h : createCertificate g encode srv ctx outs req now = .ok chain) :
    ∃ caller sans d, authenticate ctx outs = some caller ∧ effectiveSans srv ctx caller req = some sans ∧
      leafData decode (.ok chain) = some d ∧
      ((∀ id ∈ sans, hasChar ',' id = false) → d.tmpl.san = sans.map classify) := by
  obtain ⟨caller, sans, sna, t, hc, hs, _, _, _, _, _, ht, hl⟩ := issued_leaf hdec h
  refine ⟨caller, sans, _, hc, hs, hl, ?_⟩
  intro hno
  obtain ⟨_, _, rfl⟩ := genTemplate_inv ht
  have hne : sans ≠ [] := effectiveSans_ne_nil (authenticate_inv hc).2.2.2.2 hs
  simp [mkTemplate, buildSAN, split_join ',' sans hne hno]

/-- The full statement: for every issued certificate the SAN entries are exactly the identities of
    the authenticated caller, or exactly the one impersonated identity, each classified by the
    documented rule - no hypothesis on the identity strings. -/
def SanExactFull (g : Fixes) : Prop :=
  ∀ (srv : Server) (ctx : Ctx) (outs : List AuthOut) (req : Request) (now : Int) (chain : List (Entry CertData)),
    createCertificate g id srv ctx outs req now = .ok chain →
    ∃ caller sans d, authenticate ctx outs = some caller ∧ effectiveSans srv ctx caller req = some sans ∧
      leafData id (.ok chain) = some d ∧ d.tmpl.san = sans.map classify

/-- On the repaired code (comma fix in) the full statement holds. -/
theorem san_exact (g : Fixes) (hg : g.comma = true) : SanExactFull g := by
  intro srv ctx outs req now chain h
  obtain ⟨caller, sans, d, hc, hs, hl, himp⟩ := san_exact_partial (decode := id) (fun _ => rfl) h
  refine ⟨caller, sans, d, hc, hs, hl, himp ?_⟩
  obtain ⟨caller', sans', sna, t, hc', hs', _, _, _, _, _, ht, _⟩ := issued_inv h
  rw [hc] at hc'; cases hc'
  rw [hs] at hs'; cases hs'
  exact (genTemplate_inv ht).1 hg

/-- Same with an arbitrary encoding and its left inverse. -/
theorem san_exact_encoded {κ : Type} {g : Fixes} (hg : g.comma = true) {encode : CertData → κ} {decode : κ → CertData}
    (hdec : ∀ d, decode (encode d) = d) {srv : Server} {ctx : Ctx} {outs : List AuthOut} {req : Request}
    {now : Int} {chain : List (Entry κ)}
    (h : createCertificate g encode srv ctx outs req now = .ok chain) :
    ∃ caller sans d, authenticate ctx outs = some caller ∧ effectiveSans srv ctx caller req = some sans ∧
      leafData decode (.ok chain) = some d ∧ d.tmpl.san = sans.map classify := by
  obtain ⟨caller, sans, d, hc, hs, hl, himp⟩ := san_exact_partial hdec h
  refine ⟨caller, sans, d, hc, hs, hl, himp ?_⟩
  obtain ⟨caller', sans', sna, t, hc', hs', _, _, _, _, _, ht, _⟩ := issued_inv h
  rw [hc] at hc'; cases hc'
  rw [hs] at hs'; cases hs'
  exact (genTemplate_inv ht).1 hg

/-- On the repaired code an identity containing ',' never reaches a certificate. -/
theorem comma_identity_rejected {κ : Type} {g : Fixes} (hg : g.comma = true) {encode : CertData → κ} {srv : Server} {ctx : Ctx} {outs : List AuthOut}
    {req : Request} {now : Int} {caller : Caller} {sans : List String}
    (hc : authenticate ctx outs = some caller) (hs : effectiveSans srv ctx caller req = some sans)
    (hcomma : ∃ id ∈ sans, hasChar ',' id = true) :
    ∀ chain, createCertificate g encode srv ctx outs req now ≠ .ok chain := by
  intro chain h
  obtain ⟨caller', sans', sna, t, hc', hs', _, _, _, _, _, ht, _⟩ := issued_inv h
  rw [hc] at hc'; cases hc'
  rw [hs] at hs'; cases hs'
  obtain ⟨id, hid, hch⟩ := hcomma
  have := (genTemplate_inv ht).1 hg id hid
  simp [this] at hch

/-- Old code: a single identity with a comma yields at least two SAN entries. -/
theorem san_comma_split_unfixed (cn id : String) (ttl sna now : Int) (t : Template)
    (hcomma : hasChar ',' id = true)
    (h : genTemplate false cn [id] ttl false (some sna) now = some t) : 2 ≤ t.san.length := by
  obtain ⟨_, _, rfl⟩ := genTemplate_inv h
  have hj : join ',' [id] = id := by simp [join, String.ofList_toList]
  simp only [mkTemplate, buildSAN, hj, List.length_map, split_length]
  exact splitC_length_ge_two ',' id.toList ((hasChar_true_iff ',' id).1 hcomma)

/-! ### 3./4. Nothing in the CSR or the metadata can add, replace or alter an identity -/

/-- the template reads the CSR's CommonName only through its emptiness -/
theorem mkTemplate_csr_cn (cn1 cn2 : String) (h : cn1.isEmpty = cn2.isEmpty) (ids : List String) (ttl : Int)
    (isCA : Bool) (s : Option Int) (now : Int) :
    mkTemplate cn1 ids ttl isCA s now = mkTemplate cn2 ids ttl isCA s now := by
  simp [mkTemplate, subjectCNOf, h]

/-- Non-interference for the CSR: the whole response depends on the CSR only through the three
    decoding outcomes, its public key and whether its CommonName is empty. -/
theorem csr_cannot_inject {κ : Type} (g : Fixes) (encode : CertData → κ) (srv : Server) (ctx : Ctx)
    (outs : List AuthOut) (req : Request) (now : Int) (csr1 csr2 : CSR)
    (hp : csr1.pemOk = csr2.pemOk) (hd : csr1.derOk = csr2.derOk) (hs : csr1.sigOk = csr2.sigOk)
    (hk : csr1.pubKey = csr2.pubKey) (hcn : csr1.cn.isEmpty = csr2.cn.isEmpty) :
    createCertificate g encode srv ctx outs { req with csr := csr1 } now =
    createCertificate g encode srv ctx outs { req with csr := csr2 } now := by
  simp only [createCertificate, effectiveSans, sign, genTemplate, hp, hd, hs, hk,
    mkTemplate_csr_cn csr1.cn csr2.cn hcn]

/-- Non-interference for the metadata: only `ImpersonatedIdentity` is read; `CertSigner` and every
    other field change nothing in the response. -/
theorem metadata_cannot_inject {κ : Type} (g : Fixes) (encode : CertData → κ) (srv : Server) (ctx : Ctx)
    (outs : List AuthOut) (req1 req2 : Request) (now : Int)
    (hcsr : req1.csr = req2.csr) (hv : req1.validity = req2.validity)
    (himp : req1.impersonated = req2.impersonated) :
    createCertificate g encode srv ctx outs req1 now = createCertificate g encode srv ctx outs req2 now := by
  simp only [createCertificate, effectiveSans, hcsr, hv, himp]

/-- `util.GenCSR` asks for names only: no CA, no further extension, a valid proof of possession. -/
theorem gencsr_requests_only_names (k : String) (hosts : List String) (org : String) (dual : Bool) :
    (genCSR k hosts org dual).sans = hosts ∧ (genCSR k hosts org dual).wantCA = false ∧ (genCSR k hosts org dual).exts = [] ∧
    (genCSR k hosts org dual).pemOk = true ∧ (genCSR k hosts org dual).derOk = true ∧ (genCSR k hosts org dual).sigOk = true ∧
    (genCSR k hosts org dual).pubKey = k := by
  simp [genCSR]

/-- ... and even that is irrelevant: a request with the CSR of `GenCSR` gets the same certificate as one
    with any other valid CSR for the same key and the same "CommonName is empty" bit (the names come
    from the authenticated identity). -/
theorem gencsr_names_do_not_matter {κ : Type} (g : Fixes) (encode : CertData → κ) (srv : Server) (ctx : Ctx)
    (outs : List AuthOut) (req : Request) (now : Int) (k : String) (hosts hosts' : List String) (org org' : String) (dual : Bool)
    (hcn : (genCSR k hosts org dual).cn.isEmpty = (genCSR k hosts' org' dual).cn.isEmpty) :
    createCertificate g encode srv ctx outs { req with csr := genCSR k hosts org dual } now =
      createCertificate g encode srv ctx outs { req with csr := genCSR k hosts' org' dual } now :=
  csr_cannot_inject g encode srv ctx outs req now _ _ (by simp [genCSR]) (by simp [genCSR]) (by simp [genCSR]) (by simp [genCSR]) hcn

/-- Without `ImpersonatedIdentity` the SAN source is the caller, whatever else the request says. -/
theorem no_impersonation_uses_caller (srv : Server) (ctx : Ctx) (caller : Caller) (req : Request)
    (h : req.impersonated = "") : effectiveSans srv ctx caller req = some caller.identities := by
  simp [effectiveSans, h]

/-! ### 5. Impersonation gate -/

/-- The conditions of `ClusterNodeAuthorizer.authenticateImpersonation`, exactly as coded. -/
theorem cluster_gate_iff (trusted : List (String × String)) (pods : List Pod) (k : KubeInfo) (requested : String) :
    clusterImpersonationOK trusted pods k requested = true ↔
    (k.podNamespace, k.podSA) ∈ trusted ∧
    ∃ td ns sa, parseIdentity requested = some (td, ns, sa) ∧
    ∃ cp, pods.find? (fun p => p.name = k.podName ∧ p.ns = k.podNamespace) = some cp ∧
      cp.uid = k.podUID ∧ cp.sa = k.podSA ∧
      ∃ p ∈ pods, p.node ≠ "" ∧ p.sa ≠ "" ∧ p.ns = ns ∧ p.sa = sa ∧ p.node = cp.node := by
  unfold clusterImpersonationOK
  by_cases ht : (k.podNamespace, k.podSA) ∈ trusted
  · simp only [ht, true_and]
    cases hp : parseIdentity requested with
    | none => simp
    | some r =>
      obtain ⟨td, ns, sa⟩ := r
      cases hf : pods.find? (fun p => p.name = k.podName ∧ p.ns = k.podNamespace) with
      | none => simp
      | some cp =>
        by_cases hu : cp.uid = k.podUID
        · by_cases hsa : cp.sa = k.podSA
          · simp [hu, hsa, indexed, and_assoc, ht]
          · simp [hu, hsa]
        · simp [hu]
  · simp [ht]

/-- An impersonated identity is issued only through the whole gate, evaluated on the pods the
    active node authorizer of the caller's cluster holds (`Slot.active`: the old component during a
    pending swap; `informerPods`: pods that are not in phase Failed). -/
theorem impersonation_gate {κ : Type} {g : Fixes} {encode : CertData → κ} {srv : Server} {ctx : Ctx}
    {outs : List AuthOut} {req : Request} {now : Int} {chain : List (Entry κ)}
    (h : createCertificate g encode srv ctx outs req now = .ok chain) (himp : req.impersonated ≠ "") :
    ∃ caller na slot all, authenticate ctx outs = some caller ∧ srv.nodeAuth = some na ∧
      effectiveSans srv ctx caller req = some [req.impersonated] ∧
      lookupCluster (clusterID ctx) na.clusters = some slot ∧ slot.active = some all ∧
      (caller.kube.podNamespace, caller.kube.podSA) ∈ na.trusted ∧
      ∃ td ns sa, parseIdentity req.impersonated = some (td, ns, sa) ∧
      ∃ cp, (informerPods all).find? (fun p => p.name = caller.kube.podName ∧ p.ns = caller.kube.podNamespace) = some cp ∧
        cp.uid = caller.kube.podUID ∧ cp.sa = caller.kube.podSA ∧
        ∃ p ∈ informerPods all, p.node ≠ "" ∧ p.sa ≠ "" ∧ p.ns = ns ∧ p.sa = sa ∧ p.node = cp.node := by
  obtain ⟨caller, sans, _, _, hc, hs, _⟩ := issued_inv h
  rcases effectiveSans_inv hs with ⟨he, _⟩ | ⟨_, rfl, na, hna, hok⟩
  · exact absurd he himp
  · unfold impersonationOK at hok
    split at hok
    · simp at hok
    · rename_i slot hl
      split at hok
      · simp at hok
      · rename_i pods ha
        exact ⟨caller, na, slot, pods, hc, hna, hs, hl, ha, (cluster_gate_iff _ _ _ _).1 hok⟩

/-- A pod in phase Failed is never in the informer's view, a running one always is. -/
theorem informerPods_mem (pods : List Pod) (p : Pod) : p ∈ informerPods pods ↔ p ∈ pods ∧ p.phase ≠ "F" := by
  simp [informerPods]

/-- Cluster credentials rotating (`clusterUpdated`): the old authorizer answers until the new one
    has synced, then the new one; a new cluster without predecessor answers with an empty informer. -/
theorem swap_active (old new : List Pod) :
    ((Slot.mk (some { pods := old }) none).updated new).active = some old ∧
    (((Slot.mk (some { pods := old }) none).updated new).synced).active = some new ∧
    ((Slot.mk none none).updated new).active = some [] := by
  simp [Slot.updated, Slot.synced, Slot.active, Comp.view]

/-- The new component of an update has synced but nothing has finalised the swap yet
    (`pendingSwap.HasSynced` not called): `pendingSwap.active` already hands out the NEW component - the same
    answer as after the finalisation. -/
theorem swap_ran_active (s : Slot) (old : Option Comp) (new : Comp) (h : s.swap = some (old, new)) :
    s.ran.active = some ({ new with synced := true } : Comp).view := by
  simp [Slot.ran, Slot.active, h]

/-- A second rotation before the first one synced leaves the cluster without pod data (requests are
    refused) until the second one syncs: fail closed. -/
theorem double_update_fail_closed (old n1 n2 : List Pod) :
    (((Slot.mk (some { pods := old }) none).updated n1).updated n2).active = some [] := by
  simp [Slot.updated, Slot.active, Comp.view]

/-- Since the fix a deleted cluster has no authorizer, whatever was pending ... -/
theorem deleted_cluster_has_no_authorizer (s : Slot) : (s.deleted true).active = none := by
  simp [Slot.deleted, Slot.active]

/-- ... before it, deleting a cluster during a pending swap left the OLD authorizer answering for the
    deleted cluster (and for a cluster added again under the same ID). -/
theorem deleted_cluster_stale_witness_unfixed (old new again : List Pod) :
    (((Slot.mk (some { pods := old }) none).updated new).deleted false).active = some old ∧
    ((((Slot.mk (some { pods := old }) none).updated new).deleted false).added again).active = some old := by
  simp [Slot.updated, Slot.deleted, Slot.added, Slot.active, Comp.view]

/-- "Parses as a SPIFFE identity" means exactly the string shape `spiffe://<td>/ns/<ns>/sa/<sa>`. -/
theorem parseIdentity_sound {s td ns sa : String} (h : parseIdentity s = some (td, ns, sa)) :
    s = "spiffe://" ++ td ++ "/ns/" ++ ns ++ "/sa/" ++ sa := by
  unfold parseIdentity at h
  split at h
  · simp at h
  · rename_i hp
    have hpre : uriPrefix.toList ++ s.toList.drop uriPrefix.toList.length = s.toList := by
      have : uriPrefix.toList.isPrefixOf s.toList = true := by simpa [hasPrefix] using hp
      exact List.prefix_iff_eq_append.1 (List.isPrefixOf_iff_prefix.1 this)
    have hlen : uriPrefix.length = uriPrefix.toList.length := by decide
    rw [hlen] at h
    generalize hrest : s.toList.drop uriPrefix.toList.length = rest at h hpre
    split at h
    · rename_i td' a ns' b sa' hs
      split at h
      · rename_i hab
        simp only [Option.some.injEq, Prod.mk.injEq] at h
        obtain ⟨rfl, rfl, rfl⟩ := h
        obtain ⟨rfl, rfl⟩ := hab
        simp only [split, String.toList_ofList] at hs
        have hj := joinC_splitC '/' rest
        cases hsc : splitC '/' rest with
        | nil => simp [hsc] at hs
        | cons x1 t1 =>
          rw [hsc] at hs hj
          match t1, hs, hj with
          | [x2, x3, x4, x5], hs, hj =>
            simp only [List.map_cons, List.map_nil, List.cons.injEq, and_true] at hs
            obtain ⟨h1, h2, h3, h4, h5⟩ := hs
            apply String.toList_injective
            rw [← hpre, ← hj]
            simp only [joinC_cons2, joinC_single, String.toList_append, ← h1, ← h3, ← h5, String.toList_ofList]
            have e1 : "spiffe://".toList = uriPrefix.toList := rfl
            have e2 : "/ns/".toList = '/' :: x2 ++ ['/'] := by
              have : x2 = "ns".toList := by rw [← String.toList_ofList (l := x2), h2]
              rw [this]; decide
            have e3 : "/sa/".toList = '/' :: x4 ++ ['/'] := by
              have : x4 = "sa".toList := by rw [← String.toList_ofList (l := x4), h4]
              rw [this]; decide
            rw [e1, e2, e3]
            simp
          | [], hs, _ => simp at hs
          | [_], hs, _ => simp at hs
          | [_, _], hs, _ => simp at hs
          | [_, _, _], hs, _ => simp at hs
          | _ :: _ :: _ :: _ :: _ :: _, hs, _ => simp at hs
      · simp at h
    · simp at h

/-- Without a configured node authorizer (`CA_TRUSTED_NODE_ACCOUNTS` empty) every impersonation
    request is refused. -/
theorem impersonation_needs_authorizer {κ : Type} (g : Fixes) (encode : CertData → κ) (ca : CA)
    (clusters : List (String × Slot)) (ctx : Ctx) (outs : List AuthOut) (req : Request) (now : Int)
    (himp : req.impersonated ≠ "") :
    createCertificate g encode (Server.new ca [] clusters) ctx outs req now = .err .unauthenticated := by
  unfold createCertificate
  split
  · rfl
  · simp [effectiveSans, himp, Server.new]

/-- Recorded observation: the gate reads the impersonated identity only through its namespace and
    service account; the trust-domain segment is unconstrained. -/
theorem impersonation_trust_domain_unconstrained (trusted : List (String × String)) (pods : List Pod) (k : KubeInfo)
    (r1 r2 td1 td2 ns sa : String) (h1 : parseIdentity r1 = some (td1, ns, sa))
    (h2 : parseIdentity r2 = some (td2, ns, sa)) :
    clusterImpersonationOK trusted pods k r1 = clusterImpersonationOK trusted pods k r2 := by
  simp [clusterImpersonationOK, h1, h2]

/-! ### 6./7. Never a CA certificate; binds the CSR key -/

theorem never_ca {κ : Type} {g : Fixes} {encode : CertData → κ} {decode : κ → CertData}
    (hdec : ∀ d, decode (encode d) = d) {srv : Server} {ctx : Ctx} {outs : List AuthOut} {req : Request}
    {now : Int} {chain : List (Entry κ)}
    (h : createCertificate g encode srv ctx outs req now = .ok chain) :
    ∃ d, leafData decode (.ok chain) = some d ∧ d.tmpl.isCA = false ∧ d.tmpl.bcValid = true ∧
      d.tmpl.keyUsage = kuDigitalSignature + kuKeyEncipherment ∧
      d.tmpl.extKeyUsage = [ekuServerAuth, ekuClientAuth] ∧ d.tmpl.otherExts = [] ∧ d.tmpl.sanCritical = true ∧
      d.tmpl.subjectOther = [] := by
  obtain ⟨_, _, _, t, _, _, _, _, _, _, _, ht, hl⟩ := issued_leaf hdec h
  refine ⟨_, hl, ?_⟩
  obtain ⟨_, _, rfl⟩ := genTemplate_inv ht
  simp [mkTemplate]

theorem binds_csr_key {κ : Type} {g : Fixes} {encode : CertData → κ} {decode : κ → CertData}
    (hdec : ∀ d, decode (encode d) = d) {srv : Server} {ctx : Ctx} {outs : List AuthOut} {req : Request}
    {now : Int} {chain : List (Entry κ)}
    (h : createCertificate g encode srv ctx outs req now = .ok chain) :
    ∃ d, leafData decode (.ok chain) = some d ∧ d.pubKey = req.csr.pubKey ∧
      req.csr.pemOk = true ∧ req.csr.derOk = true ∧ req.csr.sigOk = true := by
  obtain ⟨_, _, _, t, _, _, _, h1, h2, h3, _, _, hl⟩ := issued_leaf hdec h
  exact ⟨_, hl, rfl, h1, h2, h3⟩

/-- The subject CommonName is never taken from the CSR: empty, or the first identity. -/
theorem subject_cn_from_identities {κ : Type} {g : Fixes} {encode : CertData → κ} {decode : κ → CertData}
    (hdec : ∀ d, decode (encode d) = d) {srv : Server} {ctx : Ctx} {outs : List AuthOut} {req : Request}
    {now : Int} {chain : List (Entry κ)}
    (h : createCertificate g encode srv ctx outs req now = .ok chain) :
    ∃ caller sans d, authenticate ctx outs = some caller ∧ effectiveSans srv ctx caller req = some sans ∧
      leafData decode (.ok chain) = some d ∧
      (d.tmpl.subjectCN = "" ∨ some d.tmpl.subjectCN = dualUseCN (join ',' sans)) := by
  obtain ⟨caller, sans, _, t, hc, hs, _, _, _, _, _, ht, hl⟩ := issued_leaf hdec h
  refine ⟨caller, sans, _, hc, hs, hl, ?_⟩
  obtain ⟨_, _, rfl⟩ := genTemplate_inv ht
  simp only [mkTemplate, subjectCNOf]
  split
  · exact Or.inl rfl
  · cases hd : dualUseCN (join ',' sans) with
    | none => exact Or.inl rfl
    | some v => exact Or.inr rfl

/-! ### 8. Lifetime bounds -/

/-- NotAfter never exceeds the signer's NotAfter, the signer is not expired, NotBefore is `now` minus
    the clock-skew grace; the certificate is valid for at most `maxTTL` from `now` (so NotAfter -
    NotBefore <= maxTTL + 2 min) - on the code with the default-TTL cap unconditionally, before it only
    when the configured default does not exceed the maximum. -/
theorem ttl_bounds {κ : Type} {g : Fixes} {encode : CertData → κ} {decode : κ → CertData}
    (hdec : ∀ d, decode (encode d) = d) {srv : Server} {ctx : Ctx} {outs : List AuthOut} {req : Request}
    {now : Int} {chain : List (Entry κ)}
    (h : createCertificate g encode srv ctx outs req now = .ok chain) :
    ∃ d sna, leafData decode (.ok chain) = some d ∧ srv.ca.bundle.signerNotAfter = some sna ∧
      d.tmpl.notAfter ≤ sna ∧ now < sna ∧ d.tmpl.notBefore = now - clockSkewGrace ∧
      (g.capDefault = true ∨ srv.ca.defaultTTL ≤ srv.ca.maxTTL →
        d.tmpl.notAfter - now ≤ srv.ca.maxTTL ∧ d.tmpl.notAfter - d.tmpl.notBefore ≤ srv.ca.maxTTL + clockSkewGrace) ∧
      (0 < requestedTTL req.validity → d.tmpl.notAfter = min sna (now + requestedTTL req.validity)) ∧
      (requestedTTL req.validity ≤ 0 →
        d.tmpl.notAfter = min sna (now + lifetimeOf g.capDefault srv.ca (requestedTTL req.validity) true)) := by
  obtain ⟨_, _, sna, t, _, _, hsna, _, _, _, hmax, ht, hl⟩ := issued_leaf hdec h
  refine ⟨_, sna, hl, hsna, ?_⟩
  obtain ⟨_, hlt, rfl⟩ := genTemplate_inv ht
  simp only [mkTemplate, notAfterOf]
  refine ⟨?_, hlt, ?_, ?_, ?_, ?_⟩
  · split <;> omega
  · trivial
  · intro hdm
    have hlife : lifetimeOf g.capDefault srv.ca (requestedTTL req.validity) true ≤ srv.ca.maxTTL := by
      unfold lifetimeOf
      split
      · split
        · exact Int.le_refl _
        · rename_i hnc
          rcases hdm with hcap | hle
          · simp only [hcap, true_and, Int.not_lt] at hnc
            have := hnc; omega
          · exact hle
      · omega
    constructor
    · split <;> omega
    · split <;> omega
  · intro hpos
    have : ¬ requestedTTL req.validity ≤ 0 := by omega
    simp only [lifetimeOf, this, if_false, Int.min_def]
  · intro hnp
    simp only [Int.min_def]

/-- The lower bound that goes with `ttl_bounds`: with a positive maximum and a positive default TTL an
    issued certificate is still valid at the time of issuance (NotAfter > now) - whatever was requested. -/
theorem issued_outlives_now {κ : Type} {g : Fixes} {encode : CertData → κ} {decode : κ → CertData}
    (hdec : ∀ d, decode (encode d) = d) {srv : Server} {ctx : Ctx} {outs : List AuthOut} {req : Request}
    {now : Int} {chain : List (Entry κ)} (hmax : 0 < srv.ca.maxTTL) (hdef : 0 < srv.ca.defaultTTL)
    (h : createCertificate g encode srv ctx outs req now = .ok chain) :
    ∃ d, leafData decode (.ok chain) = some d ∧ now < d.tmpl.notAfter := by
  obtain ⟨d, sna, hl, _, _, hlt, _, _, hpos, hnp⟩ := ttl_bounds hdec h
  refine ⟨d, hl, ?_⟩
  by_cases hr : 0 < requestedTTL req.validity
  · rw [hpos hr]
    simp only [Int.min_def]
    split <;> omega
  · have hr' : requestedTTL req.validity ≤ 0 := by omega
    rw [hnp hr']
    have hlife : 0 < lifetimeOf g.capDefault srv.ca (requestedTTL req.validity) true := by
      unfold lifetimeOf
      simp only [hr', if_true]
      split <;> omega
    simp only [Int.min_def]
    split <;> omega

/-- The bound is one of the model's NANOSECOND clock; certificates carry whole seconds.  A positive lifetime
    below one second cannot be asked for directly (ValidityDuration counts seconds), but the int64 wrap of
    `ValidityDuration * 1e9` reaches it: 20211507185753197 s wraps to 512 ns, the request passes the maximum
    check and the certificate ends 512 ns after `now` - in whole seconds: when it is issued (observation: the
    requester harms only itself; nothing beyond the maximum is ever issued, `ttl_bounds`). -/
def exSubSecond : Server :=
  { ca := { defaultTTL := 3600, maxTTL := 86400, bundle := { signerNotAfter := some 1000000000000000, chain := [], hasRoot := true } },
    nodeAuth := none }

theorem sub_second_lifetime_witness :
    requestedTTL 20211507185753197 = 512 ∧ requestedTTL 40423014371506394 = 1024 ∧
    (leafData id (createCertificate Fixes.all id exSubSecond {} [⟨some { identities := ["a.b"] }, false⟩]
        { csr := {}, validity := 20211507185753197 } 5000000000)).map (fun d => (d.tmpl.notAfter, d.tmpl.notAfter / 1000000000)) =
      some (5000000512, 5) := by
  decide

/-- ... and without that hypothesis the bound fails (observation, a configuration corner): a maximum TTL
    of zero refuses every positive request, and a request for the default lifetime gets a certificate
    that ends at the moment it is issued. -/
def exZeroMax : Server :=
  { ca := { defaultTTL := 3600, maxTTL := 0, bundle := { signerNotAfter := some 1000000, chain := [], hasRoot := true } },
    nodeAuth := none }

theorem zero_max_issues_expiring_now_witness :
    (leafData id (createCertificate Fixes.all id exZeroMax {} [⟨some { identities := ["a.b"] }, false⟩]
        { csr := {}, validity := 0 } 5)).map (fun d => d.tmpl.notAfter) = some 5 ∧
    createCertificate Fixes.all id exZeroMax {} [⟨some { identities := ["a.b"] }, false⟩]
        { csr := {}, validity := 1 } 5 = (.err .invalidArgument : Resp CertData) := by
  decide

/-- istiod's plugged-in CA is built by `NewPluggedCertIstioCAOptions`, which refuses a signing certificate
    that is not a CA certificate: no CA, no certificates. -/
theorem plugged_signer_must_be_ca (b : Bundle) (d m now : Int) :
    newPluggedIstioCA false b d m now = none ∧ newPluggedIstioCA true b d m now = newIstioCA b d m now := by
  simp [newPluggedIstioCA]

/-- Since the fix a defaulted lifetime never exceeds the maximum. -/
theorem lifetime_capped (ca : CA) (requested : Int) (h : requested ≤ ca.maxTTL) :
    lifetimeOf true ca requested true ≤ ca.maxTTL := by
  unfold lifetimeOf
  split
  · split
    · exact Int.le_refl _
    · rename_i hnc
      simp only [true_and, Int.not_lt] at hnc
      omega
  · exact h

/-- A requested TTL above the maximum is refused with `InvalidArgument`. -/
theorem ttl_above_max_rejected {κ : Type} (g : Fixes) (encode : CertData → κ) (srv : Server) (ctx : Ctx)
    (outs : List AuthOut) (req : Request) (now : Int) (caller : Caller) (sans : List String) (sna : Int)
    (hc : authenticate ctx outs = some caller) (hs : effectiveSans srv ctx caller req = some sans)
    (hsig : srv.ca.bundle.signerNotAfter = some sna)
    (hcsr : req.csr.pemOk = true ∧ req.csr.derOk = true ∧ req.csr.sigOk = true)
    (hbig : requestedTTL req.validity > srv.ca.maxTTL) :
    createCertificate g encode srv ctx outs req now = .err .invalidArgument := by
  simp [createCertificate, hc, hs, sign, hsig, hcsr.1, hcsr.2.1, hcsr.2.2, hbig, CAErr.code]

/-- An expired signing certificate never signs. -/
theorem expired_signer_error {κ : Type} (g : Fixes) (encode : CertData → κ) (srv : Server) (ctx : Ctx)
    (outs : List AuthOut) (req : Request) (now sna : Int)
    (hsig : srv.ca.bundle.signerNotAfter = some sna) (hexp : sna ≤ now) :
    ∀ chain, createCertificate g encode srv ctx outs req now ≠ .ok chain := by
  intro chain h
  obtain ⟨_, _, sna', t, _, _, hsna, _, _, _, _, ht, _⟩ := issued_inv h
  rw [hsig] at hsna; cases hsna
  have := (genTemplate_inv ht).2.1
  omega

/-- No signing certificate: `Internal` (CA not ready), for every authenticated request. -/
theorem no_signer_error {κ : Type} (g : Fixes) (encode : CertData → κ) (srv : Server) (ctx : Ctx)
    (outs : List AuthOut) (req : Request) (now : Int) (hsig : srv.ca.bundle.signerNotAfter = none) :
    ∀ chain, createCertificate g encode srv ctx outs req now ≠ .ok chain := by
  intro chain h
  obtain ⟨_, _, _, _, _, _, hsna, _⟩ := issued_inv h
  rw [hsig] at hsna; cases hsna

/-- Finding (fixed): before the cap the maximum was checked against the *requested* TTL only; a default
    TTL configured above the maximum was issued unchecked when the request asked for TTL <= 0. -/
def exMisconfigured : Server :=
  { ca := { defaultTTL := 7200, maxTTL := 3600, bundle := { signerNotAfter := some 1000000, chain := [], hasRoot := true } },
    nodeAuth := none }

theorem default_above_max_witness_unfixed :
    (leafData id (createCertificate Fixes.none id exMisconfigured {} [⟨some { identities := ["a.b"] }, false⟩]
        { csr := {}, validity := 0 } 0)).map (fun d => decide (d.tmpl.notAfter - 0 > exMisconfigured.ca.maxTTL)) = some true := by
  decide

/-- ... and the same request on the code with the cap gets exactly the maximum. -/
theorem default_above_max_capped_fixed :
    (leafData id (createCertificate Fixes.all id exMisconfigured {} [⟨some { identities := ["a.b"] }, false⟩]
        { csr := {}, validity := 0 } 0)).map (fun d => d.tmpl.notAfter) = some exMisconfigured.ca.maxTTL := by
  decide

/-- `NewIstioCA`: the effective default TTL never exceeds the configured one, nor the remaining
    life of the first certificate of the chain. -/
theorem default_ttl_capped {b : Bundle} {d m now : Int} {ca : CA} (h : newIstioCA b d m now = some ca) :
    ca.defaultTTL ≤ d ∧ ca.maxTTL = m ∧ ca.bundle = b ∧
    (∀ c rest, b.chain = c :: rest → ca.defaultTTL ≤ c.notAfter - now ∧ now < c.notAfter) := by
  unfold newIstioCA at h
  split at h
  · simp at h
  · rename_i d' hd
    simp only [Option.some.injEq] at h
    subst h
    unfold minTTL at hd
    split at hd
    · rename_i hch
      simp only [Option.some.injEq] at hd
      subst hd
      exact ⟨Int.le_refl _, rfl, rfl, by intro c rest e; simp [hch] at e⟩
    · rename_i c rest hch
      simp only at hd
      split at hd
      · simp at hd
      · rename_i hpos
        split at hd
        · rename_i hgt
          simp only [Option.some.injEq] at hd
          subst hd
          refine ⟨?_, rfl, rfl, ?_⟩
          · simp only; omega
          · intro c' rest' e
            rw [hch] at e
            cases e
            simp only
            omega
        · rename_i hle
          simp only [Option.some.injEq] at hd
          subst hd
          refine ⟨Int.le_refl _, rfl, rfl, ?_⟩
          intro c' rest' e
          rw [hch] at e
          cases e
          simp only
          omega

/-- An expired cert chain prevents the CA from being constructed. -/
theorem expired_chain_no_ca (b : Bundle) (d m now : Int) (c : ChainCert) (rest : List ChainCert)
    (hch : b.chain = c :: rest) (hexp : c.notAfter ≤ now) : newIstioCA b d m now = none := by
  have : c.notAfter - now ≤ 0 := by omega
  simp [newIstioCA, minTTL, hch, this]

/-- `time.Duration(v) * time.Second` stays an int64 and is exact when no overflow occurs. -/
theorem wrap64_range (x : Int) : -9223372036854775808 ≤ wrap64 x ∧ wrap64 x < 9223372036854775808 := by
  unfold wrap64; omega

theorem wrap64_exact (x : Int) (h1 : -9223372036854775808 ≤ x) (h2 : x < 9223372036854775808) : wrap64 x = x := by
  unfold wrap64; omega

/-- In particular every validity up to 292 years' worth of seconds is taken at face value. -/
theorem requestedTTL_exact (v : Int) (h1 : -9223372036 ≤ v) (h2 : v ≤ 9223372036) :
    requestedTTL v = v * 1000000000 := by
  unfold requestedTTL; exact wrap64_exact _ (by omega) (by omega)

/-! ### 9. Errors, not crashes -/

/-- `sign` returns only `*caerror.Error` errors, so the server's unchecked type assertion holds. -/
theorem sign_error_always_caerror (g : Fixes) (ca : CA) (csr : CSR) (ids : List String) (r : Int) (cl fc : Bool)
    (now : Int) : sign g ca csr ids r cl fc now ≠ .err .other := by
  unfold sign
  split
  · simp
  · split
    · simp
    · split
      · simp
      · split
        · simp
        · split
          · simp
          · split <;> simp

/-- `CreateCertificate` never panics: every input yields a gRPC error or a response. -/
theorem errors_not_crashes {κ : Type} (g : Fixes) (encode : CertData → κ) (srv : Server) (ctx : Ctx)
    (outs : List AuthOut) (req : Request) (now : Int) :
    createCertificate g encode srv ctx outs req now ≠ .crash := by
  unfold createCertificate
  split
  · simp
  · split
    · simp
    · split
      · simp
      · rename_i hs; exact absurd hs (sign_error_always_caerror _ _ _ _ _ _ _ _)
      · simp

/-- A CSR that does not decode, does not parse or whose signature does not verify is never signed. -/
theorem malformed_csr_rejected {κ : Type} (g : Fixes) (encode : CertData → κ) (srv : Server) (ctx : Ctx)
    (outs : List AuthOut) (req : Request) (now : Int)
    (hbad : req.csr.pemOk = false ∨ req.csr.derOk = false ∨ req.csr.sigOk = false) :
    ∀ chain, createCertificate g encode srv ctx outs req now ≠ .ok chain := by
  intro chain h
  obtain ⟨_, _, _, _, _, _, _, h1, h2, h3, _⟩ := issued_inv h
  rcases hbad with hb | hb | hb <;> simp_all

/-- ... and, for an authenticated caller with a signer in place, the answer is `InvalidArgument`. -/
theorem malformed_csr_invalid_argument {κ : Type} (g : Fixes) (encode : CertData → κ) (srv : Server) (ctx : Ctx)
    (outs : List AuthOut) (req : Request) (now : Int) (caller : Caller) (sans : List String) (sna : Int)
    (hc : authenticate ctx outs = some caller) (hs : effectiveSans srv ctx caller req = some sans)
    (hsig : srv.ca.bundle.signerNotAfter = some sna)
    (hbad : req.csr.pemOk = false ∨ req.csr.derOk = false ∨ req.csr.sigOk = false) :
    createCertificate g encode srv ctx outs req now = .err .invalidArgument := by
  unfold createCertificate sign
  simp only [hc, hs, hsig]
  rcases hbad with hb | hb | hb
  · simp [hb, CAErr.code]
  · cases hp : req.csr.pemOk <;> simp [hb, CAErr.code]
  · cases hp : req.csr.pemOk <;> cases hd : req.csr.derOk <;> simp [hb, CAErr.code]

/-! ### 10. Response chain -/

/-- The response is the leaf, then the configured cert chain, then the root - nothing from the
    request. -/
theorem response_chain_shape {κ : Type} {g : Fixes} {encode : CertData → κ} {srv : Server} {ctx : Ctx}
    {outs : List AuthOut} {req : Request} {now : Int} {chain : List (Entry κ)}
    (h : createCertificate g encode srv ctx outs req now = .ok chain) :
    ∃ leaf, chain = Entry.leaf leaf :: (srv.ca.bundle.chain.map (fun c => Entry.chain c.name)
                ++ (if srv.ca.bundle.hasRoot then [Entry.root] else [])) := by
  obtain ⟨_, _, d, _, _, _, hch⟩ := create_inv h
  exact ⟨encode d, by simp [hch]⟩

/-! ### 11. Classification rule of one SAN entry -/

theorem classify_ip (id : String) (b : List Nat) (h : parseAddr id.toList = some b) : classify id = .ip b := by
  simp [classify, h]

theorem classify_uri (id : String) (h1 : parseAddr id.toList = none) (h2 : hasSpiffeScheme id = true) :
    classify id = .uri id := by
  simp [classify, h1, h2]

theorem classify_dns (id : String) (h1 : parseAddr id.toList = none) (h2 : hasSpiffeScheme id = false) :
    classify id = .dns id := by
  simp [classify, h1, h2]

/-- A `spiffe://` identity is never mistaken for an IP address: it always becomes a URI SAN with
    the identity string unchanged. -/
theorem classify_spiffe (rest : List Char) :
    classify (String.ofList ("spiffe://".toList ++ rest)) = .uri (String.ofList ("spiffe://".toList ++ rest)) := by
  have hl : "spiffe://".toList ++ rest = 's' :: 'p' :: 'i' :: 'f' :: 'f' :: 'e' :: ':' :: '/' :: '/' :: rest := by
    have : "spiffe://".toList = ['s', 'p', 'i', 'f', 'f', 'e', ':', '/', '/'] := by decide
    rw [this]; rfl
  apply classify_uri
  · rw [String.toList_ofList, hl]
    have hfs : firstSpecial ('s' :: 'p' :: 'i' :: 'f' :: 'f' :: 'e' :: ':' :: '/' :: '/' :: rest) = some ':' := by
      simp [firstSpecial]
    have htw : ('s' :: 'p' :: 'i' :: 'f' :: 'f' :: 'e' :: ':' :: '/' :: '/' :: rest).takeWhile (· ≠ '%')
        = 's' :: 'p' :: 'i' :: 'f' :: 'f' :: 'e' :: ':' :: '/' :: '/' :: rest.takeWhile (· ≠ '%') := by
      simp [List.takeWhile]
    have h6 : parseIPv6 ('s' :: 'p' :: 'i' :: 'f' :: 'f' :: 'e' :: ':' :: '/' :: '/' :: rest) = none := by
      unfold parseIPv6
      simp only [htw]
      split
      · rfl
      · simp [v6Loop, hexRun, hexVal]
    simp [parseAddr, hfs, h6]
  · rw [hasSpiffeScheme, String.toList_ofList, hl]
    have : uriPrefix.toList = ['s', 'p', 'i', 'f', 'f', 'e', ':', '/', '/'] := by decide
    rw [this]
    simp only [List.take_succ_cons, List.take_zero, List.map_cons, List.map_nil]
    decide

/-- The scheme is compared without regard to case: an identity `SPIFFE://...` (which the peer
    certificate verifier accepts, `url.String()` lower-casing the scheme) stays a URI SAN ... -/
theorem classify_spiffe_upper (rest : List Char) :
    classify (String.ofList ("SPIFFE://".toList ++ rest)) = .uri (String.ofList ("SPIFFE://".toList ++ rest)) := by
  have hl : "SPIFFE://".toList ++ rest = 'S' :: 'P' :: 'I' :: 'F' :: 'F' :: 'E' :: ':' :: '/' :: '/' :: rest := by
    have : "SPIFFE://".toList = ['S', 'P', 'I', 'F', 'F', 'E', ':', '/', '/'] := by decide
    rw [this]; rfl
  apply classify_uri
  · rw [String.toList_ofList, hl]
    have hfs : firstSpecial ('S' :: 'P' :: 'I' :: 'F' :: 'F' :: 'E' :: ':' :: '/' :: '/' :: rest) = some ':' := by
      simp [firstSpecial]
    have htw : ('S' :: 'P' :: 'I' :: 'F' :: 'F' :: 'E' :: ':' :: '/' :: '/' :: rest).takeWhile (· ≠ '%')
        = 'S' :: 'P' :: 'I' :: 'F' :: 'F' :: 'E' :: ':' :: '/' :: '/' :: rest.takeWhile (· ≠ '%') := by
      simp [List.takeWhile]
    have h6 : parseIPv6 ('S' :: 'P' :: 'I' :: 'F' :: 'F' :: 'E' :: ':' :: '/' :: '/' :: rest) = none := by
      unfold parseIPv6
      simp only [htw]
      split
      · rfl
      · simp [v6Loop, hexRun, hexVal]
    simp [parseAddr, hfs, h6]
  · rw [hasSpiffeScheme, String.toList_ofList, hl]
    have : uriPrefix.toList = ['s', 'p', 'i', 'f', 'f', 'e', ':', '/', '/'] := by decide
    rw [this]
    simp only [List.take_succ_cons, List.take_zero, List.map_cons, List.map_nil]
    decide

/-- `classify` (the SAN entry of an identity) is not injective: an IPv4-mapped IPv6 literal and the IPv4
    literal, an IPv6 literal with and without a zone, and different spellings of one address give the
    SAME iPAddress entry (observation: `san_exact` states "SAN entries = classify of the identities", which
    for IP-literal identities identifies these spellings; SPIFFE and DNS identities are kept byte for byte,
    `classify_uri_dns_injective`). -/
theorem classify_not_injective_witness :
    classify "::ffff:1.2.3.4" = classify "1.2.3.4" ∧ classify "fe80::1%eth0" = classify "fe80::1" ∧
    classify "0:0::1" = classify "::1" ∧ classify "ABCD::" = classify "abcd::" := by
  decide

/-- On identities that are not IP literals `classify` is injective: the entry carries the string itself. -/
theorem classify_uri_dns_injective (a b : String) (ha : parseAddr a.toList = none) (hb : parseAddr b.toList = none)
    (h : classify a = classify b) : a = b := by
  unfold classify at h
  simp only [ha, hb] at h
  split at h <;> split at h <;> simp_all

/-- ... while the code before fix 197ddc2 turned an upper-case scheme into a DNS SAN (finding). -/
theorem classify_upper_scheme_witness_unfixed :
    classifyOld "SPIFFE://td1/ns/a/sa/b" = .dns "SPIFFE://td1/ns/a/sa/b" ∧
    classify "SPIFFE://td1/ns/a/sa/b" = .uri "SPIFFE://td1/ns/a/sa/b" ∧
    classify "Spiffe://td1/ns/a/sa/b" = .uri "Spiffe://td1/ns/a/sa/b" := by decide

/-! ### Non-vacuity and witnesses (concrete requests evaluated by the kernel) -/

/-- a self-signed CA with one hour default / one day maximum -/
def exCA : CA :=
  { defaultTTL := 3600 * 1000000000, maxTTL := 86400 * 1000000000,
    bundle := { signerNotAfter := some (1000000 * 1000000000), chain := [⟨"int", 1000000 * 1000000000⟩], hasRoot := true } }

def exPods : List Pod :=
  [{ name := "zt", ns := "istio-system", uid := "u1", sa := "ztunnel", node := "n1" },
   { name := "p1", ns := "a", uid := "u2", sa := "b", node := "n1" },
   { name := "p2", ns := "c", uid := "u3", sa := "d", node := "n2" },
   { name := "p3", ns := "e", uid := "u4", sa := "f", node := "n1", phase := "F" },
   { name := "p4", ns := "g", uid := "u5", sa := "h", node := "n1", phase := "S" }]

def exSrv : Server := Server.new exCA [("istio-system", "ztunnel")] [("c1", { cur := some { pods := exPods } })]

def exNodeCaller : Caller :=
  { identities := ["spiffe://cluster.local/ns/istio-system/sa/ztunnel"],
    kube := { podName := "zt", podNamespace := "istio-system", podUID := "u1", podSA := "ztunnel" } }

def exNode : AuthOut := ⟨some exNodeCaller, false⟩

/-- a CSR asking for somebody else's identity, CA:TRUE and a private extension -/
def exEvilCSR : CSR :=
  { pubKey := "K", cn := "evil.example.com", sans := ["spiffe://cluster.local/ns/kube-system/sa/admin"],
    wantCA := true, exts := ["private"] }

/-- An authenticated caller with two identities gets exactly those two SANs, whatever the CSR asks. -/
example :
    createCertificate Fixes.all id exSrv {} [⟨none, true⟩, ⟨some { identities := ["spiffe://cluster.local/ns/a/sa/b", "10.0.0.1"] }, false⟩]
      { csr := exEvilCSR, validity := 600 } 5000000000 =
    .ok [.leaf { tmpl := { subjectCN := "spiffe://cluster.local/ns/a/sa/b", subjectOther := [], notBefore := -115000000000,
                           notAfter := 605000000000, keyUsage := 5, extKeyUsage := [1, 2], isCA := false,
                           bcValid := true, sanCritical := true,
                           san := [.uri "spiffe://cluster.local/ns/a/sa/b", .ip [10, 0, 0, 1]], otherExts := [] },
                 pubKey := "K" }, .chain "int", .root] := by decide

/-- The impersonation gate can be passed (workload a/b runs on the node proxy's node n1) ... -/
example :
    (leafData id (createCertificate Fixes.all id exSrv { clusterIDs := some ["c1"] } [exNode]
      { csr := {}, validity := 0, impersonated := "spiffe://cluster.local/ns/a/sa/b" } 0)).map
        (fun d => (d.tmpl.san, d.tmpl.notAfter)) =
      some ([.uri "spiffe://cluster.local/ns/a/sa/b"], 3600 * 1000000000) := by
  decide

/-- ... and refuses a workload of another node, a stale pod UID, an unknown cluster, a Failed pod. -/
example :
    createCertificate Fixes.all id exSrv { clusterIDs := some ["c1"] } [exNode]
      { csr := {}, validity := 0, impersonated := "spiffe://cluster.local/ns/c/sa/d" } 0 = (.err .unauthenticated : Resp CertData) ∧
    createCertificate Fixes.all id exSrv { clusterIDs := some ["c1"] }
      [⟨some { identities := ["x"], kube := { podName := "zt", podNamespace := "istio-system", podUID := "stale", podSA := "ztunnel" } }, false⟩]
      { csr := {}, validity := 0, impersonated := "spiffe://cluster.local/ns/a/sa/b" } 0 = (.err .unauthenticated : Resp CertData) ∧
    createCertificate Fixes.all id exSrv { clusterIDs := some ["c2"] } [exNode]
      { csr := {}, validity := 0, impersonated := "spiffe://cluster.local/ns/a/sa/b" } 0 = (.err .unauthenticated : Resp CertData) ∧
    -- e/f has a pod on the proxy's node, but in phase Failed
    createCertificate Fixes.all id exSrv { clusterIDs := some ["c1"] } [exNode]
      { csr := {}, validity := 0, impersonated := "spiffe://cluster.local/ns/e/sa/f" } 0 = (.err .unauthenticated : Resp CertData) := by
  decide

/-- The finding, on the model of the code before the fix: a trusted node account passes the gate
    with an identity whose trust-domain segment contains commas and receives a URI, a DNS and an
    IP SAN that belong to nobody on its node. -/
def commaIdentity : String := "spiffe://evil,victim.example.com,10.0.0.1,x/ns/a/sa/b"

def exCtx : Ctx := { clusterIDs := some ["c1"] }

def exCommaReq : Request := { csr := {}, validity := 0, impersonated := commaIdentity }

theorem impersonation_comma_witness_unfixed :
    (leafData id (createCertificate Fixes.none id exSrv exCtx [exNode] exCommaReq 0)).map (fun d => d.tmpl.san) =
      some [.uri "spiffe://evil", .dns "victim.example.com", .ip [10, 0, 0, 1], .dns "x/ns/a/sa/b"] := by
  decide

/-- ... so the full statement is false for the code before the fix ... -/
theorem san_exact_witness_unfixed : ¬ SanExactFull Fixes.none := by
  intro hfull
  have hsome : (leafData id (createCertificate Fixes.none id exSrv exCtx [exNode] exCommaReq 0)).isSome = true := by decide
  cases hr : createCertificate Fixes.none id exSrv exCtx [exNode] exCommaReq 0 with
  | crash => rw [hr] at hsome; simp [leafData] at hsome
  | err c => rw [hr] at hsome; simp [leafData] at hsome
  | ok chain =>
    obtain ⟨caller, sans, d, hc, hs, hl, hsan⟩ := hfull exSrv exCtx [exNode] exCommaReq 0 chain hr
    have h1 : authenticate exCtx [exNode] = some exNodeCaller := by decide
    rw [h1] at hc
    cases hc
    have h2 : effectiveSans exSrv exCtx exNodeCaller exCommaReq = some [commaIdentity] := by decide
    rw [h2] at hs
    cases hs
    have h3 := impersonation_comma_witness_unfixed
    rw [hr, hl] at h3
    simp only [Option.map_some, Option.some.injEq] at h3
    rw [h3] at hsan
    revert hsan
    decide

/-- ... and the same request is refused by the code after the fix. -/
theorem impersonation_comma_rejected_fixed :
    createCertificate Fixes.all id exSrv exCtx [exNode] exCommaReq 0 = (.err .internal : Resp CertData) := by
  decide

end IstioModel.C09
