/-
C09 - executable model of workload certificate issuance by the Istio CA.

Go sources modelled (istio/istio):
  security/pkg/server/ca/server.go          Server.CreateCertificate, New (node authorizer only if
                                            CA_TRUSTED_NODE_ACCOUNTS is non-empty)
  security/pkg/server/ca/node_auth.go       MulticlusterNodeAuthorizor / ClusterNodeAuthorizer
                                            .authenticateImpersonation, the {sa, node} pod index
  pkg/security/authentication.go            Authenticate
  pkg/security/security.go                  authenticationManager.authenticate
  pkg/spiffe/spiffe.go                      ParseIdentity
  security/pkg/pki/ca/ca.go                 NewIstioCA, minTTL, Sign, SignWithCertChain, sign
  security/pkg/pki/util/generate_cert.go    GenCertFromCSR, genCertTemplateFromCSR
  security/pkg/pki/util/san.go              BuildSubjectAltNameExtension
  security/pkg/pki/util/dual_use.go         DualUseCommonName
  security/pkg/pki/util/crypto.go           ParsePemEncodedCSR (as three outcome flags of the CSR)
  security/pkg/pki/error/error.go           ErrType -> gRPC code
  net/netip (Go 1.26)                       ParseAddr, parseIPv4Fields, parseIPv6, AsSlice, Is4In6

Conventions.  Time is `Int` nanoseconds; `time.Now()` is an explicit input.  The authenticators are
represented by what each returned (`AuthOut`); their own logic is in `Authn.lean`.  A CSR is the
record of everything `sign` could read from it; PEM/DER decoding and the signature check are three
outcome flags.  Crypto and ASN.1 are opaque: the model produces the *certificate data* (`CertData`:
the x509 template plus the public key handed to `x509.CreateCertificate`) and passes it through an
uninterpreted `encode`; the theorems assume a left inverse `decode`.  The random serial number is
not modelled.  A Go panic is the explicit response `Resp.crash`.

`Fixes` selects, per `fix:` commit, the code before (`false`) / after (`true`) it:
  comma       genCertTemplateFromCSR rejects a subject ID containing the SAN separator ','
  capDefault  IstioCA.sign caps a defaulted lifetime at maxCertTTL
  swapCleanup multicluster Component.clusterDeleted also drops a pending swap of the deleted cluster
-/
namespace IstioModel.C09

structure Fixes where
  comma       : Bool
  capDefault  : Bool
  swapCleanup : Bool := true
  deriving DecidableEq, Repr

/-- the code as it is in /repo now -/
def Fixes.all : Fixes := ⟨true, true, true⟩
/-- the pinned tree before any `fix:` commit of this property -/
def Fixes.none : Fixes := ⟨false, false, false⟩

/-! ## Strings: `strings.Split` / `strings.Join` / `strings.HasPrefix` with a one-byte separator -/

/-- `strings.Split(s, sep)` on characters. Always returns at least one field. -/
def splitC (sep : Char) : List Char → List (List Char)
  | [] => [[]]
  | c :: cs =>
    if c = sep then [] :: splitC sep cs
    else
      match splitC sep cs with
      | [] => [[c]]
      | w :: ws => (c :: w) :: ws

/-- `strings.Join(ws, sep)` on characters. -/
def joinC (sep : Char) : List (List Char) → List Char
  | [] => []
  | w :: ws =>
    match ws with
    | [] => w
    | _ :: _ => w ++ sep :: joinC sep ws

def split (sep : Char) (s : String) : List String := (splitC sep s.toList).map String.ofList

def join (sep : Char) (l : List String) : String := String.ofList (joinC sep (l.map String.toList))

def hasPrefix (s p : String) : Bool := p.toList.isPrefixOf s.toList

/-- the string contains the byte `c` -/
def hasChar (c : Char) (s : String) : Bool := s.toList.contains c

/-! ## `netip.ParseAddr` (Go 1.26) and the byte form used in the SAN -/

/-- first of '.', ':', '%' in the string: the dispatch of `ParseAddr` -/
def firstSpecial : List Char → Option Char
  | [] => none
  | c :: cs => if c = '.' ∨ c = ':' ∨ c = '%' then some c else firstSpecial cs

/-- `parseIPv4Fields` over a whole string: four decimal octets, no leading zero, each <= 255. -/
def ipv4Go : List Char → (first prevDot : Bool) → (val digLen : Nat) → (acc : List Nat) → Option (List Nat)
  | [], _, _, val, _, acc => if acc.length < 3 then none else some (acc ++ [val])
  | c :: rest, first, prevDot, val, digLen, acc =>
    if c.isDigit then
      if digLen = 1 ∧ val = 0 then none
      else
        let v := val * 10 + (c.toNat - 48)
        if v > 255 then none else ipv4Go rest false false v (digLen + 1) acc
    else if c = '.' then
      if first ∨ rest.isEmpty ∨ prevDot then none
      else if acc.length = 3 then none
      else ipv4Go rest false true 0 0 (acc ++ [val])
    else none

def ipv4Fields (s : List Char) : Option (List Nat) := ipv4Go s true false 0 0 []

def hexVal (c : Char) : Option Nat :=
  if '0' ≤ c ∧ c ≤ '9' then some (c.toNat - 48)
  else if 'a' ≤ c ∧ c ≤ 'f' then some (c.toNat - 87)
  else if 'A' ≤ c ∧ c ≤ 'F' then some (c.toNat - 55)
  else none

/-- the inner hex loop of `parseIPv6`: (digits read, value, rest); `none`: a fifth digit. -/
def hexRun : List Char → Nat → Nat → Option (Nat × Nat × List Char)
  | [], off, acc => some (off, acc, [])
  | c :: cs, off, acc =>
    match hexVal c with
    | some d => if off > 3 then none else if acc * 16 + d > 65535 then none else hexRun cs (off + 1) (acc * 16 + d)
    | none => some (off, acc, c :: cs)

/-- the main loop of `parseIPv6` (`ip` = bytes written so far, `el` = position of "::").
    Returns the bytes and the ellipsis once the string is used up. -/
def v6Loop : Nat → List Char → List Nat → Option Nat → Option (List Nat × Option Nat)
  | 0, s, ip, el => if s.isEmpty then some (ip, el) else none
  | fuel + 1, s, ip, el =>
    if ip.length ≥ 16 then (if s.isEmpty then some (ip, el) else none)
    else
      match hexRun s 0 0 with
      | none => none
      | some (off, acc, rest) =>
        if off = 0 then none
        else
          match rest with
          | [] => some (ip ++ [acc / 256, acc % 256], el)
          | c :: rest' =>
            if c = '.' then
              if el.isNone ∧ ip.length ≠ 12 then none
              else if ip.length + 4 > 16 then none
              else
                match ipv4Fields s with
                | none => none
                | some f => some (ip ++ f, el)
            else if c ≠ ':' then none
            else
              let ip' := ip ++ [acc / 256, acc % 256]
              match rest' with
              | [] => none
              | c2 :: rest'' =>
                if c2 = ':' then
                  if el.isSome then none
                  else if rest''.isEmpty then some (ip', some ip'.length)
                  else v6Loop fuel rest'' ip' (some ip'.length)
                else v6Loop fuel rest' ip' el

/-- `parseIPv6`: 16 bytes (the zone is dropped by `AsSlice`). -/
def parseIPv6 (inp : List Char) : Option (List Nat) :=
  let s := inp.takeWhile (· ≠ '%')
  let zone := (inp.dropWhile (· ≠ '%')).drop 1
  if inp.contains '%' ∧ zone.isEmpty then none
  else
    let lead : Bool := match s with
      | ':' :: ':' :: _ => true
      | _ => false
    let s1 := if lead then s.drop 2 else s
    let el0 : Option Nat := if lead then some 0 else none
    if lead ∧ s1.isEmpty then some (List.replicate 16 0)
    else
      match v6Loop 9 s1 [] el0 with
      | none => none
      | some (ip, el) =>
        if ip.length < 16 then
          match el with
          | none => none
          | some e => some (ip.take e ++ List.replicate (16 - ip.length) 0 ++ ip.drop e)
        else if el.isSome then none
        else some ip

/-- `AsSlice` with the `Is4In6` shortening of `BuildSubjectAltNameExtension`. -/
def shorten4in6 (b : List Nat) : List Nat :=
  if b.length = 16 ∧ b.take 10 = List.replicate 10 0 ∧ (b.drop 10).take 2 = [255, 255] then b.drop 12 else b

/-- `netip.ParseAddr(host)` followed by the byte form stored in the SAN; `none` = not an IP. -/
def parseAddr (s : List Char) : Option (List Nat) :=
  match firstSpecial s with
  | none => none
  | some c =>
    if c = '.' then ipv4Fields s
    else if c = ':' then (parseIPv6 s).map shorten4in6
    else none

/-! ## SAN construction (`BuildSubjectAltNameExtension`) -/

/-- one GeneralName of the SAN extension -/
inductive San
  | ip (bytes : List Nat)
  | uri (v : String)
  | dns (v : String)
  deriving DecidableEq, Repr

def uriPrefix : String := "spiffe://"

def lowerAscii (c : Char) : Char := if 'A' ≤ c ∧ c ≤ 'Z' then Char.ofNat (c.toNat + 32) else c

/-- `hasSpiffeScheme` (san.go, since fix 197ddc2): the first nine bytes equal "spiffe://" without
    regard to (ASCII) case - `strings.EqualFold` on a nine-byte slice can only match ASCII. -/
def hasSpiffeScheme (host : String) : Bool := (host.toList.take 9).map lowerAscii == uriPrefix.toList

/-- the documented rule: an IP literal is an IP SAN, a string with the (case-insensitive) `spiffe://`
    scheme a URI SAN, the rest DNS -/
def classify (host : String) : San :=
  match parseAddr host.toList with
  | some b => .ip b
  | none => if hasSpiffeScheme host then .uri host else .dns host

/-- the rule before fix 197ddc2: the scheme was compared case-sensitively -/
def classifyOld (host : String) : San :=
  match parseAddr host.toList with
  | some b => .ip b
  | none => if hasPrefix host uriPrefix then .uri host else .dns host

def buildSAN (hosts : String) : List San := (split ',' hosts).map classify

/-- `DualUseCommonName`: the first comma-separated field, at most 64 bytes. -/
def dualUseCN (hosts : String) : Option String :=
  let first := (split ',' hosts).headD ""
  if first.utf8ByteSize > 64 then none else some first

/-! ## `genCertTemplateFromCSR` -/

/-- The part of a CSR that `sign` can observe.  Everything below `cn` is content an attacker may put
    into a CSR; the theorems show it never reaches the certificate. -/
structure CSR where
  pemOk   : Bool := true      -- pem.Decode finds a block (the block type is not checked by the code)
  derOk   : Bool := true      -- x509.ParseCertificateRequest succeeds
  sigOk   : Bool := true      -- csr.CheckSignature() succeeds
  pubKey  : String := ""      -- csr.PublicKey (opaque)
  cn      : String := ""      -- csr.Subject.CommonName
  subject : List String := [] -- other subject attributes
  sans    : List String := [] -- requested subjectAltName
  wantCA  : Bool := false     -- requested basicConstraints CA:TRUE / keyCertSign
  exts    : List String := [] -- any other requested extension or attribute
  deriving DecidableEq, Repr

/-- `util.GenCSR` / `GenCSRTemplate` (generate_csr.go), the CSR an Istio agent - and `IstioCA.GenKeyCert` -
    sends, as far as `sign` can observe it: a proof of possession for a fresh key, the hosts as the
    requested SAN, the dual-use CommonName (first host, if it fits 64 bytes) iff asked for, the
    organisation - and nothing else (no CA request, no further extension). -/
def genCSR (pubKey : String) (hosts : List String) (org : String) (dualUse : Bool) : CSR :=
  { pubKey := pubKey,
    cn := if dualUse ∧ !hosts.isEmpty then (dualUseCN (join ',' hosts)).getD "" else "",
    subject := [org], sans := hosts }

/-- `x509.Certificate` template fields set by `genCertTemplateFromCSR`. -/
structure Template where
  subjectCN   : String
  subjectOther : List String -- every other attribute of the subject (O, OU, ...): always none
  notBefore   : Int
  notAfter    : Int
  keyUsage    : Nat          -- x509.KeyUsage bit mask
  extKeyUsage : List Nat     -- x509.ExtKeyUsage values
  isCA        : Bool
  bcValid     : Bool         -- BasicConstraintsValid
  sanCritical : Bool
  san         : List San     -- the SAN extension: the first entry of ExtraExtensions
  otherExts   : List String  -- all further ExtraExtensions
  deriving DecidableEq, Repr

def clockSkewGrace : Int := 120 * 1000000000

def kuDigitalSignature : Nat := 1
def kuKeyEncipherment : Nat := 4
def kuCertSign : Nat := 32
def ekuServerAuth : Nat := 1
def ekuClientAuth : Nat := 2

/-- `notAfter := now.Add(ttl)`, clamped to the signing certificate's NotAfter -/
def notAfterOf (signerNotAfter : Option Int) (now ttl : Int) : Int :=
  match signerNotAfter with
  | some s => if s ≤ now + ttl then s else now + ttl
  | none => now + ttl

/-- dual-use CommonName: set only if the CSR's CommonName is non-empty, and then from the subject
    IDs, never from the CSR -/
def subjectCNOf (csrCN hosts : String) : String :=
  if csrCN.isEmpty then "" else (dualUseCN hosts).getD ""

/-- `!now.Before(signingCert.NotAfter)` -/
def signerExpired (signerNotAfter : Option Int) (now : Int) : Bool :=
  match signerNotAfter with
  | some na => decide (na ≤ now)
  | none => false

/-- the `x509.Certificate` literal returned by `genCertTemplateFromCSR` -/
def mkTemplate (csrCN : String) (subjectIDs : List String) (ttl : Int) (isCA : Bool)
    (signerNotAfter : Option Int) (now : Int) : Template :=
  { subjectCN := subjectCNOf csrCN (join ',' subjectIDs),
    subjectOther := [],
    notBefore := now - clockSkewGrace,
    notAfter := notAfterOf signerNotAfter now ttl,
    keyUsage := if isCA then kuCertSign else kuDigitalSignature + kuKeyEncipherment,
    extKeyUsage := if isCA then [] else [ekuServerAuth, ekuClientAuth],
    isCA := isCA, bcValid := true, sanCritical := true,
    san := buildSAN (join ',' subjectIDs), otherExts := [] }

/-- `genCertTemplateFromCSR(csr, subjectIDs, ttl, isCA, signingCert)`; `none` = error.
    Of the CSR only "CommonName is non-empty" is read. -/
def genTemplate (guard : Bool) (csrCN : String) (subjectIDs : List String) (ttl : Int) (isCA : Bool)
    (signerNotAfter : Option Int) (now : Int) : Option Template :=
  if guard ∧ subjectIDs.any (hasChar ',') then none
  else if signerExpired signerNotAfter now then none
  else some (mkTemplate csrCN subjectIDs ttl isCA signerNotAfter now)

/-! ## The CA (`IstioCA`) -/

structure ChainCert where
  name     : String
  notAfter : Int
  deriving DecidableEq, Repr

/-- `KeyCertBundle` as read by the CA and the server. -/
structure Bundle where
  signerNotAfter : Option Int       -- NotAfter of the signing certificate; `none`: no signing cert
  chain          : List ChainCert   -- certificates of the cert-chain PEM
  hasRoot        : Bool             -- root-cert PEM non-empty
  deriving DecidableEq, Repr

structure CA where
  defaultTTL : Int
  maxTTL     : Int
  bundle     : Bundle
  deriving DecidableEq, Repr

/-- `IstioCA.minTTL` at construction time `now`. -/
def minTTL (b : Bundle) (now d : Int) : Option Int :=
  match b.chain with
  | [] => some d
  | c :: _ =>
    let exp := c.notAfter - now
    if exp ≤ 0 then none else if d > exp then some exp else some d

/-- `NewIstioCA`; `none` = construction error. -/
def newIstioCA (b : Bundle) (defaultTTL maxTTL now : Int) : Option CA :=
  match minTTL b now defaultTTL with
  | none => none
  | some d => some { defaultTTL := d, maxTTL := maxTTL, bundle := b }

/-- `NewPluggedCertIstioCAOptions` followed by `NewIstioCA` (how istiod builds a plugged-in CA): the production
    constructor refuses a signing certificate that is not a CA certificate (BasicConstraints CA:FALSE). -/
def newPluggedIstioCA (signerIsCA : Bool) (b : Bundle) (defaultTTL maxTTL now : Int) : Option CA :=
  if !signerIsCA then none else newIstioCA b defaultTTL maxTTL now

/-- The key cert bundle is replaced under the live CA (`KeyCertBundle.VerifyAndSetAll`: root-cert
    rotator, cacerts reload).  The effective default TTL, computed by `minTTL` at construction, is NOT
    recomputed. -/
def CA.rotated (ca : CA) (b : Bundle) : CA := { ca with bundle := b }

inductive CAErr
  | caNotReady | csrError | ttlError | certGenError
  deriving DecidableEq, Repr

/-- an error returned by `Sign`: a `*caerror.Error`, or anything else (on which the server's
    unchecked type assertion would panic) -/
inductive SignErr
  | ca (e : CAErr)
  | other
  deriving DecidableEq, Repr

/-- what `x509.CreateCertificate` is asked to encode and sign -/
structure CertData where
  tmpl   : Template
  pubKey : String
  deriving DecidableEq, Repr

inductive SignRes
  | err (e : SignErr)
  | ok (d : CertData)
  deriving DecidableEq, Repr

/-- a non-positive requested lifetime means the default TTL (capped at the maximum since the fix) -/
def lifetimeOf (cap : Bool) (ca : CA) (requested : Int) (checkLifetime : Bool) : Int :=
  if requested ≤ 0 then
    (if cap ∧ checkLifetime ∧ ca.defaultTTL > ca.maxTTL then ca.maxTTL else ca.defaultTTL)
  else requested

/-- `IstioCA.sign(csrPEM, subjectIDs, requestedLifetime, checkLifetime, forCA)` at time `now`. -/
def sign (fx : Fixes) (ca : CA) (csr : CSR) (subjectIDs : List String) (requested : Int)
    (checkLifetime forCA : Bool) (now : Int) : SignRes :=
  match ca.bundle.signerNotAfter with
  | none => .err (.ca .caNotReady)
  | some sna =>
    if !csr.pemOk then .err (.ca .csrError)
    else if !csr.derOk then .err (.ca .csrError)
    else if !csr.sigOk then .err (.ca .csrError)
    else
      if checkLifetime ∧ requested > ca.maxTTL then .err (.ca .ttlError)
      else
        match genTemplate fx.comma csr.cn subjectIDs (lifetimeOf fx.capDefault ca requested checkLifetime) forCA (some sna) now with
        | none => .err (.ca .certGenError)
        | some t => .ok { tmpl := t, pubKey := csr.pubKey }

/-! ## Authentication (`security.Authenticate`) -/

structure KubeInfo where
  podName      : String := ""
  podNamespace : String := ""
  podUID       : String := ""
  podSA        : String := ""
  deriving DecidableEq, Repr

structure Caller where
  identities : List String
  kube       : KubeInfo := {}
  deriving DecidableEq, Repr

/-- what one `Authenticator.Authenticate` call returned: `(caller, err != nil)` -/
structure AuthOut where
  caller : Option Caller
  err    : Bool
  deriving DecidableEq, Repr

/-- request context as read by `Authenticate` and `ExtractClusterID` -/
structure Ctx where
  xdsAuth       : Bool := true               -- features.XDSAuth
  hasPeer       : Bool := true               -- peer.FromContext ok
  tls           : Bool := true               -- AuthInfo is credentials.TLSInfo
  authPlaintext : Bool := false              -- security.AuthPlaintext
  clusterIDs    : Option (List String) := none -- values of the "clusterid" metadata key
  deriving DecidableEq, Repr

/-- `authenticationManager.authenticate`: the first authenticator that returns a caller with at
    least one identity and no error. -/
def firstCaller : List AuthOut → Option Caller
  | [] => none
  | o :: os =>
    match o.caller with
    | some c => if !c.identities.isEmpty ∧ !o.err then some c else firstCaller os
    | none => firstCaller os

/-- `security.Authenticate`; `none` covers both `(nil, nil)` and `(nil, err)`: the server treats
    them alike. -/
def authenticate (ctx : Ctx) (outs : List AuthOut) : Option Caller :=
  if !ctx.xdsAuth then none
  else if !ctx.hasPeer then none
  else if !ctx.tls ∧ !ctx.authPlaintext then none
  else firstCaller outs

/-! ## Impersonation gate (`node_auth.go`) -/

structure Pod where
  name : String
  ns   : String
  uid  : String
  sa   : String
  node : String
  phase : String := ""     -- status.phase: "" Running, "P" Pending, "S" Succeeded, "F" Failed (the informer's
                           -- field selector `status.phase!=Failed` drops only the last)
  deriving DecidableEq, Repr

/-- `spiffe.ParseIdentity`: (trust domain, namespace, service account) -/
def parseIdentity (s : String) : Option (String × String × String) :=
  if !hasPrefix s uriPrefix then none
  else
    match split '/' (String.ofList (s.toList.drop uriPrefix.length)) with
    | [td, a, ns, b, sa] => if a = "ns" ∧ b = "sa" then some (td, ns, sa) else none
    | _ => none

/-- the kclient index `saNode`: pods without node or service account are not indexed -/
def indexed (p : Pod) : Bool := !p.node.isEmpty ∧ !p.sa.isEmpty

/-- `ClusterNodeAuthorizer.authenticateImpersonation`; `true` = nil error. -/
def clusterImpersonationOK (trusted : List (String × String)) (pods : List Pod) (caller : KubeInfo)
    (requested : String) : Bool :=
  if !trusted.contains (caller.podNamespace, caller.podSA) then false
  else
    match parseIdentity requested with
    | none => false
    | some (_, ns, sa) =>
      match pods.find? (fun p => p.name = caller.podName ∧ p.ns = caller.podNamespace) with
      | none => false
      | some cp =>
        if cp.uid ≠ caller.podUID then false
        else if cp.sa ≠ caller.podSA then false
        else pods.any (fun p => indexed p ∧ p.ns = ns ∧ p.sa = sa ∧ p.node = cp.node)

/-- one per-cluster node authorizer (`ClusterNodeAuthorizer`): the pods of its cluster and whether
    its informer has synced (an unsynced informer is empty) -/
structure Comp where
  pods   : List Pod
  synced : Bool := true
  hidden : List String := []   -- namespaces the client's object filter (discovery selectors) hides
  deriving DecidableEq, Repr

def Comp.view (c : Comp) : List Pod := if c.synced then c.pods.filter (fun p => !c.hidden.contains p.ns) else []

/-- What the multicluster `Component` (pkg/kube/multicluster/component.go) holds for one cluster ID:
    `cur` = `clusters[id]`, `swap` = `pendingSwaps[id]` = (old component if any, new component). -/
structure Slot where
  cur  : Option Comp := none
  swap : Option (Option Comp × Comp) := none
  deriving DecidableEq, Repr

/-- `Component.ForCluster` + `pendingSwap.active`: a pending swap is consulted first; the old
    component answers until the new one has synced.  `none` = no authorizer for the cluster. -/
def Slot.active (s : Slot) : Option (List Pod) :=
  match s.swap with
  | some (old, new) =>
    if new.synced then some new.view
    else
      match old with
      | some o => some o.view
      | none => some new.view
  | none => s.cur.map Comp.view

/-- `clusterAdded` (and the new informer syncing) -/
def Slot.added (s : Slot) (pods : List Pod) (hidden : List String := []) : Slot :=
  { s with cur := some { pods := pods, hidden := hidden } }

/-- `clusterUpdated`: a new, not yet synced component replaces `clusters[id]`; the previous one is
    kept in a pending swap -/
def Slot.updated (s : Slot) (pods : List Pod) (hidden : List String := []) : Slot :=
  { cur := some { pods := pods, synced := false, hidden := hidden },
    swap := some (s.cur, { pods := pods, synced := false, hidden := hidden }) }

/-- the new component synced and the controller noticed (`pendingSwap.HasSynced`): swap finalized -/
def Slot.synced (s : Slot) : Slot :=
  { cur := s.cur.map (fun c => { c with synced := true }), swap := none }

/-- the new component of a pending update has synced, but `pendingSwap.HasSynced` was not called yet (the
    swap is still in `pendingSwaps`): `pendingSwap.active` hands out the NEW component -/
def Slot.ran (s : Slot) : Slot :=
  { cur := s.cur.map (fun c => { c with synced := true }),
    swap := s.swap.map (fun on => (on.1, { on.2 with synced := true })) }

/-- `clusterDeleted`; `cleanup` = the `fix:` commit that also drops a pending swap of the cluster -/
def Slot.deleted (cleanup : Bool) (s : Slot) : Slot :=
  { cur := none, swap := if cleanup then none else s.swap }

structure NodeAuth where
  trusted  : List (String × String)        -- CA_TRUSTED_NODE_ACCOUNTS as (namespace, name)
  clusters : List (String × Slot)          -- per-cluster node authorizers
  deriving DecidableEq, Repr

/-- `kubeauth.ExtractClusterID` -/
def clusterID (ctx : Ctx) : String :=
  match ctx.clusterIDs with
  | some [x] => x
  | _ => ""

def lookupCluster (id : String) : List (String × Slot) → Option Slot
  | [] => none
  | (k, v) :: rest => if k = id then some v else lookupCluster id rest

/-- what the pod informer (field selector `status.phase!=Failed`) holds of the cluster's pods -/
def informerPods (pods : List Pod) : List Pod := pods.filter (fun p => p.phase ≠ "F")

/-- `MulticlusterNodeAuthorizor.authenticateImpersonation` -/
def impersonationOK (na : NodeAuth) (ctx : Ctx) (caller : KubeInfo) (requested : String) : Bool :=
  match lookupCluster (clusterID ctx) na.clusters with
  | none => false
  | some slot =>
    match slot.active with
    | none => false
    | some pods => clusterImpersonationOK na.trusted (informerPods pods) caller requested

/-! ## `Server.CreateCertificate` -/

structure Request where
  csr          : CSR
  validity     : Int                       -- ValidityDuration (int64 seconds)
  impersonated : String := ""              -- Metadata[ImpersonatedIdentity].GetStringValue()
  certSigner   : String := ""              -- Metadata[CertSigner].GetStringValue()
  otherMeta    : List (String × String) := []
  deriving DecidableEq, Repr

structure Server where
  ca       : CA
  nodeAuth : Option NodeAuth
  deriving DecidableEq, Repr

/-- `New()` installs the node authorizer only for a non-empty trusted-account set. -/
def Server.new (ca : CA) (trusted : List (String × String)) (clusters : List (String × Slot)) : Server :=
  { ca := ca, nodeAuth := if trusted.isEmpty then none else some { trusted := trusted, clusters := clusters } }

inductive Code
  | unauthenticated | invalidArgument | internal
  deriving DecidableEq, Repr

/-- `caerror.Error.HTTPErrorCode` -/
def CAErr.code : CAErr → Code
  | .caNotReady => .internal
  | .certGenError => .internal
  | .csrError => .invalidArgument
  | .ttlError => .invalidArgument

/-- one element of `IstioCertificateResponse.cert_chain` -/
inductive Entry (κ : Type)
  | leaf (c : κ)
  | chain (name : String)
  | root
  deriving DecidableEq, Repr

inductive Resp (κ : Type)
  | crash
  | err (c : Code)
  | ok (chain : List (Entry κ))
  deriving DecidableEq, Repr

/-- two's-complement wrap of `time.Duration(v) * time.Second` -/
def wrap64 (x : Int) : Int := (x + 9223372036854775808) % 18446744073709551616 - 9223372036854775808

def requestedTTL (validity : Int) : Int := wrap64 (validity * 1000000000)

/-- the SAN source: the caller's identities, or the single impersonated identity if the gate
    passes; `none` = Unauthenticated. -/
def effectiveSans (srv : Server) (ctx : Ctx) (caller : Caller) (req : Request) : Option (List String) :=
  if req.impersonated = "" then some caller.identities
  else
    match srv.nodeAuth with
    | none => none
    | some na => if impersonationOK na ctx caller.kube req.impersonated then some [req.impersonated] else none

/-- `Server.CreateCertificate` over an `IstioCA`.  `Sign` (CertSigner == "") and `SignWithCertChain`
    give the same expanded response chain: leaf, the cert-chain certificates, the root. -/
def createCertificate {κ : Type} (fx : Fixes) (encode : CertData → κ) (srv : Server) (ctx : Ctx)
    (outs : List AuthOut) (req : Request) (now : Int) : Resp κ :=
  match authenticate ctx outs with
  | none => .err .unauthenticated
  | some caller =>
    match effectiveSans srv ctx caller req with
    | none => .err .unauthenticated
    | some sans =>
      match sign fx srv.ca req.csr sans (requestedTTL req.validity) true false now with
      | .err (.ca e) => .err e.code
      | .err .other => .crash
      | .ok d =>
        .ok ([Entry.leaf (encode d)] ++ srv.ca.bundle.chain.map (fun c => Entry.chain c.name)
              ++ (if srv.ca.bundle.hasRoot then [Entry.root] else []))

/-- The code as it is in /repo now. -/
def repoFixes : Fixes := Fixes.all

end IstioModel.C09
