import IstioModel.C09.Model

/-! C09 - helper lemmas: `strings.Split` / `strings.Join` round trips (not counted as obligations). -/
namespace IstioModel.C09

theorem splitC_ne_nil (sep : Char) (l : List Char) : splitC sep l ≠ [] := by
  induction l with
  | nil => simp [splitC]
  | cons c cs ih =>
    unfold splitC
    split
    · simp
    · split <;> simp

theorem splitC_no_sep (sep : Char) (w : List Char) (h : sep ∉ w) : splitC sep w = [w] := by
  induction w with
  | nil => simp [splitC]
  | cons c cs ih =>
    have hc : c ≠ sep := fun e => h (by simp [e])
    have hcs : sep ∉ cs := fun e => h (by simp [e])
    simp [splitC, hc, ih hcs]

theorem splitC_append (sep : Char) (w rest : List Char) (h : sep ∉ w) :
    splitC sep (w ++ sep :: rest) = w :: splitC sep rest := by
  induction w with
  | nil => simp [splitC]
  | cons c cs ih =>
    have hc : c ≠ sep := fun e => h (by simp [e])
    have hcs : sep ∉ cs := fun e => h (by simp [e])
    simp [splitC, hc, ih hcs]

@[simp] theorem joinC_nil (sep : Char) : joinC sep [] = [] := rfl
@[simp] theorem joinC_single (sep : Char) (w : List Char) : joinC sep [w] = w := rfl
theorem joinC_cons2 (sep : Char) (w w2 : List Char) (rest : List (List Char)) :
    joinC sep (w :: w2 :: rest) = w ++ sep :: joinC sep (w2 :: rest) := rfl

theorem splitC_joinC (sep : Char) (ws : List (List Char)) (hne : ws ≠ [])
    (h : ∀ w ∈ ws, sep ∉ w) : splitC sep (joinC sep ws) = ws := by
  induction ws with
  | nil => exact absurd rfl hne
  | cons w rest ih =>
    cases rest with
    | nil => simpa using splitC_no_sep sep w (h w (by simp))
    | cons w2 rest2 =>
      have hw : sep ∉ w := h w (by simp)
      have ih' := ih (by simp) (fun x hx => h x (by simp [hx]))
      rw [joinC_cons2, splitC_append sep w _ hw, ih']

theorem joinC_splitC (sep : Char) (l : List Char) : joinC sep (splitC sep l) = l := by
  induction l with
  | nil => simp [splitC]
  | cons c cs ih =>
    have hne := splitC_ne_nil sep cs
    cases hs : splitC sep cs with
    | nil => exact absurd hs hne
    | cons w ws =>
      rw [hs] at ih
      by_cases hc : c = sep
      · simp only [splitC, hc, if_true, hs]
        rw [joinC_cons2, ih]; simp
      · simp only [splitC, hc, if_false, hs]
        cases ws with
        | nil => simp at ih ⊢; exact ih
        | cons w2 ws2 => rw [joinC_cons2] at ih ⊢; simp [← ih]

theorem splitC_parts_no_sep (sep : Char) (l : List Char) : ∀ w ∈ splitC sep l, sep ∉ w := by
  induction l with
  | nil => simp [splitC]
  | cons c cs ih =>
    unfold splitC
    split
    · intro w hw
      simp at hw
      rcases hw with rfl | hw
      · simp
      · exact ih w hw
    · rename_i hc
      split
      · intro w hw; simp at hw; subst hw; simp; exact fun e => hc e.symm
      · rename_i w ws hs
        intro x hx
        simp at hx
        rcases hx with rfl | hx
        · have := ih w (by simp [hs])
          simp; exact ⟨fun e => hc e.symm, this⟩
        · exact ih x (by simp [hs, hx])


theorem hasChar_false_iff (c : Char) (s : String) : hasChar c s = false ↔ c ∉ s.toList := by
  simp [hasChar]

theorem hasChar_true_iff (c : Char) (s : String) : hasChar c s = true ↔ c ∈ s.toList := by
  simp [hasChar]

/-- `strings.Split(strings.Join(l, sep), sep) = l` for a non-empty list of separator-free strings -/
theorem split_join (sep : Char) (l : List String) (hne : l ≠ [])
    (h : ∀ s ∈ l, hasChar sep s = false) : split sep (join sep l) = l := by
  unfold split join
  rw [String.toList_ofList, splitC_joinC]
  · rw [List.map_map]
    have : (String.ofList ∘ String.toList) = id := by
      funext s; simp [String.ofList_toList]
    rw [this]; simp
  · simpa using hne
  · intro w hw
    simp at hw
    obtain ⟨s, hs, rfl⟩ := hw
    exact (hasChar_false_iff sep s).1 (h s hs)

/-- a separator inside a string makes `strings.Split` return at least two fields -/
theorem splitC_length_ge_two (sep : Char) (l : List Char) (h : sep ∈ l) : 2 ≤ (splitC sep l).length := by
  induction l with
  | nil => simp at h
  | cons c cs ih =>
    have hne := splitC_ne_nil sep cs
    by_cases hc : c = sep
    · simp only [splitC, hc, if_true, List.length_cons]
      have : 0 < (splitC sep cs).length := List.length_pos_iff.mpr hne
      omega
    · have hcs : sep ∈ cs := by
        simp at h
        rcases h with h | h
        · exact absurd h.symm hc
        · exact h
      have := ih hcs
      cases hs : splitC sep cs with
      | nil => exact absurd hs hne
      | cons w ws =>
        rw [hs] at this
        simp only [splitC, hc, if_false, hs, List.length_cons] at this ⊢
        exact this

theorem split_length (sep : Char) (s : String) : (split sep s).length = (splitC sep s.toList).length := by
  simp [split]

end IstioModel.C09
