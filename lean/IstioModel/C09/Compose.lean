import IstioModel.C09.Model
import IstioModel.C09.Authn

/-!
C09 - the two halves joined: `Server.CreateCertificate` with the *results of real authenticators*
(`AuthRes`, which includes a panic) in `Server.Authenticators`, instead of scripted outcomes.

`authenticationManager.authenticate` calls the authenticators in order and stops at the first one
that returns a caller with at least one identity; a panic in an authenticator that is reached
propagates out of `CreateCertificate` (nothing recovers it).
-/
namespace IstioModel.C09

/-- what running the authenticators in order gives -/
inductive AuthRun
  | crash
  | none
  | some (c : Caller)
  deriving DecidableEq, Repr

def runAuthenticators : List AuthRes → AuthRun
  | [] => .none
  | r :: rs =>
    match r with
    | .crash => .crash
    | .ok c => if !c.identities.isEmpty then .some c else runAuthenticators rs
    | .nil => runAuthenticators rs
    | .err => runAuthenticators rs

/-- an authenticator result as the `(caller, err)` pair the manager sees -/
def AuthRes.toOut : AuthRes → AuthOut
  | .ok c => { caller := some c, err := false }
  | .nil => { caller := none, err := false }
  | .err => { caller := none, err := true }
  | .crash => { caller := none, err := true }

/-- does `security.Authenticate` get as far as calling the authenticators? -/
def Ctx.authenticating (ctx : Ctx) : Bool := ctx.xdsAuth && ctx.hasPeer && (ctx.tls || ctx.authPlaintext)

/-- `Server.CreateCertificate` over real authenticator results -/
def createCertificateFull {κ : Type} (fx : Fixes) (encode : CertData → κ) (srv : Server) (ctx : Ctx)
    (results : List AuthRes) (req : Request) (now : Int) : Resp κ :=
  if !ctx.authenticating then .err .unauthenticated
  else
    match runAuthenticators results with
    | .crash => .crash
    | _ => createCertificate fx encode srv ctx (results.map AuthRes.toOut) req now

end IstioModel.C09
