import IstioModel.C09.Compose
import IstioModel.C09.Theorems
import IstioModel.C09.AuthnTheorems

/-!
C09 - the two halves joined: theorems about `createCertificateFull`, i.e. `CreateCertificate` with
the results of the real authenticators in `Server.Authenticators`.
-/
namespace IstioModel.C09

/-- `security.Authenticate` on an authenticating context is `firstCaller`. -/
theorem authenticate_of_authenticating {ctx : Ctx} (h : ctx.authenticating = true) (outs : List AuthOut) :
    authenticate ctx outs = firstCaller outs := by
  unfold Ctx.authenticating at h
  simp only [Bool.and_eq_true, Bool.or_eq_true] at h
  obtain ⟨⟨h1, h2⟩, h3⟩ := h
  unfold authenticate
  rcases h3 with h3 | h3 <;> simp [h1, h2, h3]

/-- A crash-free run of the authenticators is what the scripted model sees. -/
theorem firstCaller_toOut (results : List AuthRes) :
    match runAuthenticators results with
    | .crash => True
    | .none => firstCaller (results.map AuthRes.toOut) = none
    | .some c => firstCaller (results.map AuthRes.toOut) = some c ∧ c.identities ≠ [] ∧ AuthRes.ok c ∈ results := by
  induction results with
  | nil => simp [runAuthenticators, firstCaller]
  | cons r rs ih =>
    cases r with
    | crash => simp [runAuthenticators]
    | nil => simpa [runAuthenticators, firstCaller, AuthRes.toOut] using (by
        split at ih <;> simp_all)
    | err => simpa [runAuthenticators, firstCaller, AuthRes.toOut] using (by
        split at ih <;> simp_all)
    | ok c =>
      by_cases hc : c.identities = []
      · simp only [runAuthenticators, hc, List.isEmpty_nil, Bool.not_true, Bool.false_eq_true, if_false]
        split at ih
        · simp_all
        · simp_all [firstCaller, AuthRes.toOut]
        · simp_all [firstCaller, AuthRes.toOut]
      · have hne : c.identities.isEmpty = false := by
          cases hi : c.identities with
          | nil => exact absurd hi hc
          | cons a b => rfl
        simp [runAuthenticators, firstCaller, AuthRes.toOut, hne, hc]

/-- With authenticators that do not panic the joined function is the scripted one. -/
theorem full_eq_scripted {κ : Type} (g : Fixes) (encode : CertData → κ) (srv : Server) (ctx : Ctx)
    (results : List AuthRes) (req : Request) (now : Int) (h : runAuthenticators results ≠ .crash) :
    createCertificateFull g encode srv ctx results req now =
      createCertificate g encode srv ctx (results.map AuthRes.toOut) req now := by
  unfold createCertificateFull
  by_cases ha : ctx.authenticating = true
  · simp only [ha, Bool.not_true, Bool.false_eq_true, if_false]
    try (split <;> first | rfl | (rename_i hc; exact absurd hc h))
  · have hn : authenticate ctx (results.map AuthRes.toOut) = none := by
      unfold Ctx.authenticating at ha
      unfold authenticate
      cases h1 : ctx.xdsAuth <;> cases h2 : ctx.hasPeer <;> cases h3 : ctx.tls <;> cases h4 : ctx.authPlaintext <;> simp_all
    simp [ha, createCertificate, hn]

theorem runAuthenticators_no_crash (results : List AuthRes) (h : ∀ r ∈ results, r ≠ .crash) :
    runAuthenticators results ≠ .crash := by
  induction results with
  | nil => simp [runAuthenticators]
  | cons r rs ih =>
    have hr := h r (by simp)
    have ih' := ih (fun x hx => h x (by simp [hx]))
    cases r with
    | crash => exact absurd rfl hr
    | nil => simpa [runAuthenticators] using ih'
    | err => simpa [runAuthenticators] using ih'
    | ok c =>
      simp only [runAuthenticators]
      split
      · simp
      · exact ih'

/-- Exactly when `CreateCertificate` panics: the context gets as far as the authenticators and an
    authenticator that is reached (no earlier one succeeded) panics.  Nothing else can panic. -/
theorem crash_iff {κ : Type} (g : Fixes) (encode : CertData → κ) (srv : Server) (ctx : Ctx)
    (results : List AuthRes) (req : Request) (now : Int) :
    createCertificateFull g encode srv ctx results req now = .crash ↔
      ctx.authenticating = true ∧ runAuthenticators results = .crash := by
  unfold createCertificateFull
  by_cases ha : ctx.authenticating = true
  · simp only [ha, Bool.not_true, Bool.false_eq_true, if_false, true_and]
    split
    · rename_i hc; simp [hc]
    · rename_i hnc
      constructor
      · intro h; exact absurd h (errors_not_crashes _ _ _ _ _ _ _)
      · intro h; exact absurd h (by intro e; exact hnc e)
  · simp [ha]

/-- Errors, not crashes - stated honestly: under the hypothesis that no authenticator panics. -/
theorem errors_not_crashes_full {κ : Type} (g : Fixes) (encode : CertData → κ) (srv : Server) (ctx : Ctx)
    (results : List AuthRes) (req : Request) (now : Int) (h : ∀ r ∈ results, r ≠ .crash) :
    createCertificateFull g encode srv ctx results req now ≠ .crash := by
  intro hc
  exact runAuthenticators_no_crash results h ((crash_iff ..).1 hc).2

/-- a result produced by one of the four real authenticators of the CA server, as modelled
    (OIDC as fixed, constructed with a mesh holder or - `RunCA` before cb98066 - with none; XFCC only for
    peers whose address host is an IP literal) -/
inductive RealResult : AuthRes → Prop
  | oidc (holder : Option String) (e : List String) (t : Transport) (vals : List String) (verify : String → OidcTok) :
      RealResult (oidcEntryH true holder e t vals verify)
  | kube (t : Transport) (td : String) (cfg : KubeCfg) (hdr : Option (List String)) (vals aud : List String)
      (api : ReviewCall → Review) : RealResult (kubeAuthenticate t td cfg hdr vals aud api).1
  | cert (k : PeerKind) (chains : List (List CertSAN)) : RealResult (certAuthenticate k chains)
  | xfcc (cidrs : List String) (addr : String) (hs : List String) (p : String → Option (List XfccElem))
      (hip : ∀ host, splitHostPort addr.toList = some host → (parseAddrFull host).isSome = true) :
      RealResult (xfccAuthenticate cidrs addr hs p)

theorem realResult_no_crash {r : AuthRes} (h : RealResult r) : r ≠ .crash := by
  cases h with
  | oidc holder e t vals verify => exact oidc_entry_holder_total holder e t vals verify
  | kube t td cfg hdr vals aud api => exact kube_total t td cfg hdr vals aud api
  | cert k chains => exact cert_total k chains
  | xfcc cidrs addr hs p hip =>
    unfold xfccAuthenticate
    split
    · simp
    · split
      · rename_i hc; exact absurd hc (trusted_address_total_for_ip_hosts addr cidrs hip)
      · simp
      · split <;> simp

/-- With the real authenticators (TCP peers) `CreateCertificate` never panics. -/
theorem errors_not_crashes_real {κ : Type} (g : Fixes) (encode : CertData → κ) (srv : Server) (ctx : Ctx)
    (results : List AuthRes) (req : Request) (now : Int) (h : ∀ r ∈ results, RealResult r) :
    createCertificateFull g encode srv ctx results req now ≠ .crash :=
  errors_not_crashes_full g encode srv ctx results req now (fun r hr => realResult_no_crash (h r hr))

/-- ... and the XFCC panic for a peer address with a host name does reach the caller. -/
theorem xfcc_crash_propagates :
    createCertificateFull Fixes.all id exSrv {} [xfccAuthenticate ["10.0.0.0/8"] "host:80" ["URI=x"] (fun _ => none)]
      { csr := {}, validity := 0 } 0 = (.crash : Resp CertData) := by decide

/-- SAN exactness end to end: the SANs of an issued certificate are the identities of the first
    authenticator result that is a caller with identities (or the gated impersonated identity). -/
theorem san_exact_full {κ : Type} {g : Fixes} (hg : g.comma = true) {encode : CertData → κ} {decode : κ → CertData}
    (hdec : ∀ d, decode (encode d) = d) {srv : Server} {ctx : Ctx} {results : List AuthRes} {req : Request}
    {now : Int} {chain : List (Entry κ)}
    (h : createCertificateFull g encode srv ctx results req now = .ok chain) :
    ∃ caller sans d, runAuthenticators results = .some caller ∧ AuthRes.ok caller ∈ results ∧
      effectiveSans srv ctx caller req = some sans ∧ leafData decode (.ok chain) = some d ∧
      d.tmpl.san = sans.map classify := by
  have hnc : runAuthenticators results ≠ .crash := by
    intro hc
    unfold createCertificateFull at h
    split at h
    · simp at h
    · simp [hc] at h
  have ha : ctx.authenticating = true := by
    unfold createCertificateFull at h
    split at h
    · simp at h
    · rename_i hh; simpa using hh
  rw [full_eq_scripted g encode srv ctx results req now hnc] at h
  obtain ⟨caller, sans, d, hc, hs, hl, hsan⟩ := san_exact_encoded hg hdec h
  rw [authenticate_of_authenticating ha] at hc
  have key := firstCaller_toOut results
  split at key
  · rename_i hcr; exact absurd hcr hnc
  · rw [key] at hc; simp at hc
  · rename_i c hrun
    rw [key.1] at hc
    cases hc
    exact ⟨caller, sans, d, hrun, key.2.2, hs, hl, hsan⟩

/-- a `spiffe://` URI built by `genSpiffeURI` is classified as a URI SAN, unchanged -/
theorem classify_spiffeURI (td ns sa : String) : classify (spiffeURI td ns sa) = .uri (spiffeURI td ns sa) := by
  have h : spiffeURI td ns sa =
      String.ofList ("spiffe://".toList ++ (sanitizeTD td ++ "/ns/" ++ ns ++ "/sa/" ++ sa).toList) := by
    apply String.toList_injective
    simp [spiffeURI, String.toList_append, String.toList_ofList]
  rw [h]
  exact classify_spiffe _

/-- One real authenticator, no impersonation: the certificate carries exactly what that
    authenticator derived from the credential. -/
theorem san_exact_single {κ : Type} {g : Fixes} (hg : g.comma = true) {encode : CertData → κ} {decode : κ → CertData}
    (hdec : ∀ d, decode (encode d) = d) {srv : Server} {ctx : Ctx} {r : AuthRes} {req : Request}
    {now : Int} {chain : List (Entry κ)} (himp : req.impersonated = "")
    (h : createCertificateFull g encode srv ctx [r] req now = .ok chain) :
    ∃ c d, r = .ok c ∧ leafData decode (.ok chain) = some d ∧ d.tmpl.san = c.identities.map classify := by
  obtain ⟨caller, sans, d, _, hmem, hs, hl, hsan⟩ := san_exact_full hg hdec h
  simp only [List.mem_singleton] at hmem
  rw [no_impersonation_uses_caller srv ctx caller req himp] at hs
  cases hs
  exact ⟨caller, d, hmem.symm, hl, hsan⟩

/-- Kubernetes JWT end to end: SAN = the SPIFFE URI of the namespace / service account the API
    server of the named cluster reported for the review of the presented token for the configured
    audiences. -/
theorem san_exact_kube {κ : Type} {g : Fixes} (hg : g.comma = true) {encode : CertData → κ} {decode : κ → CertData}
    (hdec : ∀ d, decode (encode d) = d) {srv : Server} {ctx : Ctx} {req : Request} {now : Int} {chain : List (Entry κ)}
    {t : Transport} {td : String} {cfg : KubeCfg} {hdr : Option (List String)} {vals aud : List String}
    {api : ReviewCall → Review} (himp : req.impersonated = "")
    (h : createCertificateFull g encode srv ctx [(kubeAuthenticate t td cfg hdr vals aud api).1] req now = .ok chain) :
    ∃ tok cl k d, extractToken t vals = some tok ∧ getKubeClient cfg (clusterIDOf t hdr) = some cl ∧
      tokenReviewResult (api { client := cl, token := tok, audiences := aud }) = some k ∧
      leafData decode (.ok chain) = some d ∧ d.tmpl.san = [.uri (spiffeURI td k.podNamespace k.podSA)] := by
  obtain ⟨c, d, hr, hl, hsan⟩ := san_exact_single hg hdec himp h
  have hpair : kubeAuthenticate t td cfg hdr vals aud api = (.ok c, (kubeAuthenticate t td cfg hdr vals aud api).2) := by
    rw [← hr]
  obtain ⟨tok, cl, k, htok, hcl, _, hk, _, _, hc⟩ := kube_identity_from_review hpair
  refine ⟨tok, cl, k, d, htok, hcl, hk, hl, ?_⟩
  rw [hsan, hc]
  simp [classify_spiffeURI]

/-- OIDC end to end: SAN = the SPIFFE URI of fields 3 and 4 of the `sub` of the EXTRACTED token, as
    released by the verifier. -/
theorem san_exact_oidc {κ : Type} {g : Fixes} (hg : g.comma = true) {encode : CertData → κ} {decode : κ → CertData}
    (hdec : ∀ d, decode (encode d) = d) {srv : Server} {ctx : Ctx} {req : Request} {now : Int} {chain : List (Entry κ)}
    {fixed : Bool} {td : String} {e : List String} {t : Transport} {vals : List String} {verify : String → OidcTok}
    (himp : req.impersonated = "")
    (h : createCertificateFull g encode srv ctx [oidcEntry fixed td e t vals verify] req now = .ok chain) :
    ∃ tok sub aud ns sa d, extractToken t vals = some tok ∧ verify tok = .claims sub aud ∧ checkAudience aud e = true ∧
      (split ':' sub)[2]? = some ns ∧ (split ':' sub)[3]? = some sa ∧
      leafData decode (.ok chain) = some d ∧ d.tmpl.san = [.uri (spiffeURI td ns sa)] := by
  obtain ⟨c, d, hr, hl, hsan⟩ := san_exact_single hg hdec himp h
  obtain ⟨tok, htok, hoidc⟩ := oidc_entry_identity hr
  obtain ⟨sub, aud, ns, sa, hv, _, ha, h2, h3, hc⟩ := oidc_identity_from_sub hoidc
  refine ⟨tok, sub, aud, ns, sa, d, htok, hv, ha, h2, h3, hl, ?_⟩
  rw [hsan, hc]
  simp [classify_spiffeURI]

/-- XFCC end to end: only from a trusted peer; SANs = the URI / DNS / Subject-CN values of the header. -/
theorem san_exact_xfcc {κ : Type} {g : Fixes} (hg : g.comma = true) {encode : CertData → κ} {decode : κ → CertData}
    (hdec : ∀ d, decode (encode d) = d) {srv : Server} {ctx : Ctx} {req : Request} {now : Int} {chain : List (Entry κ)}
    {cidrs : List String} {addr : String} {hs : List String} {p : String → Option (List XfccElem)}
    (himp : req.impersonated = "")
    (h : createCertificateFull g encode srv ctx [xfccAuthenticate cidrs addr hs p] req now = .ok chain) :
    isTrustedAddress addr cidrs = .yes ∧
    ∃ es d, p (hs.headD "") = some es ∧ leafData decode (.ok chain) = some d ∧ d.tmpl.san = (xfccIDs es).map classify := by
  obtain ⟨c, d, hr, hl, hsan⟩ := san_exact_single hg hdec himp h
  obtain ⟨ht, _, es, hp, _, hc, _⟩ := xfcc_identity_from_trusted_header hr
  exact ⟨ht, es, d, hp, hl, by rw [hsan, hc]⟩

/-- Client certificate end to end: SANs = the SAN values of the leaf of the first verified chain. -/
theorem san_exact_cert {κ : Type} {g : Fixes} (hg : g.comma = true) {encode : CertData → κ} {decode : κ → CertData}
    (hdec : ∀ d, decode (encode d) = d) {srv : Server} {ctx : Ctx} {req : Request} {now : Int} {chain : List (Entry κ)}
    {k : PeerKind} {chains : List (List CertSAN)} (himp : req.impersonated = "")
    (h : createCertificateFull g encode srv ctx [certAuthenticate k chains] req now = .ok chain) :
    k = .tls ∧ ∃ vs rest more d, chains = (.san vs :: rest) :: more ∧ leafData decode (.ok chain) = some d ∧
      d.tmpl.san = vs.map classify := by
  obtain ⟨c, d, hr, hl, hsan⟩ := san_exact_single hg hdec himp h
  obtain ⟨hk, vs, rest, more, hch, hc⟩ := cert_identity_from_leaf_san hr
  exact ⟨hk, vs, rest, more, d, hch, hl, by rw [hsan, hc]⟩

/-- Client certificate over a real handshake, end to end: a certificate is issued only to a peer whose
    own certificate chains to a root registered for the trust domain of its single URI SAN; the new
    certificate's SANs are the SAN values of that peer certificate. -/
theorem san_exact_tlscert {κ : Type} {g : Fixes} (hg : g.comma = true) {encode : CertData → κ} {decode : κ → CertData}
    (hdec : ∀ d, decode (encode d) = d) {srv : Server} {ctx : Ctx} {req : Request} {now : Int} {chain : List (Entry κ)}
    {pools : List (String × List String)} {peer : Option (PLeaf × List CACert)} {r : AuthRes}
    (hacc : tlsCertAuthenticate pools peer = some r) (himp : req.impersonated = "")
    (h : createCertificateFull g encode srv ctx [r] req now = .ok chain) :
    ∃ leaf ints u td ns sa roots d, peer = some (leaf, ints) ∧ leaf.uris = [u] ∧ parseIdentity (urlString u) = some (td, ns, sa) ∧
      poolOf pools td = some roots ∧ chainsTo roots ints (ints.length + 1) leaf.issuer = true ∧
      leafData decode (.ok chain) = some d ∧ d.tmpl.san = leaf.values.map classify := by
  obtain ⟨c, d, hr, hl, hsan⟩ := san_exact_single hg hdec himp h
  rw [hr] at hacc
  obtain ⟨leaf, ints, u, td, ns, sa, roots, hp, hu, hpi, hpool, hch, _, hc⟩ := tls_cert_root_scoped hacc
  exact ⟨leaf, ints, u, td, ns, sa, roots, d, hp, hu, hpi, hpool, hch, hl, by rw [hsan, hc]⟩

theorem firstCaller_single {r : AuthRes} {c : Caller} (h : firstCaller [r.toOut] = some c) : r = .ok c := by
  cases r with
  | crash => simp [AuthRes.toOut, firstCaller] at h
  | nil => simp [AuthRes.toOut, firstCaller] at h
  | err => simp [AuthRes.toOut, firstCaller] at h
  | ok c' =>
    cases hi : c'.identities.isEmpty with
    | true => simp [AuthRes.toOut, firstCaller, hi] at h
    | false => simp [AuthRes.toOut, firstCaller, hi] at h; rw [h]

/-- The ambient flow end to end (authenticator and gate reading the same `clusterid` metadata of the
    request, as they do in the real server): a certificate issued WITH impersonation to a caller
    authenticated by the Kubernetes-JWT authenticator implies
    * the presented token was reviewed (for the configured audiences) by the API server that
      `getKubeClient` selects for THE SAME cluster ID whose node authorizer the gate consults (an alias
      that names the primary cluster while another registered cluster carries the alias as its ID would
      split the two: configuration observation), which reported namespace/service account (ns_c, sa_c), pod name and pod UID;
    * (ns_c, sa_c) is a trusted node account;
    * in the pod view of the node authorizer active for that cluster the pod of that name in ns_c has
      that UID and runs as sa_c, and a non-Failed pod of the impersonated (ns, sa) with a service
      account sits on that pod's (non-empty) node;
    * the certificate's SAN is exactly the impersonated identity, a URI SAN. -/
theorem impersonation_through_kube {κ : Type} {g : Fixes} (hg : g.comma = true) {encode : CertData → κ} {decode : κ → CertData}
    (hdec : ∀ d, decode (encode d) = d) {srv : Server} {ctx : Ctx} {req : Request} {now : Int} {chain : List (Entry κ)}
    {t : Transport} {td : String} {cfg : KubeCfg} {hdr : Option (List String)} {vals aud : List String}
    {api : ReviewCall → Review} (himp : req.impersonated ≠ "")
    -- the authenticator and the gate read the SAME `clusterid` metadata of the one gRPC request
    (ht : t = .grpc) (hhdr : hdr = ctx.clusterIDs)
    (h : createCertificateFull g encode srv ctx [(kubeAuthenticate t td cfg hdr vals aud api).1] req now = .ok chain) :
    ∃ tok cl k na slot all itd ns sa cp d,
      extractToken t vals = some tok ∧ getKubeClient cfg (clusterID ctx) = some cl ∧
      tokenReviewResult (api { client := cl, token := tok, audiences := aud }) = some k ∧
      srv.nodeAuth = some na ∧ (k.podNamespace, k.podSA) ∈ na.trusted ∧
      lookupCluster (clusterID ctx) na.clusters = some slot ∧ slot.active = some all ∧
      parseIdentity req.impersonated = some (itd, ns, sa) ∧
      (informerPods all).find? (fun p => p.name = k.podName ∧ p.ns = k.podNamespace) = some cp ∧
      cp.uid = k.podUID ∧ cp.sa = k.podSA ∧
      (∃ p ∈ informerPods all, p.node ≠ "" ∧ p.sa ≠ "" ∧ p.ns = ns ∧ p.sa = sa ∧ p.node = cp.node) ∧
      leafData decode (.ok chain) = some d ∧ d.tmpl.san = [.uri req.impersonated] := by
  have hnc : runAuthenticators [(kubeAuthenticate t td cfg hdr vals aud api).1] ≠ .crash :=
    runAuthenticators_no_crash _ (by intro r hr; simp only [List.mem_singleton] at hr; rw [hr]; exact kube_total _ _ _ _ _ _ _)
  have ha : ctx.authenticating = true := by
    unfold createCertificateFull at h
    split at h
    · simp at h
    · rename_i hh; simpa using hh
  rw [full_eq_scripted g encode srv ctx _ req now hnc] at h
  obtain ⟨caller, na, slot, all, hc, hna, hs, hl, hact, htr, itd, ns, sa, hp, cp, hcp, huid, hsa, hnode⟩ :=
    impersonation_gate h himp
  rw [authenticate_of_authenticating ha] at hc
  have hr := firstCaller_single hc
  have hpair : kubeAuthenticate t td cfg hdr vals aud api = (.ok caller, (kubeAuthenticate t td cfg hdr vals aud api).2) := by
    rw [← hr]
  obtain ⟨tok, cl, k, htok, hcl, _, hk, _, _, hcal⟩ := kube_identity_from_review hpair
  obtain ⟨caller', sans', d, hc', hs', hld, hsan⟩ := san_exact_encoded hg hdec h
  rw [authenticate_of_authenticating ha, hc] at hc'
  cases hc'
  rw [hs] at hs'
  cases hs'
  have hk2 : caller.kube = k := by rw [hcal]
  rw [hk2] at htr hcp huid hsa
  have hid : clusterIDOf t hdr = clusterID ctx := by
    subst ht; subst hhdr
    unfold clusterIDOf clusterID
    cases ctx.clusterIDs with
    | none => rfl
    | some l =>
      match l with
      | [] => rfl
      | [x] => rfl
      | _ :: _ :: _ => rfl
  rw [hid] at hcl
  refine ⟨tok, cl, k, na, slot, all, itd, ns, sa, cp, d, htok, hcl, hk, hna, htr, hl, hact, hp, hcp, huid, hsa, hnode, hld, ?_⟩
  rw [hsan]
  have hpre := parseIdentity_sound hp
  simp only [List.map_cons, List.map_nil, List.cons.injEq, and_true]
  rw [hpre]
  have : "spiffe://" ++ itd ++ "/ns/" ++ ns ++ "/sa/" ++ sa =
      String.ofList ("spiffe://".toList ++ (itd ++ "/ns/" ++ ns ++ "/sa/" ++ sa).toList) := by
    apply String.toList_injective
    simp [String.toList_append, String.toList_ofList]
  rw [this]
  exact classify_spiffe _

/-- The transport gate of `security.Authenticate`: a connection whose AuthInfo is not `credentials.TLSInfo`
    (none at all, or any other kind: ALTS, local credentials, ...) gets no certificate unless
    XDS_AUTH_PLAINTEXT is set - whatever the authenticators would say; they are not even called (so a
    panicking one cannot matter). -/
theorem not_tls_no_certificate {κ : Type} (g : Fixes) (encode : CertData → κ) (srv : Server) (ctx : Ctx)
    (results : List AuthRes) (req : Request) (now : Int) (htls : ctx.tls = false) (hplain : ctx.authPlaintext = false) :
    createCertificateFull g encode srv ctx results req now = .err .unauthenticated := by
  simp [createCertificateFull, Ctx.authenticating, htls, hplain]

/-- A chain prefix in which no authenticator succeeds (and none panics) does not change the outcome. -/
theorem runAuthenticators_append_none {pre rest : List AuthRes} (h : runAuthenticators pre = .none) :
    runAuthenticators (pre ++ rest) = runAuthenticators rest := by
  induction pre with
  | nil => rfl
  | cons r rs ih =>
    cases r with
    | crash => simp [runAuthenticators] at h
    | nil => simp only [runAuthenticators, List.cons_append] at h ⊢; exact ih h
    | err => simp only [runAuthenticators, List.cons_append] at h ⊢; exact ih h
    | ok c =>
      simp only [runAuthenticators, List.cons_append] at h ⊢
      by_cases hc : (!c.identities.isEmpty) = true
      · simp [hc] at h
      · simp only [hc] at h ⊢
        exact ih h

/-- Impersonation through ANY chain of authenticators (istiod's: client certificate, Kubernetes JWT or
    OIDC, XFCC): a certificate issued WITH impersonation implies that the FIRST authenticator that
    returned a caller with identities - the one whose result counts - returned pod information that
    passes the whole gate on the active node authorizer of the request's cluster; the certificate's SAN
    is exactly the impersonated identity, a URI SAN. -/
theorem impersonation_through_chain {κ : Type} {g : Fixes} (hg : g.comma = true) {encode : CertData → κ} {decode : κ → CertData}
    (hdec : ∀ d, decode (encode d) = d) {srv : Server} {ctx : Ctx} {results : List AuthRes} {req : Request} {now : Int}
    {chain : List (Entry κ)} (himp : req.impersonated ≠ "")
    (h : createCertificateFull g encode srv ctx results req now = .ok chain) :
    ∃ caller na slot all itd ns sa cp d,
      runAuthenticators results = .some caller ∧ AuthRes.ok caller ∈ results ∧
      srv.nodeAuth = some na ∧ (caller.kube.podNamespace, caller.kube.podSA) ∈ na.trusted ∧
      lookupCluster (clusterID ctx) na.clusters = some slot ∧ slot.active = some all ∧
      parseIdentity req.impersonated = some (itd, ns, sa) ∧
      (informerPods all).find? (fun p => p.name = caller.kube.podName ∧ p.ns = caller.kube.podNamespace) = some cp ∧
      cp.uid = caller.kube.podUID ∧ cp.sa = caller.kube.podSA ∧
      (∃ p ∈ informerPods all, p.node ≠ "" ∧ p.sa ≠ "" ∧ p.ns = ns ∧ p.sa = sa ∧ p.node = cp.node) ∧
      leafData decode (.ok chain) = some d ∧ d.tmpl.san = [.uri req.impersonated] := by
  have hnc : runAuthenticators results ≠ .crash := by
    intro hc
    unfold createCertificateFull at h
    split at h
    · simp at h
    · simp [hc] at h
  have ha : ctx.authenticating = true := by
    unfold createCertificateFull at h
    split at h
    · simp at h
    · rename_i hh; simpa using hh
  rw [full_eq_scripted g encode srv ctx _ req now hnc] at h
  obtain ⟨caller, na, slot, all, hc, hna, hs, hl, hact, htr, itd, ns, sa, hp, cp, hcp, huid, hsa, hnode⟩ :=
    impersonation_gate h himp
  rw [authenticate_of_authenticating ha] at hc
  obtain ⟨caller', sans', d, hc', hs', hld, hsan⟩ := san_exact_encoded hg hdec h
  rw [authenticate_of_authenticating ha, hc] at hc'
  cases hc'
  rw [hs] at hs'
  cases hs'
  have key := firstCaller_toOut results
  split at key
  · rename_i hcr; exact absurd hcr hnc
  · rw [key] at hc; simp at hc
  · rename_i c hrun
    rw [key.1] at hc
    cases hc
    refine ⟨caller, na, slot, all, itd, ns, sa, cp, d, hrun, key.2.2, hna, htr, hl, hact, hp, hcp, huid, hsa, hnode, hld, ?_⟩
    rw [hsan]
    have hpre := parseIdentity_sound hp
    simp only [List.map_cons, List.map_nil, List.cons.injEq, and_true]
    rw [hpre]
    have : "spiffe://" ++ itd ++ "/ns/" ++ ns ++ "/sa/" ++ sa =
        String.ofList ("spiffe://".toList ++ (itd ++ "/ns/" ++ ns ++ "/sa/" ++ sa).toList) := by
      apply String.toList_injective
      simp [String.toList_append, String.toList_ofList]
    rw [this]
    exact classify_spiffe _

/-- The multi-authenticator counterpart of `impersonation_through_kube`: the Kubernetes-JWT authenticator
    anywhere in the chain, behind authenticators that did not succeed (e.g. the client-certificate
    authenticator for a peer without certificate), in front of any others.  Same conclusion: token
    reviewed by the API server selected for the cluster ID whose node authorizer the gate consults, etc. -/
theorem impersonation_through_kube_chain {κ : Type} {g : Fixes} (hg : g.comma = true) {encode : CertData → κ} {decode : κ → CertData}
    (hdec : ∀ d, decode (encode d) = d) {srv : Server} {ctx : Ctx} {req : Request} {now : Int} {chain : List (Entry κ)}
    {pre post : List AuthRes} {c : Caller}
    {t : Transport} {td : String} {cfg : KubeCfg} {hdr : Option (List String)} {vals aud : List String}
    {api : ReviewCall → Review} (himp : req.impersonated ≠ "")
    (ht : t = .grpc) (hhdr : hdr = ctx.clusterIDs)
    (hpre : runAuthenticators pre = .none)
    (hk : (kubeAuthenticate t td cfg hdr vals aud api).1 = .ok c)
    (h : createCertificateFull g encode srv ctx (pre ++ (kubeAuthenticate t td cfg hdr vals aud api).1 :: post) req now = .ok chain) :
    ∃ tok cl k na slot all itd ns sa cp d,
      extractToken t vals = some tok ∧ getKubeClient cfg (clusterID ctx) = some cl ∧
      tokenReviewResult (api { client := cl, token := tok, audiences := aud }) = some k ∧
      srv.nodeAuth = some na ∧ (k.podNamespace, k.podSA) ∈ na.trusted ∧
      lookupCluster (clusterID ctx) na.clusters = some slot ∧ slot.active = some all ∧
      parseIdentity req.impersonated = some (itd, ns, sa) ∧
      (informerPods all).find? (fun p => p.name = k.podName ∧ p.ns = k.podNamespace) = some cp ∧
      cp.uid = k.podUID ∧ cp.sa = k.podSA ∧
      (∃ p ∈ informerPods all, p.node ≠ "" ∧ p.sa ≠ "" ∧ p.ns = ns ∧ p.sa = sa ∧ p.node = cp.node) ∧
      leafData decode (.ok chain) = some d ∧ d.tmpl.san = [.uri req.impersonated] := by
  have hpair : kubeAuthenticate t td cfg hdr vals aud api = (.ok c, (kubeAuthenticate t td cfg hdr vals aud api).2) := by
    rw [← hk]
  obtain ⟨tok, cl, k, htok, hcl, _, hkr, _, _, hcal⟩ := kube_identity_from_review hpair
  obtain ⟨caller, na, slot, all, itd, ns, sa, cp, d, hrun, _, hna, htr, hl, hact, hp, hcp, huid, hsa, hnode, hld, hsan⟩ :=
    impersonation_through_chain hg hdec himp h
  have hwin : caller = c := by
    rw [runAuthenticators_append_none hpre, hk] at hrun
    have hne : (!c.identities.isEmpty) = true := by rw [hcal]; rfl
    simp only [runAuthenticators, hne, if_true, AuthRun.some.injEq] at hrun
    exact hrun.symm
  have hk2 : caller.kube = k := by rw [hwin, hcal]
  rw [hk2] at htr hcp huid hsa
  have hid : clusterIDOf t hdr = clusterID ctx := by
    subst ht; subst hhdr
    unfold clusterIDOf clusterID
    cases ctx.clusterIDs with
    | none => rfl
    | some l =>
      match l with
      | [] => rfl
      | [x] => rfl
      | _ :: _ :: _ => rfl
  rw [hid] at hcl
  exact ⟨tok, cl, k, na, slot, all, itd, ns, sa, cp, d, htok, hcl, hkr, hna, htr, hl, hact, hp, hcp, huid, hsa, hnode, hld, hsan⟩

/-- Callers authenticated by the client-certificate, OIDC or XFCC authenticator carry no pod information
    (`KubernetesInfo` is empty), so for them the gate can only pass if the EMPTY namespace / service
    account pair were configured as a trusted node account: with a sane configuration impersonation is
    reserved to callers of the Kubernetes-JWT authenticator. -/
theorem impersonation_needs_pod_information {κ : Type} {g : Fixes} (hg : g.comma = true) {encode : CertData → κ} {decode : κ → CertData}
    (hdec : ∀ d, decode (encode d) = d) {srv : Server} {ctx : Ctx} {results : List AuthRes} {req : Request} {now : Int}
    {chain : List (Entry κ)} (himp : req.impersonated ≠ "")
    (hnopod : ∀ c, AuthRes.ok c ∈ results → c.kube = {})
    (h : createCertificateFull g encode srv ctx results req now = .ok chain) :
    ∃ na, srv.nodeAuth = some na ∧ ("", "") ∈ na.trusted := by
  obtain ⟨caller, na, _, _, _, _, _, _, _, _, hmem, hna, htr, _⟩ := impersonation_through_chain hg hdec himp h
  have := hnopod caller hmem
  rw [this] at htr
  exact ⟨na, hna, htr⟩

/-- the results of the OIDC, XFCC and client-certificate authenticators carry no pod information -/
theorem nonkube_results_without_pod_information :
    (∀ fixed td e t vals verify c, oidcEntry fixed td e t vals verify = .ok c → c.kube = {}) ∧
    (∀ cidrs addr hs p c, xfccAuthenticate cidrs addr hs p = .ok c → c.kube = {}) ∧
    (∀ k chains c, certAuthenticate k chains = .ok c → c.kube = {}) := by
  refine ⟨?_, ?_, ?_⟩
  · intro fixed td e t vals verify c h
    obtain ⟨tok, _, hoidc⟩ := oidc_entry_identity h
    obtain ⟨_, _, _, _, _, _, _, _, _, hc⟩ := oidc_identity_from_sub hoidc
    rw [hc]
  · intro cidrs addr hs p c h
    obtain ⟨_, _, es, _, _, hc, _⟩ := xfcc_identity_from_trusted_header h
    rw [hc]
  · intro k chains c h
    obtain ⟨_, vs, rest, more, _, hc⟩ := cert_identity_from_leaf_san h
    rw [hc]

/-- The ambient flow end to end (non-vacuity): a node proxy authenticates with its Kubernetes token
    (reviewed by the primary cluster for audience istio-ca) and obtains the identity of workload
    a/b running on its node. -/
example :
    (leafData id (createCertificateFull Fixes.all id exSrv { clusterIDs := some ["c1"] }
      [(kubeAuthenticate .grpc "cluster.local" ⟨"c1", [], none⟩ (some ["c1"]) ["Bearer node-token"] ["istio-ca"]
          (fun call => if call.token = "node-token" ∧ call.audiences = ["istio-ca"] ∧ call.client = .primary then
            { groups := ["system:serviceaccounts"], username := "system:serviceaccount:istio-system:ztunnel",
              podName := some ["zt"], podUID := some ["u1"] } else { authenticated := false })).1]
      { csr := {}, validity := 0, impersonated := "spiffe://cluster.local/ns/a/sa/b" } 0)).map (fun d => d.tmpl.san) =
      some [.uri "spiffe://cluster.local/ns/a/sa/b"] := by
  decide

end IstioModel.C09
