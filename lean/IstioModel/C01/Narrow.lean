import IstioModel.C01.Model

/-!
# C01 - the narrowing of a partial EDS push (`pilot/pkg/xds/eds.go` `buildEndpoints`)

For a request that only carries delta-aware kinds (`canSendPartialFullPushes`) the EDS generator
does not regenerate every watched cluster: a cluster is skipped - on the promise that its
ClusterLoadAssignment is unchanged - unless `affectedService`, `clusterAffectedByChangedAuthn` or
`clusterAffectedByChangedDrs` says otherwise.  This file models that decision branch for branch,
over the facts it reads of a watched cluster: the host of the cluster name, the namespace of the
service the host resolves to for this proxy (`none`: no such service), and the DestinationRules
(name, namespace) the CURRENT consolidated rule of the host (`proxy.SidecarScope.DestinationRule`)
and the PREVIOUS one (`proxy.PrevSidecarScope.DestinationRule`; empty when there is no previous
scope) are built from.  The harness observes these facts on the real scopes, without going through
eds.go, and runs the real `EdsGenerator.Generate` (stream `edsnarrow`).
The self-discovery cluster (`EnableSelfDiscovery`) is not modelled.
-/
namespace IstioModel.C01

structure ClusterFacts where
  host  : Nat
  svcNs : Option Nat
  cur   : List (Nat × Nat) := []
  prev  : List (Nat × Nat) := []
  deriving Repr, Inhabited

/-- `edsUpdatedServices.Contains(hostname)` (eds.go:201, 302): ServiceEntry / Endpoints keys, by NAME only -/
def edsUpdated (r : Req) (host : Nat) : Bool :=
  r.keys.any fun k => (k.kind == .serviceEntry || k.kind == .endpoints) && Nat.beq k.name host

/-- `changedDrs.IsEmpty()` -/
def noChangedDrs (r : Req) : Bool := !r.keys.any fun k => k.kind == .destinationRule

/-- `changedAuthnNs.IsEmpty()` -/
def noChangedAuthn (r : Req) : Bool := !r.keys.any fun k => k.kind == .peerAuthentication

/-- `slices.ContainsFunc(dr.GetFrom(), changedDrs.Contains)` -/
def drHit (r : Req) (rules : List (Nat × Nat)) : Bool :=
  rules.any fun f => r.keys.any fun k => k.kind == .destinationRule && Nat.beq k.name f.1 && Nat.beq k.ns f.2

/-- `clusterAffectedByChangedAuthn` (eds.go:335): a changed PeerAuthentication in the service's namespace or in the root namespace -/
def authnHit (root : Nat) (r : Req) (svcNs : Nat) : Bool :=
  r.keys.any fun k => k.kind == .peerAuthentication && (Nat.beq k.ns svcNs || Nat.beq k.ns root)

/-- Is the watched cluster regenerated (part of the EDS response)? `buildEndpoints` (eds.go:212-240). -/
def narrowRegenerate (root : Nat) (r : Req) (c : ClusterFacts) : Bool :=
  if !canSendPartialFullPushes root r then true
  else
    let affected := edsUpdated r c.host
    if noChangedDrs r && noChangedAuthn r && !affected then false
    else match c.svcNs with
      | none => true
      | some ns =>
        if affected then true
        else if !authnHit root r ns && !(drHit r c.cur || drHit r c.prev) then false
        else true

/-- `EdsGenerator.Generate`: nothing when `edsNeedsPush` says no, else the narrowed set. -/
def edsResponse (root : Nat) (r : Req) (p : Proxy) (cs : List ClusterFacts) : List Bool :=
  if !edsNeedsPush r p then cs.map (fun _ => false) else cs.map (narrowRegenerate root r)

end IstioModel.C01
