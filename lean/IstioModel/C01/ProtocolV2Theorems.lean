import IstioModel.C01.ProtocolV2

/-!
# C01 - eventual consistency of the push pipeline (second model), for every history

`convergence`: under `RebuildOK build rebuild` (a partial rebuild told about every changed key
equals a from-scratch build) and `SkipOK gen build dec` (the decision only skips when generation
cannot have changed for the world the proxy is at), for EVERY finite list of steps, whenever the
reached state is quiescent each connected client holds exactly `gen (build world)`: what a freshly
started control plane would generate from the final world.  History-independence of the server's
snapshot is a THEOREM here (`Inv.snapBuilt`), not a modelling assumption.

`skip_preserves`: whenever a type is skipped, what the client keeps is exactly what generating
from a from-scratch snapshot of the request's world would have produced.

`quiescent_reachable`, `drained_converges`, `nonvacuous`: the hypotheses are satisfiable and
quiescent states are reachable from everywhere.  `convergence_needs_skipOK`,
`convergence_needs_rebuildOK`: each hypothesis is needed.
-/
namespace IstioModel.C01.ProtocolV2

variable {κ π τ ρ σ R : Type} [DecidableEq κ] [DecidableEq π]

/-! ## small facts -/

theorem upd_same {α : Type} (f : π → α) (p : π) (a : α) : upd f p a p = a := by
  simp [upd]

theorem upd_other {α : Type} {f : π → α} {p p' : π} {a : α} (h : p' ≠ p) : upd f p a p' = f p' := by
  simp [upd, h]

theorem upd_self_eq {α : Type} (f : π → α) (p : π) (a : α) (h : f p = a) : upd f p a = f := by
  funext p'
  by_cases e : p' = p
  · rw [e, upd_same, h]
  · rw [upd_other e]

omit [DecidableEq κ] in
theorem covers_merge_left (q r : Req κ σ R) (k : κ) (h : q.covers k) : (q.merge r).covers k := by
  rcases h with h | h
  · left; simp [Req.merge, h]
  · right; simp [Req.merge, h]

omit [DecidableEq κ] in
theorem covers_merge_right (q r : Req κ σ R) (k : κ) (h : r.covers k) : (q.merge r).covers k := by
  rcases h with h | h
  · left; simp [Req.merge, h]
  · right; simp [Req.merge, h]

omit [DecidableEq κ] in
theorem enq_push (o : Option (Req κ σ R)) (r : Req κ σ R) : (enq o r).push = r.push := by
  cases o <;> rfl

omit [DecidableEq κ] in
theorem enq_pushS (o : Option (Req κ σ R)) (r : Req κ σ R) : (enq o r).pushS = r.pushS := by
  cases o <;> rfl

omit [DecidableEq κ] in
theorem enq_covers_right (o : Option (Req κ σ R)) (r : Req κ σ R) (k : κ) (h : r.covers k) :
    (enq o r).covers k := by
  cases o with
  | none => exact h
  | some q => exact covers_merge_right q r k h

omit [DecidableEq κ] in
theorem enq_covers_left (q r : Req κ σ R) (k : κ) (h : q.covers k) : (enq (some q) r).covers k :=
  covers_merge_left q r k h

theorem run_append (rebuild : σ → List κ → Bool → World κ → σ) (gen : σ → π → τ → ρ)
    (dec : π → τ → World κ → Req κ σ R → Bool) (s : Sys κ π τ ρ σ R) (l l' : List (Step κ π R)) :
    run rebuild gen dec s (l ++ l') = run rebuild gen dec (run rebuild gen dec s l) l' := by
  simp [run, List.foldl_append]

/-! ## the steps, one equation per guard outcome -/

section steps
variable (rebuild : σ → List κ → Bool → World κ → σ) (gen : σ → π → τ → ρ)
  (dec : π → τ → World κ → Req κ σ R → Bool) (s : Sys κ π τ ρ σ R)

theorem flush_queue_conn {p : π} (h : s.conn p = true) :
    (step rebuild gen dec s .flush).queue p = some (enq (s.queue p) (flushReq rebuild s)) := by
  simp [step, h]

theorem flush_queue_unconn {p : π} (h : s.conn p = false) :
    (step rebuild gen dec s .flush).queue p = s.queue p := by
  simp [step, h]

theorem step_connect_old {p : π} (h : s.conn p = true) :
    step rebuild gen dec s (.connect p) = s := by
  simp [step, h]

theorem step_connect_new {p : π} (h : s.conn p = false) :
    step rebuild gen dec s (.connect p) =
      { s with
        conn := upd s.conn p true, held := upd s.held p (gen s.snapS p),
        last := upd s.last p s.snap,
        queue := upd s.queue p none, infl := upd s.infl p none } := by
  simp [step, h]

theorem step_dequeue_fire {p : π} {q : Req κ σ R} (hc : s.conn p = true) (hi : s.infl p = none)
    (hq : s.queue p = some q) :
    step rebuild gen dec s (.dequeue p) =
      { s with infl := upd s.infl p (some q), queue := upd s.queue p none } := by
  simp [step, hc, hi, hq]

theorem step_dequeue_unconn {p : π} (hc : s.conn p = false) :
    step rebuild gen dec s (.dequeue p) = s := by
  simp [step, hc]

theorem step_dequeue_busy {p : π} {r : Req κ σ R} (hi : s.infl p = some r) :
    step rebuild gen dec s (.dequeue p) = s := by
  cases hc : s.conn p <;> simp [step, hc, hi]

theorem step_dequeue_empty {p : π} (hq : s.queue p = none) :
    step rebuild gen dec s (.dequeue p) = s := by
  cases hc : s.conn p <;> cases hi : s.infl p <;> simp [step, hc, hi, hq]

theorem step_pushDone_none {p : π} (hi : s.infl p = none) :
    step rebuild gen dec s (.pushDone p) = s := by
  simp [step, hi]

theorem step_pushDone_some {p : π} {r : Req κ σ R} (hi : s.infl p = some r) :
    step rebuild gen dec s (.pushDone p) =
      { s with
        infl := upd s.infl p none,
        held := upd s.held p
          (fun t =>
            if (r.forced || dec p t (s.last p) r) = true then gen r.pushS p t else s.held p t),
        last := upd s.last p r.push } := by
  simp [step, hi]

end steps

/-! ## 1. the decision / generator link, through a relevance relation -/

omit [DecidableEq κ] [DecidableEq π] in
theorem skipOK_of_frameAt (gen : σ → π → τ → ρ) (build : World κ → σ)
    (dec : π → τ → World κ → Req κ σ R → Bool) (Rel : World κ → World κ → κ → π → τ → Prop)
    (hfr : FrameAt gen build Rel) (hs : SkipSoundAt dec Rel) : SkipOK gen build dec := by
  intro p t wl r hf hd hw
  apply hfr wl r.push p t
  intro k hk
  exact hs p t wl r hf hd k (hw k hk)

/-! ## 2. the invariant -/

/-- `w` (the world a client was last synced at) is accounted for by the next request that will be
    processed for this client: the in-flight one, else the queued one, else none. -/
def pendOK (snap w : World κ) : Option (Req κ σ R) → Option (Req κ σ R) → Prop
  | some r, _ => ∀ k, w k ≠ r.push k → r.covers k
  | none, some q => ∀ k, w k ≠ snap k → q.covers k
  | none, none => w = snap

structure Inv (gen : σ → π → τ → ρ) (build : World κ → σ) (s : Sys κ π τ ρ σ R) : Prop where
  /-- the (ghost) snapshot world lags the world only on keys the debouncer will announce -/
  snapLag : ∀ k, s.snap k ≠ s.world k → debCovers s k
  /-- a queued request always carries the latest snapshot -/
  queueLatest : ∀ p q, s.queue p = some q → q.push = s.snap
  /-- what happened after an in-flight request's snapshot is announced by the request queued
      behind it ... -/
  inflQueued : ∀ p r q, s.infl p = some r → s.queue p = some q →
    ∀ k, r.push k ≠ q.push k → q.covers k
  /-- ... and if nothing is queued behind it, its snapshot is the latest -/
  inflLast : ∀ p r, s.infl p = some r → s.queue p = none → r.push = s.snap
  /-- nothing is queued or in flight for unconnected proxies -/
  unconn : ∀ p, s.conn p = false → s.queue p = none ∧ s.infl p = none
  /-- history independence: the partially rebuilt snapshot equals a from-scratch build -/
  snapBuilt : s.snapS = build s.snap
  /-- the same for the snapshot carried by every queued request ... -/
  queueBuilt : ∀ p q, s.queue p = some q → q.pushS = build q.push
  /-- ... and by every in-flight request -/
  inflBuilt : ∀ p r, s.infl p = some r → r.pushS = build r.push
  /-- what a connected client holds is a from-scratch generation for the world it was last
      synced at -/
  heldGen : ∀ p t, s.conn p = true → s.held p t = gen (build (s.last p)) p t
  /-- and the pending work for this client accounts for that world -/
  lastOK : ∀ p, s.conn p = true → pendOK s.snap (s.last p) (s.infl p) (s.queue p)

omit [DecidableEq κ] [DecidableEq π] in
theorem inv_init (gen : σ → π → τ → ρ) (build : World κ → σ) (w : World κ) (h : π → τ → ρ) :
    Inv gen build (init build w h : Sys κ π τ ρ σ R) where
  snapLag := by intro k hk; exact absurd rfl hk
  queueLatest := by intro p q hq; cases hq
  inflQueued := by intro p r q hi; cases hi
  inflLast := by intro p r hi; cases hi
  unconn := by intro p _; exact ⟨rfl, rfl⟩
  snapBuilt := rfl
  queueBuilt := by intro p q hq; cases hq
  inflBuilt := by intro p r hi; cases hi
  heldGen := by intro p t hc; cases hc
  lastOK := by intro p hc; cases hc

theorem inv_step (build : World κ → σ) (rebuild : σ → List κ → Bool → World κ → σ)
    (gen : σ → π → τ → ρ) (dec : π → τ → World κ → Req κ σ R → Bool)
    (hrb : RebuildOK build rebuild) (hok : SkipOK gen build dec)
    (s : Sys κ π τ ρ σ R) (st : Step κ π R) (h : Inv gen build s) :
    Inv gen build (step rebuild gen dec s st) := by
  cases st with
  | change k v f rs =>
    refine ⟨?_, h.queueLatest, h.inflQueued, h.inflLast, h.unconn, h.snapBuilt, h.queueBuilt,
      h.inflBuilt, h.heldGen, h.lastOK⟩
    intro k' hk'
    show (s.debForced || f) = true ∨ k' ∈ k :: s.debKeys
    by_cases e : k' = k
    · right; simp [e]
    · have hne : s.snap k' ≠ s.world k' := by
        simpa [step, World.set, e] using hk'
      rcases h.snapLag k' hne with h1 | h1
      · left; simp [h1]
      · right; exact List.mem_cons_of_mem _ h1
  | flush =>
    -- the partial rebuild was told about every key on which the old snapshot lags
    have hbuilt : rebuild s.snapS s.debKeys s.debForced s.world = build s.world := by
      rw [h.snapBuilt]
      apply hrb
      cases hf : s.debForced with
      | true => exact Or.inl rfl
      | false =>
        right
        intro k hk
        rcases h.snapLag k hk with h1 | h1
        · rw [hf] at h1; cases h1
        · exact h1
    refine ⟨?_, ?_, ?_, ?_, ?_, hbuilt, ?_, h.inflBuilt, h.heldGen, ?_⟩
    · intro k hk; exact absurd rfl hk
    · intro p q hq
      cases hc : s.conn p with
      | false =>
        rw [flush_queue_unconn rebuild gen dec s hc, (h.unconn p hc).1] at hq; cases hq
      | true =>
        rw [flush_queue_conn rebuild gen dec s hc] at hq
        cases hq
        exact enq_push _ _
    · intro p r0 q' hi hq k hk
      have hi' : s.infl p = some r0 := hi
      cases hc : s.conn p with
      | false => rw [(h.unconn p hc).2] at hi'; cases hi'
      | true =>
        rw [flush_queue_conn rebuild gen dec s hc] at hq
        cases hq
        rw [enq_push] at hk
        have hk' : r0.push k ≠ s.world k := hk
        cases hq0 : s.queue p with
        | none =>
          have e := h.inflLast p r0 hi' hq0
          apply enq_covers_right
          apply h.snapLag k
          rw [← e]; exact hk'
        | some q =>
          by_cases e : r0.push k = s.snap k
          · apply enq_covers_right
            apply h.snapLag k
            rw [← e]; exact hk'
          · apply enq_covers_left
            apply h.inflQueued p r0 q hi' hq0 k
            rw [h.queueLatest p q hq0]; exact e
    · intro p r0 hi hq
      have hi' : s.infl p = some r0 := hi
      cases hc : s.conn p with
      | false => rw [(h.unconn p hc).2] at hi'; cases hi'
      | true => rw [flush_queue_conn rebuild gen dec s hc] at hq; cases hq
    · intro p hc
      have hc' : s.conn p = false := hc
      refine ⟨?_, (h.unconn p hc').2⟩
      rw [flush_queue_unconn rebuild gen dec s hc']; exact (h.unconn p hc').1
    · intro p q hq
      cases hc : s.conn p with
      | false =>
        rw [flush_queue_unconn rebuild gen dec s hc, (h.unconn p hc).1] at hq; cases hq
      | true =>
        rw [flush_queue_conn rebuild gen dec s hc] at hq
        cases hq
        rw [enq_pushS, enq_push]
        exact hbuilt
    · intro p hc
      have hc' : s.conn p = true := hc
      have hp := h.lastOK p hc'
      rw [flush_queue_conn rebuild gen dec s hc']
      show pendOK s.world (s.last p) (s.infl p) (some (enq (s.queue p) (flushReq rebuild s)))
      cases hi : s.infl p with
      | some r0 => rw [hi] at hp; exact hp
      | none =>
        rw [hi] at hp
        cases hq0 : s.queue p with
        | none =>
          rw [hq0] at hp
          have e : s.last p = s.snap := hp
          intro k hk
          apply h.snapLag k
          rw [← e]; exact hk
        | some q =>
          rw [hq0] at hp
          have hp' : ∀ k, s.last p k ≠ s.snap k → q.covers k := hp
          intro k hk
          by_cases e : s.last p k = s.snap k
          · apply enq_covers_right
            apply h.snapLag k
            rw [← e]; exact hk
          · exact enq_covers_left q _ k (hp' k e)
  | connect p =>
    cases hc : s.conn p with
    | true => rw [step_connect_old rebuild gen dec s hc]; exact h
    | false =>
      obtain ⟨hq, hi⟩ := h.unconn p hc
      rw [step_connect_new rebuild gen dec s hc, upd_self_eq s.queue p none hq,
        upd_self_eq s.infl p none hi]
      refine ⟨h.snapLag, h.queueLatest, h.inflQueued, h.inflLast, ?_, h.snapBuilt, h.queueBuilt,
        h.inflBuilt, ?_, ?_⟩
      · intro p' hc'
        have hc'' : upd s.conn p true p' = false := hc'
        by_cases e : p' = p
        · rw [e, upd_same] at hc''; cases hc''
        · rw [upd_other e] at hc''; exact h.unconn p' hc''
      · intro p' t hc'
        have hc'' : upd s.conn p true p' = true := hc'
        show upd s.held p (gen s.snapS p) p' t = gen (build (upd s.last p s.snap p')) p' t
        by_cases e : p' = p
        · rw [e, upd_same, upd_same, h.snapBuilt]
        · rw [upd_other e] at hc''
          rw [upd_other e, upd_other e]
          exact h.heldGen p' t hc''
      · intro p' hc'
        have hc'' : upd s.conn p true p' = true := hc'
        show pendOK s.snap (upd s.last p s.snap p') (s.infl p') (s.queue p')
        by_cases e : p' = p
        · rw [e, upd_same, hi, hq]
          exact rfl
        · rw [upd_other e] at hc''
          rw [upd_other e]
          exact h.lastOK p' hc''
  | dequeue p =>
    cases hc : s.conn p with
    | false => rw [step_dequeue_unconn rebuild gen dec s hc]; exact h
    | true =>
      cases hi : s.infl p with
      | some r => rw [step_dequeue_busy rebuild gen dec s hi]; exact h
      | none =>
        cases hq : s.queue p with
        | none => rw [step_dequeue_empty rebuild gen dec s hq]; exact h
        | some q =>
          rw [step_dequeue_fire rebuild gen dec s hc hi hq]
          refine ⟨h.snapLag, ?_, ?_, ?_, ?_, h.snapBuilt, ?_, ?_, h.heldGen, ?_⟩
          · intro p' q' hq'
            have hq'' : upd s.queue p none p' = some q' := hq'
            by_cases e : p' = p
            · rw [e, upd_same] at hq''; cases hq''
            · rw [upd_other e] at hq''; exact h.queueLatest p' q' hq''
          · intro p' r q' hi' hq'
            have hi'' : upd s.infl p (some q) p' = some r := hi'
            have hq'' : upd s.queue p none p' = some q' := hq'
            by_cases e : p' = p
            · rw [e, upd_same] at hq''; cases hq''
            · rw [upd_other e] at hi'' hq''; exact h.inflQueued p' r q' hi'' hq''
          · intro p' r hi' hq'
            have hi'' : upd s.infl p (some q) p' = some r := hi'
            have hq'' : upd s.queue p none p' = none := hq'
            by_cases e : p' = p
            · rw [e, upd_same] at hi''
              cases hi''
              exact h.queueLatest p q hq
            · rw [upd_other e] at hi'' hq''; exact h.inflLast p' r hi'' hq''
          · intro p' hc'
            have hc'' : s.conn p' = false := hc'
            have e : p' ≠ p := by
              intro e; rw [e, hc] at hc''; cases hc''
            show upd s.queue p none p' = none ∧ upd s.infl p (some q) p' = none
            rw [upd_other e, upd_other e]
            exact h.unconn p' hc''
          · intro p' q' hq'
            have hq'' : upd s.queue p none p' = some q' := hq'
            by_cases e : p' = p
            · rw [e, upd_same] at hq''; cases hq''
            · rw [upd_other e] at hq''; exact h.queueBuilt p' q' hq''
          · intro p' r hi'
            have hi'' : upd s.infl p (some q) p' = some r := hi'
            by_cases e : p' = p
            · rw [e, upd_same] at hi''
              cases hi''
              exact h.queueBuilt p q hq
            · rw [upd_other e] at hi''; exact h.inflBuilt p' r hi''
          · intro p' hc'
            have hc'' : s.conn p' = true := hc'
            have hp := h.lastOK p' hc''
            show pendOK s.snap (s.last p') (upd s.infl p (some q) p') (upd s.queue p none p')
            by_cases e : p' = p
            · rw [e] at hp ⊢
              rw [upd_same, upd_same]
              rw [hi, hq] at hp
              have hp' : ∀ k, s.last p k ≠ s.snap k → q.covers k := hp
              show ∀ k, s.last p k ≠ q.push k → q.covers k
              rw [h.queueLatest p q hq]; exact hp'
            · rw [upd_other e, upd_other e]; exact hp
  | pushDone p =>
    cases hi : s.infl p with
    | none => rw [step_pushDone_none rebuild gen dec s hi]; exact h
    | some r =>
      rw [step_pushDone_some rebuild gen dec s hi]
      refine ⟨h.snapLag, h.queueLatest, ?_, ?_, ?_, h.snapBuilt, h.queueBuilt, ?_, ?_, ?_⟩
      · intro p' r' q' hi' hq'
        have hi'' : upd s.infl p none p' = some r' := hi'
        by_cases e : p' = p
        · rw [e, upd_same] at hi''; cases hi''
        · rw [upd_other e] at hi''; exact h.inflQueued p' r' q' hi'' hq'
      · intro p' r' hi' hq'
        have hi'' : upd s.infl p none p' = some r' := hi'
        by_cases e : p' = p
        · rw [e, upd_same] at hi''; cases hi''
        · rw [upd_other e] at hi''; exact h.inflLast p' r' hi'' hq'
      · intro p' hc'
        refine ⟨(h.unconn p' hc').1, ?_⟩
        show upd s.infl p none p' = none
        by_cases e : p' = p
        · rw [e, upd_same]
        · rw [upd_other e]; exact (h.unconn p' hc').2
      · intro p' r' hi'
        have hi'' : upd s.infl p none p' = some r' := hi'
        by_cases e : p' = p
        · rw [e, upd_same] at hi''; cases hi''
        · rw [upd_other e] at hi''; exact h.inflBuilt p' r' hi''
      · intro p' t hc'
        have hc'' : s.conn p' = true := hc'
        show upd s.held p
            (fun t =>
              if (r.forced || dec p t (s.last p) r) = true then gen r.pushS p t else s.held p t)
            p' t
              = gen (build (upd s.last p r.push p')) p' t
        by_cases e : p' = p
        · rw [e] at hc'' ⊢
          rw [upd_same, upd_same]
          show (if (r.forced || dec p t (s.last p) r) = true then gen r.pushS p t
            else s.held p t) = gen (build r.push) p t
          by_cases hd : (r.forced || dec p t (s.last p) r) = true
          · rw [if_pos hd, h.inflBuilt p r hi]
          · rw [if_neg hd]
            have hf : r.forced = false ∧ dec p t (s.last p) r = false := by simpa using hd
            have hp := h.lastOK p hc''
            rw [hi] at hp
            have hp' : ∀ k, s.last p k ≠ r.push k → r.covers k := hp
            rw [h.heldGen p t hc'']
            apply hok p t (s.last p) r hf.1 hf.2
            intro k hk
            rcases hp' k hk with h1 | h1
            · rw [hf.1] at h1; cases h1
            · exact h1
        · rw [upd_other e, upd_other e]
          exact h.heldGen p' t hc''
      · intro p' hc'
        have hc'' : s.conn p' = true := hc'
        show pendOK s.snap (upd s.last p r.push p') (upd s.infl p none p') (s.queue p')
        by_cases e : p' = p
        · rw [e, upd_same, upd_same]
          cases hq : s.queue p with
          | none => exact h.inflLast p r hi hq
          | some q =>
            intro k hk
            apply h.inflQueued p r q hi hq k
            rw [h.queueLatest p q hq]; exact hk
        · rw [upd_other e, upd_other e]
          exact h.lastOK p' hc''

theorem inv_run (build : World κ → σ) (rebuild : σ → List κ → Bool → World κ → σ)
    (gen : σ → π → τ → ρ) (dec : π → τ → World κ → Req κ σ R → Bool)
    (hrb : RebuildOK build rebuild) (hok : SkipOK gen build dec)
    (s : Sys κ π τ ρ σ R) (l : List (Step κ π R)) (h : Inv gen build s) :
    Inv gen build (run rebuild gen dec s l) := by
  induction l generalizing s with
  | nil => exact h
  | cons st l ih =>
    exact ih (step rebuild gen dec s st) (inv_step build rebuild gen dec hrb hok s st h)

theorem inv_reachable (build : World κ → σ) (rebuild : σ → List κ → Bool → World κ → σ)
    (gen : σ → π → τ → ρ) (dec : π → τ → World κ → Req κ σ R → Bool)
    (hrb : RebuildOK build rebuild) (hok : SkipOK gen build dec)
    (w0 : World κ) (h0 : π → τ → ρ) (l : List (Step κ π R)) :
    Inv gen build (run rebuild gen dec (init build w0 h0) l) :=
  inv_run build rebuild gen dec hrb hok _ l (inv_init gen build w0 h0)

/-! ## 3. convergence -/

omit [DecidableEq κ] [DecidableEq π] in
/-- in a quiescent state the (ghost) snapshot world is the world -/
theorem quiescent_snap (gen : σ → π → τ → ρ) (build : World κ → σ) (s : Sys κ π τ ρ σ R)
    (h : Inv gen build s) (hq : Quiescent s) : s.snap = s.world := by
  funext k
  apply Decidable.byContradiction
  intro hne
  rcases h.snapLag k hne with h1 | h1
  · rw [hq.2.1] at h1; cases h1
  · rw [hq.1] at h1; simp at h1

omit [DecidableEq κ] [DecidableEq π] in
/-- state form: invariant + quiescent = every connected client is up to date, and the published
    snapshot is what a from-scratch build of the world gives -/
theorem quiescent_up_to_date (gen : σ → π → τ → ρ) (build : World κ → σ) (s : Sys κ π τ ρ σ R)
    (h : Inv gen build s) (hq : Quiescent s) :
    s.snapS = build s.world ∧
    ∀ p t, s.conn p = true → s.held p t = gen (build s.world) p t := by
  have hs := quiescent_snap gen build s h hq
  refine ⟨by rw [h.snapBuilt, hs], ?_⟩
  intro p t hc
  have hp := h.lastOK p hc
  rw [hq.2.2.2 p, hq.2.2.1 p] at hp
  have e : s.last p = s.snap := hp
  rw [h.heldGen p t hc, e, hs]

/-- **Eventual consistency, for every history**: in every quiescent state every connected client
    holds what a freshly started control plane generates from the final world. -/
theorem convergence (build : World κ → σ) (rebuild : σ → List κ → Bool → World κ → σ)
    (gen : σ → π → τ → ρ) (dec : π → τ → World κ → Req κ σ R → Bool)
    (hrb : RebuildOK build rebuild) (hok : SkipOK gen build dec)
    (w0 : World κ) (h0 : π → τ → ρ) (l : List (Step κ π R))
    (hq : Quiescent (run rebuild gen dec (init build w0 h0) l)) :
    ∀ p t, (run rebuild gen dec (init build w0 h0) l).conn p = true →
      (run rebuild gen dec (init build w0 h0) l).held p t =
        gen (build (run rebuild gen dec (init build w0 h0) l).world) p t :=
  (quiescent_up_to_date gen build _ (inv_reachable build rebuild gen dec hrb hok w0 h0 l) hq).2

/-- the same from the frame property of the generator and soundness of the decision w.r.t. a
    relevance relation -/
theorem convergence_frame (build : World κ → σ) (rebuild : σ → List κ → Bool → World κ → σ)
    (gen : σ → π → τ → ρ) (dec : π → τ → World κ → Req κ σ R → Bool)
    (Rel : World κ → World κ → κ → π → τ → Prop)
    (hrb : RebuildOK build rebuild) (hfr : FrameAt gen build Rel) (hs : SkipSoundAt dec Rel)
    (w0 : World κ) (h0 : π → τ → ρ) (l : List (Step κ π R))
    (hq : Quiescent (run rebuild gen dec (init build w0 h0) l)) :
    ∀ p t, (run rebuild gen dec (init build w0 h0) l).conn p = true →
      (run rebuild gen dec (init build w0 h0) l).held p t =
        gen (build (run rebuild gen dec (init build w0 h0) l).world) p t :=
  convergence build rebuild gen dec hrb (skipOK_of_frameAt gen build dec Rel hfr hs) w0 h0 l hq

/-! ## 5. skipped types were unchanged -/

/-- When `pushDone p` skips type `t` (request not forced, the decision - seeing the world the
    proxy was last synced at - says skip), the client keeps what it had, and that is exactly what
    generating from a from-scratch snapshot of the request's world would have produced. -/
theorem skip_preserves (build : World κ → σ) (rebuild : σ → List κ → Bool → World κ → σ)
    (gen : σ → π → τ → ρ) (dec : π → τ → World κ → Req κ σ R → Bool)
    (hok : SkipOK gen build dec) (s : Sys κ π τ ρ σ R) (h : Inv gen build s)
    (p : π) (t : τ) (r : Req κ σ R)
    (hi : s.infl p = some r) (hc : s.conn p = true)
    (hf : r.forced = false) (hd : dec p t (s.last p) r = false) :
    (step rebuild gen dec s (.pushDone p)).held p t = s.held p t ∧
    s.held p t = gen (build r.push) p t ∧ gen (build r.push) p t = gen r.pushS p t := by
  refine ⟨?_, ?_, by rw [h.inflBuilt p r hi]⟩
  · rw [step_pushDone_some rebuild gen dec s hi]
    show upd s.held p
      (fun t =>
        if (r.forced || dec p t (s.last p) r) = true then gen r.pushS p t else s.held p t) p t = _
    rw [upd_same]
    simp [hf, hd]
  · have hp := h.lastOK p hc
    rw [hi] at hp
    have hp' : ∀ k, s.last p k ≠ r.push k → r.covers k := hp
    rw [h.heldGen p t hc]
    apply hok p t (s.last p) r hf hd
    intro k hk
    rcases hp' k hk with h1 | h1
    · rw [hf] at h1; cases h1
    · exact h1

/-- trace form: at any point of any history -/
theorem skip_preserves_run (build : World κ → σ) (rebuild : σ → List κ → Bool → World κ → σ)
    (gen : σ → π → τ → ρ) (dec : π → τ → World κ → Req κ σ R → Bool)
    (hrb : RebuildOK build rebuild) (hok : SkipOK gen build dec)
    (w0 : World κ) (h0 : π → τ → ρ) (l : List (Step κ π R))
    (p : π) (t : τ) (r : Req κ σ R)
    (hi : (run rebuild gen dec (init build w0 h0) l).infl p = some r)
    (hf : r.forced = false)
    (hd : dec p t ((run rebuild gen dec (init build w0 h0) l).last p) r = false) :
    (run rebuild gen dec (init build w0 h0) (l ++ [.pushDone p])).held p t =
      gen (build r.push) p t := by
  have hinv := inv_reachable build rebuild gen dec hrb hok w0 h0 l
  have hc : (run rebuild gen dec (init build w0 h0) l).conn p = true := by
    cases hc : (run rebuild gen dec (init build w0 h0) l).conn p with
    | true => rfl
    | false => rw [(hinv.unconn p hc).2] at hi; cases hi
  obtain ⟨h1, h2, _⟩ := skip_preserves build rebuild gen dec hok _ hinv p t r hi hc hf hd
  rw [run_append]
  show (step rebuild gen dec (run rebuild gen dec (init build w0 h0) l) (.pushDone p)).held p t = _
  rw [h1, h2]

/-! ## 6. quiescent states are reachable from everywhere -/

/-- nothing queued, nothing in flight for `p` -/
def Idle (s : Sys κ π τ ρ σ R) (p : π) : Prop := s.queue p = none ∧ s.infl p = none

section live
variable (rebuild : σ → List κ → Bool → World κ → σ) (gen : σ → π → τ → ρ)
  (dec : π → τ → World κ → Req κ σ R → Bool)

theorem pushDone_frame (s : Sys κ π τ ρ σ R) (p : π) :
    (step rebuild gen dec s (.pushDone p)).world = s.world ∧
    (step rebuild gen dec s (.pushDone p)).debKeys = s.debKeys ∧
    (step rebuild gen dec s (.pushDone p)).debForced = s.debForced ∧
    (step rebuild gen dec s (.pushDone p)).conn = s.conn ∧
    (step rebuild gen dec s (.pushDone p)).queue = s.queue ∧
    (step rebuild gen dec s (.pushDone p)).infl p = none ∧
    ∀ p', p' ≠ p → (step rebuild gen dec s (.pushDone p)).infl p' = s.infl p' := by
  cases hi : s.infl p with
  | none =>
    rw [step_pushDone_none rebuild gen dec s hi]
    exact ⟨rfl, rfl, rfl, rfl, rfl, hi, fun _ _ => rfl⟩
  | some r =>
    rw [step_pushDone_some rebuild gen dec s hi]
    exact ⟨rfl, rfl, rfl, rfl, rfl, upd_same _ _ _, fun p' hp' => upd_other hp'⟩

theorem dequeue_frame (s : Sys κ π τ ρ σ R) (p : π) :
    (step rebuild gen dec s (.dequeue p)).world = s.world ∧
    (step rebuild gen dec s (.dequeue p)).debKeys = s.debKeys ∧
    (step rebuild gen dec s (.dequeue p)).debForced = s.debForced ∧
    (step rebuild gen dec s (.dequeue p)).conn = s.conn ∧
    (∀ p', p' ≠ p → (step rebuild gen dec s (.dequeue p)).queue p' = s.queue p' ∧
      (step rebuild gen dec s (.dequeue p)).infl p' = s.infl p') ∧
    (s.conn p = true → s.infl p = none → (step rebuild gen dec s (.dequeue p)).queue p = none) ∧
    (s.conn p = false → (step rebuild gen dec s (.dequeue p)).queue p = s.queue p) := by
  cases hc : s.conn p with
  | false =>
    rw [step_dequeue_unconn rebuild gen dec s hc]
    exact ⟨rfl, rfl, rfl, rfl, fun _ _ => ⟨rfl, rfl⟩, (fun h => by cases h), fun _ => rfl⟩
  | true =>
    cases hi : s.infl p with
    | some r =>
      rw [step_dequeue_busy rebuild gen dec s hi]
      exact ⟨rfl, rfl, rfl, rfl, fun _ _ => ⟨rfl, rfl⟩, (fun _ h => by cases h),
        (fun h => by cases h)⟩
    | none =>
      cases hq : s.queue p with
      | none =>
        rw [step_dequeue_empty rebuild gen dec s hq]
        exact ⟨rfl, rfl, rfl, rfl, fun _ _ => ⟨rfl, rfl⟩, (fun _ _ => hq), (fun h => by cases h)⟩
      | some q =>
        rw [step_dequeue_fire rebuild gen dec s hc hi hq]
        exact ⟨rfl, rfl, rfl, rfl, fun p' hp' => ⟨upd_other hp', upd_other hp'⟩,
          (fun _ _ => upd_same _ _ _), (fun h => by cases h)⟩

/-- finishing the in-flight push, taking the queued request and finishing it leaves `p` idle and
    touches nothing else -/
theorem drain_one (s : Sys κ π τ ρ σ R) (p : π) (hun : s.conn p = false → Idle s p) :
    (run rebuild gen dec s [.pushDone p, .dequeue p, .pushDone p]).world = s.world ∧
    (run rebuild gen dec s [.pushDone p, .dequeue p, .pushDone p]).debKeys = s.debKeys ∧
    (run rebuild gen dec s [.pushDone p, .dequeue p, .pushDone p]).debForced = s.debForced ∧
    (run rebuild gen dec s [.pushDone p, .dequeue p, .pushDone p]).conn = s.conn ∧
    Idle (run rebuild gen dec s [.pushDone p, .dequeue p, .pushDone p]) p ∧
    ∀ p', Idle s p' → Idle (run rebuild gen dec s [.pushDone p, .dequeue p, .pushDone p]) p' := by
  have e : run rebuild gen dec s [.pushDone p, .dequeue p, .pushDone p] =
      step rebuild gen dec
        (step rebuild gen dec (step rebuild gen dec s (.pushDone p)) (.dequeue p)) (.pushDone p) :=
    rfl
  rw [e]
  obtain ⟨a0, a1, a2, a3, a4, a5, a6⟩ := pushDone_frame rebuild gen dec s p
  generalize step rebuild gen dec s (.pushDone p) = s1 at a0 a1 a2 a3 a4 a5 a6 ⊢
  obtain ⟨b0, b1, b2, b3, b4, b5, b6⟩ := dequeue_frame rebuild gen dec s1 p
  generalize step rebuild gen dec s1 (.dequeue p) = s2 at b0 b1 b2 b3 b4 b5 b6 ⊢
  obtain ⟨c0, c1, c2, c3, c4, c5, c6⟩ := pushDone_frame rebuild gen dec s2 p
  generalize step rebuild gen dec s2 (.pushDone p) = s3 at c0 c1 c2 c3 c4 c5 c6 ⊢
  have hidle : Idle s3 p := by
    refine ⟨?_, c5⟩
    rw [c4]
    cases hc : s.conn p with
    | true => exact b5 (by rw [a3]; exact hc) a5
    | false => rw [b6 (by rw [a3]; exact hc), a4]; exact (hun hc).1
  refine ⟨by rw [c0, b0, a0], by rw [c1, b1, a1], by rw [c2, b2, a2], by rw [c3, b3, a3], hidle, ?_⟩
  intro p' hp'
  by_cases e : p' = p
  · rw [e]; exact hidle
  · refine ⟨?_, ?_⟩
    · rw [c4, (b4 p' e).1, a4]; exact hp'.1
    · rw [c6 p' e, (b4 p' e).2, a6 p' e]; exact hp'.2

theorem drain_all (ps : List π) (s : Sys κ π τ ρ σ R) (hun : ∀ p, s.conn p = false → Idle s p) :
    (run rebuild gen dec s (drain ps)).world = s.world ∧
    (run rebuild gen dec s (drain ps)).debKeys = s.debKeys ∧
    (run rebuild gen dec s (drain ps)).debForced = s.debForced ∧
    (run rebuild gen dec s (drain ps)).conn = s.conn ∧
    (∀ p, Idle s p → Idle (run rebuild gen dec s (drain ps)) p) ∧
    (∀ p, p ∈ ps → Idle (run rebuild gen dec s (drain ps)) p) := by
  induction ps generalizing s with
  | nil =>
    refine ⟨rfl, rfl, rfl, rfl, fun _ h => h, ?_⟩
    intro p hp; simp at hp
  | cons p ps ih =>
    have e : run rebuild gen dec s (drain (p :: ps)) =
        run rebuild gen dec (run rebuild gen dec s [.pushDone p, .dequeue p, .pushDone p])
          (drain ps) := rfl
    rw [e]
    obtain ⟨a0, a1, a2, a3, a4, a5⟩ := drain_one rebuild gen dec s p (hun p)
    generalize run rebuild gen dec s [.pushDone p, .dequeue p, .pushDone p] = s3
      at a0 a1 a2 a3 a4 a5 ⊢
    have hun3 : ∀ p', s3.conn p' = false → Idle s3 p' := by
      intro p' hc; rw [a3] at hc; exact a5 p' (hun p' hc)
    obtain ⟨b0, b1, b2, b3, b4, b5⟩ := ih s3 hun3
    refine ⟨by rw [b0, a0], by rw [b1, a1], by rw [b2, a2], by rw [b3, a3],
      fun p' hp' => b4 p' (a5 p' hp'), ?_⟩
    intro p' hp'
    rcases List.mem_cons.mp hp' with e | e
    · rw [e]; exact b4 p a4
    · exact b5 p' e

/-- **Quiescence is reachable from every state** in which unconnected proxies have nothing
    pending (in particular from every state satisfying the invariant, hence from every reachable
    state): let the debouncer fire, then complete the pending work of every connected proxy. -/
theorem quiescent_reachable (s : Sys κ π τ ρ σ R)
    (hun : ∀ p, s.conn p = false → s.queue p = none ∧ s.infl p = none)
    (ps : List π) (hall : ∀ p, s.conn p = true → p ∈ ps) :
    Quiescent (run rebuild gen dec s (.flush :: drain ps)) ∧
    (run rebuild gen dec s (.flush :: drain ps)).world = s.world ∧
    (run rebuild gen dec s (.flush :: drain ps)).conn = s.conn := by
  have e : run rebuild gen dec s (.flush :: drain ps) =
      run rebuild gen dec (step rebuild gen dec s .flush) (drain ps) := rfl
  rw [e]
  have hun0 : ∀ p, (step rebuild gen dec s .flush).conn p = false →
      Idle (step rebuild gen dec s .flush) p := by
    intro p hc
    have hc' : s.conn p = false := hc
    refine ⟨?_, (hun p hc').2⟩
    rw [flush_queue_unconn rebuild gen dec s hc']; exact (hun p hc').1
  obtain ⟨b0, b1, b2, b3, b4, b5⟩ := drain_all rebuild gen dec ps (step rebuild gen dec s .flush) hun0
  have hidle : ∀ p, Idle (run rebuild gen dec (step rebuild gen dec s .flush) (drain ps)) p := by
    intro p
    cases hc : s.conn p with
    | true => exact b5 p (hall p hc)
    | false => exact b4 p (hun0 p hc)
  exact ⟨⟨b1, b2, fun p => (hidle p).1, fun p => (hidle p).2⟩, b0, b3⟩

/-- every history can be extended (without any further change) to one after which all connected
    clients hold what a freshly started control plane generates from the world the history ended
    in -/
theorem drained_converges (build : World κ → σ)
    (hrb : RebuildOK build rebuild) (hok : SkipOK gen build dec) (w0 : World κ) (h0 : π → τ → ρ)
    (l : List (Step κ π R)) (ps : List π)
    (hall : ∀ p, (run rebuild gen dec (init build w0 h0) l).conn p = true → p ∈ ps) :
    Quiescent (run rebuild gen dec (init build w0 h0) (l ++ .flush :: drain ps)) ∧
    ∀ p t, (run rebuild gen dec (init build w0 h0) l).conn p = true →
      (run rebuild gen dec (init build w0 h0) (l ++ .flush :: drain ps)).held p t =
        gen (build (run rebuild gen dec (init build w0 h0) l).world) p t := by
  have hinv := inv_reachable build rebuild gen dec hrb hok w0 h0 l
  obtain ⟨hq, hw, hc⟩ := quiescent_reachable rebuild gen dec _ hinv.unconn ps hall
  rw [← run_append] at hq hw hc
  refine ⟨hq, ?_⟩
  intro p t hcp
  rw [← hw]
  apply convergence build rebuild gen dec hrb hok w0 h0 _ hq p t
  rw [hc]; exact hcp

end live

/-! ## 3'. reasons travel with the request

Nothing above depends on the reasons.  The only fact about them: every announced key came with a
reason, so a request that announces a key has a reason. -/

/-- as many reasons as keys, in the debouncer and in every request -/
structure RInv (s : Sys κ π τ ρ σ R) : Prop where
  deb : s.debKeys.length = s.debReasons.length
  queue : ∀ p q, s.queue p = some q → q.keys.length = q.reasons.length
  infl : ∀ p r, s.infl p = some r → r.keys.length = r.reasons.length

omit [DecidableEq κ] [DecidableEq π] in
theorem rinv_init (build : World κ → σ) (w : World κ) (h : π → τ → ρ) :
    RInv (init build w h : Sys κ π τ ρ σ R) where
  deb := rfl
  queue := by intro p q hq; cases hq
  infl := by intro p r hi; cases hi

theorem rinv_step (rebuild : σ → List κ → Bool → World κ → σ) (gen : σ → π → τ → ρ)
    (dec : π → τ → World κ → Req κ σ R → Bool) (s : Sys κ π τ ρ σ R) (st : Step κ π R)
    (h : RInv s) : RInv (step rebuild gen dec s st) := by
  cases st with
  | change k v f rs =>
    refine ⟨?_, h.queue, h.infl⟩
    show (k :: s.debKeys).length = (s.debReasons ++ [rs]).length
    simp [h.deb]
  | flush =>
    refine ⟨rfl, ?_, h.infl⟩
    intro p q hq
    cases hc : s.conn p with
    | false => rw [flush_queue_unconn rebuild gen dec s hc] at hq; exact h.queue p q hq
    | true =>
      rw [flush_queue_conn rebuild gen dec s hc] at hq
      cases hq
      cases hq0 : s.queue p with
      | none => exact h.deb
      | some q0 =>
        show (q0.keys ++ s.debKeys).length = (q0.reasons ++ s.debReasons).length
        rw [List.length_append, List.length_append, h.queue p q0 hq0, h.deb]
  | connect p =>
    cases hc : s.conn p with
    | true => rw [step_connect_old rebuild gen dec s hc]; exact h
    | false =>
      rw [step_connect_new rebuild gen dec s hc]
      refine ⟨h.deb, ?_, ?_⟩
      · intro p' q hq
        have hq' : upd s.queue p none p' = some q := hq
        by_cases e : p' = p
        · rw [e, upd_same] at hq'; cases hq'
        · rw [upd_other e] at hq'; exact h.queue p' q hq'
      · intro p' r hi
        have hi' : upd s.infl p none p' = some r := hi
        by_cases e : p' = p
        · rw [e, upd_same] at hi'; cases hi'
        · rw [upd_other e] at hi'; exact h.infl p' r hi'
  | dequeue p =>
    cases hc : s.conn p with
    | false => rw [step_dequeue_unconn rebuild gen dec s hc]; exact h
    | true =>
      cases hi : s.infl p with
      | some r => rw [step_dequeue_busy rebuild gen dec s hi]; exact h
      | none =>
        cases hq : s.queue p with
        | none => rw [step_dequeue_empty rebuild gen dec s hq]; exact h
        | some q =>
          rw [step_dequeue_fire rebuild gen dec s hc hi hq]
          refine ⟨h.deb, ?_, ?_⟩
          · intro p' q' hq'
            have hq'' : upd s.queue p none p' = some q' := hq'
            by_cases e : p' = p
            · rw [e, upd_same] at hq''; cases hq''
            · rw [upd_other e] at hq''; exact h.queue p' q' hq''
          · intro p' r hi'
            have hi'' : upd s.infl p (some q) p' = some r := hi'
            by_cases e : p' = p
            · rw [e, upd_same] at hi''; cases hi''; exact h.queue p q hq
            · rw [upd_other e] at hi''; exact h.infl p' r hi''
  | pushDone p =>
    cases hi : s.infl p with
    | none => rw [step_pushDone_none rebuild gen dec s hi]; exact h
    | some r =>
      rw [step_pushDone_some rebuild gen dec s hi]
      refine ⟨h.deb, h.queue, ?_⟩
      intro p' r' hi'
      have hi'' : upd s.infl p none p' = some r' := hi'
      by_cases e : p' = p
      · rw [e, upd_same] at hi''; cases hi''
      · rw [upd_other e] at hi''; exact h.infl p' r' hi''

theorem rinv_reachable (build : World κ → σ) (rebuild : σ → List κ → Bool → World κ → σ)
    (gen : σ → π → τ → ρ) (dec : π → τ → World κ → Req κ σ R → Bool)
    (w0 : World κ) (h0 : π → τ → ρ) (l : List (Step κ π R)) :
    RInv (run rebuild gen dec (init build w0 h0) l) := by
  have key : ∀ (l : List (Step κ π R)) (s : Sys κ π τ ρ σ R), RInv s →
      RInv (run rebuild gen dec s l) := by
    intro l
    induction l with
    | nil => intro s h; exact h
    | cons st l ih => intro s h; exact ih _ (rinv_step rebuild gen dec s st h)
  exact key l _ (rinv_init build w0 h0)

omit [DecidableEq κ] [DecidableEq π] in
theorem nonempty_of_length_eq {α β : Type} (a : List α) (b : List β) (h : a.length = b.length)
    (ha : a ≠ []) : b ≠ [] := by
  intro hb
  rw [hb] at h
  exact ha (List.eq_nil_of_length_eq_zero h)

/-- in every reachable state, the request the debouncer would emit, every queued request and every
    in-flight request that announces a key carries a reason -/
theorem flush_reasons_nonempty (build : World κ → σ) (rebuild : σ → List κ → Bool → World κ → σ)
    (gen : σ → π → τ → ρ) (dec : π → τ → World κ → Req κ σ R → Bool)
    (w0 : World κ) (h0 : π → τ → ρ) (l : List (Step κ π R)) :
    ((flushReq rebuild (run rebuild gen dec (init build w0 h0) l)).keys ≠ [] →
      (flushReq rebuild (run rebuild gen dec (init build w0 h0) l)).reasons ≠ []) ∧
    (∀ p q, (run rebuild gen dec (init build w0 h0) l).queue p = some q →
      q.keys ≠ [] → q.reasons ≠ []) ∧
    (∀ p r, (run rebuild gen dec (init build w0 h0) l).infl p = some r →
      r.keys ≠ [] → r.reasons ≠ []) := by
  have h := rinv_reachable build rebuild gen dec w0 h0 l
  exact ⟨nonempty_of_length_eq _ _ h.deb,
    fun p q hq => nonempty_of_length_eq _ _ (h.queue p q hq),
    fun p r hi => nonempty_of_length_eq _ _ (h.infl p r hi)⟩

/-! ## 6'. a concrete instance with a real skip and a genuinely partial rebuild -/

/-- the snapshot is a copy of the world ... -/
def exBuild : World Nat → World Nat := fun w => w

/-- ... that a flush refreshes ONLY on the announced keys (everything when Forced) -/
def exRebuild : World Nat → List Nat → Bool → World Nat → World Nat :=
  fun old keys forced w => if forced = true then w else fun k => if k ∈ keys then w k else old k

/-- proxy `true` depends on keys 0 and 1, proxy `false` only on key 0 -/
def exGen : World Nat → Bool → Unit → Nat := fun w p _ => w 0 + (if p then w 1 else 0)

/-- proxy `false` is skipped unless key 0 is announced -/
def exDec : Bool → Unit → World Nat → Req Nat (World Nat) String → Bool :=
  fun p _ _ r => p || r.keys.contains 0

theorem exRebuildOK : RebuildOK exBuild exRebuild := by
  intro w0 w keys forced hpre
  cases forced with
  | true => simp [exRebuild, exBuild]
  | false =>
    have hk : ∀ k, w0 k ≠ w k → k ∈ keys := by
      rcases hpre with h1 | h1
      · cases h1
      · exact h1
    funext k
    by_cases hm : k ∈ keys
    · simp [exRebuild, exBuild, hm]
    · have e : w0 k = w k := Decidable.byContradiction (fun hne => hm (hk k hne))
      simp [exRebuild, exBuild, hm, e]

theorem exDec_skipOK : SkipOK exGen exBuild exDec := by
  intro p t wl r _ hd hw
  have hd' : p = false ∧ ¬ 0 ∈ r.keys := by simpa [exDec] using hd
  have e : wl 0 = r.push 0 := Decidable.byContradiction (fun hne => hd'.2 (hw 0 hne))
  simp [exGen, exBuild, hd'.1, e]

def exHist : List (Step Nat Bool String) :=
  [.connect true, .connect false, .change 1 5 false "config", .flush,
   .dequeue false, .pushDone false, .dequeue true, .pushDone true]

/-- Both proxies connect, key 1 changes, the flush rebuilds the snapshot on key 1 only, the push
    for proxy `false` is SKIPPED, the push for proxy `true` regenerates; the final state is
    quiescent and both hold a from-scratch generation. -/
theorem nonvacuous :
    RebuildOK exBuild exRebuild ∧
    SkipOK exGen exBuild exDec ∧
    (∃ r, (run exRebuild exGen exDec (init exBuild (fun _ => 0) (fun _ _ => 7))
        (exHist.take 5)).infl false = some r ∧
      r.forced = false ∧ r.reasons = ["config"] ∧
      exDec false ()
        ((run exRebuild exGen exDec (init exBuild (fun _ => 0) (fun _ _ => 7))
          (exHist.take 5)).last false) r = false) ∧
    Quiescent (run exRebuild exGen exDec (init exBuild (fun _ => 0) (fun _ _ => 7)) exHist) ∧
    (∀ p, (run exRebuild exGen exDec (init exBuild (fun _ => 0) (fun _ _ => 7)) exHist).conn p
      = true) ∧
    (run exRebuild exGen exDec (init exBuild (fun _ => 0) (fun _ _ => 7)) exHist).held true () = 5 ∧
    (run exRebuild exGen exDec (init exBuild (fun _ => 0) (fun _ _ => 7)) exHist).held false () = 0 ∧
    (run exRebuild exGen exDec (init exBuild (fun _ => 0) (fun _ _ => 7)) exHist).world 1 = 5 := by
  refine ⟨exRebuildOK, exDec_skipOK, ⟨_, rfl, rfl, rfl, rfl⟩, ⟨rfl, rfl, ?_, ?_⟩, ?_, ?_, ?_, rfl⟩
  · intro p; cases p <;> rfl
  · intro p; cases p <;> rfl
  · intro p; cases p <;> rfl
  · decide
  · decide

/-! ## 7. each hypothesis is needed -/

/-- a decision that always skips -/
def cexDec : Bool → Unit → World Nat → Req Nat (World Nat) String → Bool := fun _ _ _ _ => false

/-- a decision that never skips -/
def pushAlways : Bool → Unit → World Nat → Req Nat (World Nat) String → Bool :=
  fun _ _ _ _ => true

/-- a "rebuild" that never refreshes anything -/
def cexRebuild : World Nat → List Nat → Bool → World Nat → World Nat := fun old _ _ _ => old

def cexHist : List (Step Nat Bool String) :=
  [.connect true, .change 1 5 false "config", .flush, .dequeue true, .pushDone true]

theorem cexDec_not_skipOK : ¬ SkipOK exGen exBuild cexDec := by
  intro h
  have e := h true () (fun _ => 0)
    ⟨[1], false, [], World.set (fun _ => 0) 1 5, World.set (fun _ => 0) 1 5⟩ rfl rfl (by
      intro k hk
      by_cases e : k = 1
      · simp [e]
      · exact absurd (by simp [World.set, e]) hk)
  revert e
  decide

theorem cexRebuild_not_rebuildOK : ¬ RebuildOK exBuild cexRebuild := by
  intro h
  have e := h (fun _ => 0) (World.set (fun _ => 0) 1 5) [1] false (Or.inr (by
    intro k hk
    by_cases e : k = 1
    · simp [e]
    · exact absurd (by simp [World.set, e]) hk))
  have e1 := congrFun e 1
  revert e1
  decide

theorem pushAlways_skipOK : SkipOK exGen exBuild pushAlways := by
  intro p t wl r _ hd
  cases hd

/-- Without `SkipOK` the conclusion fails (the rebuild is fine): proxy `true` depends on key 1,
    the decision skips anyway, and in the final quiescent state the client is stale. -/
theorem convergence_needs_skipOK :
    ∃ (build : World Nat → World Nat) (rebuild : World Nat → List Nat → Bool → World Nat → World Nat)
      (gen : World Nat → Bool → Unit → Nat)
      (dec : Bool → Unit → World Nat → Req Nat (World Nat) String → Bool)
      (l : List (Step Nat Bool String)),
      RebuildOK build rebuild ∧ ¬ SkipOK gen build dec ∧
      Quiescent (run rebuild gen dec (init build (fun _ => 0) (fun _ _ => 7)) l) ∧
      ∃ p t, (run rebuild gen dec (init build (fun _ => 0) (fun _ _ => 7)) l).conn p = true ∧
        (run rebuild gen dec (init build (fun _ => 0) (fun _ _ => 7)) l).held p t ≠
          gen (build (run rebuild gen dec (init build (fun _ => 0) (fun _ _ => 7)) l).world) p t := by
  refine ⟨exBuild, exRebuild, exGen, cexDec, cexHist, exRebuildOK, cexDec_not_skipOK,
    ⟨rfl, rfl, ?_, ?_⟩, true, (), rfl, ?_⟩
  · intro p; cases p <;> rfl
  · intro p; cases p <;> rfl
  · decide

/-- Without `RebuildOK` the conclusion fails (the decision never skips, so `SkipOK` holds
    trivially): the flush does not refresh the snapshot, the push regenerates from the stale
    snapshot, and in the final quiescent state the client does not hold what a freshly started
    control plane would generate. -/
theorem convergence_needs_rebuildOK :
    ∃ (build : World Nat → World Nat) (rebuild : World Nat → List Nat → Bool → World Nat → World Nat)
      (gen : World Nat → Bool → Unit → Nat)
      (dec : Bool → Unit → World Nat → Req Nat (World Nat) String → Bool)
      (l : List (Step Nat Bool String)),
      ¬ RebuildOK build rebuild ∧ SkipOK gen build dec ∧
      Quiescent (run rebuild gen dec (init build (fun _ => 0) (fun _ _ => 7)) l) ∧
      ∃ p t, (run rebuild gen dec (init build (fun _ => 0) (fun _ _ => 7)) l).conn p = true ∧
        (run rebuild gen dec (init build (fun _ => 0) (fun _ _ => 7)) l).held p t ≠
          gen (build (run rebuild gen dec (init build (fun _ => 0) (fun _ _ => 7)) l).world) p t := by
  refine ⟨exBuild, cexRebuild, exGen, pushAlways, cexHist, cexRebuild_not_rebuildOK,
    pushAlways_skipOK, ⟨rfl, rfl, ?_, ?_⟩, true, (), rfl, ?_⟩
  · intro p; cases p <;> rfl
  · intro p; cases p <;> rfl
  · decide

end IstioModel.C01.ProtocolV2
