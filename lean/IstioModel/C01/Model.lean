import IstioModel.C01.Kinds

/-!
# C01 - executable model of istiod's push-decision logic (layer (a) of DESIGN.md C01)

Branch-for-branch model of

* `pilot/pkg/xds/proxy_dependencies.go`  `DefaultProxyNeedsPush`, `filterRelevantUpdates`,
  `proxyDependentOnConfig`, `UnAffectedConfigKinds`
* `pilot/pkg/model/sidecar.go`           `SidecarScope.DependsOnConfig`, `GetService`
* `pilot/pkg/xds/xdsgen.go`              `xdsNeedsPush`, `waypointNeedsPush`
* `pilot/pkg/xds/{cds,eds,lds,rds,nds,ecds,pcds,sds}.go`  the skip tables and `*NeedsPush`,
  `canSendPartialFullPushes`
* `pilot/pkg/xds/ads.go`                 `computeProxyState` (which parts of the proxy state are
  refreshed), the `pushConnection` gate in front of it, `PushOrder`/`watchedResourcesByOrder`
* `pilot/pkg/model/push_context.go`      `PushRequest.Merge` as far as the fields read above

Conventions.  Names, namespaces, hostnames, networks and addresses are opaque identifiers
(`Nat`; the harness interns the real strings).  A Go `sets.Set`/map is a `List` in *iteration
order*: every loop of the Go code over `req.ConfigsUpdated` is a recursion over that list, early
returns and mutable flags included, so that independence of Go's random map order is a theorem
(`Theorems.lean`, `*_perm`) and not an assumption.  Feature flags are modelled at their defaults
(`ScopedAddressPushes = true`, `FilterGatewayClusterConfig = false`, `JwksFetchMode = Istiod`,
`MultiRootMesh = false`); the generated table (GenTie) re-checks the resulting behaviour against
the real functions on every run.
-/
namespace IstioModel.C01

/-! ## Data -/

/-- `model.NodeType` -/
inductive PType where
  | sidecar | router | waypoint | ztunnel | agentgateway
  deriving DecidableEq, Repr, Inhabited

/-- fast Boolean equality for `decide +kernel` (see `Kinds.lean`) -/
instance : BEq PType := ⟨fun a b => Nat.beq a.ctorIdx b.ctorIdx⟩
instance : LawfulBEq PType where
  eq_of_beq {a b} h := by cases a <;> cases b <;> first | rfl | exact Bool.noConfusion h
  rfl {a} := by cases a <;> rfl

/-- `model.TriggerReason` (only membership is ever read: `ReasonStats.Has`, `len`) -/
inductive Reason where
  | endpoint | headless | config | service | proxy | global | ambient | unknown | debug | secret
  | networks | proxyRequest | dependentResource | namespace_ | cluster | tag
  deriving DecidableEq, Repr, Inhabited

instance : BEq Reason := ⟨fun a b => Nat.beq a.ctorIdx b.ctorIdx⟩
instance : LawfulBEq Reason where
  eq_of_beq {a b} h := by cases a <;> cases b <;> first | rfl | exact Bool.noConfusion h
  rfl {a} := by cases a <;> rfl

/-- `model.ConfigKey` -/
structure Key where
  kind : Kind
  name : Nat
  ns   : Nat
  deriving DecidableEq, Repr, Inhabited

instance : BEq Key := ⟨fun a b => a.kind == b.kind && Nat.beq a.name b.name && Nat.beq a.ns b.ns⟩
instance : LawfulBEq Key where
  eq_of_beq {a b} h := by
    cases a; cases b
    simp only [BEq.beq, Bool.and_eq_true] at h
    obtain ⟨⟨h1, h2⟩, h3⟩ := h
    have h1' := eq_of_beq (α := Kind) h1
    have h2' := Nat.eq_of_beq_eq_true h2
    have h3' := Nat.eq_of_beq_eq_true h3
    simp_all
  rfl {a} := by
    cases a
    simp only [BEq.beq, Bool.and_eq_true]
    exact ⟨⟨beq_self_eq_true (α := Kind) _, Nat.beq_refl _⟩, Nat.beq_refl _⟩

/-- `model.WaypointReference`: hostname based (`host ≠ none`) or address based. -/
structure WRef where
  ns   : Nat
  host : Option Nat
  net  : Nat
  addr : Nat
  deriving DecidableEq, Repr, Inhabited

/-- The part of `model.PushRequest` read by the push decisions. `keys` is `ConfigsUpdated` in the
    iteration order of the Go map. -/
structure Req where
  keys    : List Key := []
  reasons : List Reason := []
  forced  : Bool := false
  wrefs   : List WRef := []
  deriving Repr, Inhabited

/-- What the push decisions read of a `model.SidecarScope`. -/
structure Scope where
  ns       : Nat
  /-- `configDependencies` (a hash set of config keys) -/
  deps     : List Key := []
  /-- keys of `servicesByHostname` -/
  services : List Nat := []
  deriving Repr, Inhabited

/-- What `cdsNeedsPush` reads of `MergedGateway` / `PrevMergedGateway`. -/
structure MG where
  autoPassthrough : Bool := false
  sniHosts : List Nat := []
  names    : List Nat := []
  deriving Repr, Inhabited

/-- The part of `model.Proxy` read by the push decisions. -/
structure Proxy where
  ty        : PType := .sidecar
  /-- `ConfigNamespace` -/
  cfgNs     : Nat := 1
  /-- `Metadata.Namespace` -/
  metaNs    : Nat := 1
  /-- carries the label `gateway.istio.io/managed = istio.io-eastwest-controller` -/
  ewLabel   : Bool := false
  /-- `GetWatchedResource(v3.AddressType) != nil` -/
  watchAddr : Bool := false
  /-- `Metadata.EnableSelfDiscovery` -/
  selfDisc  : Bool := false
  /-- `LocalService` / `PrevLocalService` (name, namespace); `none` is the zero value -/
  localSvc     : Option (Nat × Nat) := none
  prevLocalSvc : Option (Nat × Nat) := none
  /-- `ServiceTargets`: (hostname, namespace) of each target's service -/
  targets   : List (Nat × Nat) := []
  /-- `PrevServiceTargets`: the targets before the most recent `SetServiceTargets` -/
  prevTargets : List (Nat × Nat) := []
  scope     : Option Scope := none
  prevScope : Option Scope := none
  mg        : Option MG := none
  prevMg    : Option MG := none
  /-- `Metadata.Network` and the service VIPs (waypoint key) -/
  network   : Nat := 0
  addrs     : List Nat := []
  deriving Repr, Inhabited

def Proxy.isEW (p : Proxy) : Bool := p.ty == .waypoint && p.ewLabel

def Req.has (r : Req) (x : Reason) : Bool := r.reasons.contains x
def Req.hasKind (r : Req) (k : Kind) : Bool := r.keys.any (fun c => c.kind == k)

/-! ## The hand-maintained tables -/

/-- `UnAffectedConfigKinds` (proxy_dependencies.go:27) -/
def unaffected : PType → Kind → Bool
  | .router, .sidecar => true
  | .sidecar, .gateway => true
  | _, _ => false

/-- `sidecarScopedKnownConfigTypes` (model/sidecar.go:47) -/
def sidecarScopedKnown : Kind → Bool
  | .endpoints | .serviceEntry | .virtualService | .destinationRule | .sidecar
  | .peerAuthentication => true
  | _ => false

/-- `clusterScopedKnownConfigTypes` (model/sidecar.go:58) -/
def clusterScopedKnown : Kind → Bool
  | .envoyFilter | .authorizationPolicy | .requestAuthentication | .wasmPlugin
  | .trafficExtension | .telemetry => true
  | _ => false

/-- `skippedCdsConfigs` (cds.go:34) -/
def skippedCds : Kind → Bool
  | .gateway | .workloadEntry | .workloadGroup | .authorizationPolicy | .requestAuthentication
  | .secret | .telemetry | .wasmPlugin | .trafficExtension | .proxyConfig | .dnsName | .endpoints
  | .address => true
  | _ => false

/-- `pushCdsGatewayConfig` (cds.go:53) with `JwksFetchMode = Istiod` -/
def pushCdsGateway : Kind → Bool
  | .gateway => true
  | _ => false

/-- `skippedEdsConfigs` (eds.go:103) -/
def skippedEds : Kind → Bool
  | .gateway | .virtualService | .workloadGroup | .authorizationPolicy | .requestAuthentication
  | .secret | .telemetry | .wasmPlugin | .trafficExtension | .proxyConfig | .dnsName | .sidecar
  | .address => true
  | _ => false

/-- `deltaAwareEdsConfigs` (eds.go:121) -/
def deltaAwareEds : Kind → Bool
  | .endpoints | .serviceEntry | .destinationRule | .peerAuthentication => true
  | _ => false

/-- `skippedLdsConfigs` (lds.go:35); a proxy type without an entry has the nil set. -/
def skippedLds : PType → Kind → Bool
  | .router, k =>
    (match k with
     | .workloadGroup | .workloadEntry | .secret | .proxyConfig | .dnsName | .endpoints
     | .address => true
     | _ => false)
  | .sidecar, k =>
    (match k with
     | .gateway | .workloadGroup | .workloadEntry | .secret | .proxyConfig | .dnsName | .endpoints
     | .address => true
     | _ => false)
  | .waypoint, k =>
    (match k with
     | .gateway | .workloadGroup | .workloadEntry | .secret | .proxyConfig | .dnsName | .endpoints
     | .address => true  -- Address: `features.ScopedAddressPushes`
     | _ => false)
  | _, _ => false

/-- `skippedRdsConfigs` (rds.go:32), with `ScopedAddressPushes` -/
def skippedRds : Kind → Bool
  | .workloadEntry | .workloadGroup | .authorizationPolicy | .requestAuthentication
  | .peerAuthentication | .secret | .wasmPlugin | .trafficExtension | .telemetry | .proxyConfig
  | .dnsName | .endpoints | .address => true
  | _ => false

/-- `skippedNdsConfigs` (nds.go:41), with `ScopedAddressPushes` -/
def skippedNds : Kind → Bool
  | .gateway | .virtualService | .destinationRule | .secret | .telemetry | .envoyFilter
  | .workloadEntry | .workloadGroup | .authorizationPolicy | .requestAuthentication
  | .peerAuthentication | .wasmPlugin | .trafficExtension | .proxyConfig | .meshConfig
  | .endpoints | .address => true
  | _ => false

/-! ## Per-proxy relevance filter (proxy_dependencies.go) -/

/-- `SidecarScope.DependsOnConfig` (model/sidecar.go:674); `none` is the nil scope. -/
def dependsOnConfig (sc : Option Scope) (k : Key) (root : Nat) : Bool :=
  match sc with
  | none => true
  | some s =>
    if clusterScopedKnown k.kind then Nat.beq k.ns root || Nat.beq k.ns s.ns
    else if !sidecarScopedKnown k.kind then true
    else s.deps.contains k

/-- `SidecarScope.GetService(hostname) != nil` -/
def hasService (sc : Option Scope) (h : Nat) : Bool :=
  match sc with
  | none => false
  | some s => s.services.any (Nat.beq h)

/-- `proxyDependentOnConfig` (proxy_dependencies.go:86) -/
def proxyDependentOnConfig (p : Proxy) (k : Key) (root : Nat) : Bool :=
  if unaffected p.ty k.kind then false
  else if k.kind == .address then p.watchAddr
  else match p.ty with
    | .sidecar =>
      if dependsOnConfig p.scope k root then true
      else if p.prevScope.isSome && dependsOnConfig p.prevScope k root then true
      else false
    | .router =>
      if k.kind == .serviceEntry then
        -- FilterGatewayClusterConfig is off
        if !hasService p.scope k.name && !hasService p.prevScope k.name then false else true
      else true
    | _ => true

/-- `config.Name == svc.Name && config.Namespace == svc.Namespace` (`none` = the zero value, which
    no key matches: names are never empty) -/
def isSvc (svc : Option (Nat × Nat)) (k : Key) : Bool :=
  match svc with
  | some s => Nat.beq k.name s.1 && Nat.beq k.ns s.2
  | none => false

/-- the self-discovery clause of `filterRelevantUpdates` (proxy_dependencies.go:51) -/
def selfDiscoveryKeeps (p : Proxy) (k : Key) : Bool :=
  p.selfDisc && (k.kind == .serviceEntry || k.kind == .endpoints) &&
    (isSvc p.prevLocalSvc k || isSvc p.localSvc k)

/-- the first loop of `filterRelevantUpdates`: is this key kept? -/
def keyRelevant (p : Proxy) (root : Nat) (k : Key) : Bool :=
  proxyDependentOnConfig p k root || selfDiscoveryKeeps p k

/-- the second loop: keys of the proxy's own services - current and previous service targets -
    that are in `ConfigsUpdated` -/
def targetKeys (p : Proxy) (keys : List Key) : List Key :=
  ((p.targets ++ p.prevTargets).map (fun t => ({ kind := .serviceEntry, name := t.1, ns := t.2 } : Key))).filter
    (fun k => keys.contains k)

/-- The second loop before the repair (`fix:` commit in /repo, see notes/C01.md): only the current
    service targets, which `computeProxyState` has just refreshed. Kept for `*_witness_unfixed`. -/
def targetKeysOld (p : Proxy) (keys : List Key) : List Key :=
  (p.targets.map (fun t => ({ kind := .serviceEntry, name := t.1, ns := t.2 } : Key))).filter
    (fun k => keys.contains k)

/-- `filterRelevantUpdates`: the `ConfigsUpdated` of the returned request. -/
def filterRelevantUpdates (p : Proxy) (root : Nat) (keys : List Key) : List Key :=
  if keys.isEmpty then keys
  else
    let relevant := keys.filter (keyRelevant p root)
    let changed := keys.any (fun k => !keyRelevant p root k)
    if changed then relevant ++ targetKeys p keys else keys

/-- `DefaultProxyNeedsPush`: (ConfigsUpdated of the returned request, needs push). -/
def proxyNeedsPush (p : Proxy) (root : Nat) (r : Req) : List Key × Bool :=
  if r.forced then (r.keys, true)
  else if p.ty == .waypoint || p.ty == .ztunnel || p.ty == .agentgateway then (r.keys, true)
  else
    let ks := filterRelevantUpdates p root r.keys
    (ks, !ks.isEmpty)

/-! ## Per-type decisions -/

/-- `xdsNeedsPush` (xdsgen.go:208) for a non-nil request: `some b` = definitive answer `b`. -/
def xdsNeedsPush (r : Req) (p : Proxy) : Option Bool :=
  if p.ty == .ztunnel then some false
  else if r.forced then some true
  else none

/-- `xdsNeedsPush` for `req == nil`. -/
def xdsNeedsPushNil (p : Proxy) : Bool := !(p.ty == .ztunnel)

/-- `WaypointReference.Matches(WaypointKeyForProxy(proxy))` (model/service.go) -/
def WRef.matchesProxy (ref : WRef) (p : Proxy) : Bool :=
  match ref.host with
  | some h => Nat.beq ref.ns p.cfgNs && p.targets.any (fun t => Nat.beq t.1 h)
  | none => Nat.beq ref.net p.network && p.addrs.any (Nat.beq ref.addr)

/-- `waypointNeedsPush` (xdsgen.go:231), `ScopedAddressPushes` on. -/
def waypointNeedsPush (r : Req) (p : Proxy) : Bool :=
  if !r.hasKind .address then false
  else if p.isEW then true
  else r.wrefs.any (fun ref => ref.matchesProxy p)

/-- `headlessEndpointOnly` (xdsgen.go): the request was triggered exclusively by headless endpoint
    updates - `len(req.Reason) == 1 && req.Reason.Has(HeadlessEndpointUpdate)`; `Reason` is a map, so
    its length is the number of distinct reasons. This is `headlessOnly` as initialised by cds/rds
    (lds adds `proxy.Type == Router`). -/
def headlessInit (r : Req) : Bool := !r.reasons.isEmpty && r.reasons.all (fun x => x == .headless)

/-- The initialisation before the repair (`fix:` commit in /repo, see notes/C01.md):
    `Has(HeadlessEndpointUpdate) && !Has(ServiceUpdate)`. Kept for `*_witness_unfixed`. -/
def headlessInitOld (r : Req) : Bool := r.has .headless && !r.has .service

/-- accumulator of the loop of `cdsNeedsPush` -/
structure CdsAcc where
  headlessOnly : Bool
  relevant     : List Key := []
  filtered     : Bool := false
  checkGateway : Bool := false

/-- one iteration of the loop of `cdsNeedsPush` (cds.go:86-108) -/
def cdsStep (p : Proxy) (a : CdsAcc) (k : Key) : CdsAcc :=
  let a := if k.kind != .serviceEntry then { a with headlessOnly := false } else a
  let a := if p.ty == .router && k.kind == .gateway then { a with checkGateway := true } else a
  if p.ty == .router && pushCdsGateway k.kind then { a with relevant := k :: a.relevant }
  else if !skippedCds k.kind then { a with relevant := k :: a.relevant }
  else { a with filtered := true }

/-- the gateway comparison of `cdsNeedsPush` (cds.go:117-122); the accessors are nil-safe -/
def gatewayChanged (p : Proxy) : Bool :=
  let curAp := match p.mg with | some g => g.autoPassthrough | none => false
  let prevAp := match p.prevMg with | some g => g.autoPassthrough | none => false
  let curHosts := match p.mg with | some g => g.sniHosts | none => []
  let prevHosts := match p.prevMg with | some g => g.sniHosts | none => []
  let curNames := match p.mg with | some g => g.names | none => []
  let prevNames := match p.prevMg with | some g => g.names | none => []
  let mem (l : List Nat) (x : Nat) : Bool := l.any (Nat.beq x)
  let setEq (a b : List Nat) : Bool := a.all (mem b) && b.all (mem a)
  -- slices.EqualUnordered(s1, s2): same length and every element of s2 occurs in s1
  let msEq (a b : List Nat) : Bool := Nat.beq a.length b.length && b.all (mem a)
  (curAp != prevAp) || !setEq curHosts prevHosts || p.mg.isNone || !msEq curNames prevNames

/-- `cdsNeedsPush` (cds.go:66): (ConfigsUpdated of the returned request, needs push). -/
def cdsNeedsPush (r : Req) (p : Proxy) : List Key × Bool :=
  match xdsNeedsPush r p with
  | some b => (r.keys, b)
  | none =>
    if p.ty == .waypoint && waypointNeedsPush r p then (r.keys, true)
    else
      let a := r.keys.foldl (cdsStep p) { headlessOnly := headlessInit r }
      if a.headlessOnly then (r.keys, false)
      else
        let needsPush := a.checkGateway && gatewayChanged p
        let ks := if a.filtered then a.relevant else r.keys
        (ks, needsPush || !ks.isEmpty)

/-- `edsNeedsPush` (eds.go:128) -/
def edsNeedsPush (r : Req) (p : Proxy) : Bool :=
  match xdsNeedsPush r p with
  | some b => b
  | none =>
    if p.ty == .waypoint && waypointNeedsPush r p then true
    else r.keys.any (fun k => !skippedEds k.kind)

/-- the loop of `canSendPartialFullPushes`, with its early returns -/
def partialLoop (root : Nat) : List Key → Bool
  | [] => true
  | k :: ks =>
    if !deltaAwareEds k.kind then false
    else if k.kind == .peerAuthentication && Nat.beq k.ns root then false
    else partialLoop root ks

/-- `canSendPartialFullPushes` (eds.go:165) -/
def canSendPartialFullPushes (root : Nat) (r : Req) : Bool :=
  if r.forced then false else partialLoop root r.keys

/-- the loop of `ldsNeedsPush` (lds.go:88-108): `ho` = headlessOnly, `saw` = sawServiceEntry -/
def ldsLoop (p : Proxy) (root : Nat) : Bool → Bool → List Key → Bool
  | ho, saw, [] => saw && !ho
  | ho, saw, k :: ks =>
    if ho && k.kind == .serviceEntry then ldsLoop p root true true ks
    else if !skippedLds p.ty k.kind then
      if k.kind == .peerAuthentication && !Nat.beq k.ns p.cfgNs && !Nat.beq k.ns root then ldsLoop p root false saw ks
      else true
    else ldsLoop p root false saw ks

/-- `ldsNeedsPush` (lds.go:74) -/
def ldsNeedsPush (root : Nat) (r : Req) (p : Proxy) : Bool :=
  match xdsNeedsPush r p with
  | some b => b
  | none =>
    if p.ty == .waypoint && waypointNeedsPush r p then true
    else ldsLoop p root (p.ty == .router && headlessInit r) false r.keys

/-- the loop of `rdsNeedsPush` (rds.go:70-91) -/
def rdsLoop (p : Proxy) : Bool → Bool → List Key → Bool
  | ho, saw, [] => saw && !ho
  | ho, saw, k :: ks =>
    if ho && k.kind == .serviceEntry then rdsLoop p true true ks
    else if !skippedRds k.kind then
      if k.kind == .gateway then
        if p.ty == .router || p.isEW then true else rdsLoop p false saw ks
      else true
    else rdsLoop p false saw ks

/-- `rdsNeedsPush` (rds.go:55) -/
def rdsNeedsPush (r : Req) (p : Proxy) : Bool :=
  match xdsNeedsPush r p with
  | some b => b
  | none =>
    if p.ty == .waypoint && waypointNeedsPush r p then true
    else rdsLoop p (headlessInit r) false r.keys

/-- `ndsNeedsPush` (nds.go:68) -/
def ndsNeedsPush (r : Req) (p : Proxy) : Bool :=
  match xdsNeedsPush r p with
  | some b => b
  | none => r.keys.any (fun k => !skippedNds k.kind)

/-- `ecdsNeedsPush` (ecds.go:41) -/
def ecdsNeedsPush (r : Req) (p : Proxy) : Bool :=
  match xdsNeedsPush r p with
  | some b => b
  | none => r.keys.any (fun k => k.kind == .envoyFilter || k.kind == .trafficExtension || k.kind == .secret)

/-- `pcdsNeedsPush` (pcds.go:35): `MultiRootMesh` is off. -/
def pcdsNeedsPush (_ : Req) : Bool := false

/-- `sdsNeedsPush` (sds.go:74); note: no proxy-type test, no `xdsNeedsPush`. -/
def sdsNeedsPush (r : Req) : Bool :=
  r.forced || r.keys.any (fun k => k.kind == .secret || k.kind == .configMap)

/-! ## xDS types, the generator's own skip decision, push order -/

inductive XType where
  | cds | eds | lds | rds | nds | ecds | sds | pcds
  deriving DecidableEq, Repr, Inhabited

def XType.all : List XType := [.cds, .eds, .lds, .rds, .nds, .ecds, .sds, .pcds]

/-- Does generator `t` regenerate for proxy `p` on request `r` (its own `*NeedsPush`)? -/
def typeNeedsPush (root : Nat) (t : XType) (r : Req) (p : Proxy) : Bool :=
  match t with
  | .cds => (cdsNeedsPush r p).2
  | .eds => edsNeedsPush r p
  | .lds => ldsNeedsPush root r p
  | .rds => rdsNeedsPush r p
  | .nds => ndsNeedsPush r p
  | .ecds => ecdsNeedsPush r p
  | .sds => sdsNeedsPush r
  | .pcds => pcdsNeedsPush r

/-- `pushConnection` after the proxy state refresh: the proxy-level filter, then every generator
    decides on the *filtered* request. -/
def pushDecision (root : Nat) (t : XType) (r : Req) (p : Proxy) : Bool :=
  let f := proxyNeedsPush p root r
  f.2 && typeNeedsPush root t { r with keys := f.1 } p

/-- `PushOrder` (ads.go:505), as short type names -/
def pushOrder : List String := ["CDS", "EDS", "LDS", "RDS", "SDS", "WDS", "WL", "WAUTH"]

/-- `watchedResourcesByOrder` (ads.go:620): the known types in `PushOrder` order, then the other
    watched types (in Go: map order; here: the given order - the driver prints them sorted). -/
def watchedByOrder (watched : List String) : List String × List String :=
  (pushOrder.filter watched.contains, watched.filter (fun t => !pushOrder.contains t))

/-! ## Proxy state refresh (ads.go `computeProxyState`, and the gate in `pushConnection`) -/

/-- which parts of the per-proxy state `computeProxyState` recomputes -/
structure Refresh where
  labels  : Bool := false
  targets : Bool := false
  scope   : Bool := false
  gateway : Bool := false
  deriving DecidableEq, Repr, Inhabited

/-- the `for conf := range request.ConfigsUpdated` loop (ads.go:424-438) with its `break` -/
def stateLoop : Bool → Bool → List Key → Bool × Bool
  | sc, gw, [] => (sc, gw)
  | sc, gw, k :: ks =>
    let sc' := sc || (match k.kind with
      | .serviceEntry | .destinationRule | .virtualService | .peerAuthentication | .sidecar
      | .ingress => true
      | _ => false)
    let gw' := gw || (match k.kind with
      | .gateway | .ingress => true
      | _ => false)
    if sc' && gw' then (sc', gw') else stateLoop sc' gw' ks

/-- `Proxy.ShouldUpdateServiceTargets` (model/context.go:609) -/
def shouldUpdateServiceTargets (p : Proxy) (keys : List Key) : Bool :=
  keys.any (fun k => k.kind == .serviceEntry && Nat.beq k.ns p.metaNs)

/-- `computeProxyState` (ads.go:384); `none` is the nil request of the initial connection. -/
def computeProxyState (p : Proxy) (r : Option Req) : Refresh :=
  match r with
  | none => { labels := true, targets := true, scope := true,
              gateway := p.ty == .router || p.isEW }
  | some r =>
    let targets := r.forced || shouldUpdateServiceTargets p r.keys
    let l := stateLoop r.forced targets r.keys
    { labels := r.has .proxy, targets := targets, scope := l.1,
      gateway := l.2 && (p.ty == .router || p.isEW) }

/-- `model.OnlyHasConfigsOfKind(keys, kind.Endpoints)` -/
def onlyEndpoints (keys : List Key) : Bool :=
  !keys.isEmpty && keys.all (fun k => k.kind == .endpoints)

/-- the state refresh as `pushConnection` performs it (ads.go:481) -/
def pushConnectionRefresh (p : Proxy) (r : Req) : Refresh :=
  if onlyEndpoints r.keys then {} else computeProxyState p (some r)

/-! ## Request merging (the fields above; `PushRequest.Merge`/`CopyMerge`, see C02 for the rest) -/

def Req.merge (a b : Req) : Req :=
  { keys := a.keys ++ b.keys.filter (fun k => !a.keys.contains k),
    reasons := a.reasons ++ b.reasons,
    forced := a.forced || b.forced,
    wrefs := a.wrefs ++ b.wrefs }

end IstioModel.C01
