import IstioModel.C01.Theorems
import IstioModel.C01.ProtocolTheorems
import IstioModel.C01.ProtocolV2On
import IstioModel.C01.Connection

/-!
# C01 - the modelled push decision inside the convergence protocol

`ProtocolTheorems.convergence` is conditional on `SkipOK gen dec` for an abstract decision `dec`.
Here `dec` is instantiated with the MODELLED decision `pushDecision` (per-proxy relevance filter
followed by the generator's own `*NeedsPush`, tied to the real functions by the generated table
and the `needs` stream), applied to arbitrary merged multi-key requests.  The monotonicity theorem
(`pushDecision_mono`: a request is never weaker than any of its keys alone) reduces the
hypothesis about multi-key requests to a hypothesis about SINGLE-key requests - exactly the rows
of the generated decision table:

  if every single-key skip decision is sound for the generator (changing a key whose single-key
  request would be skipped does not change what is generated), then for every history, batching
  and interleaving every quiescent state has every client up to date.

Limits, said plainly: in `convergence_model_static_view` a proxy's view (`view p`: type, namespace,
sidecar scope, previous scope, service targets ...) is FIXED and every request carries the same
reasons, so histories in which the scope or the service targets of a proxy change (every service,
Sidecar, VirtualService or DestinationRule create / delete that concerns it) and merged reasons
are outside that theorem; its hypothesis `Frame gen SingleKeyRel` is known to be false for the real
generators on exactly those histories (recorded findings).  The second half of this file
instantiates the stronger protocol of `ProtocolV2.lean` - snapshot rebuilt partially
(`RebuildOK`), decision reading the world the proxy was last synced at and the snapshot being
pushed (current and previous scope), reasons travelling with the merged request - with the
modelled decision over views that DEPEND on the configuration: `convergence_model`.  There the
hypotheses are about the real generators, the real partial rebuild and the real scope computation;
they are validated by the `converge`, `rebuild` and `edsnarrow` streams, not proved.
-/
namespace IstioModel.C01
open Protocol

variable {π ρ : Type} [DecidableEq π]

/-- the model request of a protocol request (reasons are a fixed parameter: they only matter
    through `headlessInit`, and the protocol's requests carry no reasons) -/
def reqOf (rs : List Reason) (r : Protocol.Req Key) : Req :=
  { keys := r.keys, reasons := rs, forced := false }

/-- the modelled decision as a protocol decision -/
def modelDec (root : Nat) (rs : List Reason) (view : π → Proxy) : π → XType → Protocol.Req Key → Bool :=
  fun p t r => pushDecision root t (reqOf rs r) (view p)

/-- relevance of a key = its single-key request is pushed (a row of the decision table) -/
def SingleKeyRel (root : Nat) (rs : List Reason) (view : π → Proxy) :
    World Key → Key → π → XType → Prop :=
  fun _ k p t => pushDecision root t { keys := [k], reasons := rs, forced := false } (view p) = true

omit [DecidableEq π] in
/-- The modelled decision only skips when every announced key would be skipped on its own. -/
theorem modelDec_skipSound (root : Nat) (rs : List Reason) (view : π → Proxy) :
    SkipSound (modelDec root rs view) (SingleKeyRel root rs view) := by
  intro p t r _ hdec k hk _ hrel
  have hmono := pushDecision_mono root t { keys := [k], reasons := rs, forced := false } (reqOf rs r) (view p)
    (by intro k' hk'; simp only [List.mem_singleton] at hk'; subst hk'; exact hk)
    rfl (by intro w hw; exact hw) (by intro h; exact h) hrel
  have : modelDec root rs view p t r = true := hmono
  rw [hdec] at this
  exact Bool.noConfusion this

/-- **`convergence_model_static_view`.** For proxies whose view never changes: with the modelled push decision on arbitrary merged requests: if the
    generator satisfies the frame hypothesis with respect to the SINGLE-key decisions, every
    quiescent state reached by any finite history under any batching has every connected client
    holding exactly what a fresh generation from the final configuration produces. -/
theorem convergence_model_static_view (root : Nat) (rs : List Reason) (view : π → Proxy)
    (gen : World Key → π → XType → ρ)
    (hframe : Frame gen (SingleKeyRel root rs view))
    (w0 : World Key) (h0 : π → XType → ρ) (l : List (Step Key π))
    (hq : Quiescent (run gen (modelDec root rs view) (init w0 h0) l)) :
    ∀ p t, (run gen (modelDec root rs view) (init w0 h0) l).conn p = true →
      (run gen (modelDec root rs view) (init w0 h0) l).held p t =
        gen (run gen (modelDec root rs view) (init w0 h0) l).world p t :=
  convergence_frame gen (modelDec root rs view) (SingleKeyRel root rs view) hframe
    (modelDec_skipSound root rs view) w0 h0 l hq

/-! ## The modelled decision over configuration-dependent views (ProtocolV2) -/

section V2
open ProtocolV2

variable {σ : Type}

/-- What a proxy looks like when a request is decided: `cur` is its view of the snapshot being
    pushed, `prev` its view of the world it was last synced at; the previous scope and the previous
    service targets are the current ones of that earlier view (`SetSidecarScope`,
    `SetServiceTargets`). -/
def decidingProxy (cur prev : Proxy) : Proxy :=
  { cur with prevScope := prev.scope, prevTargets := prev.targets, prevMg := prev.mg,
             prevLocalSvc := prev.localSvc }

/-- For a proxy that is not a waypoint the decision does not read the waypoint references at all
    (they are only consulted by `waypointNeedsPush`, behind a test of the proxy type). -/
theorem pushDecision_wrefs_irrelevant (root : Nat) (t : XType) (r : Req) (p : Proxy) (ws : List WRef)
    (h : (p.ty == .waypoint) = false) :
    pushDecision root t { r with wrefs := ws } p = pushDecision root t r p := by
  cases t <;>
    simp [pushDecision, typeNeedsPush, proxyNeedsPush, cdsNeedsPush, edsNeedsPush, ldsNeedsPush,
      rdsNeedsPush, ndsNeedsPush, ecdsNeedsPush, sdsNeedsPush, pcdsNeedsPush, xdsNeedsPush, h,
      headlessInit]

/-- The model request of a V2 protocol request: keys and reasons as merged by debouncer and queue,
    and the waypoint references as a FUNCTION OF THE ANNOUNCED KEYS: `att k` are the references the
    ambient index attaches to an event of key `k` (the waypoints the address is attached to;
    `PushRequest.Merge` unions them like the keys). `att` is static: attachment changes of an address
    during the history are outside the theorems below (or take the union over the history). With
    `att := fun _ => []` the frame hypothesis is unsatisfiable for waypoint proxies
    (`InstantiationExample.wp_frame_needs_wrefs`). -/
def reqOfV2 (att : Key → List WRef) (r : ProtocolV2.Req Key σ Reason) : Req :=
  { keys := r.keys, reasons := r.reasons, forced := false, wrefs := r.keys.flatMap att }

/-- the modelled decision as a V2 protocol decision: it reads the view of the world the proxy was
    last synced at (`wl`) and of the snapshot being pushed (`r.push`) -/
def modelDecV2 (root : Nat) (att : Key → List WRef) (view : ProtocolV2.World Key → π → Proxy) :
    π → XType → ProtocolV2.World Key → ProtocolV2.Req Key σ Reason → Bool :=
  fun p t wl r => pushDecision root t (reqOfV2 att r) (decidingProxy (view r.push p) (view wl p))

/-- Reasons of ordinary changes. A change announced with `HeadlessEndpointUpdate` is a MARKER (only the
    endpoints of a headless service moved; the generators' own semantics of that marker is in
    `Spec.Affects`, rows `rc = .headless`); it does not say "the content of the ServiceEntry key
    changed", so histories with marker events are outside `convergence_model`. Without this
    restriction the frame hypothesis would be unsatisfiable: a `[.headless]` ServiceEntry request
    skips CDS, which would force cluster generation to ignore services altogether. -/
def OrdinaryReason (x : Reason) : Prop := x ≠ .headless

/-- relevance of a key between two worlds = its single-key request, with the reasons of the merged
    request, is pushed for the proxy as it looks between those worlds -/
def SingleKeyRelAt (root : Nat) (att : Key → List WRef) (rs : List Reason)
    (view : ProtocolV2.World Key → π → Proxy) :
    ProtocolV2.World Key → ProtocolV2.World Key → Key → π → XType → Prop :=
  fun wl w' k p t =>
    pushDecision root t { keys := [k], reasons := rs, forced := false, wrefs := att k }
      (decidingProxy (view w' p) (view wl p)) = true

/-- The frame hypothesis for the modelled decision over dynamic views, for requests of ordinary
    reasons: whenever every key on which two worlds differ would - alone, with the request's reasons,
    for the proxy as it looks between the two worlds - be skipped, generation from the two
    (from-scratch) snapshots agrees.  A statement about the REAL generators, scope computation and
    skip tables together; it is what the `converge` stream validates (and it fails on the recorded
    findings). `InstantiationExample.lean` shows it is satisfiable together with the other hypotheses. -/
def ModelFrame (root : Nat) (att : Key → List WRef) (view : ProtocolV2.World Key → π → Proxy)
    (gen : σ → π → XType → ρ) (build : ProtocolV2.World Key → σ) : Prop :=
  ∀ (rs : List Reason), (∀ x ∈ rs, OrdinaryReason x) → ∀ (wl w' : ProtocolV2.World Key) (p : π) (t : XType),
    (∀ k, wl k ≠ w' k → ¬ SingleKeyRelAt root att rs view wl w' k p t) → gen (build wl) p t = gen (build w') p t

omit [DecidableEq π] in
/-- Under `ModelFrame` the modelled decision satisfies `SkipOKOn OrdinaryReason`: by monotonicity a
    skipped merged request skips each of its keys alone (same reasons, same proxy), and the keys on
    which the two worlds differ are all announced. -/
theorem modelDecV2_skipOKOn (root : Nat) (att : Key → List WRef) (view : ProtocolV2.World Key → π → Proxy)
    (gen : σ → π → XType → ρ) (build : ProtocolV2.World Key → σ)
    (hframe : ModelFrame root att view gen build) :
    ProtocolV2.SkipOKOn OrdinaryReason gen build (modelDecV2 (σ := σ) root att view) := by
  intro p t wl r hrs _ hdec hcov
  apply hframe r.reasons hrs wl r.push p t
  intro k hk hrel
  have hmem : k ∈ r.keys := hcov k hk
  have hmono := pushDecision_mono root t
    { keys := [k], reasons := r.reasons, forced := false, wrefs := att k } (reqOfV2 att r)
    (decidingProxy (view r.push p) (view wl p))
    (by intro k' hk'; simp only [List.mem_singleton] at hk'; subst hk'; exact hmem)
    rfl (by intro w hw; exact List.mem_flatMap.mpr ⟨k, hmem, hw⟩) (by intro h; exact h) hrel
  have : modelDecV2 (σ := σ) root att view p t wl r = true := hmono
  rw [hdec] at this
  exact Bool.noConfusion this

/-- **`convergence_model`.** The modelled push decision on merged multi-key requests with merged
    reasons, for proxies whose scope, targets and gateways are recomputed from the configuration
    (current and previous view), over a snapshot that is rebuilt partially: if the partial rebuild
    equals a from-scratch build whenever it is told every changed key (`RebuildOK`) and the
    generators satisfy `ModelFrame`, then after every finite history of ORDINARY changes (no
    headless-endpoint marker events), under every batching and interleaving, every connected client
    in every quiescent state holds exactly what a freshly started control plane generates from the
    final configuration. Waypoint proxies are covered through `att` (the references an address event
    carries, a static function of the key). (Limits: `change` is atomic - see `ProtocolV3.store_ahead_breaks_convergence`;
    the scope is taken as always refreshed - see `convergence_model_refresh` below.) -/
theorem convergence_model (root : Nat) (att : Key → List WRef) (view : ProtocolV2.World Key → π → Proxy)
    (gen : σ → π → XType → ρ) (build : ProtocolV2.World Key → σ)
    (rebuild : σ → List Key → Bool → ProtocolV2.World Key → σ)
    (hrb : ProtocolV2.RebuildOK build rebuild) (hframe : ModelFrame root att view gen build)
    (w0 : ProtocolV2.World Key) (h0 : π → XType → ρ) (l : List (ProtocolV2.Step Key π Reason))
    (hl : ProtocolV2.StepsCarry OrdinaryReason l)
    (hq : ProtocolV2.Quiescent (ProtocolV2.run rebuild gen (modelDecV2 (σ := σ) root att view) (ProtocolV2.init build w0 h0) l)) :
    ∀ p t, (ProtocolV2.run rebuild gen (modelDecV2 (σ := σ) root att view) (ProtocolV2.init build w0 h0) l).conn p = true →
      (ProtocolV2.run rebuild gen (modelDecV2 (σ := σ) root att view) (ProtocolV2.init build w0 h0) l).held p t =
        gen (build (ProtocolV2.run rebuild gen (modelDecV2 (σ := σ) root att view) (ProtocolV2.init build w0 h0) l).world) p t :=
  ProtocolV2.convergence_on OrdinaryReason build rebuild gen (modelDecV2 (σ := σ) root att view) hrb
    (modelDecV2_skipOKOn root att view gen build hframe) w0 h0 l hl hq

/-! ### The proxy state is only refreshed when `computeProxyState` says so -/

/-- What `computeProxyState` leaves in the CURRENT fields of a proxy for request `r`: the parts it
    refreshes come from the view of the snapshot being pushed (`cur`), the parts it does not refresh
    stay as they were at the last sync (`prev`). The decision which parts to refresh is the modelled
    `pushConnectionRefresh` (tied to the real code by the generated table, section S). -/
def refreshedView (r : Req) (cur prev : Proxy) : Proxy :=
  let f := pushConnectionRefresh prev r
  { cur with
      scope := if f.scope then cur.scope else prev.scope,
      targets := if f.targets then cur.targets else prev.targets,
      localSvc := if f.targets then cur.localSvc else prev.localSvc,
      mg := if f.gateway then cur.mg else prev.mg }

/-- "Not refreshed => unchanged": when `computeProxyState` does not refresh a part of the proxy state
    on a non-forced request that announces every changed key, that part of the proxy's view did not
    change. This is the soundness of the kind switch of `computeProxyState` (ServiceEntry,
    DestinationRule, VirtualService, PeerAuthentication, Sidecar, Ingress reset the scope; Gateway,
    Ingress and a refresh of the service targets reset the gateways; a ServiceEntry key of the proxy's
    namespace refreshes the service targets); validated by the `converge` stream, not proved. -/
def RefreshOK (view : ProtocolV2.World Key → π → Proxy) : Prop :=
  ∀ (wl w' : ProtocolV2.World Key) (p : π) (r : Req), r.forced = false → (∀ k, wl k ≠ w' k → k ∈ r.keys) →
    ((pushConnectionRefresh (view wl p) r).scope = false → (view w' p).scope = (view wl p).scope) ∧
    ((pushConnectionRefresh (view wl p) r).targets = false →
        (view w' p).targets = (view wl p).targets ∧ (view w' p).localSvc = (view wl p).localSvc) ∧
    ((pushConnectionRefresh (view wl p) r).gateway = false → (view w' p).mg = (view wl p).mg)

omit [DecidableEq π] in
/-- Under `RefreshOK` the partially refreshed proxy IS the proxy's view of the snapshot. -/
theorem refreshedView_eq (view : ProtocolV2.World Key → π → Proxy) (h : RefreshOK view)
    (wl w' : ProtocolV2.World Key) (p : π) (r : Req) (hf : r.forced = false)
    (hcov : ∀ k, wl k ≠ w' k → k ∈ r.keys) :
    refreshedView r (view w' p) (view wl p) = view w' p := by
  obtain ⟨hs, ht, hg⟩ := h wl w' p r hf hcov
  have h1 : (if (pushConnectionRefresh (view wl p) r).scope = true then (view w' p).scope else (view wl p).scope)
      = (view w' p).scope := by
    cases hfs : (pushConnectionRefresh (view wl p) r).scope with
    | true => simp
    | false => simp [hs hfs]
  have h2 : (if (pushConnectionRefresh (view wl p) r).targets = true then (view w' p).targets else (view wl p).targets)
      = (view w' p).targets := by
    cases hft : (pushConnectionRefresh (view wl p) r).targets with
    | true => simp
    | false => simp [(ht hft).1]
  have h3 : (if (pushConnectionRefresh (view wl p) r).targets = true then (view w' p).localSvc else (view wl p).localSvc)
      = (view w' p).localSvc := by
    cases hft : (pushConnectionRefresh (view wl p) r).targets with
    | true => simp
    | false => simp [(ht hft).2]
  have h4 : (if (pushConnectionRefresh (view wl p) r).gateway = true then (view w' p).mg else (view wl p).mg)
      = (view w' p).mg := by
    cases hfg : (pushConnectionRefresh (view wl p) r).gateway with
    | true => simp
    | false => simp [hg hfg]
  unfold refreshedView
  simp only [h1, h2, h3, h4]

/-- the modelled decision with the refresh decisions of `computeProxyState` taken into account -/
def modelDecV2R (root : Nat) (att : Key → List WRef) (view : ProtocolV2.World Key → π → Proxy) :
    π → XType → ProtocolV2.World Key → ProtocolV2.Req Key σ Reason → Bool :=
  fun p t wl r =>
    pushDecision root t (reqOfV2 att r)
      (decidingProxy (refreshedView (reqOfV2 att r) (view r.push p) (view wl p)) (view wl p))

/-- **`convergence_model_refresh`.** The same conclusion for the decision that keeps the unrefreshed
    parts of the proxy state, under `RefreshOK`.  (Remaining approximation, stated plainly: the
    model's previous scope is the scope at the last sync; in istiod `PrevSidecarScope` is the scope
    before the last RESET, which - under `RefreshOK` - is the same scope when this request resets it,
    and an older, additional dependency set when it does not: the real filter then keeps at least
    the keys the model keeps, and a decision that skips less keeps `SkipOKOn`, `skipOKOn_of_skips_less`.) -/
theorem convergence_model_refresh (root : Nat) (att : Key → List WRef)
    (view : ProtocolV2.World Key → π → Proxy)
    (gen : σ → π → XType → ρ) (build : ProtocolV2.World Key → σ)
    (rebuild : σ → List Key → Bool → ProtocolV2.World Key → σ)
    (hrb : ProtocolV2.RebuildOK build rebuild) (hframe : ModelFrame root att view gen build)
    (hrefresh : RefreshOK view)
    (w0 : ProtocolV2.World Key) (h0 : π → XType → ρ) (l : List (ProtocolV2.Step Key π Reason))
    (hl : ProtocolV2.StepsCarry OrdinaryReason l)
    (hq : ProtocolV2.Quiescent (ProtocolV2.run rebuild gen (modelDecV2R (σ := σ) root att view) (ProtocolV2.init build w0 h0) l)) :
    ∀ p t, (ProtocolV2.run rebuild gen (modelDecV2R (σ := σ) root att view) (ProtocolV2.init build w0 h0) l).conn p = true →
      (ProtocolV2.run rebuild gen (modelDecV2R (σ := σ) root att view) (ProtocolV2.init build w0 h0) l).held p t =
        gen (build (ProtocolV2.run rebuild gen (modelDecV2R (σ := σ) root att view) (ProtocolV2.init build w0 h0) l).world) p t := by
  have hok : ProtocolV2.SkipOKOn OrdinaryReason gen build (modelDecV2R (σ := σ) root att view) := by
    intro p t wl r hrs hf hdec hcov
    have heq : modelDecV2R (σ := σ) root att view p t wl r = modelDecV2 (σ := σ) root att view p t wl r := by
      unfold modelDecV2R modelDecV2
      rw [refreshedView_eq view hrefresh wl r.push p (reqOfV2 att r) rfl hcov]
    rw [heq] at hdec
    exact modelDecV2_skipOKOn root att view gen build hframe p t wl r hrs hf hdec hcov
  exact ProtocolV2.convergence_on OrdinaryReason build rebuild gen (modelDecV2R (σ := σ) root att view) hrb hok w0 h0 l hl hq

omit [DecidableEq π] in
/-- A decision that skips at most where a sound decision skips is sound. -/
theorem skipOKOn_of_skips_less (G : Reason → Prop) (gen : σ → π → XType → ρ) (build : ProtocolV2.World Key → σ)
    (dec dec' : π → XType → ProtocolV2.World Key → ProtocolV2.Req Key σ Reason → Bool)
    (hle : ∀ p t wl r, dec' p t wl r = false → dec p t wl r = false)
    (h : ProtocolV2.SkipOKOn G gen build dec) : ProtocolV2.SkipOKOn G gen build dec' :=
  fun p t wl r hrs hf hdec hcov => h p t wl r hrs hf (hle p t wl r hdec) hcov

end V2

/-! ## The second repair: previous service targets -/

/-- `filterRelevantUpdates` before the repair: only the refreshed service targets are consulted -/
def filterRelevantUpdatesOld (p : Proxy) (root : Nat) (keys : List Key) : List Key :=
  if keys.isEmpty then keys
  else
    let relevant := keys.filter (keyRelevant p root)
    let changed := keys.any (fun k => !keyRelevant p root k)
    if changed then relevant ++ targetKeysOld p keys else keys

/-- Witness of the defect repaired in /repo (`fix:` commit "push a sidecar or gateway when a service
    it used to be part of is deleted ..."): a sidecar whose scope does not import its own service
    `5/1`; the service is deleted, `computeProxyState` has already refreshed the service targets
    (now empty, the previous ones remember the service). Before the repair the request was filtered
    to nothing and the proxy skipped; now the key is kept and the proxy is pushed. -/
theorem filter_witness_unfixed :
    let p : Proxy := { ty := .sidecar, scope := some { ns := 1 }, targets := [], prevTargets := [(5, 1)] }
    let k : Key := { kind := .serviceEntry, name := 5, ns := 1 }
    filterRelevantUpdatesOld p 0 [k] = [] ∧ (proxyNeedsPush p 0 { keys := [k], reasons := [.service] }).2 = true := by
  decide

end IstioModel.C01
