import IstioModel.C01.Theorems
import IstioModel.C01.ProtocolTheorems

/-!
# C01 - the modelled push decision inside the convergence protocol

`ProtocolTheorems.convergence` is conditional on `SkipOK gen dec` for an abstract decision `dec`.
Here `dec` is instantiated with the MODELLED decision `pushDecision` (per-proxy relevance filter
followed by the generator's own `*NeedsPush`, tied to the real functions by the generated table
and the `needs` stream), applied to arbitrary merged multi-key requests.  The monotonicity theorem
(`pushDecision_mono`: a request is never weaker than any of its keys alone) reduces the
hypothesis about multi-key requests to a hypothesis about SINGLE-key requests - exactly the rows
of the generated decision table:

  if every single-key skip decision is sound for the generator (changing a key whose single-key
  request would be skipped does not change what is generated), then for every history, batching
  and interleaving every quiescent state has every client up to date.

Limits, said plainly: a proxy's view (`view p`: type, namespace, sidecar scope, previous scope,
service targets ...) is fixed here, while in istiod the scope is itself recomputed from the
configuration; that dynamic part is validated on the real code by the `converge` stream only.
-/
namespace IstioModel.C01
open Protocol

variable {π ρ : Type} [DecidableEq π]

/-- the model request of a protocol request (reasons are a fixed parameter: they only matter
    through `headlessInit`, and the protocol's requests carry no reasons) -/
def reqOf (rs : List Reason) (r : Protocol.Req Key) : Req :=
  { keys := r.keys, reasons := rs, forced := false }

/-- the modelled decision as a protocol decision -/
def modelDec (root : Nat) (rs : List Reason) (view : π → Proxy) : π → XType → Protocol.Req Key → Bool :=
  fun p t r => pushDecision root t (reqOf rs r) (view p)

/-- relevance of a key = its single-key request is pushed (a row of the decision table) -/
def SingleKeyRel (root : Nat) (rs : List Reason) (view : π → Proxy) :
    World Key → Key → π → XType → Prop :=
  fun _ k p t => pushDecision root t { keys := [k], reasons := rs, forced := false } (view p) = true

omit [DecidableEq π] in
/-- The modelled decision only skips when every announced key would be skipped on its own. -/
theorem modelDec_skipSound (root : Nat) (rs : List Reason) (view : π → Proxy) :
    SkipSound (modelDec root rs view) (SingleKeyRel root rs view) := by
  intro p t r _ hdec k hk _ hrel
  have hmono := pushDecision_mono root t { keys := [k], reasons := rs, forced := false } (reqOf rs r) (view p)
    (by intro k' hk'; simp only [List.mem_singleton] at hk'; subst hk'; exact hk)
    rfl (by intro w hw; exact hw) (by intro h; exact h) hrel
  have : modelDec root rs view p t r = true := hmono
  rw [hdec] at this
  exact Bool.noConfusion this

/-- **`convergence_model`.** With the modelled push decision on arbitrary merged requests: if the
    generator satisfies the frame hypothesis with respect to the SINGLE-key decisions, every
    quiescent state reached by any finite history under any batching has every connected client
    holding exactly what a fresh generation from the final configuration produces. -/
theorem convergence_model (root : Nat) (rs : List Reason) (view : π → Proxy)
    (gen : World Key → π → XType → ρ)
    (hframe : Frame gen (SingleKeyRel root rs view))
    (w0 : World Key) (h0 : π → XType → ρ) (l : List (Step Key π))
    (hq : Quiescent (run gen (modelDec root rs view) (init w0 h0) l)) :
    ∀ p t, (run gen (modelDec root rs view) (init w0 h0) l).conn p = true →
      (run gen (modelDec root rs view) (init w0 h0) l).held p t =
        gen (run gen (modelDec root rs view) (init w0 h0) l).world p t :=
  convergence_frame gen (modelDec root rs view) (SingleKeyRel root rs view) hframe
    (modelDec_skipSound root rs view) w0 h0 l hq

/-! ## The second repair: previous service targets -/

/-- `filterRelevantUpdates` before the repair: only the refreshed service targets are consulted -/
def filterRelevantUpdatesOld (p : Proxy) (root : Nat) (keys : List Key) : List Key :=
  if keys.isEmpty then keys
  else
    let relevant := keys.filter (keyRelevant p root)
    let changed := keys.any (fun k => !keyRelevant p root k)
    if changed then relevant ++ targetKeysOld p keys else keys

/-- Witness of the defect repaired in /repo (`fix:` commit "push a sidecar or gateway when a service
    it used to be part of is deleted ..."): a sidecar whose scope does not import its own service
    `5/1`; the service is deleted, `computeProxyState` has already refreshed the service targets
    (now empty, the previous ones remember the service). Before the repair the request was filtered
    to nothing and the proxy skipped; now the key is kept and the proxy is pushed. -/
theorem filter_witness_unfixed :
    let p : Proxy := { ty := .sidecar, scope := some { ns := 1 }, targets := [], prevTargets := [(5, 1)] }
    let k : Key := { kind := .serviceEntry, name := 5, ns := 1 }
    filterRelevantUpdatesOld p 0 [k] = [] ∧ (proxyNeedsPush p 0 { keys := [k], reasons := [.service] }).2 = true := by
  decide

end IstioModel.C01
