import IstioModel.C01.Spec
import IstioModel.Generated.C01Table

/-!
# C01 - T-gen: the generated table and the lifting lemmas

`Generated/C01Table.lean` is rewritten on every check run by `harness/c01 table`: the REAL
functions of /repo are evaluated on real `model.Proxy` / `model.PushRequest` values realising every
row of `Table.lean`; bit `row.idx` of each mask is the result.  `*Impl` below read those masks.
The `decide +kernel` evaluations are spread over the modules `GenTieT*`, `GenTieP*`, `GenTieS`
(lake builds them in parallel); `GenTie.lean` states the combined theorems.
-/
namespace IstioModel.C01

/-! ## The real functions, read from the generated masks -/

def tMask : TOut → Nat
  | .cds => Gen.t_cds | .cdsKept => Gen.t_cdsKept | .eds => Gen.t_eds
  | .partialEds => Gen.t_partialEds | .lds => Gen.t_lds | .rds => Gen.t_rds | .nds => Gen.t_nds
  | .ecds => Gen.t_ecds | .sds => Gen.t_sds | .pcds => Gen.t_pcds

/-- the real per-type decision on the realisation of row `r` -/
def tImpl (o : TOut) (r : TRow) : Bool := bitAt (tMask o) r.idx

def pMask : POut → Nat
  | .needs => Gen.p_needs | .kept => Gen.p_kept

/-- the real `DefaultProxyNeedsPush` on the realisation of row `r` -/
def pImpl (o : POut) (r : PRow) : Bool := bitAt (pMask o) r.idx

def sDirectMask : SOut → Nat
  | .labels => Gen.s_direct_labels | .targets => Gen.s_direct_targets
  | .scope => Gen.s_direct_scope | .gateway => Gen.s_direct_gateway

def sPushMask : SOut → Nat
  | .labels => Gen.s_push_labels | .targets => Gen.s_push_targets
  | .scope => Gen.s_push_scope | .gateway => Gen.s_push_gateway

/-- what the real `computeProxyState(proxy, req)` refreshed (observed through sentinels) -/
def sDirectImpl (o : SOut) (r : SRow) : Bool := bitAt (sDirectMask o) r.idx
/-- what the real `pushConnection` refreshed -/
def sPushImpl (o : SOut) (r : SRow) : Bool := bitAt (sPushMask o) r.idx
/-- what the real `computeProxyState(proxy, nil)` refreshed -/
def sNilImpl (o : SOut) (pv : PV) : Bool := bitAt (sDirectMask o) (sRows + pv.toNat)

/-! ## The enumerations are complete -/

theorem boolAll_complete (b : Bool) : b ∈ boolAll := by cases b <;> simp [boolAll]
theorem Kind.all_complete (k : Kind) : k ∈ Kind.all := by cases k <;> simp [Kind.all]
theorem PV.all_complete (p : PV) : p ∈ PV.all := by cases p <;> simp [PV.all]
theorem NsC.all_complete (n : NsC) : n ∈ NsC.all := by cases n <;> simp [NsC.all]
theorem RC.all_complete (r : RC) : r ∈ RC.all := by cases r <;> simp [RC.all]
theorem ScopeC.all_complete (c : ScopeC) : c ∈ ScopeC.all := by cases c <;> simp [ScopeC.all]
theorem Extra.all_complete (e : Extra) : e ∈ Extra.all := by cases e <;> simp [Extra.all]

/-- Lifting lemma: a Boolean check that evaluates to `true` over the nested enumeration holds for
    every T row. -/
theorem forall_T {p : TRow → Bool} (h : allT p = true) (r : TRow) : p r = true := by
  unfold allT at h
  simp only [List.all_eq_true] at h
  exact h r.kind (Kind.all_complete _) r.pv (PV.all_complete _) r.ns (NsC.all_complete _)
    r.rc (RC.all_complete _) r.forced (boolAll_complete _) r.wp (boolAll_complete _)

theorem forall_P {pv : PV} {p : PRow → Bool} (h : allP pv p = true) (r : PRow) (hr : r.pv = pv) :
    p r = true := by
  unfold allP at h
  simp only [List.all_eq_true] at h
  have := h r.kind (Kind.all_complete _) r.ns (NsC.all_complete _) r.cur (ScopeC.all_complete _)
    r.prev (ScopeC.all_complete _) r.extra (Extra.all_complete _)
  cases r; simp_all

theorem forall_S {p : SRow → Bool} (h : allS p = true) (r : SRow) : p r = true := by
  unfold allS at h
  simp only [List.all_eq_true] at h
  exact h r.pv (PV.all_complete _) r.kind (Kind.all_complete _) r.ownNs (boolAll_complete _)
    r.forced (boolAll_complete _) r.proxyReason (boolAll_complete _)

/-- `Bool` equality as a Boolean, without going through `DecidableEq` (kernel speed) -/
def beqB (a b : Bool) : Bool := (a && b) || (!a && !b)

theorem eq_of_beqB {a b : Bool} (h : beqB a b = true) : a = b := by
  cases a <;> cases b <;> simp_all [beqB]

end IstioModel.C01
