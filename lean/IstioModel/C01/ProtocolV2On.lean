import IstioModel.C01.ProtocolV2Theorems

/-!
# C01 - convergence when the skip hypothesis is only assumed for "good" reasons

`SkipOK` quantifies over every request.  The real skip tables are only claimed to be right for
requests whose reasons are of the kinds the table was written for.  Here the hypothesis
(`SkipOKOn G`) is restricted to requests all of whose reasons satisfy a predicate `G`, and the
conclusion (`convergence_on`) is obtained for the histories all of whose changes carry such
reasons (`StepsCarry G`).

The extra invariant `ReasonsAll G` says that every reason sitting in the debouncer, in a queued
request or in an in-flight request satisfies `G`: reasons only enter the system at `change`, and
are only moved (flush) or appended (merge) afterwards.

`inv_step_on` re-uses `inv_step` for the four kinds of step that do not consult the decision
(`change`, `flush`, `connect`, `dequeue` do not depend on `dec`, so they are the same steps for
a decision that never skips, for which `SkipOK` holds trivially); only `pushDone` is redone.
-/
namespace IstioModel.C01.ProtocolV2

variable {κ π τ ρ σ R : Type} [DecidableEq κ] [DecidableEq π]

/-! ## reasons in the system all satisfy `G` -/

/-- every reason in the debouncer, in a queued request and in an in-flight request satisfies `G` -/
def ReasonsAll (G : R → Prop) (s : Sys κ π τ ρ σ R) : Prop :=
  (∀ x ∈ s.debReasons, G x) ∧
  (∀ p q, s.queue p = some q → ∀ x ∈ q.reasons, G x) ∧
  (∀ p r, s.infl p = some r → ∀ x ∈ r.reasons, G x)

/-- the step is not a change, or it is a change whose reason satisfies `G` -/
def Step.carries (G : R → Prop) : Step κ π R → Prop
  | .change _ _ _ x => G x
  | _ => True

/-- every change of the history carries a reason satisfying `G` -/
def StepsCarry (G : R → Prop) (l : List (Step κ π R)) : Prop :=
  ∀ st ∈ l, Step.carries G st

/-- the skip hypothesis, assumed only for requests all of whose reasons satisfy `G` -/
def SkipOKOn (G : R → Prop) (gen : σ → π → τ → ρ) (build : World κ → σ)
    (dec : π → τ → World κ → Req κ σ R → Bool) : Prop :=
  ∀ p t (wl : World κ) (r : Req κ σ R), (∀ x ∈ r.reasons, G x) → r.forced = false →
    dec p t wl r = false → (∀ k, wl k ≠ r.push k → k ∈ r.keys) →
    gen (build wl) p t = gen (build r.push) p t

omit [DecidableEq κ] [DecidableEq π] in
theorem reasonsAll_init (G : R → Prop) (build : World κ → σ) (w : World κ) (h : π → τ → ρ) :
    ReasonsAll G (init build w h : Sys κ π τ ρ σ R) := by
  refine ⟨?_, ?_, ?_⟩
  · intro x hx; simp [init] at hx
  · intro p q hq; cases hq
  · intro p r hi; cases hi

theorem reasonsAll_step (G : R → Prop) (rebuild : σ → List κ → Bool → World κ → σ)
    (gen : σ → π → τ → ρ) (dec : π → τ → World κ → Req κ σ R → Bool)
    (s : Sys κ π τ ρ σ R) (st : Step κ π R) (hst : Step.carries G st) (h : ReasonsAll G s) :
    ReasonsAll G (step rebuild gen dec s st) := by
  obtain ⟨hd, hq, hi⟩ := h
  cases st with
  | change k v f rs =>
    refine ⟨?_, hq, hi⟩
    intro x hx
    have hx' : x ∈ s.debReasons ++ [rs] := hx
    rcases List.mem_append.mp hx' with h1 | h1
    · exact hd x h1
    · have e : x = rs := by simpa using h1
      rw [e]; exact hst
  | flush =>
    refine ⟨?_, ?_, hi⟩
    · intro x hx
      have hx' : x ∈ ([] : List R) := hx
      simp at hx'
    · intro p q hq'
      cases hc : s.conn p with
      | false => rw [flush_queue_unconn rebuild gen dec s hc] at hq'; exact hq p q hq'
      | true =>
        rw [flush_queue_conn rebuild gen dec s hc] at hq'
        cases hq'
        cases hq0 : s.queue p with
        | none => exact hd
        | some q0 =>
          intro x hx
          have hx' : x ∈ q0.reasons ++ s.debReasons := hx
          rcases List.mem_append.mp hx' with h1 | h1
          · exact hq p q0 hq0 x h1
          · exact hd x h1
  | connect p =>
    cases hc : s.conn p with
    | true => rw [step_connect_old rebuild gen dec s hc]; exact ⟨hd, hq, hi⟩
    | false =>
      rw [step_connect_new rebuild gen dec s hc]
      refine ⟨hd, ?_, ?_⟩
      · intro p' q hq'
        have hq'' : upd s.queue p none p' = some q := hq'
        by_cases e : p' = p
        · rw [e, upd_same] at hq''; cases hq''
        · rw [upd_other e] at hq''; exact hq p' q hq''
      · intro p' r hi'
        have hi'' : upd s.infl p none p' = some r := hi'
        by_cases e : p' = p
        · rw [e, upd_same] at hi''; cases hi''
        · rw [upd_other e] at hi''; exact hi p' r hi''
  | dequeue p =>
    cases hc : s.conn p with
    | false => rw [step_dequeue_unconn rebuild gen dec s hc]; exact ⟨hd, hq, hi⟩
    | true =>
      cases hi0 : s.infl p with
      | some r => rw [step_dequeue_busy rebuild gen dec s hi0]; exact ⟨hd, hq, hi⟩
      | none =>
        cases hq0 : s.queue p with
        | none => rw [step_dequeue_empty rebuild gen dec s hq0]; exact ⟨hd, hq, hi⟩
        | some q =>
          rw [step_dequeue_fire rebuild gen dec s hc hi0 hq0]
          refine ⟨hd, ?_, ?_⟩
          · intro p' q' hq'
            have hq'' : upd s.queue p none p' = some q' := hq'
            by_cases e : p' = p
            · rw [e, upd_same] at hq''; cases hq''
            · rw [upd_other e] at hq''; exact hq p' q' hq''
          · intro p' r hi'
            have hi'' : upd s.infl p (some q) p' = some r := hi'
            by_cases e : p' = p
            · rw [e, upd_same] at hi''; cases hi''; exact hq p q hq0
            · rw [upd_other e] at hi''; exact hi p' r hi''
  | pushDone p =>
    cases hi0 : s.infl p with
    | none => rw [step_pushDone_none rebuild gen dec s hi0]; exact ⟨hd, hq, hi⟩
    | some r =>
      rw [step_pushDone_some rebuild gen dec s hi0]
      refine ⟨hd, hq, ?_⟩
      intro p' r' hi'
      have hi'' : upd s.infl p none p' = some r' := hi'
      by_cases e : p' = p
      · rw [e, upd_same] at hi''; cases hi''
      · rw [upd_other e] at hi''; exact hi p' r' hi''

theorem reasonsAll_run (G : R → Prop) (rebuild : σ → List κ → Bool → World κ → σ)
    (gen : σ → π → τ → ρ) (dec : π → τ → World κ → Req κ σ R → Bool)
    (s : Sys κ π τ ρ σ R) (l : List (Step κ π R)) (hl : StepsCarry G l) (h : ReasonsAll G s) :
    ReasonsAll G (run rebuild gen dec s l) := by
  induction l generalizing s with
  | nil => exact h
  | cons st l ih =>
    exact ih (step rebuild gen dec s st) (fun st' hm => hl st' (List.mem_cons_of_mem _ hm))
      (reasonsAll_step G rebuild gen dec s st (hl st (by simp)) h)

/-! ## the invariant under the restricted hypothesis -/

/-- `Inv` is preserved by every step from a state whose reasons all satisfy `G`, when the skip
    hypothesis is only assumed for such requests.  (Whether the step itself carries a good reason
    does not matter here; it matters for `ReasonsAll` of the next state.) -/
theorem inv_step_on (G : R → Prop) (build : World κ → σ)
    (rebuild : σ → List κ → Bool → World κ → σ)
    (gen : σ → π → τ → ρ) (dec : π → τ → World κ → Req κ σ R → Bool)
    (hrb : RebuildOK build rebuild) (hok : SkipOKOn G gen build dec)
    (s : Sys κ π τ ρ σ R) (st : Step κ π R) (h : Inv gen build s) (hr : ReasonsAll G s) :
    Inv gen build (step rebuild gen dec s st) := by
  -- a decision that never skips satisfies `SkipOK`; the first four kinds of step ignore `dec`
  have htriv : SkipOK gen build (fun _ _ _ _ => true : π → τ → World κ → Req κ σ R → Bool) := by
    intro p t wl r _ hd
    simp at hd
  cases st with
  | change k v f rs => exact inv_step build rebuild gen _ hrb htriv s (.change k v f rs) h
  | flush => exact inv_step build rebuild gen _ hrb htriv s .flush h
  | connect p => exact inv_step build rebuild gen _ hrb htriv s (.connect p) h
  | dequeue p => exact inv_step build rebuild gen _ hrb htriv s (.dequeue p) h
  | pushDone p =>
    cases hi : s.infl p with
    | none => rw [step_pushDone_none rebuild gen dec s hi]; exact h
    | some r =>
      rw [step_pushDone_some rebuild gen dec s hi]
      refine ⟨h.snapLag, h.queueLatest, ?_, ?_, ?_, h.snapBuilt, h.queueBuilt, ?_, ?_, ?_⟩
      · intro p' r' q' hi' hq'
        have hi'' : upd s.infl p none p' = some r' := hi'
        by_cases e : p' = p
        · rw [e, upd_same] at hi''; cases hi''
        · rw [upd_other e] at hi''; exact h.inflQueued p' r' q' hi'' hq'
      · intro p' r' hi' hq'
        have hi'' : upd s.infl p none p' = some r' := hi'
        by_cases e : p' = p
        · rw [e, upd_same] at hi''; cases hi''
        · rw [upd_other e] at hi''; exact h.inflLast p' r' hi'' hq'
      · intro p' hc'
        refine ⟨(h.unconn p' hc').1, ?_⟩
        show upd s.infl p none p' = none
        by_cases e : p' = p
        · rw [e, upd_same]
        · rw [upd_other e]; exact (h.unconn p' hc').2
      · intro p' r' hi'
        have hi'' : upd s.infl p none p' = some r' := hi'
        by_cases e : p' = p
        · rw [e, upd_same] at hi''; cases hi''
        · rw [upd_other e] at hi''; exact h.inflBuilt p' r' hi''
      · intro p' t hc'
        have hc'' : s.conn p' = true := hc'
        show upd s.held p
            (fun t =>
              if (r.forced || dec p t (s.last p) r) = true then gen r.pushS p t else s.held p t)
            p' t
              = gen (build (upd s.last p r.push p')) p' t
        by_cases e : p' = p
        · rw [e] at hc'' ⊢
          rw [upd_same, upd_same]
          show (if (r.forced || dec p t (s.last p) r) = true then gen r.pushS p t
            else s.held p t) = gen (build r.push) p t
          by_cases hd : (r.forced || dec p t (s.last p) r) = true
          · rw [if_pos hd, h.inflBuilt p r hi]
          · rw [if_neg hd]
            have hf : r.forced = false ∧ dec p t (s.last p) r = false := by simpa using hd
            have hp := h.lastOK p hc''
            rw [hi] at hp
            have hp' : ∀ k, s.last p k ≠ r.push k → r.covers k := hp
            rw [h.heldGen p t hc'']
            -- the in-flight request's reasons all satisfy `G`
            apply hok p t (s.last p) r (hr.2.2 p r hi) hf.1 hf.2
            intro k hk
            rcases hp' k hk with h1 | h1
            · rw [hf.1] at h1; cases h1
            · exact h1
        · rw [upd_other e, upd_other e]
          exact h.heldGen p' t hc''
      · intro p' hc'
        have hc'' : s.conn p' = true := hc'
        show pendOK s.snap (upd s.last p r.push p') (upd s.infl p none p') (s.queue p')
        by_cases e : p' = p
        · rw [e, upd_same, upd_same]
          cases hq : s.queue p with
          | none => exact h.inflLast p r hi hq
          | some q =>
            intro k hk
            apply h.inflQueued p r q hi hq k
            rw [h.queueLatest p q hq]; exact hk
        · rw [upd_other e, upd_other e]
          exact h.lastOK p' hc''

theorem inv_run_on (G : R → Prop) (build : World κ → σ)
    (rebuild : σ → List κ → Bool → World κ → σ)
    (gen : σ → π → τ → ρ) (dec : π → τ → World κ → Req κ σ R → Bool)
    (hrb : RebuildOK build rebuild) (hok : SkipOKOn G gen build dec)
    (s : Sys κ π τ ρ σ R) (l : List (Step κ π R)) (hl : StepsCarry G l)
    (h : Inv gen build s) (hr : ReasonsAll G s) :
    Inv gen build (run rebuild gen dec s l) ∧ ReasonsAll G (run rebuild gen dec s l) := by
  induction l generalizing s with
  | nil => exact ⟨h, hr⟩
  | cons st l ih =>
    exact ih (step rebuild gen dec s st) (fun st' hm => hl st' (List.mem_cons_of_mem _ hm))
      (inv_step_on G build rebuild gen dec hrb hok s st h hr)
      (reasonsAll_step G rebuild gen dec s st (hl st (by simp)) hr)

theorem inv_reachable_on (G : R → Prop) (build : World κ → σ)
    (rebuild : σ → List κ → Bool → World κ → σ)
    (gen : σ → π → τ → ρ) (dec : π → τ → World κ → Req κ σ R → Bool)
    (hrb : RebuildOK build rebuild) (hok : SkipOKOn G gen build dec)
    (w0 : World κ) (h0 : π → τ → ρ) (l : List (Step κ π R)) (hl : StepsCarry G l) :
    Inv gen build (run rebuild gen dec (init build w0 h0) l) ∧
    ReasonsAll G (run rebuild gen dec (init build w0 h0) l) :=
  inv_run_on G build rebuild gen dec hrb hok _ l hl (inv_init gen build w0 h0)
    (reasonsAll_init G build w0 h0)

/-- **Eventual consistency for the histories whose changes all carry good reasons**, when the
    skip hypothesis is only assumed for requests with good reasons. -/
theorem convergence_on (G : R → Prop) (build : World κ → σ)
    (rebuild : σ → List κ → Bool → World κ → σ)
    (gen : σ → π → τ → ρ) (dec : π → τ → World κ → Req κ σ R → Bool)
    (hrb : RebuildOK build rebuild) (hok : SkipOKOn G gen build dec)
    (w0 : World κ) (h0 : π → τ → ρ) (l : List (Step κ π R)) (hl : StepsCarry G l)
    (hq : Quiescent (run rebuild gen dec (init build w0 h0) l)) :
    ∀ p t, (run rebuild gen dec (init build w0 h0) l).conn p = true →
      (run rebuild gen dec (init build w0 h0) l).held p t =
        gen (build (run rebuild gen dec (init build w0 h0) l).world) p t :=
  (quiescent_up_to_date gen build _
    (inv_reachable_on G build rebuild gen dec hrb hok w0 h0 l hl).1 hq).2

/-- When `pushDone p` skips type `t` in a state whose reasons all satisfy `G`, the client keeps
    what it had, and that is exactly what generating from a from-scratch snapshot of the
    request's world would have produced. -/
theorem skip_preserves_on (G : R → Prop) (build : World κ → σ)
    (rebuild : σ → List κ → Bool → World κ → σ)
    (gen : σ → π → τ → ρ) (dec : π → τ → World κ → Req κ σ R → Bool)
    (hok : SkipOKOn G gen build dec) (s : Sys κ π τ ρ σ R) (h : Inv gen build s)
    (hr : ReasonsAll G s) (p : π) (t : τ) (r : Req κ σ R)
    (hi : s.infl p = some r) (hc : s.conn p = true)
    (hf : r.forced = false) (hd : dec p t (s.last p) r = false) :
    (step rebuild gen dec s (.pushDone p)).held p t = s.held p t ∧
    s.held p t = gen (build r.push) p t ∧ gen (build r.push) p t = gen r.pushS p t := by
  refine ⟨?_, ?_, by rw [h.inflBuilt p r hi]⟩
  · rw [step_pushDone_some rebuild gen dec s hi]
    show upd s.held p
      (fun t =>
        if (r.forced || dec p t (s.last p) r) = true then gen r.pushS p t else s.held p t) p t = _
    rw [upd_same]
    simp [hf, hd]
  · have hp := h.lastOK p hc
    rw [hi] at hp
    have hp' : ∀ k, s.last p k ≠ r.push k → r.covers k := hp
    rw [h.heldGen p t hc]
    apply hok p t (s.last p) r (hr.2.2 p r hi) hf hd
    intro k hk
    rcases hp' k hk with h1 | h1
    · rw [hf] at h1; cases h1
    · exact h1

/-- trace form: at any point of any history whose changes carry good reasons -/
theorem skip_preserves_run_on (G : R → Prop) (build : World κ → σ)
    (rebuild : σ → List κ → Bool → World κ → σ)
    (gen : σ → π → τ → ρ) (dec : π → τ → World κ → Req κ σ R → Bool)
    (hrb : RebuildOK build rebuild) (hok : SkipOKOn G gen build dec)
    (w0 : World κ) (h0 : π → τ → ρ) (l : List (Step κ π R)) (hl : StepsCarry G l)
    (p : π) (t : τ) (r : Req κ σ R)
    (hi : (run rebuild gen dec (init build w0 h0) l).infl p = some r)
    (hf : r.forced = false)
    (hd : dec p t ((run rebuild gen dec (init build w0 h0) l).last p) r = false) :
    (run rebuild gen dec (init build w0 h0) (l ++ [.pushDone p])).held p t =
      gen (build r.push) p t := by
  obtain ⟨hinv, hr⟩ := inv_reachable_on G build rebuild gen dec hrb hok w0 h0 l hl
  have hc : (run rebuild gen dec (init build w0 h0) l).conn p = true := by
    cases hc : (run rebuild gen dec (init build w0 h0) l).conn p with
    | true => rfl
    | false => rw [(hinv.unconn p hc).2] at hi; cases hi
  obtain ⟨h1, h2, _⟩ := skip_preserves_on G build rebuild gen dec hok _ hinv hr p t r hi hc hf hd
  rw [run_append]
  show (step rebuild gen dec (run rebuild gen dec (init build w0 h0) l) (.pushDone p)).held p t = _
  rw [h1, h2]

/-! ## relation to the unrestricted hypothesis -/

omit [DecidableEq κ] [DecidableEq π] in
/-- the unrestricted hypothesis implies the restricted one, for every `G` -/
theorem skipOKOn_of_skipOK (G : R → Prop) (gen : σ → π → τ → ρ) (build : World κ → σ)
    (dec : π → τ → World κ → Req κ σ R → Bool) (h : SkipOK gen build dec) :
    SkipOKOn G gen build dec :=
  fun p t wl r _ hf hd hw => h p t wl r hf hd hw

omit [DecidableEq κ] [DecidableEq π] in
/-- with the trivial predicate the two coincide -/
theorem skipOK_of_skipOKOn_true (gen : σ → π → τ → ρ) (build : World κ → σ)
    (dec : π → τ → World κ → Req κ σ R → Bool) (h : SkipOKOn (fun _ => True) gen build dec) :
    SkipOK gen build dec :=
  fun p t wl r hf hd hw => h p t wl r (fun _ _ => trivial) hf hd hw

omit [DecidableEq κ] [DecidableEq π] in
theorem stepsCarry_true (l : List (Step κ π R)) : StepsCarry (fun _ => True) l := by
  intro st _
  cases st <;> exact trivial

/-- `convergence` is the instance `G := fun _ => True` of `convergence_on` -/
theorem convergence_of_convergence_on (build : World κ → σ)
    (rebuild : σ → List κ → Bool → World κ → σ)
    (gen : σ → π → τ → ρ) (dec : π → τ → World κ → Req κ σ R → Bool)
    (hrb : RebuildOK build rebuild) (hok : SkipOK gen build dec)
    (w0 : World κ) (h0 : π → τ → ρ) (l : List (Step κ π R))
    (hq : Quiescent (run rebuild gen dec (init build w0 h0) l)) :
    ∀ p t, (run rebuild gen dec (init build w0 h0) l).conn p = true →
      (run rebuild gen dec (init build w0 h0) l).held p t =
        gen (build (run rebuild gen dec (init build w0 h0) l).world) p t :=
  convergence_on (fun _ => True) build rebuild gen dec hrb
    (skipOKOn_of_skipOK _ gen build dec hok) w0 h0 l (stepsCarry_true l) hq

/-! ## the restriction is a real weakening: a concrete instance

A decision that is right for ordinary reasons but skips everything when it sees the reason
`"bogus"`: it violates `SkipOK`, satisfies `SkipOKOn (· ≠ "bogus")`, and `convergence_on` applies
to the history of `nonvacuous` (whose only change carries the reason `"config"`). -/

def onDec : Bool → Unit → World Nat → Req Nat (World Nat) String → Bool :=
  fun p t wl r => if r.reasons.contains "bogus" then false else exDec p t wl r

theorem onDec_skipOKOn : SkipOKOn (fun x => x ≠ "bogus") exGen exBuild onDec := by
  intro p t wl r hg hf hd hw
  have hc : r.reasons.contains "bogus" = false := by
    cases hc : r.reasons.contains "bogus" with
    | false => rfl
    | true =>
      have hm : "bogus" ∈ r.reasons := by simpa using hc
      exact absurd rfl (hg "bogus" hm)
  have hd' : exDec p t wl r = false := by
    have e : onDec p t wl r = exDec p t wl r := by
      show (if r.reasons.contains "bogus" = true then false else exDec p t wl r) = _
      rw [hc]; rfl
    rw [← e]; exact hd
  exact exDec_skipOK p t wl r hf hd' hw

theorem onDec_not_skipOK : ¬ SkipOK exGen exBuild onDec := by
  intro h
  have e := h true () (fun _ => 0)
    ⟨[1], false, ["bogus"], World.set (fun _ => 0) 1 5, World.set (fun _ => 0) 1 5⟩ rfl
    (by decide) (by
      intro k hk
      by_cases e : k = 1
      · simp [e]
      · exact absurd (by simp [World.set, e]) hk)
  revert e
  decide

theorem exHist_carries : StepsCarry (fun x => x ≠ "bogus") exHist := by
  intro st hst
  simp only [exHist, List.mem_cons, List.not_mem_nil, or_false] at hst
  rcases hst with e | e | e | e | e | e | e | e <;> rw [e] <;> simp [Step.carries]

/-- the restricted theorem applies where the unrestricted one does not -/
theorem nonvacuous_on :
    ¬ SkipOK exGen exBuild onDec ∧
    SkipOKOn (fun x => x ≠ "bogus") exGen exBuild onDec ∧
    StepsCarry (fun x => x ≠ "bogus") exHist ∧
    Quiescent (run exRebuild exGen onDec (init exBuild (fun _ => 0) (fun _ _ => 7)) exHist) ∧
    ∀ p t, (run exRebuild exGen onDec (init exBuild (fun _ => 0) (fun _ _ => 7)) exHist).conn p
        = true →
      (run exRebuild exGen onDec (init exBuild (fun _ => 0) (fun _ _ => 7)) exHist).held p t =
        exGen (exBuild
          (run exRebuild exGen onDec (init exBuild (fun _ => 0) (fun _ _ => 7)) exHist).world) p t := by
  have hq : Quiescent
      (run exRebuild exGen onDec (init exBuild (fun _ => 0) (fun _ _ => 7)) exHist) := by
    refine ⟨rfl, rfl, ?_, ?_⟩
    · intro p; cases p <;> rfl
    · intro p; cases p <;> rfl
  exact ⟨onDec_not_skipOK, onDec_skipOKOn, exHist_carries, hq,
    convergence_on _ exBuild exRebuild exGen onDec exRebuildOK onDec_skipOKOn _ _ exHist
      exHist_carries hq⟩

end IstioModel.C01.ProtocolV2
