import IstioModel.C01.GenTieBase

/-! C01 T-gen, part: per-proxy relevance filter (DefaultProxyNeedsPush), proxy variants ztunnel, agentgateway. -/
namespace IstioModel.C01

theorem tie_P_ztunnel : allP .ztunnel (fun r => beqB (r.model .needs) (pImpl .needs r) && beqB (r.model .kept) (pImpl .kept r)) = true := by
  decide +kernel

theorem tie_P_agentgateway : allP .agentgateway (fun r => beqB (r.model .needs) (pImpl .needs r) && beqB (r.model .kept) (pImpl .kept r)) = true := by
  decide +kernel

end IstioModel.C01
