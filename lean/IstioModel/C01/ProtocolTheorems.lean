import IstioModel.C01.Protocol

/-!
# C01 - eventual consistency of the push pipeline, for every history

`convergence`: under `SkipOK gen dec`, for EVERY finite list of steps (every sequence of changes,
every batching by the debouncer, every interleaving of connects, dequeues and pushes), whenever
the reached state is quiescent each connected client holds exactly what a fresh generation from
the final world gives.  `skip_preserves`: whenever a type is skipped, what the client keeps is
exactly what generating from the request's snapshot would have produced.

The proof is an invariant (`Inv`) over step lists.  Its heart (`heldGen`): what a connected client
holds was generated from SOME world `w`, and `w` differs from the snapshot of the next request
that will be processed for this client only on keys that this request announces.

`quiescent_reachable`, `drained_converges`, `nonvacuous`: quiescent states are reachable from
everywhere, so the theorem is not vacuous.  `convergence_needs_skipOK`: without the hypothesis a
client ends up stale.
-/
namespace IstioModel.C01.Protocol

variable {κ π τ ρ : Type} [DecidableEq κ] [DecidableEq π]

/-! ## small facts -/

theorem upd_same {α : Type} (f : π → α) (p : π) (a : α) : upd f p a p = a := by
  simp [upd]

theorem upd_other {α : Type} {f : π → α} {p p' : π} {a : α} (h : p' ≠ p) : upd f p a p' = f p' := by
  simp [upd, h]

theorem upd_self_eq {α : Type} (f : π → α) (p : π) (a : α) (h : f p = a) : upd f p a = f := by
  funext p'
  by_cases e : p' = p
  · rw [e, upd_same, h]
  · rw [upd_other e]

omit [DecidableEq κ] in
theorem covers_merge_left (q r : Req κ) (k : κ) (h : q.covers k) : (q.merge r).covers k := by
  rcases h with h | h
  · left; simp [Req.merge, h]
  · right; simp [Req.merge, h]

omit [DecidableEq κ] in
theorem covers_merge_right (q r : Req κ) (k : κ) (h : r.covers k) : (q.merge r).covers k := by
  rcases h with h | h
  · left; simp [Req.merge, h]
  · right; simp [Req.merge, h]

omit [DecidableEq κ] in
theorem enq_push (o : Option (Req κ)) (r : Req κ) : (enq o r).push = r.push := by
  cases o <;> rfl

omit [DecidableEq κ] in
theorem enq_covers_right (o : Option (Req κ)) (r : Req κ) (k : κ) (h : r.covers k) :
    (enq o r).covers k := by
  cases o with
  | none => exact h
  | some q => exact covers_merge_right q r k h

omit [DecidableEq κ] in
theorem enq_covers_left (q r : Req κ) (k : κ) (h : q.covers k) : (enq (some q) r).covers k :=
  covers_merge_left q r k h

theorem run_append (gen : World κ → π → τ → ρ) (dec : π → τ → Req κ → Bool) (s : Sys κ π τ ρ)
    (l l' : List (Step κ π)) : run gen dec s (l ++ l') = run gen dec (run gen dec s l) l' := by
  simp [run, List.foldl_append]

/-! ## the steps, one equation per guard outcome -/

section steps
variable (gen : World κ → π → τ → ρ) (dec : π → τ → Req κ → Bool) (s : Sys κ π τ ρ)

theorem flush_queue_conn {p : π} (h : s.conn p = true) :
    (step gen dec s .flush).queue p = some (enq (s.queue p) (flushReq s)) := by
  simp [step, h]

theorem flush_queue_unconn {p : π} (h : s.conn p = false) :
    (step gen dec s .flush).queue p = s.queue p := by
  simp [step, h]

theorem step_connect_old {p : π} (h : s.conn p = true) : step gen dec s (.connect p) = s := by
  simp [step, h]

theorem step_connect_new {p : π} (h : s.conn p = false) :
    step gen dec s (.connect p) =
      { s with
        conn := upd s.conn p true, held := upd s.held p (gen s.snap p),
        queue := upd s.queue p none, infl := upd s.infl p none } := by
  simp [step, h]

theorem step_dequeue_fire {p : π} {q : Req κ} (hc : s.conn p = true) (hi : s.infl p = none)
    (hq : s.queue p = some q) :
    step gen dec s (.dequeue p) =
      { s with infl := upd s.infl p (some q), queue := upd s.queue p none } := by
  simp [step, hc, hi, hq]

theorem step_dequeue_unconn {p : π} (hc : s.conn p = false) : step gen dec s (.dequeue p) = s := by
  simp [step, hc]

theorem step_dequeue_busy {p : π} {r : Req κ} (hi : s.infl p = some r) :
    step gen dec s (.dequeue p) = s := by
  cases hc : s.conn p <;> simp [step, hc, hi]

theorem step_dequeue_empty {p : π} (hq : s.queue p = none) : step gen dec s (.dequeue p) = s := by
  cases hc : s.conn p <;> cases hi : s.infl p <;> simp [step, hc, hi, hq]

theorem step_pushDone_none {p : π} (hi : s.infl p = none) : step gen dec s (.pushDone p) = s := by
  simp [step, hi]

theorem step_pushDone_some {p : π} {r : Req κ} (hi : s.infl p = some r) :
    step gen dec s (.pushDone p) =
      { s with
        infl := upd s.infl p none,
        held := upd s.held p
          (fun t => if (r.forced || dec p t r) = true then gen r.push p t else s.held p t) } := by
  simp [step, hi]

end steps

/-! ## 1. the decision / generator link, through a relevance relation -/

omit [DecidableEq κ] [DecidableEq π] in
theorem skipSoundNear_of_skipSound (dec : π → τ → Req κ → Bool) (Rel : World κ → κ → π → τ → Prop)
    (h : SkipSound dec Rel) : SkipSoundNear dec Rel :=
  fun p t r hf hd w _ k hk => h p t r hf hd k hk w

omit [DecidableEq κ] [DecidableEq π] in
theorem skipOK_of_frame_near (gen : World κ → π → τ → ρ) (dec : π → τ → Req κ → Bool)
    (Rel : World κ → κ → π → τ → Prop) (hfr : Frame gen Rel) (hs : SkipSoundNear dec Rel) :
    SkipOK gen dec := by
  intro p t r hf hd w hw
  apply hfr w r.push p t
  intro k hk
  refine ⟨hs p t r hf hd w hw k (hw k hk), hs p t r hf hd r.push ?_ k (hw k hk)⟩
  intro k' hk'
  exact absurd rfl hk'

omit [DecidableEq κ] [DecidableEq π] in
theorem skipOK_of_frame (gen : World κ → π → τ → ρ) (dec : π → τ → Req κ → Bool)
    (Rel : World κ → κ → π → τ → Prop) (hfr : Frame gen Rel) (hs : SkipSound dec Rel) :
    SkipOK gen dec :=
  skipOK_of_frame_near gen dec Rel hfr (skipSoundNear_of_skipSound dec Rel hs)

/-! ## 2. the invariant -/

/-- `w` (the world a client's resources were generated from) is accounted for by the next request
    that will be processed for this client: the in-flight one, else the queued one, else none. -/
def pendOK (snap w : World κ) : Option (Req κ) → Option (Req κ) → Prop
  | some r, _ => ∀ k, w k ≠ r.push k → r.covers k
  | none, some q => ∀ k, w k ≠ snap k → q.covers k
  | none, none => w = snap

structure Inv (gen : World κ → π → τ → ρ) (s : Sys κ π τ ρ) : Prop where
  /-- the snapshot lags the world only on keys the debouncer will announce -/
  snapLag : ∀ k, s.snap k ≠ s.world k → debCovers s k
  /-- a queued request always carries the latest snapshot -/
  queueLatest : ∀ p q, s.queue p = some q → q.push = s.snap
  /-- what happened after an in-flight request's snapshot is announced by the request queued
      behind it ... -/
  inflQueued : ∀ p r q, s.infl p = some r → s.queue p = some q →
    ∀ k, r.push k ≠ q.push k → q.covers k
  /-- ... and if nothing is queued behind it, its snapshot is the latest -/
  inflLast : ∀ p r, s.infl p = some r → s.queue p = none → r.push = s.snap
  /-- nothing is queued or in flight for unconnected proxies -/
  unconn : ∀ p, s.conn p = false → s.queue p = none ∧ s.infl p = none
  /-- what a connected client holds was generated from a world `w` that the pending work for
      this client accounts for -/
  heldGen : ∀ p t, s.conn p = true →
    ∃ w : World κ, s.held p t = gen w p t ∧ pendOK s.snap w (s.infl p) (s.queue p)

omit [DecidableEq κ] [DecidableEq π] in
theorem inv_init (gen : World κ → π → τ → ρ) (w : World κ) (h : π → τ → ρ) :
    Inv gen (init w h : Sys κ π τ ρ) where
  snapLag := by intro k hk; exact absurd rfl hk
  queueLatest := by intro p q hq; cases hq
  inflQueued := by intro p r q hi; cases hi
  inflLast := by intro p r hi; cases hi
  unconn := by intro p _; exact ⟨rfl, rfl⟩
  heldGen := by intro p t hc; cases hc

theorem inv_step (gen : World κ → π → τ → ρ) (dec : π → τ → Req κ → Bool) (hok : SkipOK gen dec)
    (s : Sys κ π τ ρ) (st : Step κ π) (h : Inv gen s) : Inv gen (step gen dec s st) := by
  cases st with
  | change k v f =>
    refine ⟨?_, h.queueLatest, h.inflQueued, h.inflLast, h.unconn, h.heldGen⟩
    intro k' hk'
    show (s.debForced || f) = true ∨ k' ∈ k :: s.debKeys
    by_cases e : k' = k
    · right; simp [e]
    · have hne : s.snap k' ≠ s.world k' := by
        simpa [step, World.set, e] using hk'
      rcases h.snapLag k' hne with h1 | h1
      · left; simp [h1]
      · right; exact List.mem_cons_of_mem _ h1
  | flush =>
    refine ⟨?_, ?_, ?_, ?_, ?_, ?_⟩
    · intro k hk; exact absurd rfl hk
    · intro p q hq
      cases hc : s.conn p with
      | false =>
        rw [flush_queue_unconn gen dec s hc, (h.unconn p hc).1] at hq; cases hq
      | true =>
        rw [flush_queue_conn gen dec s hc] at hq
        cases hq
        exact enq_push _ _
    · intro p r0 q' hi hq k hk
      have hi' : s.infl p = some r0 := hi
      cases hc : s.conn p with
      | false => rw [(h.unconn p hc).2] at hi'; cases hi'
      | true =>
        rw [flush_queue_conn gen dec s hc] at hq
        cases hq
        rw [enq_push] at hk
        have hk' : r0.push k ≠ s.world k := hk
        cases hq0 : s.queue p with
        | none =>
          have e := h.inflLast p r0 hi' hq0
          apply enq_covers_right
          apply h.snapLag k
          rw [← e]; exact hk'
        | some q =>
          by_cases e : r0.push k = s.snap k
          · apply enq_covers_right
            apply h.snapLag k
            rw [← e]; exact hk'
          · apply enq_covers_left
            apply h.inflQueued p r0 q hi' hq0 k
            rw [h.queueLatest p q hq0]; exact e
    · intro p r0 hi hq
      have hi' : s.infl p = some r0 := hi
      cases hc : s.conn p with
      | false => rw [(h.unconn p hc).2] at hi'; cases hi'
      | true => rw [flush_queue_conn gen dec s hc] at hq; cases hq
    · intro p hc
      have hc' : s.conn p = false := hc
      refine ⟨?_, (h.unconn p hc').2⟩
      rw [flush_queue_unconn gen dec s hc']; exact (h.unconn p hc').1
    · intro p t hc
      have hc' : s.conn p = true := hc
      obtain ⟨w, hw, hp⟩ := h.heldGen p t hc'
      refine ⟨w, hw, ?_⟩
      rw [flush_queue_conn gen dec s hc']
      show pendOK s.world w (s.infl p) (some (enq (s.queue p) (flushReq s)))
      cases hi : s.infl p with
      | some r0 => rw [hi] at hp; exact hp
      | none =>
        rw [hi] at hp
        cases hq0 : s.queue p with
        | none =>
          rw [hq0] at hp
          have e : w = s.snap := hp
          intro k hk
          apply h.snapLag k
          rw [← e]; exact hk
        | some q =>
          rw [hq0] at hp
          have hp' : ∀ k, w k ≠ s.snap k → q.covers k := hp
          intro k hk
          by_cases e : w k = s.snap k
          · apply enq_covers_right
            apply h.snapLag k
            rw [← e]; exact hk
          · exact enq_covers_left q _ k (hp' k e)
  | connect p =>
    cases hc : s.conn p with
    | true => rw [step_connect_old gen dec s hc]; exact h
    | false =>
      obtain ⟨hq, hi⟩ := h.unconn p hc
      rw [step_connect_new gen dec s hc, upd_self_eq s.queue p none hq, upd_self_eq s.infl p none hi]
      refine ⟨h.snapLag, h.queueLatest, h.inflQueued, h.inflLast, ?_, ?_⟩
      · intro p' hc'
        have hc'' : upd s.conn p true p' = false := hc'
        by_cases e : p' = p
        · rw [e, upd_same] at hc''; cases hc''
        · rw [upd_other e] at hc''; exact h.unconn p' hc''
      · intro p' t hc'
        have hc'' : upd s.conn p true p' = true := hc'
        show ∃ w : World κ, upd s.held p (gen s.snap p) p' t = gen w p' t ∧
          pendOK s.snap w (s.infl p') (s.queue p')
        by_cases e : p' = p
        · rw [e, upd_same, hi, hq]
          exact ⟨s.snap, rfl, rfl⟩
        · rw [upd_other e] at hc''
          rw [upd_other e]
          exact h.heldGen p' t hc''
  | dequeue p =>
    cases hc : s.conn p with
    | false => rw [step_dequeue_unconn gen dec s hc]; exact h
    | true =>
      cases hi : s.infl p with
      | some r => rw [step_dequeue_busy gen dec s hi]; exact h
      | none =>
        cases hq : s.queue p with
        | none => rw [step_dequeue_empty gen dec s hq]; exact h
        | some q =>
          rw [step_dequeue_fire gen dec s hc hi hq]
          refine ⟨h.snapLag, ?_, ?_, ?_, ?_, ?_⟩
          · intro p' q' hq'
            have hq'' : upd s.queue p none p' = some q' := hq'
            by_cases e : p' = p
            · rw [e, upd_same] at hq''; cases hq''
            · rw [upd_other e] at hq''; exact h.queueLatest p' q' hq''
          · intro p' r q' hi' hq'
            have hi'' : upd s.infl p (some q) p' = some r := hi'
            have hq'' : upd s.queue p none p' = some q' := hq'
            by_cases e : p' = p
            · rw [e, upd_same] at hq''; cases hq''
            · rw [upd_other e] at hi'' hq''; exact h.inflQueued p' r q' hi'' hq''
          · intro p' r hi' hq'
            have hi'' : upd s.infl p (some q) p' = some r := hi'
            have hq'' : upd s.queue p none p' = none := hq'
            by_cases e : p' = p
            · rw [e, upd_same] at hi''
              cases hi''
              exact h.queueLatest p q hq
            · rw [upd_other e] at hi'' hq''; exact h.inflLast p' r hi'' hq''
          · intro p' hc'
            have hc'' : s.conn p' = false := hc'
            have e : p' ≠ p := by
              intro e; rw [e, hc] at hc''; cases hc''
            show upd s.queue p none p' = none ∧ upd s.infl p (some q) p' = none
            rw [upd_other e, upd_other e]
            exact h.unconn p' hc''
          · intro p' t hc'
            have hc'' : s.conn p' = true := hc'
            obtain ⟨w, hw, hp⟩ := h.heldGen p' t hc''
            refine ⟨w, hw, ?_⟩
            show pendOK s.snap w (upd s.infl p (some q) p') (upd s.queue p none p')
            by_cases e : p' = p
            · rw [e] at hp ⊢
              rw [upd_same, upd_same]
              rw [hi, hq] at hp
              have hp' : ∀ k, w k ≠ s.snap k → q.covers k := hp
              show ∀ k, w k ≠ q.push k → q.covers k
              rw [h.queueLatest p q hq]; exact hp'
            · rw [upd_other e, upd_other e]; exact hp
  | pushDone p =>
    cases hi : s.infl p with
    | none => rw [step_pushDone_none gen dec s hi]; exact h
    | some r =>
      rw [step_pushDone_some gen dec s hi]
      refine ⟨h.snapLag, h.queueLatest, ?_, ?_, ?_, ?_⟩
      · intro p' r' q' hi' hq'
        have hi'' : upd s.infl p none p' = some r' := hi'
        by_cases e : p' = p
        · rw [e, upd_same] at hi''; cases hi''
        · rw [upd_other e] at hi''; exact h.inflQueued p' r' q' hi'' hq'
      · intro p' r' hi' hq'
        have hi'' : upd s.infl p none p' = some r' := hi'
        by_cases e : p' = p
        · rw [e, upd_same] at hi''; cases hi''
        · rw [upd_other e] at hi''; exact h.inflLast p' r' hi'' hq'
      · intro p' hc'
        refine ⟨(h.unconn p' hc').1, ?_⟩
        show upd s.infl p none p' = none
        by_cases e : p' = p
        · rw [e, upd_same]
        · rw [upd_other e]; exact (h.unconn p' hc').2
      · intro p' t hc'
        have hc'' : s.conn p' = true := hc'
        show ∃ w : World κ,
          upd s.held p
            (fun t => if (r.forced || dec p t r) = true then gen r.push p t else s.held p t) p' t
              = gen w p' t ∧
          pendOK s.snap w (upd s.infl p none p') (s.queue p')
        by_cases e : p' = p
        · rw [e] at hc'' ⊢
          rw [upd_same, upd_same]
          refine ⟨r.push, ?_, ?_⟩
          · show (if (r.forced || dec p t r) = true then gen r.push p t else s.held p t) =
              gen r.push p t
            by_cases hd : (r.forced || dec p t r) = true
            · rw [if_pos hd]
            · rw [if_neg hd]
              have hf : r.forced = false ∧ dec p t r = false := by simpa using hd
              obtain ⟨w, hw, hp⟩ := h.heldGen p t hc''
              rw [hi] at hp
              have hp' : ∀ k, w k ≠ r.push k → r.covers k := hp
              rw [hw]
              apply hok p t r hf.1 hf.2 w
              intro k hk
              rcases hp' k hk with h1 | h1
              · rw [hf.1] at h1; cases h1
              · exact h1
          · cases hq : s.queue p with
            | none => exact h.inflLast p r hi hq
            | some q =>
              intro k hk
              apply h.inflQueued p r q hi hq k
              rw [h.queueLatest p q hq]; exact hk
        · rw [upd_other e, upd_other e]
          exact h.heldGen p' t hc''

theorem inv_run (gen : World κ → π → τ → ρ) (dec : π → τ → Req κ → Bool) (hok : SkipOK gen dec)
    (s : Sys κ π τ ρ) (l : List (Step κ π)) (h : Inv gen s) : Inv gen (run gen dec s l) := by
  induction l generalizing s with
  | nil => exact h
  | cons st l ih => exact ih (step gen dec s st) (inv_step gen dec hok s st h)

theorem inv_reachable (gen : World κ → π → τ → ρ) (dec : π → τ → Req κ → Bool)
    (hok : SkipOK gen dec) (w0 : World κ) (h0 : π → τ → ρ) (l : List (Step κ π)) :
    Inv gen (run gen dec (init w0 h0) l) :=
  inv_run gen dec hok _ l (inv_init gen w0 h0)

/-! ## 3. convergence -/

omit [DecidableEq κ] [DecidableEq π] in
/-- in a quiescent state the published snapshot is the world -/
theorem quiescent_snap (gen : World κ → π → τ → ρ) (s : Sys κ π τ ρ) (h : Inv gen s)
    (hq : Quiescent s) : s.snap = s.world := by
  funext k
  apply Decidable.byContradiction
  intro hne
  rcases h.snapLag k hne with h1 | h1
  · rw [hq.2.1] at h1; cases h1
  · rw [hq.1] at h1; simp at h1

omit [DecidableEq κ] [DecidableEq π] in
/-- state form: invariant + quiescent = every connected client is up to date -/
theorem quiescent_up_to_date (gen : World κ → π → τ → ρ) (s : Sys κ π τ ρ) (h : Inv gen s)
    (hq : Quiescent s) (p : π) (t : τ) (hc : s.conn p = true) :
    s.held p t = gen s.world p t := by
  obtain ⟨w, hw, hp⟩ := h.heldGen p t hc
  rw [hq.2.2.2 p, hq.2.2.1 p] at hp
  have e : w = s.snap := hp
  rw [hw, e, quiescent_snap gen s h hq]

/-- **Eventual consistency, for every history.** -/
theorem convergence (gen : World κ → π → τ → ρ) (dec : π → τ → Req κ → Bool)
    (hok : SkipOK gen dec) (w0 : World κ) (h0 : π → τ → ρ) (l : List (Step κ π))
    (hq : Quiescent (run gen dec (init w0 h0) l)) :
    ∀ p t, (run gen dec (init w0 h0) l).conn p = true →
      (run gen dec (init w0 h0) l).held p t = gen (run gen dec (init w0 h0) l).world p t :=
  fun p t hc =>
    quiescent_up_to_date gen _ (inv_reachable gen dec hok w0 h0 l) hq p t hc

/-- the same from the frame property of the generator and soundness of the decision w.r.t. a
    relevance relation -/
theorem convergence_frame (gen : World κ → π → τ → ρ) (dec : π → τ → Req κ → Bool)
    (Rel : World κ → κ → π → τ → Prop) (hfr : Frame gen Rel) (hs : SkipSound dec Rel)
    (w0 : World κ) (h0 : π → τ → ρ) (l : List (Step κ π))
    (hq : Quiescent (run gen dec (init w0 h0) l)) :
    ∀ p t, (run gen dec (init w0 h0) l).conn p = true →
      (run gen dec (init w0 h0) l).held p t = gen (run gen dec (init w0 h0) l).world p t :=
  convergence gen dec (skipOK_of_frame gen dec Rel hfr hs) w0 h0 l hq

/-! ## 5. skipped types were unchanged -/

/-- When `pushDone p` skips type `t` (request not forced, decision says skip), the client keeps
    what it had, and that is exactly what generating from the request's snapshot would have
    produced. -/
theorem skip_preserves (gen : World κ → π → τ → ρ) (dec : π → τ → Req κ → Bool)
    (hok : SkipOK gen dec) (s : Sys κ π τ ρ) (h : Inv gen s) (p : π) (t : τ) (r : Req κ)
    (hi : s.infl p = some r) (hc : s.conn p = true)
    (hf : r.forced = false) (hd : dec p t r = false) :
    (step gen dec s (.pushDone p)).held p t = s.held p t ∧ s.held p t = gen r.push p t := by
  constructor
  · rw [step_pushDone_some gen dec s hi]
    show upd s.held p
      (fun t => if (r.forced || dec p t r) = true then gen r.push p t else s.held p t) p t = _
    rw [upd_same]
    simp [hf, hd]
  · obtain ⟨w, hw, hp⟩ := h.heldGen p t hc
    rw [hi] at hp
    have hp' : ∀ k, w k ≠ r.push k → r.covers k := hp
    rw [hw]
    apply hok p t r hf hd w
    intro k hk
    rcases hp' k hk with h1 | h1
    · rw [hf] at h1; cases h1
    · exact h1

/-- trace form: at any point of any history -/
theorem skip_preserves_run (gen : World κ → π → τ → ρ) (dec : π → τ → Req κ → Bool)
    (hok : SkipOK gen dec) (w0 : World κ) (h0 : π → τ → ρ) (l : List (Step κ π))
    (p : π) (t : τ) (r : Req κ)
    (hi : (run gen dec (init w0 h0) l).infl p = some r)
    (hf : r.forced = false) (hd : dec p t r = false) :
    (run gen dec (init w0 h0) (l ++ [.pushDone p])).held p t = gen r.push p t := by
  have hinv := inv_reachable gen dec hok w0 h0 l
  have hc : (run gen dec (init w0 h0) l).conn p = true := by
    cases hc : (run gen dec (init w0 h0) l).conn p with
    | true => rfl
    | false => rw [(hinv.unconn p hc).2] at hi; cases hi
  obtain ⟨h1, h2⟩ := skip_preserves gen dec hok _ hinv p t r hi hc hf hd
  rw [run_append]
  show (step gen dec (run gen dec (init w0 h0) l) (.pushDone p)).held p t = _
  rw [h1, h2]

/-! ## 6. quiescent states are reachable from everywhere -/

/-- nothing queued, nothing in flight for `p` -/
def Idle (s : Sys κ π τ ρ) (p : π) : Prop := s.queue p = none ∧ s.infl p = none

section live
variable (gen : World κ → π → τ → ρ) (dec : π → τ → Req κ → Bool)

theorem pushDone_frame (s : Sys κ π τ ρ) (p : π) :
    (step gen dec s (.pushDone p)).world = s.world ∧
    (step gen dec s (.pushDone p)).debKeys = s.debKeys ∧
    (step gen dec s (.pushDone p)).debForced = s.debForced ∧
    (step gen dec s (.pushDone p)).conn = s.conn ∧
    (step gen dec s (.pushDone p)).queue = s.queue ∧
    (step gen dec s (.pushDone p)).infl p = none ∧
    ∀ p', p' ≠ p → (step gen dec s (.pushDone p)).infl p' = s.infl p' := by
  cases hi : s.infl p with
  | none =>
    rw [step_pushDone_none gen dec s hi]
    exact ⟨rfl, rfl, rfl, rfl, rfl, hi, fun _ _ => rfl⟩
  | some r =>
    rw [step_pushDone_some gen dec s hi]
    exact ⟨rfl, rfl, rfl, rfl, rfl, upd_same _ _ _, fun p' hp' => upd_other hp'⟩

theorem dequeue_frame (s : Sys κ π τ ρ) (p : π) :
    (step gen dec s (.dequeue p)).world = s.world ∧
    (step gen dec s (.dequeue p)).debKeys = s.debKeys ∧
    (step gen dec s (.dequeue p)).debForced = s.debForced ∧
    (step gen dec s (.dequeue p)).conn = s.conn ∧
    (∀ p', p' ≠ p → (step gen dec s (.dequeue p)).queue p' = s.queue p' ∧
      (step gen dec s (.dequeue p)).infl p' = s.infl p') ∧
    (s.conn p = true → s.infl p = none → (step gen dec s (.dequeue p)).queue p = none) ∧
    (s.conn p = false → (step gen dec s (.dequeue p)).queue p = s.queue p) := by
  cases hc : s.conn p with
  | false =>
    rw [step_dequeue_unconn gen dec s hc]
    exact ⟨rfl, rfl, rfl, rfl, fun _ _ => ⟨rfl, rfl⟩, (fun h => by cases h), fun _ => rfl⟩
  | true =>
    cases hi : s.infl p with
    | some r =>
      rw [step_dequeue_busy gen dec s hi]
      exact ⟨rfl, rfl, rfl, rfl, fun _ _ => ⟨rfl, rfl⟩, (fun _ h => by cases h), (fun h => by cases h)⟩
    | none =>
      cases hq : s.queue p with
      | none =>
        rw [step_dequeue_empty gen dec s hq]
        exact ⟨rfl, rfl, rfl, rfl, fun _ _ => ⟨rfl, rfl⟩, (fun _ _ => hq), (fun h => by cases h)⟩
      | some q =>
        rw [step_dequeue_fire gen dec s hc hi hq]
        exact ⟨rfl, rfl, rfl, rfl, fun p' hp' => ⟨upd_other hp', upd_other hp'⟩,
          (fun _ _ => upd_same _ _ _), (fun h => by cases h)⟩

/-- finishing the in-flight push, taking the queued request and finishing it leaves `p` idle and
    touches nothing else -/
theorem drain_one (s : Sys κ π τ ρ) (p : π) (hun : s.conn p = false → Idle s p) :
    (run gen dec s [.pushDone p, .dequeue p, .pushDone p]).world = s.world ∧
    (run gen dec s [.pushDone p, .dequeue p, .pushDone p]).debKeys = s.debKeys ∧
    (run gen dec s [.pushDone p, .dequeue p, .pushDone p]).debForced = s.debForced ∧
    (run gen dec s [.pushDone p, .dequeue p, .pushDone p]).conn = s.conn ∧
    Idle (run gen dec s [.pushDone p, .dequeue p, .pushDone p]) p ∧
    ∀ p', Idle s p' → Idle (run gen dec s [.pushDone p, .dequeue p, .pushDone p]) p' := by
  show (step gen dec (step gen dec (step gen dec s (.pushDone p)) (.dequeue p)) (.pushDone p)).world
      = s.world ∧
    (step gen dec (step gen dec (step gen dec s (.pushDone p)) (.dequeue p)) (.pushDone p)).debKeys
      = s.debKeys ∧
    (step gen dec (step gen dec (step gen dec s (.pushDone p)) (.dequeue p)) (.pushDone p)).debForced
      = s.debForced ∧
    (step gen dec (step gen dec (step gen dec s (.pushDone p)) (.dequeue p)) (.pushDone p)).conn
      = s.conn ∧
    Idle (step gen dec (step gen dec (step gen dec s (.pushDone p)) (.dequeue p)) (.pushDone p)) p ∧
    ∀ p', Idle s p' →
      Idle (step gen dec (step gen dec (step gen dec s (.pushDone p)) (.dequeue p)) (.pushDone p)) p'
  obtain ⟨a0, a1, a2, a3, a4, a5, a6⟩ := pushDone_frame gen dec s p
  generalize step gen dec s (.pushDone p) = s1 at a0 a1 a2 a3 a4 a5 a6 ⊢
  obtain ⟨b0, b1, b2, b3, b4, b5, b6⟩ := dequeue_frame gen dec s1 p
  generalize step gen dec s1 (.dequeue p) = s2 at b0 b1 b2 b3 b4 b5 b6 ⊢
  obtain ⟨c0, c1, c2, c3, c4, c5, c6⟩ := pushDone_frame gen dec s2 p
  generalize step gen dec s2 (.pushDone p) = s3 at c0 c1 c2 c3 c4 c5 c6 ⊢
  have hidle : Idle s3 p := by
    refine ⟨?_, c5⟩
    rw [c4]
    cases hc : s.conn p with
    | true => exact b5 (by rw [a3]; exact hc) a5
    | false => rw [b6 (by rw [a3]; exact hc), a4]; exact (hun hc).1
  refine ⟨by rw [c0, b0, a0], by rw [c1, b1, a1], by rw [c2, b2, a2], by rw [c3, b3, a3], hidle, ?_⟩
  intro p' hp'
  by_cases e : p' = p
  · rw [e]; exact hidle
  · refine ⟨?_, ?_⟩
    · rw [c4, (b4 p' e).1, a4]; exact hp'.1
    · rw [c6 p' e, (b4 p' e).2, a6 p' e]; exact hp'.2

theorem drain_all (ps : List π) (s : Sys κ π τ ρ) (hun : ∀ p, s.conn p = false → Idle s p) :
    (run gen dec s (drain ps)).world = s.world ∧
    (run gen dec s (drain ps)).debKeys = s.debKeys ∧
    (run gen dec s (drain ps)).debForced = s.debForced ∧
    (run gen dec s (drain ps)).conn = s.conn ∧
    (∀ p, Idle s p → Idle (run gen dec s (drain ps)) p) ∧
    (∀ p, p ∈ ps → Idle (run gen dec s (drain ps)) p) := by
  induction ps generalizing s with
  | nil =>
    refine ⟨rfl, rfl, rfl, rfl, fun _ h => h, ?_⟩
    intro p hp; simp at hp
  | cons p ps ih =>
    have e : run gen dec s (drain (p :: ps)) =
        run gen dec (run gen dec s [.pushDone p, .dequeue p, .pushDone p]) (drain ps) := rfl
    rw [e]
    obtain ⟨a0, a1, a2, a3, a4, a5⟩ := drain_one gen dec s p (hun p)
    generalize run gen dec s [.pushDone p, .dequeue p, .pushDone p] = s3 at a0 a1 a2 a3 a4 a5 ⊢
    have hun3 : ∀ p', s3.conn p' = false → Idle s3 p' := by
      intro p' hc; rw [a3] at hc; exact a5 p' (hun p' hc)
    obtain ⟨b0, b1, b2, b3, b4, b5⟩ := ih s3 hun3
    refine ⟨by rw [b0, a0], by rw [b1, a1], by rw [b2, a2], by rw [b3, a3],
      fun p' hp' => b4 p' (a5 p' hp'), ?_⟩
    intro p' hp'
    rcases List.mem_cons.mp hp' with e | e
    · rw [e]; exact b4 p a4
    · exact b5 p' e

/-- **Quiescence is reachable from every state** in which unconnected proxies have nothing
    pending (in particular from every state satisfying the invariant, hence from every reachable
    state): let the debouncer fire, then complete the pending work of every connected proxy. -/
theorem quiescent_reachable (s : Sys κ π τ ρ)
    (hun : ∀ p, s.conn p = false → s.queue p = none ∧ s.infl p = none)
    (ps : List π) (hall : ∀ p, s.conn p = true → p ∈ ps) :
    Quiescent (run gen dec s (.flush :: drain ps)) ∧
    (run gen dec s (.flush :: drain ps)).world = s.world ∧
    (run gen dec s (.flush :: drain ps)).conn = s.conn := by
  show Quiescent (run gen dec (step gen dec s .flush) (drain ps)) ∧
    (run gen dec (step gen dec s .flush) (drain ps)).world = s.world ∧
    (run gen dec (step gen dec s .flush) (drain ps)).conn = s.conn
  have hun0 : ∀ p, (step gen dec s .flush).conn p = false → Idle (step gen dec s .flush) p := by
    intro p hc
    have hc' : s.conn p = false := hc
    refine ⟨?_, (hun p hc').2⟩
    rw [flush_queue_unconn gen dec s hc']; exact (hun p hc').1
  obtain ⟨b0, b1, b2, b3, b4, b5⟩ := drain_all gen dec ps (step gen dec s .flush) hun0
  have hidle : ∀ p, Idle (run gen dec (step gen dec s .flush) (drain ps)) p := by
    intro p
    cases hc : s.conn p with
    | true => exact b5 p (hall p hc)
    | false => exact b4 p (hun0 p hc)
  exact ⟨⟨b1, b2, fun p => (hidle p).1, fun p => (hidle p).2⟩, b0, b3⟩

/-- every history can be extended (without any further change) to one after which all connected
    clients are up to date with the world the history ended in -/
theorem drained_converges (hok : SkipOK gen dec) (w0 : World κ) (h0 : π → τ → ρ)
    (l : List (Step κ π)) (ps : List π)
    (hall : ∀ p, (run gen dec (init w0 h0) l).conn p = true → p ∈ ps) :
    Quiescent (run gen dec (init w0 h0) (l ++ .flush :: drain ps)) ∧
    ∀ p t, (run gen dec (init w0 h0) l).conn p = true →
      (run gen dec (init w0 h0) (l ++ .flush :: drain ps)).held p t =
        gen (run gen dec (init w0 h0) l).world p t := by
  have hinv := inv_reachable gen dec hok w0 h0 l
  obtain ⟨hq, hw, hc⟩ := quiescent_reachable gen dec _ hinv.unconn ps hall
  rw [← run_append] at hq hw hc
  refine ⟨hq, ?_⟩
  intro p t hcp
  rw [← hw]
  apply convergence gen dec hok w0 h0 _ hq p t
  rw [hc]; exact hcp

end live

/-! ## 6'. a concrete instance with a real skip (non-vacuity of the hypotheses) -/

/-- proxy `true` depends on keys 0 and 1, proxy `false` only on key 0 -/
def exGen : World Nat → Bool → Unit → Nat := fun w p _ => w 0 + (if p then w 1 else 0)

/-- proxy `false` is skipped unless key 0 is announced -/
def exDec : Bool → Unit → Req Nat → Bool := fun p _ r => p || r.keys.contains 0

theorem exDec_skipOK : SkipOK exGen exDec := by
  intro p t r _ hd w hw
  have hd' : p = false ∧ ¬ 0 ∈ r.keys := by simpa [exDec] using hd
  have e : w 0 = r.push 0 := Decidable.byContradiction (fun hne => hd'.2 (hw 0 hne))
  simp [exGen, hd'.1, e]

def exHist : List (Step Nat Bool) :=
  [.connect true, .connect false, .change 1 5 false, .flush,
   .dequeue false, .pushDone false, .dequeue true, .pushDone true]

/-- Both proxies connect, key 1 changes, the push for proxy `false` is SKIPPED, the push for proxy
    `true` regenerates; the final state is quiescent and both hold a fresh generation. -/
theorem nonvacuous :
    SkipOK exGen exDec ∧
    (∃ r, (run exGen exDec (init (fun _ => 0) (fun _ _ => 7)) (exHist.take 5)).infl false = some r ∧
      r.forced = false ∧ exDec false () r = false) ∧
    Quiescent (run exGen exDec (init (fun _ => 0) (fun _ _ => 7)) exHist) ∧
    (∀ p, (run exGen exDec (init (fun _ => 0) (fun _ _ => 7)) exHist).conn p = true) ∧
    (run exGen exDec (init (fun _ => 0) (fun _ _ => 7)) exHist).held true () = 5 ∧
    (run exGen exDec (init (fun _ => 0) (fun _ _ => 7)) exHist).held false () = 0 ∧
    (run exGen exDec (init (fun _ => 0) (fun _ _ => 7)) exHist).world 1 = 5 := by
  refine ⟨exDec_skipOK, ⟨_, rfl, rfl, rfl⟩, ⟨rfl, rfl, ?_, ?_⟩, ?_, rfl, rfl, rfl⟩
  · intro p; cases p <;> rfl
  · intro p; cases p <;> rfl
  · intro p; cases p <;> rfl

/-! ## 7. the hypothesis is needed -/

/-- a decision that always skips -/
def cexDec : Bool → Unit → Req Nat → Bool := fun _ _ _ => false

def cexHist : List (Step Nat Bool) :=
  [.connect true, .change 1 5 false, .flush, .dequeue true, .pushDone true]

theorem cexDec_not_skipOK : ¬ SkipOK exGen cexDec := by
  intro h
  have e := h true () ⟨[1], false, fun _ => 0⟩ rfl rfl (World.set (fun _ => 0) 1 5) (by
    intro k hk
    by_cases e : k = 1
    · simp [e]
    · exact absurd (by simp [World.set, e]) hk)
  revert e
  decide

/-- Without `SkipOK` the conclusion fails: proxy `true` depends on key 1, the decision skips
    anyway, and in the final quiescent state the client is stale. -/
theorem convergence_needs_skipOK :
    ∃ (gen : World Nat → Bool → Unit → Nat) (dec : Bool → Unit → Req Nat → Bool)
      (l : List (Step Nat Bool)),
      ¬ SkipOK gen dec ∧
      Quiescent (run gen dec (init (fun _ => 0) (fun _ _ => 7)) l) ∧
      ∃ p t, (run gen dec (init (fun _ => 0) (fun _ _ => 7)) l).conn p = true ∧
        (run gen dec (init (fun _ => 0) (fun _ _ => 7)) l).held p t ≠
          gen (run gen dec (init (fun _ => 0) (fun _ _ => 7)) l).world p t := by
  refine ⟨exGen, cexDec, cexHist, cexDec_not_skipOK, ⟨rfl, rfl, ?_, ?_⟩, true, (), rfl, ?_⟩
  · intro p; cases p <;> rfl
  · intro p; cases p <;> rfl
  · decide

end IstioModel.C01.Protocol
