import IstioModel.C01.GenTieBase

/-! C01 T-gen, part: per-type decisions eds, partialEds. One `decide +kernel` per output: the hand-written model evaluated on
every row of the domain equals the bit the real Go function produced on that row (this run). -/
namespace IstioModel.C01

theorem tie_T_eds : allT (fun r => beqB (r.model .eds) (tImpl .eds r)) = true := by decide +kernel

theorem tie_T_partialEds : allT (fun r => beqB (r.model .partialEds) (tImpl .partialEds r)) = true := by decide +kernel

end IstioModel.C01
