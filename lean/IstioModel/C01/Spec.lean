import IstioModel.C01.Table

/-!
# C01 - the dependency relation `Affects` (hand-written specification)

`Affects c pv t` says: *the resources of xDS type `t` generated for a proxy of variant `pv` read
the configuration that a change of class `c` modifies* - so a push that skips `t` after such a
change can leave the proxy stale.  The relation is written from the **generators** (which kind
does `BuildClusters`, `BuildListeners`, `BuildHTTPRoutes`, `buildEndpoints`, `BuildNameTable`,
the ECDS generator read), one line per entry with the code location that justifies it; it is
deliberately *not* derived from the skip tables of `pilot/pkg/xds/*ds.go`, which are the thing
being checked.  Only positive dependencies the reading is sure of are listed; everything else is
`false` (no claim).  `GenTie.skip_sound_table` proves: on every row of the generated table where
the real code skips type `t`, `Affects` is false - i.e. every listed dependency is honoured by the
real skip logic, for every kind, proxy variant, namespace class and reason class.

A *change class* is the key's kind, the namespace class of the key, whether the request says the
key is only the headless-endpoint marker (the only reason of the request is
`HeadlessEndpointUpdate`: only the endpoints of a headless service moved), and - for ambient `Address` keys - whether the
changed address is attached to this waypoint (`WaypointsUpdated` references it).
-/
namespace IstioModel.C01

/-- the xDS types whose generators have a skip decision of their own (`T` section outputs) -/
inductive GType where
  | cds | eds | lds | rds | nds | ecds
  deriving DecidableEq, Repr, Inhabited

def GType.all : List GType := [.cds, .eds, .lds, .rds, .nds, .ecds]

def GType.out : GType → TOut
  | .cds => .cds | .eds => .eds | .lds => .lds | .rds => .rds | .nds => .nds | .ecds => .ecds

structure Change where
  kind     : Kind
  ns       : NsC
  /-- the request was triggered by headless endpoint updates only -/
  marker   : Bool
  /-- an updated waypoint reference names this proxy -/
  attached : Bool
  deriving Repr, Inhabited

/-- Envoy-based data planes (everything but ztunnel, which is not served by these generators:
    `xdsNeedsPush` returns "never" for it, xdsgen.go:209) -/
def PV.envoy : PV → Bool
  | .ztunnel => false
  | _ => true

def PV.isWaypoint : PV → Bool
  | .waypoint | .ewWaypoint => true
  | _ => false

/-- CDS: `ConfigGeneratorImpl.BuildClusters` (networking/core/cluster.go:64). -/
def affectsCds (c : Change) (pv : PV) : Bool :=
  match c.kind with
  -- one cluster per service port of `proxy.SidecarScope.Services()` / `push.GatewayServices`
  -- (cluster.go:69-71); a pure headless-endpoint marker does not change the service definition
  | .serviceEntry => !c.marker
  -- traffic policy, subsets, TLS settings: `applyDestinationRule` (cluster_builder.go)
  | .destinationRule => true
  -- auto-mTLS transport socket matches depend on the peer's PeerAuthentication
  -- (`buildAutoMtlsSettings`, `push.BestEffortInferServiceMTLSMode`, cluster_tls.go)
  | .peerAuthentication => true
  -- cluster patches: `envoyfilter.ApplyClusterMerge` (cluster.go:615)
  | .envoyFilter => true
  -- the Sidecar resource selects the imported services (model/sidecar.go `convertToSidecarScope`)
  | .sidecar => pv == .sidecar
  -- VirtualService destinations add services to a Sidecar-scoped import list
  -- (model/sidecar.go `collectImportedServices`)
  | .virtualService => pv == .sidecar
  -- auto-passthrough gateways build SNI clusters per Gateway server (cluster.go
  -- `buildOutboundSniDnatClusters`); cds.go:53 `pushCdsGatewayConfig`
  | .gateway => pv == .router
  -- waypoint clusters are built for the services/workloads attached to the waypoint
  -- (networking/core/waypoint.go `findWaypointResources`); an east-west gateway serves all
  | .address => pv == .ewWaypoint || (pv == .waypoint && c.attached)
  | _ => false

/-- EDS: `EdsGenerator.buildEndpoints` (xds/eds.go), `endpoints.EndpointBuilder`. -/
def affectsEds (c : Change) (pv : PV) : Bool :=
  match c.kind with
  -- endpoint shards of the service (also the headless marker: the endpoints did move)
  | .serviceEntry => true
  | .endpoints => true
  -- subset label selectors, locality LB and outlier settings: `EndpointBuilder` reads the
  -- destination rule (xds/endpoints/endpoint_builder.go)
  | .destinationRule => true
  -- tlsMode metadata / mTLS-ready filtering of endpoints (endpoint_builder.go `mtlsChecker`)
  | .peerAuthentication => true
  -- waypoint EDS follows waypoint CDS (eds.go:132)
  | .address => pv == .ewWaypoint || (pv == .waypoint && c.attached)
  -- the Sidecar resource / a VirtualService of a Sidecar-scoped proxy decides WHICH service a
  -- hostname resolves to when the host exists in several namespaces (model/sidecar.go
  -- `convertToSidecarScope`, `collectImportedServices`); the cluster keeps its name, its endpoints are
  -- the other service's. The real code skips EDS here (`kind.Sidecar`, `kind.VirtualService` in
  -- `skippedEdsConfigs`): a recorded finding, see `skip_sound_table_witness`.
  | .sidecar => pv == .sidecar
  | .virtualService => pv == .sidecar
  | _ => false

/-- LDS: `ConfigGeneratorImpl.BuildListeners` (networking/core/listener.go). -/
def affectsLds (c : Change) (pv : PV) : Bool :=
  match c.kind with
  -- outbound listeners per service port; for sidecars and waypoints also per endpoint IP of a
  -- headless service (listener.go `buildSidecarOutboundListeners`), so the marker counts there;
  -- routers only use the service definition (lds.go:82)
  | .serviceEntry => !c.marker || pv != .router
  -- TCP/TLS routes become filter chains (networking/core/tls.go, gateway.go)
  | .virtualService => true
  -- the Sidecar resource defines ingress/egress listeners
  | .sidecar => pv == .sidecar
  -- Gateway servers are the router's listeners (gateway.go `buildGatewayListeners`)
  | .gateway => pv == .router
  -- auto-passthrough gateways build one filter chain per DestinationRule subset (lds.go:37)
  | .destinationRule => pv == .router
  -- listener / filter-chain / HTTP-filter patches (envoyfilter listener patches)
  | .envoyFilter => true
  -- RBAC, JWT, mTLS, telemetry and Wasm filters of the inbound/outbound chains; policies apply
  -- from the proxy's namespace and the root namespace only (lds.go:100 for PeerAuthentication;
  -- for the other kinds the namespace restriction is applied by the per-proxy filter)
  | .authorizationPolicy => true
  | .requestAuthentication => true
  | .peerAuthentication => c.ns != .other
  | .telemetry => true
  | .wasmPlugin => true
  | .trafficExtension => true
  -- the waypoint's main_internal listener matches attached VIPs / pod IPs (xdsgen.go:226)
  | .address => pv == .ewWaypoint || (pv == .waypoint && c.attached)
  | _ => false

/-- RDS: `ConfigGeneratorImpl.BuildHTTPRoutes` (networking/core/httproute.go, route/route.go). -/
def affectsRds (c : Change) (pv : PV) : Bool :=
  match c.kind with
  -- virtual hosts per service (httproute.go `buildSidecarOutboundVirtualHosts`); the cluster
  -- name in a route is static, so the headless marker does not count (rds.go:63)
  | .serviceEntry => !c.marker
  | .virtualService => true
  -- consistent-hash policy of a route comes from the DestinationRule (route/route.go:265,338)
  | .destinationRule => true
  -- egress listeners of the Sidecar select the visible hosts
  | .sidecar => pv == .sidecar
  -- Gateway servers select the VirtualServices bound to a route (gateway.go
  -- `buildGatewayHTTPRouteConfig`); east-west gateways likewise (rds.go:82)
  | .gateway => pv == .router || pv == .ewWaypoint
  -- route configuration / virtual host / route patches
  | .envoyFilter => true
  | .address => pv == .ewWaypoint || (pv == .waypoint && c.attached)
  | _ => false

/-- NDS: `dnsServer.BuildNameTable` (pkg/dns/server/name_table.go). -/
def affectsNds (c : Change) (_ : PV) : Bool :=
  match c.kind with
  -- one entry per service of `proxy.SidecarScope.Services()`; headless services list pod IPs
  | .serviceEntry => true
  -- marker used for pure-HTTP headless services (kube/controller/endpointslice.go:142)
  | .dnsName => true
  -- the Sidecar resource selects the services of the table
  | .sidecar => true
  | _ => false

/-- ECDS: `EcdsGenerator.Generate` (xds/ecds.go): extension configs come from EnvoyFilter
    patches and (translated) TrafficExtensions, Wasm pull secrets from Secrets. -/
def affectsEcds (c : Change) (_ : PV) : Bool :=
  match c.kind with
  | .envoyFilter => true
  | .trafficExtension => true
  | .secret => true
  | _ => false

/-- The dependency relation. Nothing affects what these generators send to a ztunnel. -/
def Affects (c : Change) (pv : PV) (t : GType) : Bool :=
  pv.envoy && (match t with
    | .cds => affectsCds c pv
    | .eds => affectsEds c pv
    | .lds => affectsLds c pv
    | .rds => affectsRds c pv
    | .nds => affectsNds c pv
    | .ecds => affectsEcds c pv)

/-- The rows on which the real skip tables are KNOWN to violate the dependency relation (recorded
    finding `e2e:long-ne-fresh:eds-not-pushed:sidecar-switches-service-for-host`): EDS of a sidecar
    after a Sidecar / VirtualService-only change. -/
def knownUnsoundSkip (r : TRow) (t : GType) : Bool :=
  (match t with | .eds => true | _ => false) && r.pv == .sidecar &&
    (match r.kind with | .sidecar | .virtualService => true | _ => false)

/-- the change class described by a T row -/
def TRow.change (r : TRow) : Change :=
  { kind := r.kind, ns := r.ns,
    marker := (match r.rc with | .headless => true | _ => false),
    attached := r.wp }

/-! ## Per-proxy relevance (section P): what concerns a proxy at all -/

/-- Spec of the per-proxy filter on a single changed key: a sidecar is concerned when its current
    or its previous scope depends on the key (or there is no scope yet), or the key is one of its own
    services (current or previous service targets); a router is not concerned by Sidecar resources, nor by services that neither its
    current nor its previous scope contains; ambient Address keys concern exactly the proxies
    subscribed to the Address type; everything else concerns everybody. Forced pushes concern
    everybody. -/
def Concerns (r : PRow) : Bool :=
  let forced := (match r.extra with | .forced => true | _ => false)
  let watch := (match r.extra with | .watchAddr => true | _ => false)
  let own := (match r.extra with | .target | .prevTarget => true | _ => false)
  let selfSvc := (match r.extra with | .selfLocal | .selfPrev => true | _ => false) &&
    (r.kind == .serviceEntry || r.kind == .endpoints)
  let dep (c : ScopeC) : Bool :=
    match c with
    | .nil_ => true
    | .without =>
      if clusterScopedKnown r.kind then r.ns != .other
      else !sidecarScopedKnown r.kind
    | .with_ =>
      if clusterScopedKnown r.kind then r.ns != .other else true
  let vis (c : ScopeC) : Bool := (match c with | .with_ => true | _ => false)
  forced ||
  (match r.pv with
   | .sidecar =>
     (own && r.kind == .serviceEntry) ||
     (if r.kind == .gateway then false
      else if r.kind == .address then watch
      else dep r.cur || (r.prev != .nil_ && dep r.prev) || selfSvc)
   | .router =>
     (own && r.kind == .serviceEntry) ||
     (if r.kind == .sidecar then false
      else if r.kind == .address then watch
      else if r.kind == .serviceEntry then vis r.cur || vis r.prev || selfSvc
      else true)
   | _ => true)

end IstioModel.C01
