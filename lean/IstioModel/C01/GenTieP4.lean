import IstioModel.C01.GenTieBase

/-! C01 T-gen, part: the per-proxy filter against its specification `Concerns`, proxy variants sidecar, router, waypoint. -/
namespace IstioModel.C01

theorem concerns_sidecar : allP .sidecar (fun r => beqB (pImpl .needs r) (Concerns r)) = true := by decide +kernel

theorem concerns_router : allP .router (fun r => beqB (pImpl .needs r) (Concerns r)) = true := by decide +kernel

theorem concerns_waypoint : allP .waypoint (fun r => beqB (pImpl .needs r) (Concerns r)) = true := by decide +kernel

end IstioModel.C01
