/-!
# C01 - the xDS push pipeline as a transition system, second model

Same pipeline as `IstioModel.C01.Protocol` (debouncer, flush, per-proxy push queue with merging,
dequeue, push with regenerate-or-skip per xDS type), with three things no longer assumed by typing:

1. **The published snapshot is an index structure that is rebuilt PARTIALLY.**  The snapshot is a
   value of an abstract type `σ` (istio's `PushContext`).  `build : World κ → σ` is the from-scratch
   build (`createNewContext`), `rebuild : σ → List κ → Bool → World κ → σ` is what a flush really
   does (`updateContext`: old snapshot, changed keys, Forced, current world), and generation reads
   the SNAPSHOT (`gen : σ → π → τ → ρ`), not the world.  The fields `Sys.snap` and `Req.push` (the
   world at the time of the flush) are GHOST: no transition reads them except to copy them into
   the other ghost-or-`last` fields; `snapS` / `pushS` are the real thing.  The hypothesis
   `RebuildOK` says that a partial rebuild that was told about every changed key equals a build
   from scratch.
2. **The skip decision sees the world the proxy was last synced at** (`last p`: set at `connect`
   and at every `pushDone`): the real code decides with the proxy's current scope (from the
   request's snapshot) and its previous scope.  `SkipOK` is only required for THAT world.
3. **Reasons travel with the request** (`debReasons`, `Req.reasons`, appended by `merge`); the
   decision may read them, nothing else depends on them.

Modelling choices as before: a `flush` with nothing pending is allowed (it rebuilds with no keys
and enqueues an empty unforced request); a step whose guard fails leaves the state unchanged, so
every list of steps is a legal history.
-/
namespace IstioModel.C01.ProtocolV2

/-- config: version (content) of every key -/
abbrev World (κ : Type) := κ → Nat

def World.set {κ : Type} [DecidableEq κ] (w : World κ) (k : κ) (v : Nat) : World κ :=
  fun k' => if k' = k then v else w k'

/-- a push request: changed keys, Forced flag, reasons, the snapshot it will be generated from -/
structure Req (κ σ R : Type) where
  keys    : List κ
  forced  : Bool
  reasons : List R
  /-- ghost: the world the snapshot `pushS` was published for -/
  push    : World κ
  /-- the snapshot (PushContext) the request will be generated from -/
  pushS   : σ

/-- "the request announces key k" -/
def Req.covers {κ σ R : Type} (r : Req κ σ R) (k : κ) : Prop := r.forced = true ∨ k ∈ r.keys

/-- `PushRequest.Merge`: union of keys, or of Forced, reasons appended, the later snapshot -/
def Req.merge {κ σ R : Type} (a b : Req κ σ R) : Req κ σ R :=
  { keys := a.keys ++ b.keys, forced := a.forced || b.forced, reasons := a.reasons ++ b.reasons,
    push := b.push, pushS := b.pushS }

structure Sys (κ π τ ρ σ R : Type) where
  world      : World κ
  /-- debouncer: keys / Forced / reasons of the events received since the last flush -/
  debKeys    : List κ
  debForced  : Bool
  debReasons : List R
  /-- ghost: the world at the last flush -/
  snap       : World κ
  /-- published snapshot (global PushContext) -/
  snapS      : σ
  conn       : π → Bool
  /-- `PushQueue.pending` -/
  queue      : π → Option (Req κ σ R)
  /-- `PushQueue.processing`: dequeued, push not finished -/
  infl       : π → Option (Req κ σ R)
  /-- what the client holds -/
  held       : π → τ → ρ
  /-- the world the proxy was last synced at (its previous scope is computed from it) -/
  last       : π → World κ

inductive Step (κ π R : Type) where
  /-- a config / service / endpoint change; the event reaches the debouncer -/
  | change (k : κ) (v : Nat) (forced : Bool) (reason : R)
  /-- debounce fires: the snapshot is partially rebuilt, enqueue for every connected proxy -/
  | flush
  /-- a new proxy connects and receives everything from the current snapshot -/
  | connect (p : π)
  /-- the push queue hands p's request to a sender -/
  | dequeue (p : π)
  /-- the request is processed: every type is regenerated or skipped -/
  | pushDone (p : π)

/-- pointwise update -/
def upd {π α : Type} [DecidableEq π] (f : π → α) (p : π) (a : α) : π → α :=
  fun p' => if p' = p then a else f p'

/-- the request the debouncer emits when it fires; it carries the partially rebuilt snapshot -/
def flushReq {κ π τ ρ σ R : Type} (rebuild : σ → List κ → Bool → World κ → σ)
    (s : Sys κ π τ ρ σ R) : Req κ σ R :=
  { keys := s.debKeys, forced := s.debForced, reasons := s.debReasons, push := s.world,
    pushS := rebuild s.snapS s.debKeys s.debForced s.world }

/-- `PushQueue.Enqueue`: merge into the pending request if there is one -/
def enq {κ σ R : Type} : Option (Req κ σ R) → Req κ σ R → Req κ σ R
  | some q, r => q.merge r
  | none, r => r

def step {κ π τ ρ σ R : Type} [DecidableEq κ] [DecidableEq π]
    (rebuild : σ → List κ → Bool → World κ → σ) (gen : σ → π → τ → ρ)
    (dec : π → τ → World κ → Req κ σ R → Bool)
    (s : Sys κ π τ ρ σ R) : Step κ π R → Sys κ π τ ρ σ R
  | .change k v f rs =>
    { s with
      world := s.world.set k v, debKeys := k :: s.debKeys, debForced := s.debForced || f,
      debReasons := s.debReasons ++ [rs] }
  | .flush =>
    { s with
      snap := s.world, snapS := rebuild s.snapS s.debKeys s.debForced s.world,
      debKeys := [], debForced := false, debReasons := [],
      queue := fun p =>
        if s.conn p = true then some (enq (s.queue p) (flushReq rebuild s)) else s.queue p }
  | .connect p =>
    if s.conn p = true then s else
    { s with
      conn := upd s.conn p true, held := upd s.held p (gen s.snapS p),
      last := upd s.last p s.snap,
      queue := upd s.queue p none, infl := upd s.infl p none }
  | .dequeue p =>
    match s.conn p, s.infl p, s.queue p with
    | true, none, some q => { s with infl := upd s.infl p (some q), queue := upd s.queue p none }
    | _, _, _ => s
  | .pushDone p =>
    match s.infl p with
    | some r =>
      { s with
        infl := upd s.infl p none,
        held := upd s.held p
          (fun t =>
            if (r.forced || dec p t (s.last p) r) = true then gen r.pushS p t else s.held p t),
        last := upd s.last p r.push }
    | none => s

/-- a freshly started control plane: world = `w`, snapshot built from scratch, nothing pending,
    nobody connected -/
def init {κ π τ ρ σ R : Type} (build : World κ → σ) (w : World κ) (h : π → τ → ρ) :
    Sys κ π τ ρ σ R :=
  { world := w, debKeys := [], debForced := false, debReasons := [], snap := w, snapS := build w,
    conn := fun _ => false, queue := fun _ => none, infl := fun _ => none, held := h,
    last := fun _ => w }

def run {κ π τ ρ σ R : Type} [DecidableEq κ] [DecidableEq π]
    (rebuild : σ → List κ → Bool → World κ → σ) (gen : σ → π → τ → ρ)
    (dec : π → τ → World κ → Req κ σ R → Bool)
    (s : Sys κ π τ ρ σ R) (l : List (Step κ π R)) : Sys κ π τ ρ σ R :=
  l.foldl (step rebuild gen dec) s

/-- nothing debounced, nothing queued, nothing in flight -/
def Quiescent {κ π τ ρ σ R : Type} (s : Sys κ π τ ρ σ R) : Prop :=
  s.debKeys = [] ∧ s.debForced = false ∧ (∀ p, s.queue p = none) ∧ (∀ p, s.infl p = none)

/-- a partial rebuild told about every changed key (or Forced) equals a from-scratch build -/
def RebuildOK {κ σ : Type} (build : World κ → σ) (rebuild : σ → List κ → Bool → World κ → σ) :
    Prop :=
  ∀ (w0 w : World κ) (keys : List κ) (forced : Bool),
    (forced = true ∨ ∀ k, w0 k ≠ w k → k ∈ keys) → rebuild (build w0) keys forced w = build w

/-- Skipping is only decided when generation cannot have changed, for THE world the proxy is at:
    if the decision (seeing the world `wl` the proxy was last synced at) skips type `t` for proxy
    `p` on request `r`, and `wl` differs from the request's world only on keys the request
    announces, then what was generated for `wl` is what would be generated now. -/
def SkipOK {κ π τ ρ σ R : Type} (gen : σ → π → τ → ρ) (build : World κ → σ)
    (dec : π → τ → World κ → Req κ σ R → Bool) : Prop :=
  ∀ p t (wl : World κ) (r : Req κ σ R), r.forced = false → dec p t wl r = false →
    (∀ k, wl k ≠ r.push k → k ∈ r.keys) → gen (build wl) p t = gen (build r.push) p t

/-- frame hypothesis: keys that are irrelevant (for p, t) between the two worlds - in the
    proxy's previous and current scope - do not influence generation -/
def FrameAt {κ π τ ρ σ : Type} (gen : σ → π → τ → ρ) (build : World κ → σ)
    (Rel : World κ → World κ → κ → π → τ → Prop) : Prop :=
  ∀ wl w' p t, (∀ k, wl k ≠ w' k → ¬ Rel wl w' k p t) → gen (build wl) p t = gen (build w') p t

/-- the decision only skips when no announced key is relevant between the world the proxy is at
    and the world being pushed -/
def SkipSoundAt {κ π τ σ R : Type} (dec : π → τ → World κ → Req κ σ R → Bool)
    (Rel : World κ → World κ → κ → π → τ → Prop) : Prop :=
  ∀ p t (wl : World κ) (r : Req κ σ R), r.forced = false → dec p t wl r = false →
    ∀ k ∈ r.keys, ¬ Rel wl r.push k p t

/-- "the debouncer will announce key k" -/
def debCovers {κ π τ ρ σ R : Type} (s : Sys κ π τ ρ σ R) (k : κ) : Prop :=
  s.debForced = true ∨ k ∈ s.debKeys

/-- the steps that complete whatever is pending for the proxies of `ps`: finish the in-flight
    push if any, take the queued request, finish it -/
def drain {κ π R : Type} : List π → List (Step κ π R)
  | [] => []
  | p :: ps => .pushDone p :: .dequeue p :: .pushDone p :: drain ps

end IstioModel.C01.ProtocolV2
