import IstioModel.C01.GenTieBase

/-! C01 T-gen, part: per-type decisions lds, rds. One `decide +kernel` per output: the hand-written model evaluated on
every row of the domain equals the bit the real Go function produced on that row (this run). -/
namespace IstioModel.C01

theorem tie_T_lds : allT (fun r => beqB (r.model .lds) (tImpl .lds r)) = true := by decide +kernel

theorem tie_T_rds : allT (fun r => beqB (r.model .rds) (tImpl .rds r)) = true := by decide +kernel

end IstioModel.C01
