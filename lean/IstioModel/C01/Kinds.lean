/-!
# C01 - config kinds (`pkg/config/schema/kind/resources.gen.go`)

Hand-written mirror of Go's `kind.Kind` enumeration, in iota order.  The check regenerates the
list of names from the real `kind.Kind.String()` on every run (`Generated/C01Table.lean`,
`Gen.kindNames`) and `GenTie.kind_list_tie` proves the two lists equal, so a kind added to or
removed from /repo breaks the tie (the model must then be extended).
-/
namespace IstioModel.C01

inductive Kind where
  | unknown | address | authorizationPolicy | backendTLSPolicy | certificateSigningRequest
  | clusterTrustBundle | configMap | customResourceDefinition | dnsName | daemonSet | deployment
  | destinationRule | endpointSlice | endpoints | envoyFilter | grpcRoute | gateway | gatewayClass
  | httpRoute | horizontalPodAutoscaler | inferencePool | ingress | ingressClass
  | kubernetesGateway | lease | listenerSet | meshConfig | meshNetworks
  | mutatingWebhookConfiguration | namespace_ | node | peerAuthentication | pod
  | podDisruptionBudget | proxyConfig | referenceGrant | requestAuthentication | secret | service
  | serviceAccount | serviceEntry | sidecar | statefulSet | tcpRoute | tlsRoute | telemetry
  | trafficExtension | typeUrl | udpRoute | validatingWebhookConfiguration | virtualService
  | wasmPlugin | workloadEntry | workloadGroup | xBackend | xBackendTrafficPolicy
  deriving DecidableEq, Repr, Inhabited

/-- every kind, in the order of Go's `kind.Kind` iota -/
def Kind.all : List Kind := [
  .unknown, .address, .authorizationPolicy, .backendTLSPolicy, .certificateSigningRequest,
  .clusterTrustBundle, .configMap, .customResourceDefinition, .dnsName, .daemonSet, .deployment,
  .destinationRule, .endpointSlice, .endpoints, .envoyFilter, .grpcRoute, .gateway, .gatewayClass,
  .httpRoute, .horizontalPodAutoscaler, .inferencePool, .ingress, .ingressClass,
  .kubernetesGateway, .lease, .listenerSet, .meshConfig, .meshNetworks,
  .mutatingWebhookConfiguration, .namespace_, .node, .peerAuthentication, .pod,
  .podDisruptionBudget, .proxyConfig, .referenceGrant, .requestAuthentication, .secret, .service,
  .serviceAccount, .serviceEntry, .sidecar, .statefulSet, .tcpRoute, .tlsRoute, .telemetry,
  .trafficExtension, .typeUrl, .udpRoute, .validatingWebhookConfiguration, .virtualService,
  .wasmPlugin, .workloadEntry, .workloadGroup, .xBackend, .xBackendTrafficPolicy]

/-- `kind.Kind.String()` -/
def Kind.name : Kind → String
  | .unknown => "Unknown"
  | .address => "Address"
  | .authorizationPolicy => "AuthorizationPolicy"
  | .backendTLSPolicy => "BackendTLSPolicy"
  | .certificateSigningRequest => "CertificateSigningRequest"
  | .clusterTrustBundle => "ClusterTrustBundle"
  | .configMap => "ConfigMap"
  | .customResourceDefinition => "CustomResourceDefinition"
  | .dnsName => "DNSName"
  | .daemonSet => "DaemonSet"
  | .deployment => "Deployment"
  | .destinationRule => "DestinationRule"
  | .endpointSlice => "EndpointSlice"
  | .endpoints => "Endpoints"
  | .envoyFilter => "EnvoyFilter"
  | .grpcRoute => "GRPCRoute"
  | .gateway => "Gateway"
  | .gatewayClass => "GatewayClass"
  | .httpRoute => "HTTPRoute"
  | .horizontalPodAutoscaler => "HorizontalPodAutoscaler"
  | .inferencePool => "InferencePool"
  | .ingress => "Ingress"
  | .ingressClass => "IngressClass"
  | .kubernetesGateway => "KubernetesGateway"
  | .lease => "Lease"
  | .listenerSet => "ListenerSet"
  | .meshConfig => "MeshConfig"
  | .meshNetworks => "MeshNetworks"
  | .mutatingWebhookConfiguration => "MutatingWebhookConfiguration"
  | .namespace_ => "Namespace"
  | .node => "Node"
  | .peerAuthentication => "PeerAuthentication"
  | .pod => "Pod"
  | .podDisruptionBudget => "PodDisruptionBudget"
  | .proxyConfig => "ProxyConfig"
  | .referenceGrant => "ReferenceGrant"
  | .requestAuthentication => "RequestAuthentication"
  | .secret => "Secret"
  | .service => "Service"
  | .serviceAccount => "ServiceAccount"
  | .serviceEntry => "ServiceEntry"
  | .sidecar => "Sidecar"
  | .statefulSet => "StatefulSet"
  | .tcpRoute => "TCPRoute"
  | .tlsRoute => "TLSRoute"
  | .telemetry => "Telemetry"
  | .trafficExtension => "TrafficExtension"
  | .typeUrl => "TypeUrl"
  | .udpRoute => "UDPRoute"
  | .validatingWebhookConfiguration => "ValidatingWebhookConfiguration"
  | .virtualService => "VirtualService"
  | .wasmPlugin => "WasmPlugin"
  | .workloadEntry => "WorkloadEntry"
  | .workloadGroup => "WorkloadGroup"
  | .xBackend => "XBackend"
  | .xBackendTrafficPolicy => "XBackendTrafficPolicy"

/-- numeric value of the Go constant (= constructor index = position in `Kind.all`) -/
def Kind.idx (k : Kind) : Nat := k.ctorIdx

theorem Kind.ofNat_idx (k : Kind) : Kind.ofNat k.idx = k := by cases k <;> rfl

/-- Fast Boolean equality (the kernel evaluates `Nat.beq` on literals natively; the derived
    `DecidableEq` is an order of magnitude slower under `decide +kernel`). -/
instance : BEq Kind := ⟨fun a b => Nat.beq a.idx b.idx⟩

instance : LawfulBEq Kind where
  eq_of_beq {a b} h := by
    have h' : a.idx = b.idx := Nat.eq_of_beq_eq_true h
    rw [← Kind.ofNat_idx a, ← Kind.ofNat_idx b, h']
  rfl {a} := by cases a <;> rfl

def Kind.ofName (s : String) : Option Kind := Kind.all.find? (fun k => k.name == s)

end IstioModel.C01
