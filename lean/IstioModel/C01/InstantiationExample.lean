import IstioModel.C01.Instantiation

/-!
# C01 - `convergence_model` is not vacuous: a concrete instance

`Instantiation.convergence_model` is conditional on `RebuildOK` and `ModelFrame` (and
`convergence_model_refresh` on `RefreshOK` as well).  This file exhibits one small instance in which
EVERY hypothesis holds and in which the generator really reads configuration: the CDS output of a
sidecar is computed from the content of a ServiceEntry and of a DestinationRule.  The theorem is then
applied to a concrete history (connect, change both keys with an ordinary reason, flush, dequeue,
push), and the client is shown to hold the new content afterwards.

`ex_frame_needs_restriction` records why `ModelFrame` is stated for `OrdinaryReason` reasons only:
for the reasons list `[.headless]` the single-key ServiceEntry request skips CDS, so the same frame
statement quantified over all reasons lists is FALSE for this (and for any ServiceEntry reading)
generator.

Two more instances follow:

* **a waypoint** (`wp*`): the CDS output of a waypoint reads the content of an ATTACHED address; the
  event of that address carries the waypoint reference (`wpAtt`), the theorem applies
  (`wp_converges`, `wp_held_value`), and WITHOUT the references the frame is false for this
  generator (`wp_frame_needs_wrefs`) - which is why `reqOfV2` carries them;
* **a configuration-dependent view with a genuinely partial rebuild** (`cfg*`): a Sidecar resource
  decides whether the proxy imports a second service, the snapshot refreshes only the announced
  keys, and the history changes that service WHILE IT IS OUT OF SCOPE (the push is skipped) and
  then brings it back into scope: the client ends with the current content (`cfg_converges`,
  `cfg_held_value`, `cfg_decisions`).
-/
namespace IstioModel.C01.InstantiationExample
open IstioModel.C01 ProtocolV2

/-- the root (mesh config) namespace of the example -/
def exRoot : Nat := 0

/-- the only proxy: a sidecar in namespace 1 with no Sidecar scope, so it depends on every config -/
def exProxy : Proxy := { ty := .sidecar, scope := none }

/-- a ServiceEntry key (name 5, namespace 1) -/
def seKey : Key := { kind := .serviceEntry, name := 5, ns := 1 }

/-- a DestinationRule key (name 6, namespace 1) -/
def drKey : Key := { kind := .destinationRule, name := 6, ns := 1 }

/-- an Endpoints key (name 5, namespace 1): a kind the CDS generator skips -/
def epKey : Key := { kind := .endpoints, name := 5, ns := 1 }

/-- the snapshot is the world itself -/
def exBuild : World Key → World Key := id

/-- the partial rebuild takes the current world (so it trivially equals a from-scratch build) -/
def exRebuild : World Key → List Key → Bool → World Key → World Key := fun _ _ _ w => w

/-- no waypoint references: the example proxy is a sidecar -/
def exAtt : Key → List WRef := fun _ => []

/-- every proxy, in every world, looks like `exProxy` -/
def exView : World Key → Unit → Proxy := fun _ _ => exProxy

/-- the generator: the CDS output is computed from the CONTENT of the ServiceEntry and of the
    DestinationRule; every other type is constant -/
def exGen : World Key → Unit → XType → Nat :=
  fun w _ t => if t = .cds then w seKey + w drKey else 0

/-- the initial configuration: every key at version 0 -/
def exW0 : World Key := fun _ => 0

/-- what the (not yet connected) client holds initially: something no generation produces -/
def exH0 : Unit → XType → Nat := fun _ _ => 7

/-- `RebuildOK` holds: the rebuild returns the current world, which is the from-scratch build. -/
theorem ex_rebuildOK : RebuildOK exBuild exRebuild := fun _ _ _ _ _ => rfl

/-- A request all of whose reasons are ordinary is never a headless-endpoint-only request. -/
theorem headlessInit_ordinary (ks : List Key) (rs : List Reason) (h : ∀ x ∈ rs, OrdinaryReason x) :
    headlessInit { keys := ks, reasons := rs, forced := false } = false := by
  cases rs with
  | nil => rfl
  | cons x xs =>
    have hx : (x == Reason.headless) = false := by
      have hne : x ≠ .headless := h x (by simp)
      simpa using hne
    simp [headlessInit, hx]

/-- The key lemma: with ordinary reasons the single-key request of the ServiceEntry key, and of the
    DestinationRule key, is PUSHED for CDS to the example proxy (it passes the proxy filter because
    the proxy has no scope, and `cdsNeedsPush` keeps both kinds). -/
theorem ex_pushes (rs : List Reason) (h : ∀ x ∈ rs, OrdinaryReason x) (k : Key)
    (hk : k = seKey ∨ k = drKey) :
    pushDecision exRoot .cds { keys := [k], reasons := rs, forced := false }
      (decidingProxy exProxy exProxy) = true := by
  have hh := headlessInit_ordinary [k] rs h
  rcases hk with rfl | rfl
  · show (true && (cdsNeedsPush { keys := [seKey], reasons := rs, forced := false } exProxy).2) = true
    rw [cdsNeedsPush_spec _ _ rfl rfl, hh]; rfl
  · show (true && (cdsNeedsPush { keys := [drKey], reasons := rs, forced := false } exProxy).2) = true
    rw [cdsNeedsPush_spec _ _ rfl rfl, hh]; rfl

/-- `ModelFrame` holds for the example: if every changed key would be skipped on its own, neither
    the ServiceEntry nor the DestinationRule changed (their single-key requests are pushed), so the
    CDS output is the same; the other types are constant. -/
theorem ex_modelFrame : ModelFrame exRoot exAtt exView exGen exBuild := by
  intro rs hrs wl w' p t hskip
  by_cases ht : t = .cds
  · subst ht
    have hk : ∀ k, k = seKey ∨ k = drKey → wl k = w' k := fun k hk =>
      Decidable.byContradiction fun hne => hskip k hne (ex_pushes rs hrs k hk)
    show (if XType.cds = .cds then wl seKey + wl drKey else 0)
      = (if XType.cds = .cds then w' seKey + w' drKey else 0)
    rw [hk seKey (Or.inl rfl), hk drKey (Or.inr rfl)]
  · show (if t = .cds then wl seKey + wl drKey else 0) = (if t = .cds then w' seKey + w' drKey else 0)
    rw [if_neg ht, if_neg ht]

/-- `RefreshOK` holds: the view does not depend on the world. -/
theorem ex_refreshOK : RefreshOK exView :=
  fun _ _ _ _ _ _ => ⟨fun _ => rfl, fun _ => ⟨rfl, rfl⟩, fun _ => rfl⟩

/-- Why `ModelFrame` is restricted to ordinary reasons: the same statement over ALL reasons lists is
    false for this generator.  With reasons `[.headless]` the ServiceEntry request skips CDS, yet the
    CDS output reads the ServiceEntry. -/
theorem ex_frame_needs_restriction :
    ¬ (∀ (rs : List Reason) (wl w' : World Key) (p : Unit) (t : XType),
        (∀ k, wl k ≠ w' k → ¬ SingleKeyRelAt exRoot exAtt rs exView wl w' k p t) →
        exGen (exBuild wl) p t = exGen (exBuild w') p t) := by
  intro h
  have e := h [.headless] exW0 (World.set exW0 seKey 1) () .cds (by
    intro k hk
    by_cases e : k = seKey
    · rw [e]; unfold SingleKeyRelAt; decide
    · exact absurd (by simp [World.set, e]) hk)
  revert e
  decide

/-- The history: the proxy connects; the ServiceEntry and the DestinationRule change (one batch,
    ordinary reason, not forced); the debouncer fires; the request is dequeued and pushed.  Then the
    Endpoints key changes; that request is dequeued and processed as well (CDS skips it). -/
def exHist : List (Step Key Unit Reason) :=
  [.connect (), .change seKey 5 false .config, .change drKey 3 false .config, .flush,
   .dequeue (), .pushDone (),
   .change epKey 9 false .endpoint, .flush, .dequeue (), .pushDone ()]

/-- every change of the history carries an ordinary reason -/
theorem exHist_carries : StepsCarry OrdinaryReason exHist := by
  intro st hst
  simp only [exHist, List.mem_cons, List.not_mem_nil, or_false] at hst
  rcases hst with e | e | e | e | e | e | e | e | e | e <;> rw [e] <;>
    simp [Step.carries, OrdinaryReason]

/-- the final state of the history under the modelled decision -/
def exFinal : Sys Key Unit XType Nat (World Key) Reason :=
  run exRebuild exGen (modelDecV2 exRoot exAtt exView) (init exBuild exW0 exH0) exHist

/-- **`convergence_model` applied.**  The history carries ordinary reasons, ends quiescent with the
    proxy connected and the ServiceEntry changed, and - by `convergence_model`, all of whose
    hypotheses hold here - the client holds what a fresh generation from the final world produces. -/
theorem ex_converges :
    StepsCarry OrdinaryReason exHist ∧ Quiescent exFinal ∧ exFinal.conn () = true ∧
    exFinal.world seKey ≠ exW0 seKey ∧
    ∀ p t, exFinal.conn p = true → exFinal.held p t = exGen (exBuild exFinal.world) p t := by
  have hq : Quiescent exFinal := ⟨rfl, rfl, fun _ => rfl, fun _ => rfl⟩
  exact ⟨exHist_carries, hq, rfl, by decide,
    convergence_model exRoot exAtt exView exGen exBuild exRebuild ex_rebuildOK ex_modelFrame exW0 exH0
      exHist exHist_carries hq⟩

/-- The client really received the new content: CDS is 5 + 3 (not the initial 7, not the 0 + 0
    generated at connect), every other type is the constant 0. -/
theorem ex_held_value : exFinal.held () .cds = 8 ∧ exFinal.held () .eds = 0 := by decide

/-- the state after the first `n` steps of the history -/
def exAt (n : Nat) : Sys Key Unit XType Nat (World Key) Reason :=
  run exRebuild exGen (modelDecV2 exRoot exAtt exView) (init exBuild exW0 exH0) (exHist.take n)

/-- Both branches of the decision are exercised: the first request (ServiceEntry and
    DestinationRule, not forced) is pushed for CDS by the modelled decision, the second (Endpoints)
    is skipped for CDS and pushed for EDS. -/
theorem ex_decisions :
    (∃ r, (exAt 5).infl () = some r ∧ r.forced = false ∧ r.reasons = [.config, .config] ∧
      modelDecV2 exRoot exAtt exView () .cds ((exAt 5).last ()) r = true) ∧
    (∃ r, (exAt 9).infl () = some r ∧ r.forced = false ∧ r.reasons = [.endpoint] ∧
      modelDecV2 exRoot exAtt exView () .cds ((exAt 9).last ()) r = false ∧
      modelDecV2 exRoot exAtt exView () .eds ((exAt 9).last ()) r = true) := by
  refine ⟨⟨_, rfl, rfl, rfl, ?_⟩, ⟨_, rfl, rfl, rfl, ?_, ?_⟩⟩ <;> decide

/-- the final state of the same history under the decision that keeps unrefreshed proxy state -/
def exFinalR : Sys Key Unit XType Nat (World Key) Reason :=
  run exRebuild exGen (modelDecV2R exRoot exAtt exView) (init exBuild exW0 exH0) exHist

/-- **`convergence_model_refresh` applied** to the same instance (`RefreshOK` holds as well). -/
theorem ex_converges_refresh :
    Quiescent exFinalR ∧ exFinalR.conn () = true ∧ exFinalR.held () .cds = 8 ∧
    ∀ p t, exFinalR.conn p = true → exFinalR.held p t = exGen (exBuild exFinalR.world) p t := by
  have hq : Quiescent exFinalR := ⟨rfl, rfl, fun _ => rfl, fun _ => rfl⟩
  exact ⟨hq, rfl, by decide,
    convergence_model_refresh exRoot exAtt exView exGen exBuild exRebuild ex_rebuildOK ex_modelFrame
      ex_refreshOK exW0 exH0 exHist exHist_carries hq⟩

/-! ## A waypoint: the references of the attached address travel with the event -/

/-- a waypoint (not east-west) in network 0 that serves the address 9 -/
def wpProxy : Proxy := { ty := .waypoint, network := 0, addrs := [9] }

/-- the key of an address (a workload) attached to the waypoint -/
def addrKey : Key := { kind := .address, name := 3, ns := 1 }

/-- the reference of `wpProxy` as the ambient index records it on the address -/
def wpRef : WRef := { ns := 1, host := none, net := 0, addr := 9 }

/-- an event of the attached address carries the waypoint's reference; no other key carries one -/
def wpAtt : Key → List WRef := fun k => if k = addrKey then [wpRef] else []

/-- every proxy, in every world, looks like `wpProxy` -/
def wpView : World Key → Unit → Proxy := fun _ _ => wpProxy

/-- the waypoint's CDS output reads the CONTENT of the attached address -/
def wpGen : World Key → Unit → XType → Nat := fun w _ t => if t = .cds then w addrKey else 0

/-- With its reference attached, the single-key request of the address is pushed for CDS to the
    waypoint, whatever the reasons. -/
theorem wp_pushes (rs : List Reason) :
    pushDecision exRoot .cds { keys := [addrKey], reasons := rs, forced := false, wrefs := wpAtt addrKey }
      (decidingProxy wpProxy wpProxy) = true := rfl

/-- `ModelFrame` holds for the waypoint instance. -/
theorem wp_modelFrame : ModelFrame exRoot wpAtt wpView wpGen exBuild := by
  intro rs _ wl w' p t hskip
  by_cases ht : t = .cds
  · subst ht
    have hk : wl addrKey = w' addrKey :=
      Decidable.byContradiction fun hne => hskip addrKey hne (wp_pushes rs)
    show (if XType.cds = .cds then wl addrKey else 0) = (if XType.cds = .cds then w' addrKey else 0)
    rw [hk]
  · show (if t = .cds then wl addrKey else 0) = (if t = .cds then w' addrKey else 0)
    rw [if_neg ht, if_neg ht]

/-- **Why the references are carried**: with no references on the events (`att := fun _ => []`) the
    frame is FALSE for this generator - the address request is skipped for every type of a
    waypoint, yet its clusters read the address. -/
theorem wp_frame_needs_wrefs : ¬ ModelFrame exRoot (fun _ => []) wpView wpGen exBuild := by
  intro h
  have e := h [.config] (by intro x hx; simp at hx; subst hx; simp [OrdinaryReason])
    exW0 (World.set exW0 addrKey 1) () .cds (by
    intro k hk
    by_cases e : k = addrKey
    · rw [e]; unfold SingleKeyRelAt; decide
    · exact absurd (by simp [World.set, e]) hk)
  revert e
  decide

/-- the waypoint connects, the attached address changes, the request is flushed, dequeued, pushed -/
def wpHist : List (Step Key Unit Reason) :=
  [.connect (), .change addrKey 4 false .config, .flush, .dequeue (), .pushDone ()]

/-- every change of the history carries an ordinary reason -/
theorem wpHist_carries : StepsCarry OrdinaryReason wpHist := by
  intro st hst
  simp only [wpHist, List.mem_cons, List.not_mem_nil, or_false] at hst
  rcases hst with e | e | e | e | e <;> rw [e] <;> simp [Step.carries, OrdinaryReason]

/-- the final state of the waypoint history -/
def wpFinal : Sys Key Unit XType Nat (World Key) Reason :=
  run exRebuild wpGen (modelDecV2 exRoot wpAtt wpView) (init exBuild exW0 exH0) wpHist

/-- **`convergence_model` applied to a waypoint.** -/
theorem wp_converges :
    Quiescent wpFinal ∧ wpFinal.conn () = true ∧
    ∀ p t, wpFinal.conn p = true → wpFinal.held p t = wpGen (exBuild wpFinal.world) p t := by
  have hq : Quiescent wpFinal := ⟨rfl, rfl, fun _ => rfl, fun _ => rfl⟩
  exact ⟨hq, rfl,
    convergence_model exRoot wpAtt wpView wpGen exBuild exRebuild ex_rebuildOK wp_modelFrame exW0 exH0
      wpHist wpHist_carries hq⟩

/-- the waypoint ends with the new content of the address (pushed by the modelled decision, not by
    the connect); the same history WITHOUT references leaves it with the stale 0 -/
theorem wp_held_value :
    wpFinal.held () .cds = 4 ∧
    (run exRebuild wpGen (modelDecV2 exRoot (fun _ => []) wpView) (init exBuild exW0 exH0) wpHist).held () .cds = 0 := by
  decide

/-! ## A configuration-dependent view and a genuinely partial rebuild -/

/-- the key of the Sidecar resource of the proxy's namespace -/
def scKey : Key := { kind := .sidecar, name := 7, ns := 1 }

/-- a second ServiceEntry key (name 6, namespace 1) -/
def se2Key : Key := { kind := .serviceEntry, name := 6, ns := 1 }

/-- the Sidecar resource at content 0 imports both services, at any other content only the first -/
def imports2 (w : World Key) : Bool := Nat.beq (w scKey) 0

/-- the proxy with the Sidecar scope computed from the Sidecar resource: its config dependencies
    are the Sidecar key, the first service and - if imported - the second -/
def cfgProxy (b : Bool) : Proxy :=
  { ty := .sidecar,
    scope := some { ns := 1, deps := if b then [scKey, seKey, se2Key] else [scKey, seKey],
                    services := if b then [5, 6] else [5] } }

/-- the proxy's view of a world -/
def cfgView : World Key → Unit → Proxy := fun w _ => cfgProxy (imports2 w)

/-- CDS reads the first service and - if the Sidecar resource imports it - the second one; the
    generator reads the SNAPSHOT -/
def cfgGen : World Key → Unit → XType → Nat :=
  fun s _ t => if t = .cds then s seKey + (if imports2 s then s se2Key else 0) else 0

/-- a PARTIAL rebuild: unless Forced, only the announced keys are taken from the current world, the
    rest of the snapshot is kept -/
def cfgRebuild : World Key → List Key → Bool → World Key → World Key :=
  fun s keys forced w => if forced then w else fun k => if k ∈ keys then w k else s k

/-- the partial rebuild equals a from-scratch build when it is told every changed key -/
theorem cfg_rebuildOK : RebuildOK exBuild cfgRebuild := by
  intro w0 w keys forced h
  cases forced with
  | true => rfl
  | false =>
    have hc : ∀ k, w0 k ≠ w k → k ∈ keys := by
      rcases h with h | h
      · cases h
      · exact h
    funext k
    show (if k ∈ keys then w k else w0 k) = w k
    by_cases hm : k ∈ keys
    · rw [if_pos hm]
    · rw [if_neg hm]
      exact Decidable.byContradiction fun hne => hm (hc k hne)

/-- it is genuinely partial: told nothing, it keeps the old snapshot -/
theorem cfg_rebuild_partial : cfgRebuild exW0 [] false (World.set exW0 seKey 1) seKey = 0 := by decide

/-- A single-key request that passes the per-proxy filter of a sidecar unchanged and whose key CDS
    keeps is pushed for CDS, whatever the (ordinary) reasons. -/
theorem pushes_of (p : Proxy) (k : Key) (rs : List Reason) (hrs : ∀ x ∈ rs, OrdinaryReason x)
    (hf : proxyNeedsPush p exRoot { keys := [k], reasons := rs, forced := false } = ([k], true))
    (hty : p.ty = .sidecar) (hkeep : cdsKeep p k = true) :
    pushDecision exRoot .cds { keys := [k], reasons := rs, forced := false } p = true := by
  simp only [pushDecision, hf]
  show (true && (cdsNeedsPush { keys := [k], reasons := rs, forced := false } p).2) = true
  rw [cdsNeedsPush_spec _ _ (by simp [xdsNeedsPush, hty]) (by simp [hty]),
    headlessInit_ordinary [k] rs hrs]
  simp [hkeep]

/-- The key lemma: the Sidecar key, the first service and - when the CURRENT scope imports it - the
    second service are pushed for CDS, for every combination of previous and current scope. -/
theorem cfg_pushes (b b' : Bool) (rs : List Reason) (h : ∀ x ∈ rs, OrdinaryReason x) (k : Key)
    (hk : k = scKey ∨ k = seKey ∨ (k = se2Key ∧ b' = true)) :
    pushDecision exRoot .cds { keys := [k], reasons := rs, forced := false, wrefs := exAtt k }
      (decidingProxy (cfgProxy b') (cfgProxy b)) = true := by
  rcases hk with rfl | rfl | ⟨rfl, rfl⟩ <;> cases b <;> (try cases b') <;>
    exact pushes_of _ _ rs h rfl rfl rfl

/-- `ModelFrame` holds for the configuration-dependent view: a key that is skipped on its own for
    the proxy between two worlds is neither the Sidecar key nor the first service, and it is the
    second service only if the current scope does not import it - and then (the Sidecar key being
    unchanged) neither world's generation reads it. -/
theorem cfg_modelFrame : ModelFrame exRoot exAtt cfgView cfgGen exBuild := by
  intro rs hrs wl w' p t hskip
  by_cases ht : t = .cds
  · subst ht
    have hsc : wl scKey = w' scKey := Decidable.byContradiction fun hne =>
      hskip scKey hne (cfg_pushes (imports2 wl) (imports2 w') rs hrs scKey (Or.inl rfl))
    have hse : wl seKey = w' seKey := Decidable.byContradiction fun hne =>
      hskip seKey hne (cfg_pushes (imports2 wl) (imports2 w') rs hrs seKey (Or.inr (Or.inl rfl)))
    have hi : imports2 wl = imports2 w' := by unfold imports2; rw [hsc]
    show (if XType.cds = .cds then wl seKey + (if imports2 wl then wl se2Key else 0) else 0)
      = (if XType.cds = .cds then w' seKey + (if imports2 w' then w' se2Key else 0) else 0)
    rw [hi, hse]
    cases hb : imports2 w' with
    | false => rfl
    | true =>
      have h2 : wl se2Key = w' se2Key := Decidable.byContradiction fun hne =>
        hskip se2Key hne (cfg_pushes (imports2 wl) (imports2 w') rs hrs se2Key (Or.inr (Or.inr ⟨rfl, hb⟩)))
      rw [h2]
  · show (if t = .cds then _ else 0) = (if t = .cds then _ else 0)
    rw [if_neg ht, if_neg ht]

/-- a request that announces the Sidecar key makes `computeProxyState` reset the scope -/
theorem refresh_scope_of_sidecar_key (p : Proxy) (r : Req) (h : scKey ∈ r.keys) :
    (pushConnectionRefresh p r).scope = true := by
  have hall : r.keys.all (fun k => k.kind == .endpoints) = false := by
    apply Bool.eq_false_iff.mpr
    intro hall
    have := List.all_eq_true.mp hall scKey h
    revert this
    decide
  have h1 : onlyEndpoints r.keys = false := by unfold onlyEndpoints; rw [hall]; simp
  have hany : r.keys.any scopeKind = true := List.any_eq_true.mpr ⟨scKey, h, by decide⟩
  unfold pushConnectionRefresh
  rw [h1]
  simp only [Bool.false_eq_true, if_false]
  rw [computeProxyState_spec]
  show (r.forced || r.keys.any scopeKind) = true
  rw [hany]; simp

/-- `RefreshOK` holds for the configuration-dependent view: the scope only depends on the Sidecar
    key, and a request announcing that key resets the scope; targets and gateways are constant. -/
theorem cfg_refreshOK : RefreshOK cfgView := by
  intro wl w' p r _ hcov
  refine ⟨?_, fun _ => ⟨?_, ?_⟩, fun _ => ?_⟩
  · intro hs
    by_cases hsc : wl scKey = w' scKey
    · show (cfgProxy (imports2 w')).scope = (cfgProxy (imports2 wl)).scope
      unfold imports2; rw [hsc]
    · have := refresh_scope_of_sidecar_key (cfgView wl p) r (hcov scKey hsc)
      rw [hs] at this
      exact Bool.noConfusion this
  · cases imports2 w' <;> cases imports2 wl <;> rfl
  · cases imports2 w' <;> cases imports2 wl <;> rfl
  · cases imports2 w' <;> cases imports2 wl <;> rfl

/-- The history: connect; the second service changes while imported (pushed); the Sidecar resource
    stops importing it (pushed - the PREVIOUS scope still holds it); the second service changes again
    while NOT imported (skipped for this proxy); the Sidecar resource imports it again. -/
def cfgHist : List (Step Key Unit Reason) :=
  [.connect (),
   .change se2Key 4 false .config, .flush, .dequeue (), .pushDone (),
   .change scKey 1 false .config, .flush, .dequeue (), .pushDone (),
   .change se2Key 9 false .config, .flush, .dequeue (), .pushDone (),
   .change scKey 0 false .config, .flush, .dequeue (), .pushDone ()]

/-- every change of the history carries an ordinary reason -/
theorem cfgHist_carries : StepsCarry OrdinaryReason cfgHist := by
  intro st hst
  simp only [cfgHist, List.mem_cons, List.not_mem_nil, or_false] at hst
  rcases hst with e | e | e | e | e | e | e | e | e | e | e | e | e | e | e | e | e <;> rw [e] <;>
    simp [Step.carries, OrdinaryReason]

/-- the state after the first `n` steps of the history (decision with the refresh logic) -/
def cfgAt (n : Nat) : Sys Key Unit XType Nat (World Key) Reason :=
  run cfgRebuild cfgGen (modelDecV2R exRoot exAtt cfgView) (init exBuild exW0 exH0) (cfgHist.take n)

/-- the final state -/
def cfgFinal : Sys Key Unit XType Nat (World Key) Reason := cfgAt 17

/-- **`convergence_model_refresh` applied** to the configuration-dependent view over the partially
    rebuilt snapshot: all hypotheses hold (`cfg_rebuildOK`, `cfg_modelFrame`, `cfg_refreshOK`). -/
theorem cfg_converges :
    Quiescent cfgFinal ∧ cfgFinal.conn () = true ∧
    ∀ p t, cfgFinal.conn p = true → cfgFinal.held p t = cfgGen (exBuild cfgFinal.world) p t := by
  have hq : Quiescent cfgFinal := ⟨rfl, rfl, fun _ => rfl, fun _ => rfl⟩
  exact ⟨hq, rfl,
    convergence_model_refresh exRoot exAtt cfgView cfgGen exBuild cfgRebuild cfg_rebuildOK cfg_modelFrame
      cfg_refreshOK exW0 exH0 cfgHist cfgHist_carries hq⟩

/-- The values along the history: 4 after the first change; 0 once the service is out of scope;
    STILL 0 after its second change (skipped); 9 - the current content, although the change that
    produced it was never pushed to this proxy - once it is imported again. -/
theorem cfg_held_value :
    (cfgAt 5).held () .cds = 4 ∧ (cfgAt 9).held () .cds = 0 ∧ (cfgAt 13).held () .cds = 0 ∧
    cfgFinal.held () .cds = 9 := by decide

/-- The decisions along the history: the Sidecar change that drops the import is pushed for CDS
    (the previous scope holds the service), the change of the out-of-scope service is SKIPPED for
    every type, the Sidecar change that restores the import is pushed. -/
theorem cfg_decisions :
    (∃ r, (cfgAt 8).infl () = some r ∧ r.keys = [scKey] ∧
      modelDecV2R exRoot exAtt cfgView () .cds ((cfgAt 8).last ()) r = true) ∧
    (∃ r, (cfgAt 12).infl () = some r ∧ r.keys = [se2Key] ∧
      ∀ t ∈ XType.all, modelDecV2R exRoot exAtt cfgView () t ((cfgAt 12).last ()) r = false) ∧
    (∃ r, (cfgAt 16).infl () = some r ∧ r.keys = [scKey] ∧
      modelDecV2R exRoot exAtt cfgView () .cds ((cfgAt 16).last ()) r = true) := by
  refine ⟨⟨_, rfl, rfl, ?_⟩, ⟨_, rfl, rfl, ?_⟩, ⟨_, rfl, rfl, ?_⟩⟩ <;> decide

end IstioModel.C01.InstantiationExample
