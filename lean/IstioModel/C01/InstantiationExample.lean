import IstioModel.C01.Instantiation

/-!
# C01 - `convergence_model` is not vacuous: a concrete instance

`Instantiation.convergence_model` is conditional on `RebuildOK` and `ModelFrame` (and
`convergence_model_refresh` on `RefreshOK` as well).  This file exhibits one small instance in which
EVERY hypothesis holds and in which the generator really reads configuration: the CDS output of a
sidecar is computed from the content of a ServiceEntry and of a DestinationRule.  The theorem is then
applied to a concrete history (connect, change both keys with an ordinary reason, flush, dequeue,
push), and the client is shown to hold the new content afterwards.

`ex_frame_needs_restriction` records why `ModelFrame` is stated for `OrdinaryReason` reasons only:
for the reasons list `[.headless]` the single-key ServiceEntry request skips CDS, so the same frame
statement quantified over all reasons lists is FALSE for this (and for any ServiceEntry reading)
generator.
-/
namespace IstioModel.C01.InstantiationExample
open IstioModel.C01 ProtocolV2

/-- the root (mesh config) namespace of the example -/
def exRoot : Nat := 0

/-- the only proxy: a sidecar in namespace 1 with no Sidecar scope, so it depends on every config -/
def exProxy : Proxy := { ty := .sidecar, scope := none }

/-- a ServiceEntry key (name 5, namespace 1) -/
def seKey : Key := { kind := .serviceEntry, name := 5, ns := 1 }

/-- a DestinationRule key (name 6, namespace 1) -/
def drKey : Key := { kind := .destinationRule, name := 6, ns := 1 }

/-- an Endpoints key (name 5, namespace 1): a kind the CDS generator skips -/
def epKey : Key := { kind := .endpoints, name := 5, ns := 1 }

/-- the snapshot is the world itself -/
def exBuild : World Key → World Key := id

/-- the partial rebuild takes the current world (so it trivially equals a from-scratch build) -/
def exRebuild : World Key → List Key → Bool → World Key → World Key := fun _ _ _ w => w

/-- every proxy, in every world, looks like `exProxy` -/
def exView : World Key → Unit → Proxy := fun _ _ => exProxy

/-- the generator: the CDS output is computed from the CONTENT of the ServiceEntry and of the
    DestinationRule; every other type is constant -/
def exGen : World Key → Unit → XType → Nat :=
  fun w _ t => if t = .cds then w seKey + w drKey else 0

/-- the initial configuration: every key at version 0 -/
def exW0 : World Key := fun _ => 0

/-- what the (not yet connected) client holds initially: something no generation produces -/
def exH0 : Unit → XType → Nat := fun _ _ => 7

/-- `RebuildOK` holds: the rebuild returns the current world, which is the from-scratch build. -/
theorem ex_rebuildOK : RebuildOK exBuild exRebuild := fun _ _ _ _ _ => rfl

/-- A request all of whose reasons are ordinary is never a headless-endpoint-only request. -/
theorem headlessInit_ordinary (ks : List Key) (rs : List Reason) (h : ∀ x ∈ rs, OrdinaryReason x) :
    headlessInit { keys := ks, reasons := rs, forced := false } = false := by
  cases rs with
  | nil => rfl
  | cons x xs =>
    have hx : (x == Reason.headless) = false := by
      have hne : x ≠ .headless := h x (by simp)
      simpa using hne
    simp [headlessInit, hx]

/-- The key lemma: with ordinary reasons the single-key request of the ServiceEntry key, and of the
    DestinationRule key, is PUSHED for CDS to the example proxy (it passes the proxy filter because
    the proxy has no scope, and `cdsNeedsPush` keeps both kinds). -/
theorem ex_pushes (rs : List Reason) (h : ∀ x ∈ rs, OrdinaryReason x) (k : Key)
    (hk : k = seKey ∨ k = drKey) :
    pushDecision exRoot .cds { keys := [k], reasons := rs, forced := false }
      (decidingProxy exProxy exProxy) = true := by
  have hh := headlessInit_ordinary [k] rs h
  rcases hk with rfl | rfl
  · show (true && (cdsNeedsPush { keys := [seKey], reasons := rs, forced := false } exProxy).2) = true
    rw [cdsNeedsPush_spec _ _ rfl rfl, hh]; rfl
  · show (true && (cdsNeedsPush { keys := [drKey], reasons := rs, forced := false } exProxy).2) = true
    rw [cdsNeedsPush_spec _ _ rfl rfl, hh]; rfl

/-- `ModelFrame` holds for the example: if every changed key would be skipped on its own, neither
    the ServiceEntry nor the DestinationRule changed (their single-key requests are pushed), so the
    CDS output is the same; the other types are constant. -/
theorem ex_modelFrame : ModelFrame exRoot exView exGen exBuild := by
  intro rs hrs wl w' p t hskip
  by_cases ht : t = .cds
  · subst ht
    have hk : ∀ k, k = seKey ∨ k = drKey → wl k = w' k := fun k hk =>
      Decidable.byContradiction fun hne => hskip k hne (ex_pushes rs hrs k hk)
    show (if XType.cds = .cds then wl seKey + wl drKey else 0)
      = (if XType.cds = .cds then w' seKey + w' drKey else 0)
    rw [hk seKey (Or.inl rfl), hk drKey (Or.inr rfl)]
  · show (if t = .cds then wl seKey + wl drKey else 0) = (if t = .cds then w' seKey + w' drKey else 0)
    rw [if_neg ht, if_neg ht]

/-- `RefreshOK` holds: the view does not depend on the world. -/
theorem ex_refreshOK : RefreshOK exView :=
  fun _ _ _ _ _ _ => ⟨fun _ => rfl, fun _ => ⟨rfl, rfl⟩, fun _ => rfl⟩

/-- Why `ModelFrame` is restricted to ordinary reasons: the same statement over ALL reasons lists is
    false for this generator.  With reasons `[.headless]` the ServiceEntry request skips CDS, yet the
    CDS output reads the ServiceEntry. -/
theorem ex_frame_needs_restriction :
    ¬ (∀ (rs : List Reason) (wl w' : World Key) (p : Unit) (t : XType),
        (∀ k, wl k ≠ w' k → ¬ SingleKeyRelAt exRoot rs exView wl w' k p t) →
        exGen (exBuild wl) p t = exGen (exBuild w') p t) := by
  intro h
  have e := h [.headless] exW0 (World.set exW0 seKey 1) () .cds (by
    intro k hk
    by_cases e : k = seKey
    · rw [e]; unfold SingleKeyRelAt; decide
    · exact absurd (by simp [World.set, e]) hk)
  revert e
  decide

/-- The history: the proxy connects; the ServiceEntry and the DestinationRule change (one batch,
    ordinary reason, not forced); the debouncer fires; the request is dequeued and pushed.  Then the
    Endpoints key changes; that request is dequeued and processed as well (CDS skips it). -/
def exHist : List (Step Key Unit Reason) :=
  [.connect (), .change seKey 5 false .config, .change drKey 3 false .config, .flush,
   .dequeue (), .pushDone (),
   .change epKey 9 false .endpoint, .flush, .dequeue (), .pushDone ()]

/-- every change of the history carries an ordinary reason -/
theorem exHist_carries : StepsCarry OrdinaryReason exHist := by
  intro st hst
  simp only [exHist, List.mem_cons, List.not_mem_nil, or_false] at hst
  rcases hst with e | e | e | e | e | e | e | e | e | e <;> rw [e] <;>
    simp [Step.carries, OrdinaryReason]

/-- the final state of the history under the modelled decision -/
def exFinal : Sys Key Unit XType Nat (World Key) Reason :=
  run exRebuild exGen (modelDecV2 exRoot exView) (init exBuild exW0 exH0) exHist

/-- **`convergence_model` applied.**  The history carries ordinary reasons, ends quiescent with the
    proxy connected and the ServiceEntry changed, and - by `convergence_model`, all of whose
    hypotheses hold here - the client holds what a fresh generation from the final world produces. -/
theorem ex_converges :
    StepsCarry OrdinaryReason exHist ∧ Quiescent exFinal ∧ exFinal.conn () = true ∧
    exFinal.world seKey ≠ exW0 seKey ∧
    ∀ p t, exFinal.conn p = true → exFinal.held p t = exGen (exBuild exFinal.world) p t := by
  have hq : Quiescent exFinal := ⟨rfl, rfl, fun _ => rfl, fun _ => rfl⟩
  exact ⟨exHist_carries, hq, rfl, by decide,
    convergence_model exRoot exView exGen exBuild exRebuild ex_rebuildOK ex_modelFrame exW0 exH0
      exHist exHist_carries hq⟩

/-- The client really received the new content: CDS is 5 + 3 (not the initial 7, not the 0 + 0
    generated at connect), every other type is the constant 0. -/
theorem ex_held_value : exFinal.held () .cds = 8 ∧ exFinal.held () .eds = 0 := by decide

/-- the state after the first `n` steps of the history -/
def exAt (n : Nat) : Sys Key Unit XType Nat (World Key) Reason :=
  run exRebuild exGen (modelDecV2 exRoot exView) (init exBuild exW0 exH0) (exHist.take n)

/-- Both branches of the decision are exercised: the first request (ServiceEntry and
    DestinationRule, not forced) is pushed for CDS by the modelled decision, the second (Endpoints)
    is skipped for CDS and pushed for EDS. -/
theorem ex_decisions :
    (∃ r, (exAt 5).infl () = some r ∧ r.forced = false ∧ r.reasons = [.config, .config] ∧
      modelDecV2 exRoot exView () .cds ((exAt 5).last ()) r = true) ∧
    (∃ r, (exAt 9).infl () = some r ∧ r.forced = false ∧ r.reasons = [.endpoint] ∧
      modelDecV2 exRoot exView () .cds ((exAt 9).last ()) r = false ∧
      modelDecV2 exRoot exView () .eds ((exAt 9).last ()) r = true) := by
  refine ⟨⟨_, rfl, rfl, rfl, ?_⟩, ⟨_, rfl, rfl, rfl, ?_, ?_⟩⟩ <;> decide

/-- the final state of the same history under the decision that keeps unrefreshed proxy state -/
def exFinalR : Sys Key Unit XType Nat (World Key) Reason :=
  run exRebuild exGen (modelDecV2R exRoot exView) (init exBuild exW0 exH0) exHist

/-- **`convergence_model_refresh` applied** to the same instance (`RefreshOK` holds as well). -/
theorem ex_converges_refresh :
    Quiescent exFinalR ∧ exFinalR.conn () = true ∧ exFinalR.held () .cds = 8 ∧
    ∀ p t, exFinalR.conn p = true → exFinalR.held p t = exGen (exBuild exFinalR.world) p t := by
  have hq : Quiescent exFinalR := ⟨rfl, rfl, fun _ => rfl, fun _ => rfl⟩
  exact ⟨hq, rfl, by decide,
    convergence_model_refresh exRoot exView exGen exBuild exRebuild ex_rebuildOK ex_modelFrame
      ex_refreshOK exW0 exH0 exHist exHist_carries hq⟩

end IstioModel.C01.InstantiationExample
