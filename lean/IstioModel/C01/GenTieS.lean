import IstioModel.C01.GenTieBase

/-! C01 T-gen, part: proxy state refresh (computeProxyState direct / through pushConnection / nil request). One `decide +kernel` per output: the hand-written model evaluated on
every row of the domain equals the bit the real Go function produced on that row (this run). -/
namespace IstioModel.C01

theorem tie_S_direct : allS (fun r => SOut.all.all fun o => beqB (r.modelDirect o) (sDirectImpl o r)) = true := by
  decide +kernel

theorem tie_S_push : allS (fun r => SOut.all.all fun o => beqB (r.modelPush o) (sPushImpl o r)) = true := by
  decide +kernel

theorem tie_S_nil : (PV.all.all fun pv => SOut.all.all fun o => beqB (nilModel pv o) (sNilImpl o pv)) = true := by
  decide +kernel

end IstioModel.C01
