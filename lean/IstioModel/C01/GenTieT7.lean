import IstioModel.C01.GenTieBase

/-! C01 T-gen, part: per-type decisions sds, pcds. -/
namespace IstioModel.C01

theorem tie_T_sds : allT (fun r => beqB (r.model .sds) (tImpl .sds r)) = true := by decide +kernel

theorem tie_T_pcds : allT (fun r => beqB (r.model .pcds) (tImpl .pcds r)) = true := by decide +kernel

end IstioModel.C01
