import IstioModel.C01.GenTieBase

/-! C01 T-gen, part: per-type decisions cds, cdsKept. One `decide +kernel` per output: the hand-written model evaluated on
every row of the domain equals the bit the real Go function produced on that row (this run). -/
namespace IstioModel.C01

theorem tie_T_cds : allT (fun r => beqB (r.model .cds) (tImpl .cds r)) = true := by decide +kernel

theorem tie_T_cdsKept : allT (fun r => beqB (r.model .cdsKept) (tImpl .cdsKept r)) = true := by decide +kernel

end IstioModel.C01
