import IstioModel.C01.GenTieT1
import IstioModel.C01.GenTieT2
import IstioModel.C01.GenTieT3
import IstioModel.C01.GenTieT4
import IstioModel.C01.GenTieP1
import IstioModel.C01.GenTieP2
import IstioModel.C01.GenTieP3
import IstioModel.C01.GenTieT5
import IstioModel.C01.GenTieT6
import IstioModel.C01.GenTieT7
import IstioModel.C01.GenTieP4
import IstioModel.C01.GenTieP5
import IstioModel.C01.GenTieP6
import IstioModel.C01.GenTieS

/-!
# C01 - T-gen: the model equals the real functions on the whole single-key domain, and the
generated table honours the dependency relation

Everything in this file is a kernel-checked statement about what the REAL functions of /repo
returned **in this run** on all rows (20160 + 81648 + 2694 rows, 386k evaluations).
-/
namespace IstioModel.C01

/-- The model's kind enumeration is Go's `kind.Kind` (names, in iota order). -/
theorem kind_list_tie : Gen.kindNames = Kind.all.map Kind.name ∧ Gen.nKinds = Kind.all.length := by
  decide +kernel

/-- `PushOrder` of the model is `xds.PushOrder`. -/
theorem push_order_tie : Gen.pushOrder = pushOrder := by decide +kernel

/-- The generated tables have exactly one bit per row. -/
theorem table_shape :
    Gen.tRows = tRows ∧ Gen.pRows = pRows ∧ Gen.sRows = sRows ∧
    (TOut.all.all fun o => tMask o < 2 ^ tRows) = true ∧
    pMask .needs < 2 ^ pRows ∧ pMask .kept < 2 ^ pRows ∧
    (SOut.all.all fun o => decide (sDirectMask o < 2 ^ (sRows + 6)) && decide (sPushMask o < 2 ^ sRows)) = true := by
  decide +kernel

/-- **T-gen, exhaustive (`model_eq_impl_needsPush`).** For every kind, proxy variant, namespace
    class, reason class, Forced flag and waypoint attachment, every modelled per-type decision
    (`cdsNeedsPush` and the key it keeps, `edsNeedsPush`, `canSendPartialFullPushes`,
    `ldsNeedsPush`, `rdsNeedsPush`, `ndsNeedsPush`, `ecdsNeedsPush`, `sdsNeedsPush`,
    `pcdsNeedsPush`) equals what the real function returned on that row. -/
theorem model_eq_impl_needsPush (r : TRow) (o : TOut) : r.model o = tImpl o r := by
  cases o
  · exact eq_of_beqB (forall_T tie_T_cds r)
  · exact eq_of_beqB (forall_T tie_T_cdsKept r)
  · exact eq_of_beqB (forall_T tie_T_eds r)
  · exact eq_of_beqB (forall_T tie_T_partialEds r)
  · exact eq_of_beqB (forall_T tie_T_lds r)
  · exact eq_of_beqB (forall_T tie_T_rds r)
  · exact eq_of_beqB (forall_T tie_T_nds r)
  · exact eq_of_beqB (forall_T tie_T_ecds r)
  · exact eq_of_beqB (forall_T tie_T_sds r)
  · exact eq_of_beqB (forall_T tie_T_pcds r)

/-- **T-gen, exhaustive.** The modelled `DefaultProxyNeedsPush` (decision and kept key) equals the
    real one for every proxy variant, kind, namespace class, current/previous scope state and
    self-discovery / own-service / Forced / Address-watch situation. -/
theorem model_eq_impl_proxyNeedsPush (r : PRow) (o : POut) : r.model o = pImpl o r := by
  have key : (beqB (r.model .needs) (pImpl .needs r) && beqB (r.model .kept) (pImpl .kept r)) = true := by
    rcases h : r.pv with _ | _ | _ | _ | _ | _
    · exact forall_P tie_P_sidecar r h
    · exact forall_P tie_P_router r h
    · exact forall_P tie_P_waypoint r h
    · exact forall_P tie_P_ewWaypoint r h
    · exact forall_P tie_P_ztunnel r h
    · exact forall_P tie_P_agentgateway r h
  rw [Bool.and_eq_true] at key
  cases o
  · exact eq_of_beqB key.1
  · exact eq_of_beqB key.2

/-- **T-gen, exhaustive.** Which parts of the proxy state are refreshed: the model of
    `computeProxyState` equals the real function (called directly, called through
    `pushConnection` with its only-Endpoints gate, and with the nil request of a new connection). -/
theorem model_eq_impl_computeProxyState (r : SRow) (o : SOut) :
    r.modelDirect o = sDirectImpl o r ∧ r.modelPush o = sPushImpl o r := by
  have h1 := forall_S tie_S_direct r
  have h2 := forall_S tie_S_push r
  simp only [List.all_eq_true] at h1 h2
  have ho : o ∈ SOut.all := by cases o <;> simp [SOut.all]
  exact ⟨eq_of_beqB (h1 o ho), eq_of_beqB (h2 o ho)⟩

theorem model_eq_impl_computeProxyState_nil (pv : PV) (o : SOut) : nilModel pv o = sNilImpl o pv := by
  have h := tie_S_nil
  simp only [List.all_eq_true] at h
  have ho : o ∈ SOut.all := by cases o <;> simp [SOut.all]
  exact eq_of_beqB (h pv (PV.all_complete _) o ho)

/-- The full statement of skip soundness: wherever the real code decides, on a non-forced single-key
    request, to skip an xDS type, the dependency relation says the change does not affect that type
    for that proxy. It is FALSE for the pinned tree (`skip_sound_table_witness`). -/
def SkipSoundFull : Prop :=
  ∀ (r : TRow) (t : GType), r.forced = false → tImpl t.out r = false → Affects r.change r.pv t = false

/-- **`skip_sound_table_partial`.** Skip soundness on every row of the generated table except the
    recorded finding (`knownUnsoundSkip`: EDS of a sidecar after a Sidecar / VirtualService-only
    change): for every kind, proxy variant, namespace class, reason class and waypoint attachment,
    every other dependency listed in `Spec.Affects` is honoured by the real skip tables. -/
theorem skip_sound_table_partial (r : TRow) (t : GType) (hf : r.forced = false)
    (hk : knownUnsoundSkip r t = false) (hskip : tImpl t.out r = false) :
    Affects r.change r.pv t = false := by
  have h := forall_T skipSoundCheck_true r
  have ht : t ∈ GType.all := by cases t <;> simp [GType.all]
  simp only [hf, Bool.false_or, List.all_eq_true] at h
  have := h t ht
  simp only [hskip, hk, Bool.false_or, Bool.or_false, Bool.not_eq_true'] at this
  exact this

/-- **`skip_sound_table_witness`.** The full statement fails on the real table: a `Sidecar` change in
    the proxy's own namespace is skipped by the real `edsNeedsPush` for a sidecar, although which
    service (and so which endpoints) a hostname resolves to depends on the Sidecar resource. Replayed
    end to end by `harness/corpus/C01/converge.sidecar-switches-service.ops` and the e2e corpus. -/
theorem skip_sound_table_witness : ¬ SkipSoundFull := by
  intro h
  have := h { kind := .sidecar, pv := .sidecar, ns := .own, rc := .plain, forced := false, wp := false } .eds rfl
    (by decide +kernel)
  revert this
  decide

/-- The per-proxy filter equals its specification `Concerns` on every row: a proxy is skipped
    exactly when the change does not concern it. -/
theorem proxy_filter_eq_spec (r : PRow) : pImpl .needs r = Concerns r := by
  rcases h : r.pv with _ | _ | _ | _ | _ | _
  · exact eq_of_beqB (forall_P concerns_sidecar r h)
  · exact eq_of_beqB (forall_P concerns_router r h)
  · exact eq_of_beqB (forall_P concerns_waypoint r h)
  · exact eq_of_beqB (forall_P concerns_ewWaypoint r h)
  · exact eq_of_beqB (forall_P concerns_ztunnel r h)
  · exact eq_of_beqB (forall_P concerns_agentgateway r h)

/-- Forced requests are never skipped, for any proxy that the generators serve, by any type
    except PCDS (off) and the partial-EDS optimisation (which must be off). -/
theorem forced_never_skipped (r : TRow) (hf : r.forced = true) (he : r.pv.envoy = true) :
    tImpl .cds r = true ∧ tImpl .eds r = true ∧ tImpl .lds r = true ∧ tImpl .rds r = true ∧
    tImpl .nds r = true ∧ tImpl .ecds r = true ∧ tImpl .sds r = true ∧ tImpl .partialEds r = false := by
  have h := forall_T forcedCheck_true r
  simp only [hf, he, Bool.not_true, Bool.false_or, Bool.and_eq_true, Bool.not_eq_true'] at h
  obtain ⟨⟨⟨⟨⟨⟨⟨h1, h2⟩, h3⟩, h4⟩, h5⟩, h6⟩, h7⟩, h8⟩ := h
  exact ⟨h1, h2, h3, h4, h5, h6, h7, h8⟩

/-- Non-vacuity: the real code skips CDS for a sidecar on an AuthorizationPolicy change and pushes
    it on a DestinationRule change; it skips LDS for a PeerAuthentication of a foreign namespace. -/
example :
    tImpl .cds { kind := .authorizationPolicy, pv := .sidecar, ns := .own, rc := .plain, forced := false, wp := false } = false ∧
    tImpl .cds { kind := .destinationRule, pv := .sidecar, ns := .own, rc := .plain, forced := false, wp := false } = true ∧
    tImpl .lds { kind := .peerAuthentication, pv := .sidecar, ns := .other, rc := .plain, forced := false, wp := false } = false ∧
    tImpl .lds { kind := .peerAuthentication, pv := .sidecar, ns := .own, rc := .plain, forced := false, wp := false } = true := by
  decide +kernel

end IstioModel.C01
