import IstioModel.C01.GenTieBase

/-! C01 T-gen, part: forced requests are never skipped. -/
namespace IstioModel.C01

def forcedCheck : Bool :=
  allT (fun r => !r.forced || !r.pv.envoy ||
      (tImpl .cds r && tImpl .eds r && tImpl .lds r && tImpl .rds r && tImpl .nds r && tImpl .ecds r &&
        tImpl .sds r && !tImpl .partialEds r))

theorem forcedCheck_true : forcedCheck = true := by decide +kernel

end IstioModel.C01
