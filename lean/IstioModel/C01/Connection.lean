import IstioModel.C01.Model

/-!
# C01 - `pushConnection` as a whole (pilot/pkg/xds/ads.go:478)

The composition the real `pushConnection` performs for one dequeued request, in its real order:

1. unless the request only carries `Endpoints` keys, `computeProxyState` REFRESHES the proxy:
   service targets (`SetServiceTargets`: the previous targets and local service are remembered),
   sidecar scope (`SetSidecarScope`: the old scope becomes `PrevSidecarScope`), gateways;
2. only then `ProxyNeedsPush` filters the request against the REFRESHED proxy;
3. every watched type, in `PushOrder` (the other types after them), gets the FILTERED request and
   its generator decides on its own.

The refreshed scope and targets come from the push context and the registries; here they are
inputs (`fresh`: the scope `SetSidecarScope` computes; the registries of the harness know no
instance of the proxy, so the refreshed targets are empty).  The order of steps 1 and 2 is what the
second repair of /repo is about (`PrevServiceTargets`): the filter sees the targets AFTER the
refresh.  Tied to the real code by the `conn` operation of stream `needs`: the real
`pushConnection` on a real connection whose generators record the calls they get and whose stream
records what is sent.
-/
namespace IstioModel.C01

/-- the proxy after `computeProxyState` did the refreshes `f` -/
def refreshProxy (f : Refresh) (fresh : Option Scope) (p : Proxy) : Proxy :=
  let p1 : Proxy :=
    if f.targets then
      { p with prevTargets := p.targets, targets := [], prevLocalSvc := p.localSvc, localSvc := none }
    else p
  if f.scope then
    { p1 with prevScope := p1.scope,
              scope := (match p.ty with
                | .sidecar | .router | .waypoint => fresh
                | _ => p1.scope) }  -- `SetSidecarScope` leaves the scope of other types alone
  else p1

/-- type name -> generator decision -/
def typeOfName : String → Option XType
  | "CDS" => some .cds | "EDS" => some .eds | "LDS" => some .lds | "RDS" => some .rds
  | "NDS" => some .nds | "ECDS" => some .ecds | "SDS" => some .sds | "PCDS" => some .pcds
  | _ => none

/-- `pushConnection`: (the types whose generator is CALLED - known order first, then the others -,
    the types that are SENT, the `ConfigsUpdated` every generator sees). -/
def pushConnectionSends (root : Nat) (fresh : Option Scope) (watched : List String) (r : Req) (p : Proxy) :
    (List String × List String) × (List String × List Key) :=
  let p' := refreshProxy (pushConnectionRefresh p r) fresh p
  let f := proxyNeedsPush p' root r
  if !f.2 then (([], []), ([], []))
  else
    let r' : Req := { r with keys := f.1 }
    let o := watchedByOrder watched
    let sends (t : String) : Bool := match typeOfName t with
      | some x => typeNeedsPush root x r' p'
      | none => false
    ((o.1, o.2), ((o.1 ++ o.2).filter sends, f.1))

end IstioModel.C01
