import IstioModel.C01.Lemmas

/-!
# C01 - property theorems of the push-decision model

"Which generators push for a proxy does not depend on the order in which Go happens to range over
`ConfigsUpdated`, only on the *set* of updated keys; adding keys, waypoint references or `Forced`
to a request, and merging it with another debounced request, never turns a push into a skip; and
the generators are pushed CDS, EDS, LDS, RDS (make before break)."

* **A** closed forms: every loop with early returns / mutable flags equals a Boolean combination of
  `List.any`/`List.all` of a per-key predicate (`*_spec`), for every key list and every flag value;
  `typeNeedsPush_spec` is the uniform closed form of the eight generators.
* **B** order independence (`*_perm`) and the stronger set congruence (`*_congr`).
* **C** monotonicity (`*_mono`, `typeNeedsPush_mono_merge`), with the witness that the
  initialisation before the repair was not monotone under merging.
* **D** push order.

Every theorem quantifies over all requests and proxies.
-/
namespace IstioModel.C01

/-! ## A1-A4: the loops with early returns -/

/-- A1. The loop of `ldsNeedsPush`, for every key order and every value of the two flags. -/
theorem ldsLoop_spec (p : Proxy) (root : Nat) (ho saw : Bool) (ks : List Key) :
    ldsLoop p root ho saw ks
      = if ho && ks.all isSE then false else (ks.any (ldsTrig p root) || saw) := by
  induction ks generalizing ho saw with
  | nil => cases ho <;> cases saw <;> simp [ldsLoop]
  | cons k ks ih =>
    simp only [ldsLoop, List.all_cons, List.any_cons, ih]
    by_cases hse : k.kind = .serviceEntry
    · have h1 : isSE k = true := by simp [isSE, hse]
      have h2 := ldsTrig_se p root k hse
      cases ho <;> simp [h1, h2, hse, skippedLds_se]
    · have h1 : isSE k = false := by simp [isSE, hse]
      have h0 : (k.kind == Kind.serviceEntry) = false := by simp [hse]
      simp only [h1, h0, ldsTrig]
      cases skippedLds p.ty k.kind <;>
      cases (k.kind == .peerAuthentication && !Nat.beq k.ns p.cfgNs && !Nat.beq k.ns root) <;>
      cases ho <;> simp

/-- Non-vacuity: the two orders of the same keys take different paths through the loop (the first
    returns at the VirtualService before it sees the ServiceEntry, the second sets
    `sawServiceEntry` first) and agree; all-ServiceEntry under the marker is the only skip. -/
example :
    let p : Proxy := { ty := .router }
    let se : Key := ⟨.serviceEntry, 1, 1⟩
    let vs : Key := ⟨.virtualService, 2, 1⟩
    ldsLoop p 0 true false [vs, se] = true ∧ ldsLoop p 0 true false [se, vs] = true ∧
    ldsLoop p 0 true false [se, se] = false ∧ ldsLoop p 0 false false [se, se] = true := by decide

/-- A2. The loop of `rdsNeedsPush`. -/
theorem rdsLoop_spec (p : Proxy) (ho saw : Bool) (ks : List Key) :
    rdsLoop p ho saw ks = if ho && ks.all isSE then false else (ks.any (rdsTrig p) || saw) := by
  induction ks generalizing ho saw with
  | nil => cases ho <;> cases saw <;> simp [rdsLoop]
  | cons k ks ih =>
    simp only [rdsLoop, List.all_cons, List.any_cons, ih]
    by_cases hse : k.kind = .serviceEntry
    · have h1 : isSE k = true := by simp [isSE, hse]
      have h2 := rdsTrig_se p k hse
      cases ho <;> simp [h1, h2, hse, skippedRds]
    · have h1 : isSE k = false := by simp [isSE, hse]
      have h0 : (k.kind == Kind.serviceEntry) = false := by simp [hse]
      simp only [h1, h0, rdsTrig]
      cases skippedRds k.kind <;>
      cases (k.kind == .gateway) <;>
      cases (p.ty == .router) <;> cases p.isEW <;>
      cases ho <;> simp

/-- A3. The loop of `canSendPartialFullPushes`. -/
theorem partialLoop_spec (root : Nat) (ks : List Key) :
    partialLoop root ks
      = ks.all (fun k => deltaAwareEds k.kind &&
          !(k.kind == .peerAuthentication && Nat.beq k.ns root)) := by
  induction ks with
  | nil => rfl
  | cons k ks ih =>
    simp only [partialLoop, List.all_cons, ih]
    cases deltaAwareEds k.kind <;>
    cases (k.kind == .peerAuthentication && Nat.beq k.ns root) <;> simp

/-- A4. The loop of `computeProxyState`: its `break` is invisible. -/
theorem stateLoop_spec (sc gw : Bool) (ks : List Key) :
    stateLoop sc gw ks = (sc || ks.any scopeKind, gw || ks.any gwKind) := by
  induction ks generalizing sc gw with
  | nil => simp [stateLoop]
  | cons k ks ih =>
    rw [stateLoop_cons, ih]
    simp only [List.any_cons]
    cases sc <;> cases gw <;> cases scopeKind k <;> cases gwKind k <;> simp

/-- Non-vacuity: an `Ingress` key makes the loop `break` at once; the keys behind it are not
    looked at, and need not be. -/
example :
    stateLoop false false [⟨.ingress, 1, 1⟩, ⟨.serviceEntry, 2, 1⟩] = (true, true) ∧
    stateLoop false false [⟨.serviceEntry, 2, 1⟩, ⟨.secret, 3, 1⟩] = (true, false) := by decide

/-! ## A5: the fold of `cdsNeedsPush` -/

theorem cdsFold_headlessOnly (p : Proxy) (a0 : CdsAcc) (ks : List Key) :
    (ks.foldl (cdsStep p) a0).headlessOnly = (a0.headlessOnly && ks.all isSE) := by
  induction ks generalizing a0 with
  | nil => simp
  | cons k ks ih => simp [List.foldl_cons, ih, cdsStep_eq, Bool.and_assoc]

theorem cdsFold_filtered (p : Proxy) (a0 : CdsAcc) (ks : List Key) :
    (ks.foldl (cdsStep p) a0).filtered = (a0.filtered || ks.any (fun k => !cdsKeep p k)) := by
  induction ks generalizing a0 with
  | nil => simp
  | cons k ks ih => simp [List.foldl_cons, ih, cdsStep_eq, Bool.or_assoc]

theorem cdsFold_checkGateway (p : Proxy) (a0 : CdsAcc) (ks : List Key) :
    (ks.foldl (cdsStep p) a0).checkGateway
      = (a0.checkGateway || (p.ty == .router && ks.any (fun k => k.kind == .gateway))) := by
  induction ks generalizing a0 with
  | nil => simp
  | cons k ks ih =>
    simp only [List.foldl_cons, ih, cdsStep_eq, List.any_cons]
    cases a0.checkGateway <;> cases (p.ty == .router) <;> cases (k.kind == .gateway) <;> simp

/-- the kept keys, exactly (Go appends; the model conses, hence the `reverse`) -/
theorem cdsFold_relevant_eq (p : Proxy) (a0 : CdsAcc) (ks : List Key) :
    (ks.foldl (cdsStep p) a0).relevant = (ks.filter (cdsKeep p)).reverse ++ a0.relevant := by
  induction ks generalizing a0 with
  | nil => simp
  | cons k ks ih =>
    simp only [List.foldl_cons, ih, cdsStep_eq, List.filter_cons]
    cases cdsKeep p k <;> simp

theorem cdsFold_relevant (p : Proxy) (a0 : CdsAcc) (ks : List Key) (k : Key) :
    k ∈ (ks.foldl (cdsStep p) a0).relevant ↔ k ∈ a0.relevant ∨ (k ∈ ks ∧ cdsKeep p k = true) := by
  rw [cdsFold_relevant_eq, List.mem_append, List.mem_reverse, List.mem_filter]
  exact Or.comm

/-- A5. The fold of `cdsNeedsPush` from any accumulator, all four fields. -/
theorem cdsFold_spec (p : Proxy) (a0 : CdsAcc) (ks : List Key) :
    (ks.foldl (cdsStep p) a0).headlessOnly = (a0.headlessOnly && ks.all isSE) ∧
    (ks.foldl (cdsStep p) a0).filtered = (a0.filtered || ks.any (fun k => !cdsKeep p k)) ∧
    (ks.foldl (cdsStep p) a0).checkGateway
      = (a0.checkGateway || (p.ty == .router && ks.any (fun k => k.kind == .gateway))) ∧
    ∀ k, k ∈ (ks.foldl (cdsStep p) a0).relevant ↔
      k ∈ a0.relevant ∨ (k ∈ ks ∧ cdsKeep p k = true) :=
  ⟨cdsFold_headlessOnly p a0 ks, cdsFold_filtered p a0 ks, cdsFold_checkGateway p a0 ks,
    cdsFold_relevant p a0 ks⟩

/-! ## A6/A7: the whole functions -/

/-- `waypointNeedsPush` in closed form -/
theorem waypointNeedsPush_spec (r : Req) (p : Proxy) :
    waypointNeedsPush r p
      = (r.keys.any (fun c => c.kind == .address) &&
          (p.isEW || r.wrefs.any (fun ref => ref.matchesProxy p))) := by
  by_cases h1 : r.keys.any (fun c => c.kind == .address) = true <;>
    by_cases h2 : p.isEW = true <;> simp [waypointNeedsPush, Req.hasKind, h1, h2]

/-- `cdsNeedsPush` without the fold, the flags and the gateway comparison - the whole function. -/
theorem cdsNeedsPush_eq (r : Req) (p : Proxy) :
    cdsNeedsPush r p =
      match xdsNeedsPush r p with
      | some b => (r.keys, b)
      | none =>
        if p.ty == .waypoint && waypointNeedsPush r p then (r.keys, true)
        else if headlessInit r && r.keys.all isSE then (r.keys, false)
        else (cdsKept p r.keys, r.keys.any (cdsKeep p)) := by
  unfold cdsNeedsPush
  cases xdsNeedsPush r p with
  | some b => rfl
  | none =>
    simp only [cdsFold_headlessOnly, cdsFold_filtered, cdsFold_checkGateway, cdsFold_relevant_eq,
      Bool.false_or, List.append_nil]
    by_cases hw : (p.ty == .waypoint && waypointNeedsPush r p) = true
    · rw [if_pos hw, if_pos hw]
    · rw [if_neg hw, if_neg hw]
      by_cases hh : (headlessInit r && r.keys.all isSE) = true
      · rw [if_pos hh, if_pos hh]
      · rw [if_neg hh, if_neg hh]
        have hk : (if r.keys.any (fun k => !cdsKeep p k) = true
            then (r.keys.filter (cdsKeep p)).reverse else r.keys) = cdsKept p r.keys := by
          unfold cdsKept
          rw [List.all_eq_not_any_not]
          cases r.keys.any (fun k => !cdsKeep p k) <;> simp
        rw [hk, cdsKept_nonempty]
        congr 1
        cases hg : (p.ty == .router && r.keys.any (fun k => k.kind == .gateway))
        · simp
        · simp [checkGateway_imp_any_keep p r.keys hg]

/-- A6. The Boolean of `cdsNeedsPush`, whole function: the fold, the three flags and the gateway
    comparison are gone. -/
theorem cdsNeedsPush_snd (r : Req) (p : Proxy) :
    (cdsNeedsPush r p).2 =
      match xdsNeedsPush r p with
      | some b => b
      | none => (p.ty == .waypoint && waypointNeedsPush r p) ||
          (!(headlessInit r && r.keys.all isSE) && r.keys.any (cdsKeep p)) := by
  rw [cdsNeedsPush_eq]
  cases xdsNeedsPush r p with
  | some b => rfl
  | none =>
    by_cases hw : (p.ty == .waypoint && waypointNeedsPush r p) = true <;>
      by_cases hh : (headlessInit r && r.keys.all isSE) = true <;> simp [hw, hh]

/-- A6, as stated in the plan: past `xdsNeedsPush` and the waypoint short-cut. -/
theorem cdsNeedsPush_spec (r : Req) (p : Proxy) (hx : xdsNeedsPush r p = none)
    (hw : (p.ty == .waypoint && waypointNeedsPush r p) = false) :
    (cdsNeedsPush r p).2 = (!(headlessInit r && r.keys.all isSE) && r.keys.any (cdsKeep p)) := by
  rw [cdsNeedsPush_snd, hx]
  simp only [hw, Bool.false_or]

/-- The `MergedGateway`/`PrevMergedGateway` comparison (cds.go:117-122) never influences whether
    CDS is pushed: when it is consulted, a `Gateway` key has already been kept for the router. -/
theorem cds_gateway_check_redundant (r : Req) (p : Proxy) (g g' : Option MG) :
    (cdsNeedsPush r { p with mg := g, prevMg := g' }).2 = (cdsNeedsPush r p).2 := by
  rw [cdsNeedsPush_snd, cdsNeedsPush_snd]
  rfl

/-- Non-vacuity: a router with a `Gateway` key and no merged gateway (`gatewayChanged` is true)
    and with identical merged gateways (`gatewayChanged` is false) - CDS is pushed either way,
    because the `Gateway` key is kept; for a sidecar the same request is filtered to nothing. -/
example :
    let r : Req := { keys := [⟨.gateway, 1, 1⟩, ⟨.secret, 2, 1⟩], reasons := [.config] }
    let g : MG := { names := [1] }
    gatewayChanged { ty := .router } = true ∧
    gatewayChanged { ty := .router, mg := some g, prevMg := some g } = false ∧
    cdsNeedsPush r { ty := .router } = ([⟨.gateway, 1, 1⟩], true) ∧
    cdsNeedsPush r { ty := .router, mg := some g, prevMg := some g } = ([⟨.gateway, 1, 1⟩], true) ∧
    cdsNeedsPush r { ty := .sidecar } = ([], false) := by decide

/-- ... nor which keys are handed on. -/
theorem cds_gateway_check_redundant_keys (r : Req) (p : Proxy) (g g' : Option MG) :
    (cdsNeedsPush r { p with mg := g, prevMg := g' }).1 = (cdsNeedsPush r p).1 := by
  rw [cdsNeedsPush_eq, cdsNeedsPush_eq]
  rfl

/-- `cdsNeedsPush` returns the request unfiltered -/
def cdsUnfiltered (r : Req) (p : Proxy) : Bool :=
  (xdsNeedsPush r p).isSome || (p.ty == .waypoint && waypointNeedsPush r p) ||
    (headlessInit r && r.keys.all isSE)

/-- the keys handed on by `cdsNeedsPush`, whole function -/
theorem cds_kept_mem_gen (r : Req) (p : Proxy) (k : Key) :
    k ∈ (cdsNeedsPush r p).1 ↔
      k ∈ r.keys ∧ (cdsUnfiltered r p = true ∨ r.keys.all (cdsKeep p) = true ∨ cdsKeep p k = true) := by
  rw [cdsNeedsPush_eq]
  unfold cdsUnfiltered
  cases xdsNeedsPush r p with
  | some b => simp
  | none =>
    by_cases hw : (p.ty == .waypoint && waypointNeedsPush r p) = true
    · simp [hw]
    · by_cases hh : (headlessInit r && r.keys.all isSE) = true
      · simp [hw, hh]
      · simp [hw, hh, mem_cdsKept]

/-- A6, kept keys: past the early returns, a key is handed on iff it is in the request and either
    nothing was filtered or the key itself is kept. -/
theorem cds_kept_mem (r : Req) (p : Proxy) (k : Key) (hx : xdsNeedsPush r p = none)
    (hw : (p.ty == .waypoint && waypointNeedsPush r p) = false)
    (hh : (headlessInit r && r.keys.all isSE) = false) :
    k ∈ (cdsNeedsPush r p).1 ↔
      k ∈ r.keys ∧ (r.keys.all (cdsKeep p) = true ∨ cdsKeep p k = true) := by
  rw [cds_kept_mem_gen]
  simp [cdsUnfiltered, hx, hw, hh]

/-- every key handed on comes from the request -/
theorem cds_kept_subset (r : Req) (p : Proxy) (k : Key) (h : k ∈ (cdsNeedsPush r p).1) :
    k ∈ r.keys := ((cds_kept_mem_gen r p k).mp h).1

/-- A7. `ldsNeedsPush`, whole function. -/
theorem ldsNeedsPush_spec (root : Nat) (r : Req) (p : Proxy) :
    ldsNeedsPush root r p =
      match xdsNeedsPush r p with
      | some b => b
      | none => (p.ty == .waypoint && waypointNeedsPush r p) ||
          (!((p.ty == .router && headlessInit r) && r.keys.all isSE) &&
            r.keys.any (ldsTrig p root)) := by
  unfold ldsNeedsPush
  cases xdsNeedsPush r p with
  | some b => rfl
  | none =>
    simp only [ldsLoop_spec, Bool.or_false]
    by_cases hw : (p.ty == .waypoint && waypointNeedsPush r p) = true <;>
      by_cases hh : ((p.ty == .router && headlessInit r) && r.keys.all isSE) = true <;>
      simp [hw, hh]

/-- Non-vacuity: a pure headless-endpoint marker on ServiceEntries is skipped by a router's LDS;
    the same keys with a second reason push; a sidecar pushes on the marker (headless services
    are listeners there). -/
example :
    let ks : List Key := [⟨.serviceEntry, 1, 1⟩, ⟨.serviceEntry, 2, 1⟩]
    ldsNeedsPush 0 { keys := ks, reasons := [.headless] } { ty := .router } = false ∧
    ldsNeedsPush 0 { keys := ks, reasons := [.headless, .endpoint] } { ty := .router } = true ∧
    ldsNeedsPush 0 { keys := ks, reasons := [.headless] } { ty := .sidecar } = true ∧
    rdsNeedsPush { keys := ks, reasons := [.headless] } { ty := .sidecar } = false ∧
    (cdsNeedsPush { keys := ks, reasons := [.headless] } { ty := .sidecar }).2 = false := by
  decide

/-- A7. `rdsNeedsPush`, whole function. -/
theorem rdsNeedsPush_spec (r : Req) (p : Proxy) :
    rdsNeedsPush r p =
      match xdsNeedsPush r p with
      | some b => b
      | none => (p.ty == .waypoint && waypointNeedsPush r p) ||
          (!(headlessInit r && r.keys.all isSE) && r.keys.any (rdsTrig p)) := by
  unfold rdsNeedsPush
  cases xdsNeedsPush r p with
  | some b => rfl
  | none =>
    simp only [rdsLoop_spec, Bool.or_false]
    by_cases hw : (p.ty == .waypoint && waypointNeedsPush r p) = true <;>
      by_cases hh : (headlessInit r && r.keys.all isSE) = true <;>
      simp [hw, hh]

theorem edsNeedsPush_spec (r : Req) (p : Proxy) :
    edsNeedsPush r p =
      match xdsNeedsPush r p with
      | some b => b
      | none => (p.ty == .waypoint && waypointNeedsPush r p) ||
          r.keys.any (fun k => !skippedEds k.kind) := by
  unfold edsNeedsPush
  cases xdsNeedsPush r p with
  | some b => rfl
  | none =>
    by_cases hw : (p.ty == .waypoint && waypointNeedsPush r p) = true <;> simp [hw]

/-- `canSendPartialFullPushes`, whole function -/
theorem canSendPartialFullPushes_spec (root : Nat) (r : Req) :
    canSendPartialFullPushes root r =
      (!r.forced && r.keys.all (fun k => deltaAwareEds k.kind &&
          !(k.kind == .peerAuthentication && Nat.beq k.ns root))) := by
  unfold canSendPartialFullPushes
  rw [partialLoop_spec]
  cases r.forced <;> simp

/-- **Uniform closed form of the eight generators.**  Generator `t` pushes for proxy `p` iff its
    gate says so, or the waypoint short-cut fires, or the request is not a pure headless-endpoint
    marker and some key triggers `t` on its own. -/
theorem typeNeedsPush_spec (root : Nat) (t : XType) (r : Req) (p : Proxy) :
    typeNeedsPush root t r p =
      match gate t r p with
      | some b => b
      | none => wpClause t r p ||
          (!(headlessFlag t r p && r.keys.all isSE) && r.keys.any (trig root t p)) := by
  cases t
  · simp only [typeNeedsPush, gate, wpClause, headlessFlag, cdsNeedsPush_snd]; rfl
  · simp only [typeNeedsPush, gate, wpClause, headlessFlag, edsNeedsPush_spec, Bool.false_and,
      Bool.not_false, Bool.true_and]; rfl
  · simp only [typeNeedsPush, gate, wpClause, headlessFlag, ldsNeedsPush_spec]; rfl
  · simp only [typeNeedsPush, gate, wpClause, headlessFlag, rdsNeedsPush_spec]; rfl
  · simp only [typeNeedsPush, gate, wpClause, headlessFlag, ndsNeedsPush, Bool.false_and,
      Bool.not_false, Bool.true_and, Bool.false_or]; rfl
  · simp only [typeNeedsPush, gate, wpClause, headlessFlag, ecdsNeedsPush, Bool.false_and,
      Bool.not_false, Bool.true_and, Bool.false_or]; rfl
  · simp only [typeNeedsPush, gate, wpClause, headlessFlag, sdsNeedsPush, Bool.false_and,
      Bool.not_false, Bool.true_and, Bool.false_or]
    cases r.forced <;> rfl
  · rfl

/-! ## A8: the per-proxy relevance filter -/

/-- A8. The keys `filterRelevantUpdates` hands on. -/
theorem filterRelevantUpdates_mem (p : Proxy) (root : Nat) (ks : List Key) (k : Key) :
    k ∈ filterRelevantUpdates p root ks ↔
      k ∈ ks ∧ (ks.all (keyRelevant p root) = true ∨ keyRelevant p root k = true ∨
        k ∈ targetKeys p ks) := by
  unfold filterRelevantUpdates
  by_cases he : ks.isEmpty = true
  · rw [if_pos he]
    rw [List.isEmpty_iff] at he
    subst he
    simp
  · rw [if_neg he]
    simp only []
    by_cases hc : ks.any (fun k => !keyRelevant p root k) = true
    · have hall : ¬ ks.all (keyRelevant p root) = true := by
        rw [List.all_eq_not_any_not, hc]; simp
      rw [if_pos hc, List.mem_append, List.mem_filter]
      constructor
      · rintro (h | h)
        · exact ⟨h.1, Or.inr (Or.inl h.2)⟩
        · exact ⟨targetKeys_subset p ks k h, Or.inr (Or.inr h)⟩
      · rintro ⟨h1, h2 | h2 | h2⟩
        · exact absurd h2 hall
        · exact Or.inl ⟨h1, h2⟩
        · exact Or.inr h2
    · have hall : ks.all (keyRelevant p root) = true := by
        rw [List.all_eq_not_any_not]
        simpa using hc
      rw [if_neg hc]
      exact ⟨fun h => ⟨h, Or.inl hall⟩, fun h => h.1⟩

theorem filterRelevantUpdates_subset (p : Proxy) (root : Nat) (ks : List Key) (k : Key)
    (h : k ∈ filterRelevantUpdates p root ks) : k ∈ ks :=
  ((filterRelevantUpdates_mem p root ks k).mp h).1

/-- The filtered request is non-empty iff some key is relevant or one of the proxy's own services
    is in the request. -/
theorem filterRelevantUpdates_nonempty (p : Proxy) (root : Nat) (ks : List Key) :
    (!(filterRelevantUpdates p root ks).isEmpty) =
      (ks.any (keyRelevant p root) || !(targetKeys p ks).isEmpty) := by
  rw [Bool.eq_iff_iff]
  simp only [Bool.not_eq_true', List.isEmpty_eq_false_iff_exists_mem, Bool.or_eq_true,
    List.any_eq_true, filterRelevantUpdates_mem]
  constructor
  · rintro ⟨k, hk, h | h | h⟩
    · exact Or.inl ⟨k, hk, (List.all_eq_true.mp h) k hk⟩
    · exact Or.inl ⟨k, hk, h⟩
    · exact Or.inr ⟨k, h⟩
  · rintro (⟨k, hk, h⟩ | ⟨k, h⟩)
    · exact ⟨k, hk, Or.inr (Or.inl h)⟩
    · exact ⟨k, targetKeys_subset p ks k h, Or.inr (Or.inr h)⟩

/-- A8. `DefaultProxyNeedsPush`, the Boolean: forced, or an ambient proxy type, or some key is
    relevant, or one of the proxy's own services is in the request. -/
theorem proxyNeedsPush_spec (p : Proxy) (root : Nat) (r : Req) :
    (proxyNeedsPush p root r).2 =
      (r.forced || (p.ty == .waypoint || p.ty == .ztunnel || p.ty == .agentgateway) ||
        (r.keys.any (keyRelevant p root) || !(targetKeys p r.keys).isEmpty)) := by
  unfold proxyNeedsPush
  by_cases hf : r.forced = true
  · simp [hf]
  · by_cases ht : (p.ty == .waypoint || p.ty == .ztunnel || p.ty == .agentgateway) = true
    · rw [if_neg hf, if_pos ht]; simp [ht]
    · rw [if_neg hf, if_neg ht]
      simp only [filterRelevantUpdates_nonempty]
      simp [hf, ht]

/-- the request is handed on unfiltered -/
def proxyUnfiltered (p : Proxy) (r : Req) : Bool :=
  r.forced || (p.ty == .waypoint || p.ty == .ztunnel || p.ty == .agentgateway)

/-- A8. `DefaultProxyNeedsPush`, the keys handed on. -/
theorem proxyNeedsPush_mem (p : Proxy) (root : Nat) (r : Req) (k : Key) :
    k ∈ (proxyNeedsPush p root r).1 ↔
      k ∈ r.keys ∧ (proxyUnfiltered p r = true ∨ r.keys.all (keyRelevant p root) = true ∨
        keyRelevant p root k = true ∨ k ∈ targetKeys p r.keys) := by
  unfold proxyNeedsPush proxyUnfiltered
  by_cases hf : r.forced = true
  · simp [hf]
  · by_cases ht : (p.ty == .waypoint || p.ty == .ztunnel || p.ty == .agentgateway) = true
    · rw [if_neg hf, if_pos ht]; simp [ht]
    · rw [if_neg hf, if_neg ht]
      simp only [filterRelevantUpdates_mem]
      simp [hf, ht]

/-- Non-vacuity: a sidecar whose scope depends on one of two VirtualServices keeps that one; a
    ServiceEntry outside the scope is kept when it is one of the proxy's own services; a request
    with nothing relevant is dropped. -/
example :
    let vs5 : Key := ⟨.virtualService, 5, 1⟩
    let vs6 : Key := ⟨.virtualService, 6, 1⟩
    let se7 : Key := ⟨.serviceEntry, 7, 1⟩
    let p : Proxy := { scope := some { ns := 1, deps := [vs5] }, targets := [(7, 1)] }
    proxyNeedsPush p 0 { keys := [vs5, vs6] } = ([vs5], true) ∧
    proxyNeedsPush p 0 { keys := [vs6, se7] } = ([se7], true) ∧
    proxyNeedsPush p 0 { keys := [vs6] } = ([], false) ∧
    proxyNeedsPush p 0 { keys := [vs6], forced := true } = ([vs6], true) := by decide

/-- the filter only removes keys -/
theorem proxyNeedsPush_kept_subset (p : Proxy) (root : Nat) (r : Req) (k : Key)
    (h : k ∈ (proxyNeedsPush p root r).1) : k ∈ r.keys :=
  ((proxyNeedsPush_mem p root r k).mp h).1

/-- `computeProxyState` for a non-nil request, without the loop -/
theorem computeProxyState_spec (p : Proxy) (r : Req) :
    computeProxyState p (some r) =
      { labels := r.has .proxy,
        targets := r.forced || shouldUpdateServiceTargets p r.keys,
        scope := r.forced || r.keys.any scopeKind,
        gateway := (r.forced || shouldUpdateServiceTargets p r.keys || r.keys.any gwKind) &&
          (p.ty == .router || p.isEW) } := by
  simp only [computeProxyState, stateLoop_spec]

/-! ## B: the decisions depend on `ConfigsUpdated` as a set (`*_congr`), hence not on Go's map
iteration order (`*_perm`)

`r'` and `r` below are two requests with the same key *set* (`∀ k, k ∈ r'.keys ↔ k ∈ r.keys`:
neither order nor multiplicity matter) and the same other fields. -/

theorem xdsNeedsPush_congr {r' r : Req} (p : Proxy) (hf : r'.forced = r.forced) :
    xdsNeedsPush r' p = xdsNeedsPush r p := by
  simp only [xdsNeedsPush, hf]

theorem headlessInit_congr {r' r : Req} (hr : r'.reasons = r.reasons) :
    headlessInit r' = headlessInit r := by
  simp only [headlessInit, hr]

theorem waypointNeedsPush_congr {r' r : Req} (p : Proxy)
    (hk : ∀ k, k ∈ r'.keys ↔ k ∈ r.keys) (hw : r'.wrefs = r.wrefs) :
    waypointNeedsPush r' p = waypointNeedsPush r p := by
  rw [waypointNeedsPush_spec, waypointNeedsPush_spec, any_congr_mem hk, hw]

theorem gate_congr {r' r : Req} (t : XType) (p : Proxy) (hf : r'.forced = r.forced) :
    gate t r' p = gate t r p := by
  cases t <;> simp only [gate, hf, xdsNeedsPush_congr p hf]

theorem wpClause_congr {r' r : Req} (t : XType) (p : Proxy)
    (hk : ∀ k, k ∈ r'.keys ↔ k ∈ r.keys) (hw : r'.wrefs = r.wrefs) :
    wpClause t r' p = wpClause t r p := by
  cases t <;> simp only [wpClause, waypointNeedsPush_congr p hk hw]

theorem headlessFlag_congr {r' r : Req} (t : XType) (p : Proxy) (hr : r'.reasons = r.reasons) :
    headlessFlag t r' p = headlessFlag t r p := by
  cases t <;> simp only [headlessFlag, headlessInit_congr hr]

/-- **Set congruence.**  Every generator's decision depends on `ConfigsUpdated` only as a set. -/
theorem typeNeedsPush_congr (root : Nat) (t : XType) (r' r : Req) (p : Proxy)
    (hk : ∀ k, k ∈ r'.keys ↔ k ∈ r.keys) (hr : r'.reasons = r.reasons)
    (hf : r'.forced = r.forced) (hw : r'.wrefs = r.wrefs) :
    typeNeedsPush root t r' p = typeNeedsPush root t r p := by
  rw [typeNeedsPush_spec, typeNeedsPush_spec, gate_congr t p hf, wpClause_congr t p hk hw,
    headlessFlag_congr t p hr, all_congr_mem hk, any_congr_mem hk]

/-- **Order independence** of every generator's decision. -/
theorem typeNeedsPush_perm (root : Nat) (t : XType) (r' r : Req) (p : Proxy)
    (hk : r'.keys.Perm r.keys) (hr : r'.reasons = r.reasons)
    (hf : r'.forced = r.forced) (hw : r'.wrefs = r.wrefs) :
    typeNeedsPush root t r' p = typeNeedsPush root t r p :=
  typeNeedsPush_congr root t r' r p (fun _ => hk.mem_iff) hr hf hw

/-- Non-vacuity: a permuted request with a duplicate-free key list; the theorem applies and the
    common value is a push. -/
example :
    let a : Key := ⟨.peerAuthentication, 1, 7⟩
    let b : Key := ⟨.virtualService, 2, 1⟩
    let c : Key := ⟨.serviceEntry, 3, 1⟩
    let p : Proxy := { ty := .router }
    typeNeedsPush 0 .lds { keys := [c, a, b], reasons := [.headless] } p
      = typeNeedsPush 0 .lds { keys := [a, b, c], reasons := [.headless] } p ∧
    typeNeedsPush 0 .lds { keys := [a, b, c], reasons := [.headless] } p = true := by
  intro a b c p
  refine ⟨typeNeedsPush_perm 0 .lds _ _ p ?_ rfl rfl rfl, by decide⟩
  exact (List.perm_cons_append_cons c (l₁ := [a, b]) (l₂ := []) (List.Perm.refl _))

theorem cdsUnfiltered_congr {r' r : Req} (p : Proxy)
    (hk : ∀ k, k ∈ r'.keys ↔ k ∈ r.keys) (hr : r'.reasons = r.reasons)
    (hf : r'.forced = r.forced) (hw : r'.wrefs = r.wrefs) :
    cdsUnfiltered r' p = cdsUnfiltered r p := by
  simp only [cdsUnfiltered, xdsNeedsPush_congr p hf, waypointNeedsPush_congr p hk hw,
    headlessInit_congr hr, all_congr_mem hk]

theorem cds_kept_congr (r' r : Req) (p : Proxy)
    (hk : ∀ k, k ∈ r'.keys ↔ k ∈ r.keys) (hr : r'.reasons = r.reasons)
    (hf : r'.forced = r.forced) (hw : r'.wrefs = r.wrefs) (k : Key) :
    k ∈ (cdsNeedsPush r' p).1 ↔ k ∈ (cdsNeedsPush r p).1 := by
  rw [cds_kept_mem_gen, cds_kept_mem_gen, cdsUnfiltered_congr p hk hr hf hw, hk k,
    all_congr_mem hk]

/-- the keys CDS hands on do not depend on the iteration order (as a set) -/
theorem cds_kept_perm (r' r : Req) (p : Proxy)
    (hk : r'.keys.Perm r.keys) (hr : r'.reasons = r.reasons)
    (hf : r'.forced = r.forced) (hw : r'.wrefs = r.wrefs) (k : Key) :
    k ∈ (cdsNeedsPush r' p).1 ↔ k ∈ (cdsNeedsPush r p).1 :=
  cds_kept_congr r' r p (fun _ => hk.mem_iff) hr hf hw k

theorem canSendPartial_congr (root : Nat) (r' r : Req)
    (hk : ∀ k, k ∈ r'.keys ↔ k ∈ r.keys) (hf : r'.forced = r.forced) :
    canSendPartialFullPushes root r' = canSendPartialFullPushes root r := by
  rw [canSendPartialFullPushes_spec, canSendPartialFullPushes_spec, hf, all_congr_mem hk]

theorem canSendPartial_perm (root : Nat) (r' r : Req)
    (hk : r'.keys.Perm r.keys) (hf : r'.forced = r.forced) :
    canSendPartialFullPushes root r' = canSendPartialFullPushes root r :=
  canSendPartial_congr root r' r (fun _ => hk.mem_iff) hf

theorem waypointNeedsPush_perm (r' r : Req) (p : Proxy)
    (hk : r'.keys.Perm r.keys) (hw : r'.wrefs = r.wrefs) :
    waypointNeedsPush r' p = waypointNeedsPush r p :=
  waypointNeedsPush_congr p (fun _ => hk.mem_iff) hw

theorem targetKeys_isEmpty_congr (p : Proxy) {ks' ks : List Key} (h : ∀ k, k ∈ ks' ↔ k ∈ ks) :
    (targetKeys p ks').isEmpty = (targetKeys p ks).isEmpty :=
  isEmpty_congr_mem (targetKeys_congr p h)

theorem proxyNeedsPush_congr (p : Proxy) (root : Nat) (r' r : Req)
    (hk : ∀ k, k ∈ r'.keys ↔ k ∈ r.keys) (hf : r'.forced = r.forced) :
    (proxyNeedsPush p root r').2 = (proxyNeedsPush p root r).2 ∧
      ∀ k, k ∈ (proxyNeedsPush p root r').1 ↔ k ∈ (proxyNeedsPush p root r).1 := by
  constructor
  · rw [proxyNeedsPush_spec, proxyNeedsPush_spec, hf, any_congr_mem hk,
      targetKeys_isEmpty_congr p hk]
  · intro k
    rw [proxyNeedsPush_mem, proxyNeedsPush_mem, hk k, all_congr_mem hk, targetKeys_congr p hk k]
    simp only [proxyUnfiltered, hf]

/-- the proxy-level filter: decision and kept key set are order independent -/
theorem proxyNeedsPush_perm (p : Proxy) (root : Nat) (r' r : Req)
    (hk : r'.keys.Perm r.keys) (hf : r'.forced = r.forced) :
    (proxyNeedsPush p root r').2 = (proxyNeedsPush p root r).2 ∧
      ∀ k, k ∈ (proxyNeedsPush p root r').1 ↔ k ∈ (proxyNeedsPush p root r).1 :=
  proxyNeedsPush_congr p root r' r (fun _ => hk.mem_iff) hf

theorem computeProxyState_congr (p : Proxy) (r' r : Req)
    (hk : ∀ k, k ∈ r'.keys ↔ k ∈ r.keys) (hr : r'.reasons = r.reasons)
    (hf : r'.forced = r.forced) :
    computeProxyState p (some r') = computeProxyState p (some r) := by
  rw [computeProxyState_spec, computeProxyState_spec]
  simp only [shouldUpdateServiceTargets, Req.has, hr, hf, any_congr_mem hk]

/-- which parts of the proxy state are refreshed does not depend on the iteration order (the
    `break` in the loop notwithstanding) -/
theorem computeProxyState_perm (p : Proxy) (r' r : Req)
    (hk : r'.keys.Perm r.keys) (hr : r'.reasons = r.reasons) (hf : r'.forced = r.forced) :
    computeProxyState p (some r') = computeProxyState p (some r) :=
  computeProxyState_congr p r' r (fun _ => hk.mem_iff) hr hf

theorem pushConnectionRefresh_congr (p : Proxy) (r' r : Req)
    (hk : ∀ k, k ∈ r'.keys ↔ k ∈ r.keys) (hr : r'.reasons = r.reasons)
    (hf : r'.forced = r.forced) :
    pushConnectionRefresh p r' = pushConnectionRefresh p r := by
  unfold pushConnectionRefresh onlyEndpoints
  rw [computeProxyState_congr p r' r hk hr hf, isEmpty_congr_mem hk, all_congr_mem hk]

theorem pushConnectionRefresh_perm (p : Proxy) (r' r : Req)
    (hk : r'.keys.Perm r.keys) (hr : r'.reasons = r.reasons) (hf : r'.forced = r.forced) :
    pushConnectionRefresh p r' = pushConnectionRefresh p r :=
  pushConnectionRefresh_congr p r' r (fun _ => hk.mem_iff) hr hf

theorem pushDecision_congr (root : Nat) (t : XType) (r' r : Req) (p : Proxy)
    (hk : ∀ k, k ∈ r'.keys ↔ k ∈ r.keys) (hr : r'.reasons = r.reasons)
    (hf : r'.forced = r.forced) (hw : r'.wrefs = r.wrefs) :
    pushDecision root t r' p = pushDecision root t r p := by
  obtain ⟨h2, h1⟩ := proxyNeedsPush_congr p root r' r hk hf
  simp only [pushDecision, h2]
  congr 1
  exact typeNeedsPush_congr root t _ _ p h1 hr hf hw

/-- **Order independence of the whole decision** - the proxy-level filter followed by the
    generator's own decision on the filtered request (whose key order depends on the order of the
    original request: this is where set congruence, not just permutation invariance, is needed). -/
theorem pushDecision_perm (root : Nat) (t : XType) (r' r : Req) (p : Proxy)
    (hk : r'.keys.Perm r.keys) (hr : r'.reasons = r.reasons)
    (hf : r'.forced = r.forced) (hw : r'.wrefs = r.wrefs) :
    pushDecision root t r' p = pushDecision root t r p :=
  pushDecision_congr root t r' r p (fun _ => hk.mem_iff) hr hf hw

/-! ## C: monotonicity - more keys, more waypoint references, `Forced`, merging never turn a push
into a skip -/

theorem waypointNeedsPush_mono {r r' : Req} (p : Proxy)
    (hk : ∀ k, k ∈ r.keys → k ∈ r'.keys) (hw : ∀ w, w ∈ r.wrefs → w ∈ r'.wrefs) :
    waypointNeedsPush r p = true → waypointNeedsPush r' p = true := by
  rw [waypointNeedsPush_spec, waypointNeedsPush_spec]
  simp only [Bool.and_eq_true, Bool.or_eq_true]
  rintro ⟨h1, h2⟩
  refine ⟨any_mono_mem hk _ h1, ?_⟩
  rcases h2 with h2 | h2
  · exact Or.inl h2
  · exact Or.inr (any_mono_mem hw _ h2)

/-- the gate either does not change or opens -/
theorem gate_mono {r r' : Req} (t : XType) (p : Proxy) (hf : r.forced = true → r'.forced = true) :
    gate t r' p = gate t r p ∨ gate t r' p = some true := by
  by_cases h : r.forced = true
  · have h' := hf h
    left
    cases t <;> simp only [gate, xdsNeedsPush, h, h']
  · by_cases h' : r'.forced = true
    · by_cases hz : (p.ty == .ztunnel) = true
      · cases t <;> simp [gate, xdsNeedsPush, h, h', hz]
      · cases t <;> simp [gate, xdsNeedsPush, h, h', hz]
    · left
      cases t <;> simp [gate, xdsNeedsPush, h, h']

theorem wpClause_mono {r r' : Req} (t : XType) (p : Proxy)
    (hk : ∀ k, k ∈ r.keys → k ∈ r'.keys) (hw : ∀ w, w ∈ r.wrefs → w ∈ r'.wrefs) :
    wpClause t r p = true → wpClause t r' p = true := by
  cases t <;> simp only [wpClause, Bool.and_eq_true] <;>
    first
    | exact fun h => ⟨h.1, waypointNeedsPush_mono p hk hw h.2⟩
    | exact fun h => h

theorem headlessFlag_anti {r r' : Req} (t : XType) (p : Proxy)
    (hh : headlessInit r' = true → headlessInit r = true) :
    headlessFlag t r' p = true → headlessFlag t r p = true := by
  cases t <;> simp only [headlessFlag, Bool.and_eq_true] <;>
    first
    | exact hh
    | exact fun h => ⟨h.1, hh h.2⟩
    | exact fun h => h

/-- **Monotonicity, general form**: the request may grow in keys and waypoint references, gain
    `Forced`, and change its reasons in any way that does not *make* it a pure headless-endpoint
    marker. -/
theorem typeNeedsPush_mono_gen (root : Nat) (t : XType) (r r' : Req) (p : Proxy)
    (hk : ∀ k, k ∈ r.keys → k ∈ r'.keys)
    (hh : headlessInit r' = true → headlessInit r = true)
    (hw : ∀ w, w ∈ r.wrefs → w ∈ r'.wrefs)
    (hf : r.forced = true → r'.forced = true) :
    typeNeedsPush root t r p = true → typeNeedsPush root t r' p = true := by
  rw [typeNeedsPush_spec, typeNeedsPush_spec]
  rcases gate_mono t p hf with hg | hg
  · rw [hg]
    cases gate t r p with
    | some b => exact fun h => h
    | none =>
      simp only [Bool.or_eq_true]
      rintro (h | h)
      · exact Or.inl (wpClause_mono t p hk hw h)
      · right
        rw [Bool.and_eq_true] at h ⊢
        exact ⟨not_and_mono (headlessFlag_anti t p hh) (all_anti_mem hk _) h.1,
          any_mono_mem hk _ h.2⟩
  · rw [hg]
    exact fun _ => rfl

/-- **Monotonicity**: adding keys or waypoint references, or setting `Forced`, never turns a push
    into a skip - for every generator and every proxy type. -/
theorem typeNeedsPush_mono (root : Nat) (t : XType) (r r' : Req) (p : Proxy)
    (hk : ∀ k, k ∈ r.keys → k ∈ r'.keys) (hr : r'.reasons = r.reasons)
    (hw : ∀ w, w ∈ r.wrefs → w ∈ r'.wrefs)
    (hf : r.forced = true → r'.forced = true) :
    typeNeedsPush root t r p = true → typeNeedsPush root t r' p = true :=
  typeNeedsPush_mono_gen root t r r' p hk (by rw [headlessInit_congr hr]; exact fun h => h) hw hf

/-- Non-vacuity: the hypotheses hold for a request and its extension by a key, a waypoint
    reference and `Forced`; and monotonicity is about pushes - a ztunnel is never pushed by the
    Envoy generators, forced or not, while SDS ignores the proxy. -/
example :
    let r : Req := { keys := [⟨.virtualService, 1, 1⟩], reasons := [.config] }
    let r' : Req := { keys := [⟨.secret, 2, 1⟩, ⟨.virtualService, 1, 1⟩], reasons := [.config],
                      forced := true, wrefs := [⟨1, none, 0, 9⟩] }
    typeNeedsPush 0 .rds r {} = true ∧ typeNeedsPush 0 .rds r' {} = true ∧
    typeNeedsPush 0 .rds r' { ty := .ztunnel } = false ∧
    typeNeedsPush 0 .sds r' { ty := .ztunnel } = true ∧
    typeNeedsPush 0 .pcds r' {} = false := by decide

/-- left part of a merge, under the weakest hypothesis: only the left request needs a reason -/
theorem typeNeedsPush_mono_merge_left (root : Nat) (t : XType) (a b : Req) (p : Proxy)
    (ha : a.reasons ≠ []) :
    typeNeedsPush root t a p = true → typeNeedsPush root t (a.merge b) p = true :=
  typeNeedsPush_mono_gen root t a (a.merge b) p
    (fun k hk => (mem_merge_keys a b k).mpr (Or.inl hk))
    (headlessInit_merge_left a b ha)
    (fun _ hw => List.mem_append_left _ hw)
    (fun h => by simp [Req.merge, h])

/-- **A merged request is never weaker than its parts** (left part).  Every request that reaches
    a merge has a reason (`debounce` sets `UnknownTrigger` on an empty reason map). -/
theorem typeNeedsPush_mono_merge (root : Nat) (t : XType) (a b : Req) (p : Proxy)
    (ha : a.reasons ≠ []) (_hb : b.reasons ≠ []) :
    typeNeedsPush root t a p = true → typeNeedsPush root t (a.merge b) p = true :=
  typeNeedsPush_mono_merge_left root t a b p ha

/-- right part of a merge, under the weakest hypothesis -/
theorem typeNeedsPush_mono_merge_right' (root : Nat) (t : XType) (a b : Req) (p : Proxy)
    (hb : b.reasons ≠ []) :
    typeNeedsPush root t b p = true → typeNeedsPush root t (a.merge b) p = true :=
  typeNeedsPush_mono_gen root t b (a.merge b) p
    (fun k hk => (mem_merge_keys a b k).mpr (Or.inr hk))
    (headlessInit_merge_right a b hb)
    (fun _ hw => List.mem_append_right _ hw)
    (fun h => by simp [Req.merge, h])

/-- **A merged request is never weaker than its parts** (right part). -/
theorem typeNeedsPush_mono_merge_right (root : Nat) (t : XType) (a b : Req) (p : Proxy)
    (_ha : a.reasons ≠ []) (hb : b.reasons ≠ []) :
    typeNeedsPush root t b p = true → typeNeedsPush root t (a.merge b) p = true :=
  typeNeedsPush_mono_merge_right' root t a b p hb

/-- The hypothesis on the reasons cannot be dropped: a request without any reason is not a
    headless marker, but merged with one it becomes one. -/
example :
    let a : Req := { keys := [⟨.serviceEntry, 1, 1⟩] }
    let b : Req := { keys := [⟨.serviceEntry, 2, 1⟩], reasons := [.headless] }
    typeNeedsPush 0 .cds a {} = true ∧ typeNeedsPush 0 .cds (a.merge b) {} = false := by decide

/-! ### Before the repair merging was not monotone -/

/-- `rdsNeedsPush` with the initialisation of `headlessOnly` before the repair -/
def rdsNeedsPushOld (r : Req) (p : Proxy) : Bool :=
  match xdsNeedsPush r p with
  | some b => b
  | none =>
    if p.ty == .waypoint && waypointNeedsPush r p then true
    else rdsLoop p (headlessInitOld r) false r.keys

/-- `cdsNeedsPush` with the initialisation of `headlessOnly` before the repair -/
def cdsNeedsPushOld (r : Req) (p : Proxy) : List Key × Bool :=
  match xdsNeedsPush r p with
  | some b => (r.keys, b)
  | none =>
    if p.ty == .waypoint && waypointNeedsPush r p then (r.keys, true)
    else
      let a := r.keys.foldl (cdsStep p) { headlessOnly := headlessInitOld r }
      if a.headlessOnly then (r.keys, false)
      else
        let needsPush := a.checkGateway && gatewayChanged p
        let ks := if a.filtered then a.relevant else r.keys
        (ks, needsPush || !ks.isEmpty)

/-- Finding (before the `fix:` commit): an endpoint update of ServiceEntry `x` pushes CDS and RDS
    to a sidecar; debounced together with a headless-endpoint update of another ServiceEntry `y`
    the merged request was taken for a pure headless marker and skipped both - merging turned a
    push into a skip.  With the repaired initialisation the merged request pushes. -/
theorem mono_merge_witness_unfixed :
    let a : Req := { keys := [⟨.serviceEntry, 1, 1⟩], reasons := [.endpoint] }
    let b : Req := { keys := [⟨.serviceEntry, 2, 1⟩], reasons := [.headless] }
    let p : Proxy := { ty := .sidecar }
    (cdsNeedsPushOld a p).2 = true ∧ (cdsNeedsPushOld (a.merge b) p).2 = false ∧
    rdsNeedsPushOld a p = true ∧ rdsNeedsPushOld (a.merge b) p = false ∧
    (cdsNeedsPush (a.merge b) p).2 = true ∧ rdsNeedsPush (a.merge b) p = true := by decide

/-! ### The proxy-level filter -/

/-- adding keys or setting `Forced` never turns a proxy-level push into a skip -/
theorem proxyNeedsPush_mono (p : Proxy) (root : Nat) (r r' : Req)
    (hk : ∀ k, k ∈ r.keys → k ∈ r'.keys) (hf : r.forced = true → r'.forced = true) :
    (proxyNeedsPush p root r).2 = true → (proxyNeedsPush p root r').2 = true := by
  rw [proxyNeedsPush_spec, proxyNeedsPush_spec]
  simp only [Bool.or_eq_true (a := r.forced || _), Bool.or_eq_true (a := r.forced),
    Bool.or_eq_true (a := r'.forced || _), Bool.or_eq_true (a := r'.forced),
    Bool.or_eq_true (a := List.any _ _)]
  rintro ((h | h) | (h | h))
  · exact Or.inl (Or.inl (hf h))
  · exact Or.inl (Or.inr h)
  · exact Or.inr (Or.inl (any_mono_mem hk _ h))
  · right; right
    rw [Bool.not_eq_true', List.isEmpty_eq_false_iff_exists_mem] at h ⊢
    obtain ⟨k, hk'⟩ := h
    exact ⟨k, targetKeys_mono p hk k hk'⟩

/-- the keys the proxy-level filter hands on grow with the request -/
theorem proxyNeedsPush_kept_mono (p : Proxy) (root : Nat) (r r' : Req)
    (hk : ∀ k, k ∈ r.keys → k ∈ r'.keys) (hf : r.forced = true → r'.forced = true) (k : Key) :
    k ∈ (proxyNeedsPush p root r).1 → k ∈ (proxyNeedsPush p root r').1 := by
  rw [proxyNeedsPush_mem, proxyNeedsPush_mem]
  rintro ⟨h1, h2⟩
  refine ⟨hk k h1, ?_⟩
  rcases h2 with h2 | h2 | h2 | h2
  · left
    simp only [proxyUnfiltered, Bool.or_eq_true (a := r.forced),
      Bool.or_eq_true (a := r'.forced)] at h2 ⊢
    exact h2.imp hf id
  · exact Or.inr (Or.inr (Or.inl ((List.all_eq_true.mp h2) k h1)))
  · exact Or.inr (Or.inr (Or.inl h2))
  · exact Or.inr (Or.inr (Or.inr (targetKeys_mono p hk k h2)))

/-- **Monotonicity of the whole decision** (proxy-level filter, then the generator on the filtered
    request), general form. -/
theorem pushDecision_mono_gen (root : Nat) (t : XType) (r r' : Req) (p : Proxy)
    (hk : ∀ k, k ∈ r.keys → k ∈ r'.keys)
    (hh : headlessInit r' = true → headlessInit r = true)
    (hw : ∀ w, w ∈ r.wrefs → w ∈ r'.wrefs)
    (hf : r.forced = true → r'.forced = true) :
    pushDecision root t r p = true → pushDecision root t r' p = true := by
  simp only [pushDecision, Bool.and_eq_true]
  rintro ⟨h1, h2⟩
  exact ⟨proxyNeedsPush_mono p root r r' hk hf h1,
    typeNeedsPush_mono_gen root t { r with keys := (proxyNeedsPush p root r).1 }
      { r' with keys := (proxyNeedsPush p root r').1 } p
      (proxyNeedsPush_kept_mono p root r r' hk hf) hh hw hf h2⟩

theorem pushDecision_mono (root : Nat) (t : XType) (r r' : Req) (p : Proxy)
    (hk : ∀ k, k ∈ r.keys → k ∈ r'.keys) (hr : r'.reasons = r.reasons)
    (hw : ∀ w, w ∈ r.wrefs → w ∈ r'.wrefs)
    (hf : r.forced = true → r'.forced = true) :
    pushDecision root t r p = true → pushDecision root t r' p = true :=
  pushDecision_mono_gen root t r r' p hk (by rw [headlessInit_congr hr]; exact fun h => h) hw hf

/-- the whole decision on a merged request is never weaker than on its parts -/
theorem pushDecision_mono_merge (root : Nat) (t : XType) (a b : Req) (p : Proxy)
    (ha : a.reasons ≠ []) (_hb : b.reasons ≠ []) :
    pushDecision root t a p = true → pushDecision root t (a.merge b) p = true :=
  pushDecision_mono_gen root t a (a.merge b) p
    (fun k hk => (mem_merge_keys a b k).mpr (Or.inl hk))
    (headlessInit_merge_left a b ha)
    (fun _ hw => List.mem_append_left _ hw)
    (fun h => by simp [Req.merge, h])

theorem pushDecision_mono_merge_right (root : Nat) (t : XType) (a b : Req) (p : Proxy)
    (_ha : a.reasons ≠ []) (hb : b.reasons ≠ []) :
    pushDecision root t b p = true → pushDecision root t (a.merge b) p = true :=
  pushDecision_mono_gen root t b (a.merge b) p
    (fun k hk => (mem_merge_keys a b k).mpr (Or.inr hk))
    (headlessInit_merge_right a b hb)
    (fun _ hw => List.mem_append_right _ hw)
    (fun h => by simp [Req.merge, h])

/-- if the whole request does not make generator `t` push, no single key of it does
    (contrapositive of `typeNeedsPush_mono`; `Forced` is not even needed) -/
theorem single_push_implies_push (root : Nat) (t : XType) (r : Req) (p : Proxy) (k : Key)
    (hk : k ∈ r.keys) :
    typeNeedsPush root t { r with keys := [k] } p = true → typeNeedsPush root t r p = true :=
  typeNeedsPush_mono root t { r with keys := [k] } r p
    (fun x hx => by rw [List.mem_singleton.mp hx]; exact hk) rfl (fun _ h => h) (fun h => h)

theorem skip_implies_single_skip (root : Nat) (t : XType) (r : Req) (p : Proxy)
    (_hf : r.forced = false) (h : typeNeedsPush root t r p = false) :
    ∀ k, k ∈ r.keys → typeNeedsPush root t { r with keys := [k] } p = false := by
  intro k hk
  cases hs : typeNeedsPush root t { r with keys := [k] } p with
  | false => rfl
  | true => rw [single_push_implies_push root t r p k hk hs] at h; cases h

/-- Non-vacuity: a request that RDS skips for a sidecar (a `Gateway`, a `Secret`, an `Address`),
    and each of its keys alone is skipped too; one more key and it pushes. -/
example :
    let ks : List Key := [⟨.gateway, 1, 1⟩, ⟨.secret, 2, 1⟩, ⟨.address, 3, 1⟩]
    let r : Req := { keys := ks, reasons := [.config] }
    r.forced = false ∧ typeNeedsPush 0 .rds r {} = false ∧
    ks.all (fun k => typeNeedsPush 0 .rds { r with keys := [k] } {} == false) = true ∧
    typeNeedsPush 0 .rds { r with keys := ⟨.virtualService, 4, 1⟩ :: ks } {} = true := by decide

/-! ## D: push order (make before break) -/

/-- the known types are pushed in `PushOrder` order, whatever order the proxy subscribed in -/
theorem watchedByOrder_fst (ws : List String) :
    (watchedByOrder ws).1 = pushOrder.filter ws.contains := rfl

/-- ... so the pushed list is a sublist of `PushOrder`: relative order is that of `PushOrder` -/
theorem watchedByOrder_sublist (ws : List String) : (watchedByOrder ws).1.Sublist pushOrder :=
  List.filter_sublist

/-- clusters before their endpoints before the listeners that use them before the routes -/
theorem pushOrder_make_before_break :
    (∀ ws, (watchedByOrder ws).1 = pushOrder.filter ws.contains) ∧
    pushOrder.idxOf "CDS" < pushOrder.idxOf "EDS" ∧
    pushOrder.idxOf "EDS" < pushOrder.idxOf "LDS" ∧
    pushOrder.idxOf "LDS" < pushOrder.idxOf "RDS" ∧
    pushOrder.idxOf "RDS" < pushOrder.length :=
  ⟨fun _ => rfl, by decide, by decide, by decide, by decide⟩

/-- every watched type is pushed, in the ordered or in the unordered part -/
theorem watchedByOrder_complete (ws : List String) (t : String) (h : t ∈ ws) :
    t ∈ (watchedByOrder ws).1 ∨ t ∈ (watchedByOrder ws).2 := by
  simp only [watchedByOrder, List.mem_filter, List.contains_iff_mem, Bool.not_eq_true',
    ← Bool.not_eq_true]
  by_cases hp : t ∈ pushOrder
  · exact Or.inl ⟨hp, h⟩
  · exact Or.inr ⟨h, hp⟩

/-- nothing unwatched is pushed -/
theorem watchedByOrder_sound (ws : List String) (t : String)
    (h : t ∈ (watchedByOrder ws).1 ∨ t ∈ (watchedByOrder ws).2) : t ∈ ws := by
  simp only [watchedByOrder, List.mem_filter, List.contains_iff_mem] at h
  rcases h with h | h
  · exact h.2
  · exact h.1

/-- no type is pushed twice: the two parts are disjoint -/
theorem watchedByOrder_disjoint (ws : List String) (t : String)
    (h1 : t ∈ (watchedByOrder ws).1) (h2 : t ∈ (watchedByOrder ws).2) : False := by
  simp only [watchedByOrder, List.mem_filter, List.contains_iff_mem, Bool.not_eq_true',
    ← Bool.not_eq_true] at h1 h2
  exact h2.2 h1.1

example : (watchedByOrder ["RDS", "ECDS", "LDS", "CDS", "EDS"]).1 = ["CDS", "EDS", "LDS", "RDS"] := by
  decide

end IstioModel.C01
