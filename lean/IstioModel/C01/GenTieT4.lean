import IstioModel.C01.GenTieBase

/-! C01 T-gen, part: per-type decisions nds, ecds, sds, pcds. One `decide +kernel` per output: the hand-written model evaluated on
every row of the domain equals the bit the real Go function produced on that row (this run). -/
namespace IstioModel.C01

theorem tie_T_nds : allT (fun r => beqB (r.model .nds) (tImpl .nds r)) = true := by decide +kernel

theorem tie_T_ecds : allT (fun r => beqB (r.model .ecds) (tImpl .ecds r)) = true := by decide +kernel

end IstioModel.C01
