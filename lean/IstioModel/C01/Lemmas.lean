import IstioModel.C01.Model

/-!
# C01 - per-key predicates and helper lemmas for `Theorems.lean`

The Go code ranges over `req.ConfigsUpdated`, a map with random iteration order; the model
(`Model.lean`) recurses over the key list in iteration order with early returns and mutable flags.
`Theorems.lean` proves that each loop computes a Boolean combination of `List.any`/`List.all` of
a per-key predicate.  This file defines those predicates and collects what the proofs need: lists
seen as sets, one step of each loop, the kept-key list of CDS, and the pieces of the uniform closed
form of `typeNeedsPush` (`gate`, `wpClause`, `headlessFlag`, `trig`).
-/
namespace IstioModel.C01

/-! ## Per-key predicates -/

def isSE (k : Key) : Bool := k.kind == .serviceEntry

/-- key `k` alone makes LDS push for proxy `p` -/
def ldsTrig (p : Proxy) (root : Nat) (k : Key) : Bool :=
  !skippedLds p.ty k.kind &&
    !(k.kind == .peerAuthentication && !Nat.beq k.ns p.cfgNs && !Nat.beq k.ns root)

/-- key `k` alone makes RDS push for proxy `p` -/
def rdsTrig (p : Proxy) (k : Key) : Bool :=
  !skippedRds k.kind && (!(k.kind == .gateway) || p.ty == .router || p.isEW)

/-- key `k` survives the CDS filter for proxy `p` -/
def cdsKeep (p : Proxy) (k : Key) : Bool :=
  (p.ty == .router && pushCdsGateway k.kind) || !skippedCds k.kind

def scopeKind (k : Key) : Bool := match k.kind with
  | .serviceEntry | .destinationRule | .virtualService | .peerAuthentication | .sidecar
  | .ingress => true
  | _ => false

def gwKind (k : Key) : Bool := match k.kind with
  | .gateway | .ingress => true
  | _ => false

/-! ## Lists as sets: `any`, `all`, `isEmpty` only depend on the members -/

theorem any_congr_mem {α} {l' l : List α} (h : ∀ x, x ∈ l' ↔ x ∈ l) (f : α → Bool) :
    l'.any f = l.any f := by
  rw [Bool.eq_iff_iff, List.any_eq_true, List.any_eq_true]
  exact ⟨fun ⟨x, hx, hf⟩ => ⟨x, (h x).mp hx, hf⟩, fun ⟨x, hx, hf⟩ => ⟨x, (h x).mpr hx, hf⟩⟩

theorem all_congr_mem {α} {l' l : List α} (h : ∀ x, x ∈ l' ↔ x ∈ l) (f : α → Bool) :
    l'.all f = l.all f := by
  rw [Bool.eq_iff_iff, List.all_eq_true, List.all_eq_true]
  exact ⟨fun H x hx => H x ((h x).mpr hx), fun H x hx => H x ((h x).mp hx)⟩

theorem isEmpty_congr_mem {α} {l' l : List α} (h : ∀ x, x ∈ l' ↔ x ∈ l) :
    l'.isEmpty = l.isEmpty := by
  cases l' with
  | nil =>
    cases l with
    | nil => rfl
    | cons a l => exact absurd ((h a).mpr List.mem_cons_self) List.not_mem_nil
  | cons a l' =>
    cases l with
    | nil => exact absurd ((h a).mp List.mem_cons_self) List.not_mem_nil
    | cons b l => rfl

theorem any_mono_mem {α} {l l' : List α} (h : ∀ x, x ∈ l → x ∈ l') (f : α → Bool) :
    l.any f = true → l'.any f = true := by
  rw [List.any_eq_true, List.any_eq_true]
  exact fun ⟨x, hx, hf⟩ => ⟨x, h x hx, hf⟩

theorem all_anti_mem {α} {l l' : List α} (h : ∀ x, x ∈ l → x ∈ l') (f : α → Bool) :
    l'.all f = true → l.all f = true := by
  rw [List.all_eq_true, List.all_eq_true]
  exact fun H x hx => H x (h x hx)

/-- a list all of whose elements satisfy `f` is non-empty iff some element satisfies `f` -/
theorem nonempty_eq_any_of_all {α} {l : List α} {f : α → Bool} (h : l.all f = true) :
    (!l.isEmpty) = l.any f := by
  cases l with
  | nil => rfl
  | cons a l =>
    have ha : f a = true := (List.all_eq_true.mp h) a List.mem_cons_self
    simp [ha]

theorem filter_nonempty_eq_any {α} (l : List α) (f : α → Bool) :
    (!(l.filter f).isEmpty) = l.any f := by
  induction l with
  | nil => rfl
  | cons a l ih =>
    cases ha : f a
    · simp only [List.filter_cons, ha, List.any_cons, Bool.false_or]
      exact ih
    · simp [ha]

theorem not_and_mono {a b a' b' : Bool} (ha : a' = true → a = true) (hb : b' = true → b = true) :
    (!(a && b)) = true → (!(a' && b')) = true := by
  cases a <;> cases b <;> cases a' <;> cases b' <;> simp_all

/-! ## Per-key facts -/

theorem skippedLds_se (t : PType) : skippedLds t .serviceEntry = false := by cases t <;> rfl

/-- a ServiceEntry key always triggers LDS (once the headless marker is off) -/
theorem ldsTrig_se (p : Proxy) (root : Nat) (k : Key) (h : k.kind = .serviceEntry) :
    ldsTrig p root k = true := by
  simp [ldsTrig, h, skippedLds_se]

theorem rdsTrig_se (p : Proxy) (k : Key) (h : k.kind = .serviceEntry) : rdsTrig p k = true := by
  simp [rdsTrig, h, skippedRds]

theorem cdsKeep_se (p : Proxy) (k : Key) (h : k.kind = .serviceEntry) : cdsKeep p k = true := by
  simp [cdsKeep, h, skippedCds]

/-! ## One step of the loops -/

theorem stateLoop_cons (sc gw : Bool) (k : Key) (ks : List Key) :
    stateLoop sc gw (k :: ks)
      = if (sc || scopeKind k) && (gw || gwKind k) then (sc || scopeKind k, gw || gwKind k)
        else stateLoop (sc || scopeKind k) (gw || gwKind k) ks := rfl

/-- one iteration of the loop of `cdsNeedsPush`, field by field -/
theorem cdsStep_eq (p : Proxy) (a : CdsAcc) (k : Key) :
    cdsStep p a k =
      { headlessOnly := a.headlessOnly && isSE k,
        relevant := if cdsKeep p k then k :: a.relevant else a.relevant,
        filtered := a.filtered || !cdsKeep p k,
        checkGateway := a.checkGateway || (p.ty == .router && k.kind == .gateway) } := by
  by_cases h1 : (k.kind == Kind.serviceEntry) = true <;> by_cases h2 : (p.ty == .router) = true <;>
    by_cases h3 : (k.kind == .gateway) = true <;> by_cases h4 : pushCdsGateway k.kind = true <;>
    by_cases h5 : skippedCds k.kind = true <;>
    simp [cdsStep, cdsKeep, isSE, bne, h1, h2, h3, h4, h5]

/-- if the gateway comparison is consulted at all, some key is a `Gateway` kept for a router -/
theorem checkGateway_imp_any_keep (p : Proxy) (ks : List Key)
    (h : (p.ty == .router && ks.any (fun k => k.kind == .gateway)) = true) :
    ks.any (cdsKeep p) = true := by
  rw [Bool.and_eq_true, List.any_eq_true] at h
  obtain ⟨hr, k, hk, hg⟩ := h
  rw [List.any_eq_true]
  refine ⟨k, hk, ?_⟩
  rw [beq_iff_eq] at hg
  simp [cdsKeep, hr, hg, pushCdsGateway]

/-! ## The kept keys of CDS -/

/-- the list of keys `cdsNeedsPush` hands on when it reaches its filter: everything if nothing was
    filtered, else the kept keys (Go appends, the model conses: hence the `reverse`) -/
def cdsKept (p : Proxy) (ks : List Key) : List Key :=
  if ks.all (cdsKeep p) then ks else (ks.filter (cdsKeep p)).reverse

theorem cdsKept_nonempty (p : Proxy) (ks : List Key) :
    (!(cdsKept p ks).isEmpty) = ks.any (cdsKeep p) := by
  unfold cdsKept
  by_cases h : ks.all (cdsKeep p) = true
  · rw [if_pos h]; exact nonempty_eq_any_of_all h
  · rw [if_neg h, List.isEmpty_reverse]; exact filter_nonempty_eq_any ks (cdsKeep p)

theorem mem_cdsKept (p : Proxy) (ks : List Key) (k : Key) :
    k ∈ cdsKept p ks ↔ k ∈ ks ∧ (ks.all (cdsKeep p) = true ∨ cdsKeep p k = true) := by
  unfold cdsKept
  by_cases h : ks.all (cdsKeep p) = true
  · rw [if_pos h]; exact ⟨fun hk => ⟨hk, Or.inl h⟩, fun hk => hk.1⟩
  · rw [if_neg h, List.mem_reverse, List.mem_filter]
    exact ⟨fun hk => ⟨hk.1, Or.inr hk.2⟩, fun hk => ⟨hk.1, hk.2.resolve_left h⟩⟩

/-! ## The proxy's own services (`targetKeys`) -/

theorem mem_targetKeys (p : Proxy) (ks : List Key) (k : Key) :
    k ∈ targetKeys p ks ↔ k ∈ targetKeys p [k] ∧ k ∈ ks := by
  simp only [targetKeys, List.mem_filter, List.contains_iff_mem, List.mem_singleton, and_true]

theorem targetKeys_subset (p : Proxy) (ks : List Key) (k : Key) (h : k ∈ targetKeys p ks) :
    k ∈ ks := ((mem_targetKeys p ks k).mp h).2

theorem targetKeys_congr (p : Proxy) {ks' ks : List Key} (h : ∀ k, k ∈ ks' ↔ k ∈ ks) (k : Key) :
    k ∈ targetKeys p ks' ↔ k ∈ targetKeys p ks := by
  rw [mem_targetKeys p ks', mem_targetKeys p ks, h k]

theorem targetKeys_mono (p : Proxy) {ks ks' : List Key} (h : ∀ k, k ∈ ks → k ∈ ks') (k : Key)
    (hk : k ∈ targetKeys p ks) : k ∈ targetKeys p ks' := by
  rw [mem_targetKeys] at hk ⊢
  exact ⟨hk.1, h k hk.2⟩

/-! ## Request merging -/

theorem mem_merge_keys (a b : Req) (k : Key) :
    k ∈ (a.merge b).keys ↔ k ∈ a.keys ∨ k ∈ b.keys := by
  simp only [Req.merge, List.mem_append, List.mem_filter, Bool.not_eq_true',
    ← Bool.not_eq_true, List.contains_iff_mem]
  constructor
  · rintro (h | h)
    · exact Or.inl h
    · exact Or.inr h.1
  · rintro (h | h)
    · exact Or.inl h
    · by_cases ha : k ∈ a.keys
      · exact Or.inl ha
      · exact Or.inr ⟨h, ha⟩

theorem headlessInit_merge_left (a b : Req) (ha : a.reasons ≠ [])
    (h : headlessInit (a.merge b) = true) : headlessInit a = true := by
  simp only [headlessInit, Req.merge, Bool.and_eq_true, List.all_append] at h ⊢
  refine ⟨?_, h.2.1⟩
  cases hr : a.reasons with
  | nil => exact absurd hr ha
  | cons x xs => rfl

theorem headlessInit_merge_right (a b : Req) (hb : b.reasons ≠ [])
    (h : headlessInit (a.merge b) = true) : headlessInit b = true := by
  simp only [headlessInit, Req.merge, Bool.and_eq_true, List.all_append] at h ⊢
  refine ⟨?_, h.2.2⟩
  cases hr : b.reasons with
  | nil => exact absurd hr hb
  | cons x xs => rfl

/-! ## The pieces of the uniform closed form of `typeNeedsPush` -/

/-- the definitive answers in front of the key loop: `xdsNeedsPush` (ztunnel: never; forced:
    always) for the Envoy generators; SDS only looks at `Forced`; PCDS never pushes -/
def gate (t : XType) (r : Req) (p : Proxy) : Option Bool :=
  match t with
  | .sds => if r.forced then some true else none
  | .pcds => some false
  | _ => xdsNeedsPush r p

/-- the waypoint short-cut, for the four generators that have it -/
def wpClause (t : XType) (r : Req) (p : Proxy) : Bool :=
  match t with
  | .cds | .eds | .lds | .rds => p.ty == .waypoint && waypointNeedsPush r p
  | _ => false

/-- initial value of `headlessOnly` -/
def headlessFlag (t : XType) (r : Req) (p : Proxy) : Bool :=
  match t with
  | .cds | .rds => headlessInit r
  | .lds => p.ty == .router && headlessInit r
  | _ => false

/-- key `k` alone makes generator `t` push for proxy `p` -/
def trig (root : Nat) (t : XType) (p : Proxy) (k : Key) : Bool :=
  match t with
  | .cds => cdsKeep p k
  | .eds => !skippedEds k.kind
  | .lds => ldsTrig p root k
  | .rds => rdsTrig p k
  | .nds => !skippedNds k.kind
  | .ecds => k.kind == .envoyFilter || k.kind == .trafficExtension || k.kind == .secret
  | .sds => k.kind == .secret || k.kind == .configMap
  | .pcds => false

end IstioModel.C01
