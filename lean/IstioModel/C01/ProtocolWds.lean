import IstioModel.C01.ProtocolV2Theorems
import IstioModel.C01.Workload

/-!
# C01 - the third "what changed" channel: `PushRequest.AddressesUpdated` (WDS)

The ambient index does not announce changes of workloads and services as config keys: it puts the
names of the changed ADDRESSES into `PushRequest.AddressesUpdated`, `Merge` unions them like the
config keys, and `WorkloadGenerator` (1) skips unless that set is non-empty (or the push answers a
request of the proxy; `Workload.wdsNeedsPush`, tied by the `wreq` operation of stream `needs`) and
(2) regenerates ONLY the resources named in it, the client keeps every other resource.

In the protocol model the channel is an instance, not a new field: the key type `κ` of
`ProtocolV2` is the address name, `Req.keys` is `AddressesUpdated`.

* `wds_skipOK`: the skip (1) needs NO frame hypothesis - a skipped request announces no address,
  so (every changed address being announced, which is the coverage premise of `SkipOK`) the world
  did not change at all.  `convergence_wds` is `ProtocolV2.convergence` for this decision; it is a
  statement about the SKIP only: in the protocol a pushed request installs the FULL generation
  (`pushDone`), so it says nothing about the narrowing (2).
* `narrowed_eq_full` is a STAND-ALONE LEMMA about (2), not wired into the protocol: keep what is
  held, replace the named resources - this yields exactly the full generation, provided the
  resource of an address depends on that address only (`PerAddress`) and every changed address is
  named.  `PerAddress` is an idealisation that is FALSE for the real WDS: an Address resource
  embeds the services and the waypoint of the workload, so a change of a service must name the
  workloads that embed it (the ambient index does that; no theorem here covers it).  The content
  of WDS on the real code is covered by the ambient `converge` histories (ztunnel-like delta
  client vs a fresh one) and by C03, not by this file.

Not modelled: a Forced request without addresses is skipped by the real generator and regenerated
by the protocol (`step`, `pushDone`: `r.forced || dec ..`); under the same coverage premise nothing
changed, so both leave the client with the same resources.
-/
namespace IstioModel.C01.ProtocolWds
open IstioModel.C01.ProtocolV2

variable {π σ ρ : Type}

/-- the WDS decision on a protocol request whose keys are the updated addresses -/
def wdsDec : π → Unit → World Nat → ProtocolV2.Req Nat σ Reason → Bool :=
  fun _ _ _ r => wdsNeedsPush { keys := [], reasons := r.reasons, forced := r.forced } (!r.keys.isEmpty)

/-- a skipped WDS request names no address -/
theorem wdsDec_false_keys (p : π) (t : Unit) (wl : World Nat) (r : ProtocolV2.Req Nat σ Reason)
    (h : wdsDec p t wl r = false) : r.keys = [] := by
  unfold wdsDec wdsNeedsPush at h
  cases hk : r.keys with
  | nil => rfl
  | cons a as => simp [hk] at h

/-- **The WDS skip is sound without any hypothesis on the generator**: whatever is generated from
    a snapshot built from the address world, a skip only happens when no address changed. -/
theorem wds_skipOK (gen : σ → π → Unit → ρ) (build : World Nat → σ) :
    SkipOK gen build (wdsDec (π := π) (σ := σ)) := by
  intro p t wl r _ hdec hcov
  have hk := wdsDec_false_keys p t wl r hdec
  have hw : wl = r.push := by
    funext k
    apply Classical.byContradiction
    intro hne
    have := hcov k hne
    rw [hk] at this
    cases this
  rw [hw]

/-- **`convergence_wds`.** Every address change being announced in `AddressesUpdated` (built into
    `Step.change`) and the ambient snapshot being rebuilt correctly (`RebuildOK`), every connected
    ztunnel in every quiescent state holds what a fresh control plane generates. -/
theorem convergence_wds [DecidableEq π] (build : World Nat → σ)
    (rebuild : σ → List Nat → Bool → World Nat → σ) (gen : σ → π → Unit → ρ)
    (hrb : RebuildOK build rebuild)
    (w0 : World Nat) (h0 : π → Unit → ρ) (l : List (Step Nat π Reason))
    (hq : Quiescent (run rebuild gen (wdsDec (π := π) (σ := σ)) (init build w0 h0) l)) :
    ∀ p t, (run rebuild gen (wdsDec (π := π) (σ := σ)) (init build w0 h0) l).conn p = true →
      (run rebuild gen (wdsDec (π := π) (σ := σ)) (init build w0 h0) l).held p t =
        gen (build (run rebuild gen (wdsDec (π := π) (σ := σ)) (init build w0 h0) l).world) p t :=
  convergence build rebuild gen (wdsDec (π := π) (σ := σ)) hrb (wds_skipOK gen build) w0 h0 l hq

/-! ## the narrowed response -/

/-- what a client holds after a narrowed push: the named resources are replaced by their new
    generation (a resource that no longer exists is generated as `none` = removed), the rest is kept -/
def narrowedHeld (held new : Nat → Option ρ) (names : List Nat) : Nat → Option ρ :=
  fun a => if a ∈ names then new a else held a

/-- the resource of an address depends on the content of that address only -/
def PerAddress (genA : World Nat → Nat → Option ρ) : Prop :=
  ∀ w w' a, w a = w' a → genA w a = genA w' a

/-- **The narrowing is exact**: if the client holds the full generation for world `wl`, every
    address on which `wl` and `w` differ is named, and resources are per-address, then the narrowed
    push leaves the client with the full generation for `w`. -/
theorem narrowed_eq_full (genA : World Nat → Nat → Option ρ) (hper : PerAddress genA)
    (wl w : World Nat) (names : List Nat) (hcov : ∀ a, wl a ≠ w a → a ∈ names) :
    narrowedHeld (genA wl) (genA w) names = genA w := by
  funext a
  unfold narrowedHeld
  by_cases hm : a ∈ names
  · simp [hm]
  · simp only [hm, if_false]
    apply hper
    apply Classical.byContradiction
    intro hne
    exact hm (hcov a hne)

/-- the coverage premise is needed: an address that changed without being named stays stale -/
theorem narrowed_needs_coverage :
    ∃ (genA : World Nat → Nat → Option Nat) (wl w : World Nat) (names : List Nat),
      PerAddress genA ∧ narrowedHeld (genA wl) (genA w) names ≠ genA w := by
  refine ⟨fun w a => some (w a), fun _ => 0, fun a => if a = 1 then 5 else 0, [], ?_, ?_⟩
  · intro w w' a h; simp [h]
  · intro h
    have := congrFun h 1
    simp [narrowedHeld] at this

end IstioModel.C01.ProtocolWds
