import IstioModel.C01.Workload
import IstioModel.C01.Theorems

/-! # C01 - the ambient generators' skip decisions: order independence and monotonicity -/
namespace IstioModel.C01

/-- WorkloadAuthorization only depends on the key SET -/
theorem wauthNeedsPush_congr (r r' : Req) (hk : ∀ k, k ∈ r'.keys ↔ k ∈ r.keys) (hf : r'.forced = r.forced) :
    wauthNeedsPush r' = wauthNeedsPush r := by
  unfold wauthNeedsPush Req.hasKind
  rw [hf]
  congr 1
  apply Bool.eq_iff_iff.mpr
  simp only [List.any_eq_true]
  constructor
  · rintro ⟨k, hk', h⟩; exact ⟨k, (hk k).mp hk', h⟩
  · rintro ⟨k, hk', h⟩; exact ⟨k, (hk k).mpr hk', h⟩

theorem wauthNeedsPush_perm (r r' : Req) (hk : r'.keys.Perm r.keys) (hf : r'.forced = r.forced) :
    wauthNeedsPush r' = wauthNeedsPush r :=
  wauthNeedsPush_congr r r' (fun _ => hk.mem_iff) hf

/-- more keys or Forced never turn a WorkloadAuthorization push into a skip -/
theorem wauthNeedsPush_mono (r r' : Req) (hk : ∀ k, k ∈ r.keys → k ∈ r'.keys) (hf : r.forced = true → r'.forced = true) :
    wauthNeedsPush r = true → wauthNeedsPush r' = true := by
  unfold wauthNeedsPush Req.hasKind
  simp only [Bool.or_eq_true, List.any_eq_true]
  rintro (h | ⟨k, hk', h⟩)
  · exact Or.inl (hf h)
  · exact Or.inr ⟨k, hk k hk', h⟩

/-- a skipped WorkloadAuthorization push: not Forced and no AuthorizationPolicy key -/
theorem wauth_skip_sound (r : Req) (h : wauthNeedsPush r = false) :
    r.forced = false ∧ ∀ k, k ∈ r.keys → k.kind ≠ .authorizationPolicy := by
  unfold wauthNeedsPush Req.hasKind at h
  simp only [Bool.or_eq_false_iff, List.any_eq_false] at h
  refine ⟨h.1, fun k hk hkind => ?_⟩
  have := h.2 k hk
  rw [hkind] at this
  exact this (by decide)

/-- WDS does not read the keys at all: a skip means the push neither answers a proxy request nor
    carries updated addresses -/
theorem wds_skip_sound (r : Req) (addrs : Bool) (h : wdsNeedsPush r addrs = false) :
    isRequest r = false ∧ addrs = false := by
  unfold wdsNeedsPush at h
  simpa [Bool.or_eq_false_iff] using h

example : wdsNeedsPush { reasons := [.proxyRequest, .proxyRequest] } false = true ∧
    wdsNeedsPush { reasons := [.proxyRequest, .config] } false = false ∧
    wauthNeedsPush { keys := [⟨.peerAuthentication, 1, 1⟩] } = false ∧
    wauthNeedsPush { keys := [⟨.authorizationPolicy, 1, 1⟩] } = true := by decide

end IstioModel.C01
