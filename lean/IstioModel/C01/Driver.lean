import IstioModel.Common.Wire
import IstioModel.C01.Model
import IstioModel.C01.Narrow
import IstioModel.C01.Connection
import IstioModel.C01.Workload

/-! Line-protocol driver for C01, stream `needs` (see harness/c01/needs.go for the grammar). -/
namespace IstioModel.C01
open IstioModel.Wire

def PType.ofTok : String → PType
  | "router" => .router | "waypoint" => .waypoint | "ztunnel" => .ztunnel
  | "agentgateway" => .agentgateway | _ => .sidecar

def Reason.ofTok : String → Reason
  | "endpoint" => .endpoint | "headlessendpoint" => .headless | "config" => .config
  | "service" => .service | "proxy" => .proxy | "global" => .global | "ambient" => .ambient
  | "debug" => .debug | "secret" => .secret | "networks" => .networks
  | "proxyrequest" => .proxyRequest | "depdendentresource" => .dependentResource
  | "namespace" => .namespace_ | "cluster" => .cluster | "tag" => .tag | _ => .unknown

def Reason.tok : Reason → String
  | .endpoint => "endpoint" | .headless => "headlessendpoint" | .config => "config"
  | .service => "service" | .proxy => "proxy" | .global => "global" | .ambient => "ambient"
  | .unknown => "unknown" | .debug => "debug" | .secret => "secret" | .networks => "networks"
  | .proxyRequest => "proxyrequest" | .dependentResource => "depdendentresource"
  | .namespace_ => "namespace" | .cluster => "cluster" | .tag => "tag"

def lst (t : String) (sep : String) : List String := if t == "-" then [] else t.splitOn sep

def num (t : String) : Nat := t.toNat!

def parseKey (t : String) : Key :=
  match t.splitOn "/" with
  | [k, n, s] => { kind := (Kind.ofName k).getD .unknown, name := num n, ns := num s }
  | _ => default

def Key.tok (k : Key) : String := s!"{k.kind.name}/{k.name}/{k.ns}"

def parseScope (t : String) : Option Scope :=
  if t == "nil" then none else
  match t.splitOn ":" with
  | [n, d, s] => some { ns := num n, deps := (lst d ";").map parseKey, services := (lst s ";").map num }
  | _ => none

def parseMG (t : String) : Option MG :=
  if t == "nil" then none else
  match t.splitOn ":" with
  | [a, h, n] => some { autoPassthrough := tokBool a, sniHosts := (lst h ";").map num, names := (lst n ";").map num }
  | _ => none

def parsePair (t : String) : Option (Nat × Nat) :=
  if t == "-" then none else
  match t.splitOn "/" with
  | [a, b] => some (num a, num b)
  | _ => none

def parseWRef (t : String) : WRef :=
  match t.splitOn "/" with
  | ["h", n, h] => { ns := num n, host := some (num h), net := 0, addr := 0 }
  | ["a", n, a] => { ns := 0, host := none, net := num n, addr := num a }
  | _ => default

def parseReq : List String → Req
  | [f, rs, ks, ws] =>
    { forced := tokBool f, reasons := (lst rs ",").map Reason.ofTok, keys := (lst ks ",").map parseKey,
      wrefs := (lst ws ",").map parseWRef }
  | _ => {}

def parseProxy : List String → Proxy
  | [ty, cfg, mns, ew, wa, sd, loc, ploc, tg, ptg, sc, psc, mg, pmg, net, ad] =>
    { ty := PType.ofTok ty, cfgNs := num cfg, metaNs := num mns, ewLabel := tokBool ew, watchAddr := tokBool wa,
      selfDisc := tokBool sd, localSvc := parsePair loc, prevLocalSvc := parsePair ploc,
      targets := (lst tg ",").filterMap parsePair, prevTargets := (lst ptg ",").filterMap parsePair, scope := parseScope sc, prevScope := parseScope psc,
      mg := parseMG mg, prevMg := parseMG pmg, network := num net, addrs := (lst ad ",").map num }
  | _ => {}

def sortDedup (l : List String) : List String :=
  let s := l.mergeSort (fun a b => !(b < a))
  s.foldr (fun x acc => match acc with
    | y :: _ => if x = y then acc else x :: acc
    | [] => [x]) []

def showSet (l : List String) : String :=
  let s := sortDedup l
  if s.isEmpty then "-" else ",".intercalate s

def showKeys (ks : List Key) : String := showSet (ks.map Key.tok)

def Refresh.tok (f : Refresh) : String :=
  boolTok f.labels ++ boolTok f.targets ++ boolTok f.scope ++ boolTok f.gateway

def root : Nat := 0

def showDecisions (p : Proxy) (r : Req) : String :=
  let pn := proxyNeedsPush p root r
  let cds := cdsNeedsPush r p
  let fr : Req := { r with keys := pn.1 }
  let full :=
    if !pn.2 then "skip" else
      boolTok (cdsNeedsPush fr p).2 ++ boolTok (edsNeedsPush fr p) ++ boolTok (ldsNeedsPush root fr p) ++
      boolTok (rdsNeedsPush fr p) ++ boolTok (ndsNeedsPush fr p) ++ boolTok (ecdsNeedsPush fr p) ++
      boolTok (sdsNeedsPush fr)
  s!"proxy={boolTok pn.2}:{showKeys pn.1} wp={boolTok (waypointNeedsPush r p)} cds={boolTok cds.2}:{showKeys cds.1} " ++
  s!"eds={boolTok (edsNeedsPush r p)} partial={boolTok (canSendPartialFullPushes root r)} " ++
  s!"lds={boolTok (ldsNeedsPush root r p)} rds={boolTok (rdsNeedsPush r p)} nds={boolTok (ndsNeedsPush r p)} " ++
  s!"ecds={boolTok (ecdsNeedsPush r p)} sds={boolTok (sdsNeedsPush r)} pcds={boolTok (pcdsNeedsPush r)} " ++
  s!"full={full} state={(computeProxyState p (some r)).tok} pstate={(pushConnectionRefresh p r).tok}"

def showNil (p : Proxy) : String :=
  let b := boolTok (xdsNeedsPushNil p)
  s!"cds={b} eds={b} lds={b} rds={b} nds={b} ecds={b} pcds=0 state={(computeProxyState p none).tok}"

def showReqSorted (r : Req) : String :=
  let w (x : WRef) : String := match x.host with
    | some h => s!"h/{x.ns}/{h}"
    | none => s!"a/{x.net}/{x.addr}"
  s!"{boolTok r.forced}|{showSet (r.reasons.map Reason.tok)}|{showKeys r.keys}|{showSet (r.wrefs.map w)}"

def parseRules (t : String) : List (Nat × Nat) :=
  (lst t ";").filterMap fun x => match x.splitOn "." with
    | [a, b] => some (num a, num b)
    | _ => none

def parseFacts (t : String) : ClusterFacts :=
  match t.splitOn ":" with
  | [h, s, c, p] => { host := num h, svcNs := if s == "-" then none else some (num s), cur := parseRules c, prev := parseRules p }
  | _ => default

structure DState where
  proxy : Proxy := {}

def stepD (d : DState) (toks : List String) : DState × String :=
  match toks with
  | ["case", _, "edsnarrow", px, _, _, _] =>
    ({ proxy := { ty := if px == "router" then .router else .sidecar } }, "ok")
  | ["narrow", f, ks, facts] =>
    let r : Req := { keys := (lst ks ",").map parseKey, reasons := [.config], forced := tokBool f }
    let bits := edsResponse root r d.proxy ((lst facts ",").map parseFacts)
    (d, if bits.isEmpty then "-" else String.join (bits.map boolTok))
  | "case" :: _ => ({ proxy := {} }, "ok")
  | "proxy" :: rest => ({ proxy := parseProxy rest }, "ok")
  | "req" :: rest => (d, showDecisions d.proxy (parseReq rest))
  | ["nilreq"] => (d, showNil d.proxy)
  | ["order", ts] =>
    let o := watchedByOrder (lst ts ",")
    (d, s!"{if o.1.isEmpty then "-" else ",".intercalate o.1} {showSet o.2}")
  | ["conn", ws, _, fr, f, rs, ks, wr] =>
    let r := parseReq [f, rs, ks, wr]
    let fresh := parseScope fr
    let res := pushConnectionSends root fresh (lst ws ",") r d.proxy
    let known := res.1.1
    let sent := res.2.1
    let sentKnown := sent.filter known.contains
    let sentOther := sent.filter (fun t => !known.contains t)
    let j (l : List String) : String := if l.isEmpty then "-" else ",".intercalate l
    (d, s!"called={j known}+{showSet res.1.2} sent={j sentKnown}+{showSet sentOther} keys={if known.isEmpty && res.1.2.isEmpty then "-" else showKeys res.2.2}")
  | ["wreq", a, f, rs, ks] =>
    let r := parseReq [f, rs, ks, "-"]
    (d, s!"wds={boolTok (wdsNeedsPush r (tokBool a))} wauth={boolTok (wauthNeedsPush r)}")
  | ["merge", f1, r1, k1, w1, f2, r2, k2, w2] =>
    let m := (parseReq [f1, r1, k1, w1]).merge (parseReq [f2, r2, k2, w2])
    (d, s!"merged={showReqSorted m} {showDecisions d.proxy m}")
  | _ => (d, "bad-op")

end IstioModel.C01
