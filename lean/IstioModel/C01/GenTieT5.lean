import IstioModel.C01.GenTieBase

/-! C01 T-gen, part: the generated table against the specification `Affects` (skip soundness). -/
namespace IstioModel.C01

/-- the skip-soundness check over the whole table, as one Boolean -/
def skipSoundCheck : Bool :=
  allT fun r => r.forced || GType.all.all fun t =>
    tImpl t.out r || !Affects r.change r.pv t || knownUnsoundSkip r t

theorem skipSoundCheck_true : skipSoundCheck = true := by decide +kernel

end IstioModel.C01
