import IstioModel.C01.Model

/-!
# C01 - the finite single-key domain of the generated decision table (T-gen)

`harness/c01 table` evaluates the REAL Go functions on a real `model.Proxy`/`model.PushRequest`
realising every row below and writes one bit per row and output into
`Generated/C01Table.lean`; `GenTie.lean` proves the model equal to those bits on every row.
The harness uses the same mixed-radix row index (`TRow.idx`, `PRow.idx`, `SRow.idx`).

Identifiers used by the rows: namespaces 0 = mesh root namespace, 1 = the proxy's namespace,
2 = another namespace; the changed config is always named 5 (as a service: hostname 5); the
proxy's own service is hostname 6 in namespace 1.
-/
namespace IstioModel.C01

def boolAll : List Bool := [false, true]

/-- Bit `i` of a table encoded as one numeral. -/
def bitAt (bits : Nat) (i : Nat) : Bool := Nat.beq ((bits >>> i) % 2) 1

/-- proxy variants: the five node types, and the ambient east-west gateway flavour of waypoint -/
inductive PV where
  | sidecar | router | waypoint | ewWaypoint | ztunnel | agentgateway
  deriving DecidableEq, Repr, Inhabited

instance : BEq PV := ⟨fun a b => Nat.beq a.ctorIdx b.ctorIdx⟩
instance : LawfulBEq PV where
  eq_of_beq {a b} h := by cases a <;> cases b <;> first | rfl | exact Bool.noConfusion h
  rfl {a} := by cases a <;> rfl

def PV.all : List PV := [.sidecar, .router, .waypoint, .ewWaypoint, .ztunnel, .agentgateway]
def PV.toNat : PV → Nat
  | .sidecar => 0 | .router => 1 | .waypoint => 2 | .ewWaypoint => 3 | .ztunnel => 4 | .agentgateway => 5
def PV.ptype : PV → PType
  | .sidecar => .sidecar | .router => .router | .waypoint => .waypoint | .ewWaypoint => .waypoint
  | .ztunnel => .ztunnel | .agentgateway => .agentgateway

/-- namespace of the changed key -/
inductive NsC where
  | root | own | other
  deriving DecidableEq, Repr, Inhabited
instance : BEq NsC := ⟨fun a b => Nat.beq a.ctorIdx b.ctorIdx⟩
instance : LawfulBEq NsC where
  eq_of_beq {a b} h := by cases a <;> cases b <;> first | rfl | exact Bool.noConfusion h
  rfl {a} := by cases a <;> rfl
def NsC.all : List NsC := [.root, .own, .other]
def NsC.toNat : NsC → Nat
  | .root => 0 | .own => 1 | .other => 2

/-- reason class of the request: no headless reason, only the headless reason, only `ServiceUpdate`,
    headless mixed with `ServiceUpdate`, headless mixed with `EndpointUpdate` -/
inductive RC where
  | plain | headless | service | both | mixed
  deriving DecidableEq, Repr, Inhabited
instance : BEq RC := ⟨fun a b => Nat.beq a.ctorIdx b.ctorIdx⟩
instance : LawfulBEq RC where
  eq_of_beq {a b} h := by cases a <;> cases b <;> first | rfl | exact Bool.noConfusion h
  rfl {a} := by cases a <;> rfl
def RC.all : List RC := [.plain, .headless, .service, .both, .mixed]
def RC.toNat : RC → Nat
  | .plain => 0 | .headless => 1 | .service => 2 | .both => 3 | .mixed => 4
def RC.reasons : RC → List Reason
  | .plain => [.config] | .headless => [.headless] | .service => [.service]
  | .both => [.headless, .service] | .mixed => [.headless, .endpoint]

def rootNs : Nat := 0

/-- the changed key of a row -/
def rowKey (k : Kind) (n : NsC) : Key := { kind := k, name := 5, ns := n.toNat }

/-- `WaypointsUpdated` of a row: a reference to another waypoint, plus (if `wp`) one to hostname 6
    in namespace 1, the service of the row's proxy. -/
def rowWrefs (wp : Bool) : List WRef :=
  (if wp then [({ ns := 1, host := some 6, net := 0, addr := 0 } : WRef)] else []) ++
    [{ ns := 2, host := some 7, net := 0, addr := 0 }]

/-! ## Section T: the per-type decisions -/

structure TRow where
  kind   : Kind
  pv     : PV
  ns     : NsC
  rc     : RC
  forced : Bool
  wp     : Bool
  deriving DecidableEq, Repr, Inhabited

/-- `p` holds on every T row (nested enumeration: cheap under `decide +kernel`) -/
def allT (p : TRow → Bool) : Bool :=
  Kind.all.all fun k => PV.all.all fun pv => NsC.all.all fun n => RC.all.all fun rc =>
  boolAll.all fun f => boolAll.all fun w =>
    p { kind := k, pv := pv, ns := n, rc := rc, forced := f, wp := w }

def TRow.idx (r : TRow) : Nat :=
  ((((r.kind.idx * 6 + r.pv.toNat) * 3 + r.ns.toNat) * 5 + r.rc.toNat) * 2 + r.forced.toNat) * 2 + r.wp.toNat

def tRows : Nat := 56 * 6 * 3 * 5 * 2 * 2

/-- the model proxy of a T row: namespace 1, own service hostname 6, unchanged merged gateway -/
def TRow.proxy (r : TRow) : Proxy :=
  { ty := r.pv.ptype, cfgNs := 1, metaNs := 1, ewLabel := r.pv == .ewWaypoint,
    targets := [(6, 1)], mg := some { names := [1] }, prevMg := some { names := [1] } }

def TRow.req (r : TRow) : Req :=
  { keys := [rowKey r.kind r.ns], reasons := r.rc.reasons, forced := r.forced, wrefs := rowWrefs r.wp }

/-- the outputs of a T row, in the order of the generated masks -/
inductive TOut where
  | cds | cdsKept | eds | partialEds | lds | rds | nds | ecds | sds | pcds
  deriving DecidableEq, Repr, Inhabited
def TOut.all : List TOut := [.cds, .cdsKept, .eds, .partialEds, .lds, .rds, .nds, .ecds, .sds, .pcds]

def TRow.model (r : TRow) (o : TOut) : Bool :=
  match o with
  | .cds => (cdsNeedsPush r.req r.proxy).2
  | .cdsKept => (cdsNeedsPush r.req r.proxy).1.contains (rowKey r.kind r.ns)
  | .eds => edsNeedsPush r.req r.proxy
  | .partialEds => canSendPartialFullPushes rootNs r.req
  | .lds => ldsNeedsPush rootNs r.req r.proxy
  | .rds => rdsNeedsPush r.req r.proxy
  | .nds => ndsNeedsPush r.req r.proxy
  | .ecds => ecdsNeedsPush r.req r.proxy
  | .sds => sdsNeedsPush r.req
  | .pcds => pcdsNeedsPush r.req

/-! ## Section P: the per-proxy relevance filter (`DefaultProxyNeedsPush`) -/

/-- state of the current / previous sidecar scope with respect to the changed key -/
inductive ScopeC where
  | nil_ | without | with_
  deriving DecidableEq, Repr, Inhabited
instance : BEq ScopeC := ⟨fun a b => Nat.beq a.ctorIdx b.ctorIdx⟩
instance : LawfulBEq ScopeC where
  eq_of_beq {a b} h := by cases a <;> cases b <;> first | rfl | exact Bool.noConfusion h
  rfl {a} := by cases a <;> rfl
def ScopeC.all : List ScopeC := [.nil_, .without, .with_]
def ScopeC.toNat : ScopeC → Nat
  | .nil_ => 0 | .without => 1 | .with_ => 2

def ScopeC.scope (c : ScopeC) (k : Key) : Option Scope :=
  match c with
  | .nil_ => none
  | .without => some { ns := 1, deps := [], services := [9] }
  | .with_ => some { ns := 1, deps := [k], services := [9, 5] }

/-- the remaining per-proxy inputs of `filterRelevantUpdates` -/
inductive Extra where
  | none_          -- self discovery off, own service 6/1
  | selfNoMatch    -- self discovery on, local service 9/1
  | selfLocal      -- self discovery on, local service = the changed key
  | selfPrev       -- self discovery on, previous local service = the changed key
  | offButMatching -- self discovery off, local service = the changed key
  | target         -- the changed key names a service of the proxy (ServiceTargets)
  | forced         -- like `none_`, but the request is Forced
  | watchAddr      -- like `none_`, but the proxy watches the Address type (WDS)
  | prevTarget     -- the changed key names a service of the proxy's PREVIOUS service targets only
  deriving DecidableEq, Repr, Inhabited
instance : BEq Extra := ⟨fun a b => Nat.beq a.ctorIdx b.ctorIdx⟩
instance : LawfulBEq Extra where
  eq_of_beq {a b} h := by cases a <;> cases b <;> first | rfl | exact Bool.noConfusion h
  rfl {a} := by cases a <;> rfl
def Extra.all : List Extra :=
  [.none_, .selfNoMatch, .selfLocal, .selfPrev, .offButMatching, .target, .forced, .watchAddr, .prevTarget]
def Extra.toNat : Extra → Nat
  | .none_ => 0 | .selfNoMatch => 1 | .selfLocal => 2 | .selfPrev => 3 | .offButMatching => 4 | .target => 5
  | .forced => 6 | .watchAddr => 7 | .prevTarget => 8

structure PRow where
  pv     : PV
  kind   : Kind
  ns     : NsC
  cur    : ScopeC
  prev   : ScopeC
  extra  : Extra
  deriving DecidableEq, Repr, Inhabited

/-- `p` holds on every P row of the given proxy variant -/
def allP (pv : PV) (p : PRow → Bool) : Bool :=
  Kind.all.all fun k => NsC.all.all fun n => ScopeC.all.all fun c => ScopeC.all.all fun pr =>
  Extra.all.all fun e => p { pv := pv, kind := k, ns := n, cur := c, prev := pr, extra := e }

def PRow.idx (r : PRow) : Nat :=
  ((((r.pv.toNat * 56 + r.kind.idx) * 3 + r.ns.toNat) * 3 + r.cur.toNat) * 3 + r.prev.toNat) * 9
    + r.extra.toNat

def pRows : Nat := 6 * 56 * 3 * 3 * 3 * 9

def PRow.key (r : PRow) : Key := rowKey r.kind r.ns

def PRow.proxy (r : PRow) : Proxy :=
  let k := r.key
  { ty := r.pv.ptype, cfgNs := 1, metaNs := 1, ewLabel := r.pv == .ewWaypoint,
    watchAddr := (match r.extra with | .watchAddr => true | _ => false),
    scope := r.cur.scope k, prevScope := r.prev.scope k,
    selfDisc := (match r.extra with | .selfNoMatch | .selfLocal | .selfPrev => true | _ => false),
    localSvc := (match r.extra with
      | .selfLocal | .offButMatching => some (k.name, k.ns)
      | .selfNoMatch | .selfPrev => some (9, 1)
      | _ => none),
    prevLocalSvc := (match r.extra with | .selfPrev => some (k.name, k.ns) | _ => none),
    targets := (match r.extra with | .target => [(k.name, k.ns)] | _ => [(6, 1)]),
    prevTargets := (match r.extra with | .prevTarget => [(k.name, k.ns)] | _ => []) }

def PRow.req (r : PRow) : Req :=
  { keys := [r.key], reasons := [.config], forced := (match r.extra with | .forced => true | _ => false) }

inductive POut where
  | needs | kept
  deriving DecidableEq, Repr, Inhabited

def PRow.model (r : PRow) (o : POut) : Bool :=
  match o with
  | .needs => (proxyNeedsPush r.proxy rootNs r.req).2
  | .kept => (proxyNeedsPush r.proxy rootNs r.req).1.contains r.key

/-! ## Section S: the proxy state refresh (`computeProxyState`, `pushConnection`) -/

structure SRow where
  pv     : PV
  kind   : Kind
  /-- the key is in the proxy's own namespace (`Metadata.Namespace`) -/
  ownNs  : Bool
  forced : Bool
  /-- the request carries the reason `ProxyUpdate` -/
  proxyReason : Bool
  deriving DecidableEq, Repr, Inhabited

def allS (p : SRow → Bool) : Bool :=
  PV.all.all fun pv => Kind.all.all fun k => boolAll.all fun o => boolAll.all fun f =>
  boolAll.all fun pr => p { pv := pv, kind := k, ownNs := o, forced := f, proxyReason := pr }

def SRow.idx (r : SRow) : Nat :=
  (((r.pv.toNat * 56 + r.kind.idx) * 2 + r.ownNs.toNat) * 2 + r.forced.toNat) * 2 + r.proxyReason.toNat

def sRows : Nat := 6 * 56 * 2 * 2 * 2

def SRow.proxy (r : SRow) : Proxy :=
  { ty := r.pv.ptype, cfgNs := 1, metaNs := 1, ewLabel := r.pv == .ewWaypoint }

def SRow.req (r : SRow) : Req :=
  { keys := [{ kind := r.kind, name := 5, ns := if r.ownNs then 1 else 2 }],
    reasons := if r.proxyReason then [.config, .proxy] else [.config], forced := r.forced }

inductive SOut where
  | labels | targets | scope | gateway
  deriving DecidableEq, Repr, Inhabited
def SOut.all : List SOut := [.labels, .targets, .scope, .gateway]

def Refresh.get (f : Refresh) : SOut → Bool
  | .labels => f.labels | .targets => f.targets | .scope => f.scope | .gateway => f.gateway

/-- direct call of `computeProxyState` -/
def SRow.modelDirect (r : SRow) (o : SOut) : Bool := (computeProxyState r.proxy (some r.req)).get o
/-- through `pushConnection` (with the only-Endpoints gate) -/
def SRow.modelPush (r : SRow) (o : SOut) : Bool := (pushConnectionRefresh r.proxy r.req).get o
/-- `computeProxyState(proxy, nil)` for each proxy variant -/
def nilModel (pv : PV) (o : SOut) : Bool :=
  (computeProxyState { ty := pv.ptype, ewLabel := pv == .ewWaypoint } none).get o

end IstioModel.C01
