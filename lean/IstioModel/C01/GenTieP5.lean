import IstioModel.C01.GenTieBase

/-! C01 T-gen, part: the per-proxy filter against its specification `Concerns`, proxy variants ewWaypoint, ztunnel, agentgateway. -/
namespace IstioModel.C01

theorem concerns_ewWaypoint : allP .ewWaypoint (fun r => beqB (pImpl .needs r) (Concerns r)) = true := by decide +kernel

theorem concerns_ztunnel : allP .ztunnel (fun r => beqB (pImpl .needs r) (Concerns r)) = true := by decide +kernel

theorem concerns_agentgateway : allP .agentgateway (fun r => beqB (pImpl .needs r) (Concerns r)) = true := by decide +kernel

end IstioModel.C01
