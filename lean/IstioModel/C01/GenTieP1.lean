import IstioModel.C01.GenTieBase

/-! C01 T-gen, part: per-proxy relevance filter (DefaultProxyNeedsPush), proxy variants sidecar. One `decide +kernel` per output: the hand-written model evaluated on
every row of the domain equals the bit the real Go function produced on that row (this run). -/
namespace IstioModel.C01

theorem tie_P_sidecar : allP .sidecar (fun r => beqB (r.model .needs) (pImpl .needs r) && beqB (r.model .kept) (pImpl .kept r)) = true := by
  decide +kernel

end IstioModel.C01
