import IstioModel.C01.GenTieBase

/-! C01 T-gen, part: per-proxy relevance filter (DefaultProxyNeedsPush), proxy variants waypoint, ewWaypoint. -/
namespace IstioModel.C01

theorem tie_P_waypoint : allP .waypoint (fun r => beqB (r.model .needs) (pImpl .needs r) && beqB (r.model .kept) (pImpl .kept r)) = true := by
  decide +kernel

theorem tie_P_ewWaypoint : allP .ewWaypoint (fun r => beqB (r.model .needs) (pImpl .needs r) && beqB (r.model .kept) (pImpl .kept r)) = true := by
  decide +kernel

end IstioModel.C01
