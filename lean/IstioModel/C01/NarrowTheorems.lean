import IstioModel.C01.Narrow
import IstioModel.C01.Theorems

/-!
# C01 - the narrowing of a partial EDS push: property theorems

"A watched cluster is left out of a partial EDS push only if the request consists of delta-aware
kinds, no ServiceEntry/Endpoints key names the cluster's host, and no changed PeerAuthentication
or DestinationRule can reach the cluster - where the DestinationRules of the PREVIOUS sidecar
scope count as well as those of the current one.  The decision depends on `ConfigsUpdated` as a
set only, and more keys never turn a regenerated cluster into a skipped one."
-/
namespace IstioModel.C01

/-! ## The helpers, as propositions about the keys -/

theorem edsUpdated_iff (r : Req) (host : Nat) :
    edsUpdated r host = true ↔
      ∃ k, k ∈ r.keys ∧ (k.kind = .serviceEntry ∨ k.kind = .endpoints) ∧ k.name = host := by
  simp only [edsUpdated, List.any_eq_true, Bool.and_eq_true, Bool.or_eq_true, beq_iff_eq,
    Nat.beq_eq]

theorem noChangedDrs_iff (r : Req) :
    noChangedDrs r = true ↔ ∀ k, k ∈ r.keys → k.kind ≠ .destinationRule := by
  simp only [noChangedDrs, Bool.not_eq_true', ← Bool.not_eq_true, List.any_eq_true, beq_iff_eq,
    not_exists, not_and, ne_eq]

theorem noChangedAuthn_iff (r : Req) :
    noChangedAuthn r = true ↔ ∀ k, k ∈ r.keys → k.kind ≠ .peerAuthentication := by
  simp only [noChangedAuthn, Bool.not_eq_true', ← Bool.not_eq_true, List.any_eq_true, beq_iff_eq,
    not_exists, not_and, ne_eq]

theorem drHit_iff (r : Req) (rules : List (Nat × Nat)) :
    drHit r rules = true ↔
      ∃ k, k ∈ r.keys ∧ k.kind = .destinationRule ∧ (k.name, k.ns) ∈ rules := by
  simp only [drHit, List.any_eq_true, Bool.and_eq_true, beq_iff_eq, Nat.beq_eq]
  constructor
  · rintro ⟨f, hf, k, hk, ⟨h1, h2⟩, h3⟩
    refine ⟨k, hk, h1, ?_⟩
    rw [h2, h3]
    exact hf
  · rintro ⟨k, hk, h1, h2⟩
    exact ⟨(k.name, k.ns), h2, k, hk, ⟨h1, rfl⟩, rfl⟩

theorem authnHit_iff (root : Nat) (r : Req) (ns : Nat) :
    authnHit root r ns = true ↔
      ∃ k, k ∈ r.keys ∧ k.kind = .peerAuthentication ∧ (k.ns = ns ∨ k.ns = root) := by
  simp only [authnHit, List.any_eq_true, Bool.and_eq_true, Bool.or_eq_true, beq_iff_eq,
    Nat.beq_eq]

/-- what a partial push is allowed on: delta-aware kinds only, no root-namespace
    PeerAuthentication, not forced -/
theorem canSendPartialFullPushes_iff (root : Nat) (r : Req) :
    canSendPartialFullPushes root r = true ↔
      r.forced = false ∧ ∀ k, k ∈ r.keys →
        deltaAwareEds k.kind = true ∧ ¬ (k.kind = .peerAuthentication ∧ k.ns = root) := by
  rw [canSendPartialFullPushes_spec]
  simp only [Bool.and_eq_true, Bool.not_eq_true', List.all_eq_true, ← Bool.not_eq_true (b := _ && _),
    beq_iff_eq, Nat.beq_eq]

/-! ## 1. Closed form -/

/-- The narrowing decision without its nested early returns: the cluster is regenerated iff the
    push is not partial, or its host was updated, or a DestinationRule/PeerAuthentication changed
    and either the host resolves to no service or one of the three reachability tests fires. -/
theorem narrowRegenerate_spec (root : Nat) (r : Req) (c : ClusterFacts) :
    narrowRegenerate root r c =
      (!canSendPartialFullPushes root r || edsUpdated r c.host ||
        ((!noChangedDrs r || !noChangedAuthn r) &&
          (match c.svcNs with
           | none => true
           | some ns => authnHit root r ns || drHit r c.cur || drHit r c.prev))) := by
  unfold narrowRegenerate
  by_cases h1 : canSendPartialFullPushes root r = true <;>
    by_cases h2 : edsUpdated r c.host = true <;>
    by_cases h3 : noChangedDrs r = true <;>
    by_cases h4 : noChangedAuthn r = true <;>
    cases c.svcNs with
    | none => simp [h1, h2, h3, h4]
    | some ns =>
      by_cases h5 : authnHit root r ns = true <;>
        by_cases h6 : drHit r c.cur = true <;>
        by_cases h7 : drHit r c.prev = true <;>
        simp [h1, h2, h3, h4, h5, h6, h7]

/-! ## 2. The meaning of a skip -/

/-- **Soundness of a skip.**  A cluster is left out of the EDS response only if (a) the push is
    partial: every key is of a delta-aware kind and none is a root-namespace PeerAuthentication;
    (b) no ServiceEntry/Endpoints key carries the cluster's host name; (c) when the host resolves
    to a service in namespace `ns`: no PeerAuthentication key in `ns` or the root namespace, and
    no DestinationRule key that the current OR the previous consolidated rule of the host is built
    from; (d) when the host resolves to no service: no DestinationRule and no PeerAuthentication
    key at all. -/
theorem narrow_skip_sound (root : Nat) (r : Req) (c : ClusterFacts)
    (h : narrowRegenerate root r c = false) :
    (canSendPartialFullPushes root r = true ∧ r.forced = false ∧
      ∀ k, k ∈ r.keys →
        deltaAwareEds k.kind = true ∧ ¬ (k.kind = .peerAuthentication ∧ k.ns = root)) ∧
    (∀ k, k ∈ r.keys → (k.kind = .serviceEntry ∨ k.kind = .endpoints) → k.name ≠ c.host) ∧
    (∀ ns, c.svcNs = some ns →
      (∀ k, k ∈ r.keys → k.kind = .peerAuthentication → k.ns ≠ ns ∧ k.ns ≠ root) ∧
      (∀ k, k ∈ r.keys → k.kind = .destinationRule →
        (k.name, k.ns) ∉ c.cur ∧ (k.name, k.ns) ∉ c.prev)) ∧
    (c.svcNs = none →
      ∀ k, k ∈ r.keys → k.kind ≠ .destinationRule ∧ k.kind ≠ .peerAuthentication) := by
  rw [narrowRegenerate_spec] at h
  simp only [Bool.or_eq_false_iff, Bool.not_eq_false'] at h
  obtain ⟨⟨hcsp, hupd⟩, hrest⟩ := h
  have hupd' : ¬ edsUpdated r c.host = true := by rw [hupd]; exact Bool.false_ne_true
  rw [edsUpdated_iff] at hupd'
  refine ⟨⟨hcsp, ((canSendPartialFullPushes_iff root r).mp hcsp).1,
    ((canSendPartialFullPushes_iff root r).mp hcsp).2⟩, ?_, ?_, ?_⟩
  · exact fun k hk hkind hname => hupd' ⟨k, hk, hkind, hname⟩
  · intro ns hns
    rw [hns] at hrest
    by_cases hch : (!noChangedDrs r || !noChangedAuthn r) = true
    · -- something changed: the three tests are all negative
      rw [hch, Bool.true_and] at hrest
      simp only [Bool.or_eq_false_iff] at hrest
      obtain ⟨⟨ha, hc⟩, hp⟩ := hrest
      have ha' : ¬ authnHit root r ns = true := by rw [ha]; exact Bool.false_ne_true
      have hc' : ¬ drHit r c.cur = true := by rw [hc]; exact Bool.false_ne_true
      have hp' : ¬ drHit r c.prev = true := by rw [hp]; exact Bool.false_ne_true
      rw [authnHit_iff] at ha'
      rw [drHit_iff] at hc' hp'
      refine ⟨fun k hk hkind => ⟨fun e => ha' ⟨k, hk, hkind, Or.inl e⟩,
        fun e => ha' ⟨k, hk, hkind, Or.inr e⟩⟩, fun k hk hkind => ⟨fun e => hc' ⟨k, hk, hkind, e⟩,
        fun e => hp' ⟨k, hk, hkind, e⟩⟩⟩
    · -- nothing of the two kinds changed at all
      simp only [Bool.or_eq_true, Bool.not_eq_true', not_or, Bool.not_eq_false] at hch
      have hd := (noChangedDrs_iff r).mp hch.1
      have ha := (noChangedAuthn_iff r).mp hch.2
      exact ⟨fun k hk hkind => absurd hkind (ha k hk), fun k hk hkind => absurd hkind (hd k hk)⟩
  · intro hns
    rw [hns] at hrest
    simp only [Bool.and_true, Bool.or_eq_false_iff, Bool.not_eq_false'] at hrest
    have hd := (noChangedDrs_iff r).mp hrest.1
    have ha := (noChangedAuthn_iff r).mp hrest.2
    exact fun k hk => ⟨hd k hk, ha k hk⟩

/-- the kinds a skipped cluster's request can consist of -/
theorem narrow_skip_kinds (root : Nat) (r : Req) (c : ClusterFacts)
    (h : narrowRegenerate root r c = false) (k : Key) (hk : k ∈ r.keys) :
    k.kind = .endpoints ∨ k.kind = .serviceEntry ∨ k.kind = .destinationRule ∨
      k.kind = .peerAuthentication := by
  have hd := ((narrow_skip_sound root r c h).1.2.2 k hk).1
  revert hd
  cases k.kind <;> simp [deltaAwareEds]

/-! ## 3. What forces a regeneration -/

/-- a full (non-partial) push regenerates every cluster -/
theorem narrow_regenerates_on_full (root : Nat) (r : Req) (c : ClusterFacts)
    (h : canSendPartialFullPushes root r = false) : narrowRegenerate root r c = true := by
  rw [narrowRegenerate_spec, h]; rfl

/-- a ServiceEntry/Endpoints key naming the host (whatever its namespace) regenerates -/
theorem narrow_regenerates_on_host (root : Nat) (r : Req) (c : ClusterFacts) (k : Key)
    (hk : k ∈ r.keys) (hkind : k.kind = .serviceEntry ∨ k.kind = .endpoints)
    (hname : k.name = c.host) : narrowRegenerate root r c = true := by
  rw [narrowRegenerate_spec, (edsUpdated_iff r c.host).mpr ⟨k, hk, hkind, hname⟩]
  simp

theorem narrow_regenerates_of_dr_hit (root : Nat) (r : Req) (c : ClusterFacts) (ns : Nat)
    (hns : c.svcNs = some ns) (k : Key) (hk : k ∈ r.keys) (hkind : k.kind = .destinationRule)
    (hhit : (drHit r c.cur || drHit r c.prev) = true) : narrowRegenerate root r c = true := by
  have hd : noChangedDrs r = false := by
    cases hx : noChangedDrs r with
    | false => rfl
    | true => exact absurd hkind ((noChangedDrs_iff r).mp hx k hk)
  rw [narrowRegenerate_spec, hns, hd]
  simp only [Bool.or_assoc, hhit]
  simp

/-- **The previous scope's rule counts**: a changed DestinationRule that the PREVIOUS consolidated
    rule of the host was built from regenerates the cluster (the rule may have stopped applying:
    the cluster must lose its subsets/TLS settings).  No hypothesis on the partial push is needed:
    a full push regenerates anyway. -/
theorem narrow_regenerates_on_prev_rule (root : Nat) (r : Req) (c : ClusterFacts) (ns : Nat)
    (hns : c.svcNs = some ns) (k : Key) (hk : k ∈ r.keys) (hkind : k.kind = .destinationRule)
    (hmem : (k.name, k.ns) ∈ c.prev) : narrowRegenerate root r c = true := by
  apply narrow_regenerates_of_dr_hit root r c ns hns k hk hkind
  rw [(drHit_iff r c.prev).mpr ⟨k, hk, hkind, hmem⟩, Bool.or_true]

/-- ... and so does one the CURRENT consolidated rule is built from -/
theorem narrow_regenerates_on_cur_rule (root : Nat) (r : Req) (c : ClusterFacts) (ns : Nat)
    (hns : c.svcNs = some ns) (k : Key) (hk : k ∈ r.keys) (hkind : k.kind = .destinationRule)
    (hmem : (k.name, k.ns) ∈ c.cur) : narrowRegenerate root r c = true := by
  apply narrow_regenerates_of_dr_hit root r c ns hns k hk hkind
  rw [(drHit_iff r c.cur).mpr ⟨k, hk, hkind, hmem⟩, Bool.true_or]

/-- a changed PeerAuthentication in the service's namespace or in the root namespace regenerates
    (for the root namespace already because the push is then not partial) -/
theorem narrow_regenerates_on_authn (root : Nat) (r : Req) (c : ClusterFacts) (ns : Nat)
    (hns : c.svcNs = some ns) (k : Key) (hk : k ∈ r.keys) (hkind : k.kind = .peerAuthentication)
    (hmem : k.ns = ns ∨ k.ns = root) : narrowRegenerate root r c = true := by
  have ha : noChangedAuthn r = false := by
    cases hx : noChangedAuthn r with
    | false => rfl
    | true => exact absurd hkind ((noChangedAuthn_iff r).mp hx k hk)
  rw [narrowRegenerate_spec, hns, ha]
  simp only [(authnHit_iff root r ns).mpr ⟨k, hk, hkind, hmem⟩]
  simp

/-- a root-namespace PeerAuthentication switches the partial push off altogether -/
theorem root_authn_not_partial (root : Nat) (r : Req) (k : Key) (hk : k ∈ r.keys)
    (hkind : k.kind = .peerAuthentication) (hroot : k.ns = root) :
    canSendPartialFullPushes root r = false := by
  cases hx : canSendPartialFullPushes root r with
  | false => rfl
  | true => exact absurd ⟨hkind, hroot⟩ (((canSendPartialFullPushes_iff root r).mp hx).2 k hk).2

/-- a cluster whose host resolves to no service is regenerated on any DestinationRule or
    PeerAuthentication change -/
theorem narrow_regenerates_unresolved (root : Nat) (r : Req) (c : ClusterFacts)
    (hns : c.svcNs = none) (k : Key) (hk : k ∈ r.keys)
    (hkind : k.kind = .destinationRule ∨ k.kind = .peerAuthentication) :
    narrowRegenerate root r c = true := by
  cases hx : narrowRegenerate root r c with
  | true => rfl
  | false =>
    have := (narrow_skip_sound root r c hx).2.2.2 hns k hk
    rcases hkind with h | h
    · exact absurd h this.1
    · exact absurd h this.2

/-! ## 4. Order independence -/

theorem narrowRegenerate_congr (root : Nat) (r' r : Req) (c : ClusterFacts)
    (hk : ∀ k, k ∈ r'.keys ↔ k ∈ r.keys) (hf : r'.forced = r.forced) :
    narrowRegenerate root r' c = narrowRegenerate root r c := by
  rw [narrowRegenerate_spec, narrowRegenerate_spec, canSendPartial_congr root r' r hk hf]
  simp only [edsUpdated, noChangedDrs, noChangedAuthn, authnHit, drHit, any_congr_mem hk]

/-- which clusters a partial EDS push regenerates does not depend on Go's map iteration order -/
theorem narrowRegenerate_perm (root : Nat) (r' r : Req) (c : ClusterFacts)
    (hk : r'.keys.Perm r.keys) (hf : r'.forced = r.forced) :
    narrowRegenerate root r' c = narrowRegenerate root r c :=
  narrowRegenerate_congr root r' r c (fun _ => hk.mem_iff) hf

theorem edsResponse_congr (root : Nat) (r' r : Req) (p : Proxy) (cs : List ClusterFacts)
    (hk : ∀ k, k ∈ r'.keys ↔ k ∈ r.keys) (hr : r'.reasons = r.reasons)
    (hf : r'.forced = r.forced) (hw : r'.wrefs = r.wrefs) :
    edsResponse root r' p cs = edsResponse root r p cs := by
  have he : edsNeedsPush r' p = edsNeedsPush r p := typeNeedsPush_congr root .eds r' r p hk hr hf hw
  have hn : narrowRegenerate root r' = narrowRegenerate root r :=
    funext fun c => narrowRegenerate_congr root r' r c hk hf
  unfold edsResponse
  rw [he, hn]

theorem edsResponse_perm (root : Nat) (r' r : Req) (p : Proxy) (cs : List ClusterFacts)
    (hk : r'.keys.Perm r.keys) (hr : r'.reasons = r.reasons)
    (hf : r'.forced = r.forced) (hw : r'.wrefs = r.wrefs) :
    edsResponse root r' p cs = edsResponse root r p cs :=
  edsResponse_congr root r' r p cs (fun _ => hk.mem_iff) hr hf hw

/-! ## 5. Monotonicity -/

theorem canSendPartial_anti (root : Nat) (r r' : Req)
    (hk : ∀ k, k ∈ r.keys → k ∈ r'.keys) (hf : r.forced = true → r'.forced = true) :
    canSendPartialFullPushes root r' = true → canSendPartialFullPushes root r = true := by
  rw [canSendPartialFullPushes_iff, canSendPartialFullPushes_iff]
  rintro ⟨h1, h2⟩
  refine ⟨?_, fun k hk' => h2 k (hk k hk')⟩
  cases hx : r.forced with
  | false => rfl
  | true => rw [hf hx] at h1; cases h1

/-- **Monotonicity**: more keys, or `Forced`, never turn a regenerated cluster into a skipped one
    (a key of a non-delta-aware kind switches the partial push off, which regenerates all). -/
theorem narrowRegenerate_mono (root : Nat) (r r' : Req) (c : ClusterFacts)
    (hk : ∀ k, k ∈ r.keys → k ∈ r'.keys) (hf : r.forced = true → r'.forced = true) :
    narrowRegenerate root r c = true → narrowRegenerate root r' c = true := by
  intro h
  cases hx : narrowRegenerate root r' c with
  | true => rfl
  | false =>
    -- the skip of `r'` is sound; every fact it gives about the keys of `r'` holds for `r`
    obtain ⟨⟨hcsp, -, -⟩, hhost, hsome, hnone⟩ := narrow_skip_sound root r' c hx
    have hcsp' := canSendPartial_anti root r r' hk hf hcsp
    rw [narrowRegenerate_spec, hcsp'] at h
    simp only [Bool.not_true, Bool.false_or, Bool.or_eq_true, Bool.and_eq_true] at h
    rcases h with h | ⟨hch, hm⟩
    · obtain ⟨k, hk', hkind, hname⟩ := (edsUpdated_iff r c.host).mp h
      exact absurd hname (hhost k (hk k hk') hkind)
    · cases hns : c.svcNs with
      | none =>
        have hno := hnone hns
        rcases hch with hch | hch
        · have : ¬ noChangedDrs r = true := by simpa using hch
          exact absurd ((noChangedDrs_iff r).mpr fun k hk' => (hno k (hk k hk')).1) this
        · have : ¬ noChangedAuthn r = true := by simpa using hch
          exact absurd ((noChangedAuthn_iff r).mpr fun k hk' => (hno k (hk k hk')).2) this
      | some ns =>
        obtain ⟨hpa, hdr⟩ := hsome ns hns
        rw [hns] at hm
        simp only [Bool.or_eq_true] at hm
        rcases hm with (hm | hm) | hm
        · obtain ⟨k, hk', hkind, hmem⟩ := (authnHit_iff root r ns).mp hm
          have := hpa k (hk k hk') hkind
          rcases hmem with e | e
          · exact absurd e this.1
          · exact absurd e this.2
        · obtain ⟨k, hk', hkind, hmem⟩ := (drHit_iff r c.cur).mp hm
          exact absurd hmem (hdr k (hk k hk') hkind).1
        · obtain ⟨k, hk', hkind, hmem⟩ := (drHit_iff r c.prev).mp hm
          exact absurd hmem (hdr k (hk k hk') hkind).2

/-- a merged request never skips a cluster one of its parts regenerates -/
theorem narrowRegenerate_mono_merge (root : Nat) (a b : Req) (c : ClusterFacts) :
    (narrowRegenerate root a c = true → narrowRegenerate root (a.merge b) c = true) ∧
    (narrowRegenerate root b c = true → narrowRegenerate root (a.merge b) c = true) :=
  ⟨narrowRegenerate_mono root a (a.merge b) c
      (fun k hk => (mem_merge_keys a b k).mpr (Or.inl hk)) (fun h => by simp [Req.merge, h]),
   narrowRegenerate_mono root b (a.merge b) c
      (fun k hk => (mem_merge_keys a b k).mpr (Or.inr hk)) (fun h => by simp [Req.merge, h])⟩

/-! ## 6. The response -/

theorem edsResponse_length (root : Nat) (r : Req) (p : Proxy) (cs : List ClusterFacts) :
    (edsResponse root r p cs).length = cs.length := by
  unfold edsResponse
  split <;> exact List.length_map _

/-- a forced push regenerates every watched cluster of every Envoy proxy -/
theorem edsResponse_forced (root : Nat) (r : Req) (p : Proxy) (cs : List ClusterFacts)
    (hf : r.forced = true) (hz : p.ty ≠ .ztunnel) :
    edsResponse root r p cs = cs.map (fun _ => true) := by
  have hz' : (p.ty == PType.ztunnel) = false := by
    cases hx : (p.ty == PType.ztunnel) with
    | false => rfl
    | true => exact absurd (beq_iff_eq.mp hx) hz
  have he : edsNeedsPush r p = true := by
    simp [edsNeedsPush, xdsNeedsPush, hz', hf]
  have hn : narrowRegenerate root r = fun _ => true :=
    funext fun c => narrow_regenerates_on_full root r c (by simp [canSendPartialFullPushes, hf])
  unfold edsResponse
  rw [he, hn]
  rfl

/-- a ztunnel gets nothing from the EDS generator -/
theorem edsResponse_ztunnel (root : Nat) (r : Req) (p : Proxy) (cs : List ClusterFacts)
    (hz : p.ty = .ztunnel) : edsResponse root r p cs = cs.map (fun _ => false) := by
  have he : edsNeedsPush r p = false := by
    simp [edsNeedsPush, xdsNeedsPush, hz]
  unfold edsResponse
  rw [he]
  rfl

/-! ## 7. Non-vacuity -/

/-- A changed DestinationRule (1,1): the cluster whose PREVIOUS rule was built from it (and whose
    current rule is not) is regenerated; a cluster whose rules come from (2,2) is skipped; both
    hypotheses of `narrow_skip_sound` / `narrow_regenerates_on_prev_rule` are satisfiable. -/
example :
    let r : Req := { keys := [⟨.destinationRule, 1, 1⟩], reasons := [.config] }
    let c1 : ClusterFacts := { host := 10, svcNs := some 1, cur := [], prev := [(1, 1)] }
    let c2 : ClusterFacts := { host := 11, svcNs := some 1, cur := [(2, 2)], prev := [(2, 2)] }
    canSendPartialFullPushes 0 r = true ∧
    narrowRegenerate 0 r c1 = true ∧ narrowRegenerate 0 r c2 = false ∧
    edsResponse 0 r {} [c1, c2] = [true, false] := by decide

/-- The same request with one more key, of a kind that is not delta-aware (a Secret): the push is
    no longer partial and both clusters are regenerated. -/
example :
    let r : Req := { keys := [⟨.secret, 5, 1⟩, ⟨.destinationRule, 1, 1⟩], reasons := [.config] }
    let c1 : ClusterFacts := { host := 10, svcNs := some 1, cur := [], prev := [(1, 1)] }
    let c2 : ClusterFacts := { host := 11, svcNs := some 1, cur := [(2, 2)], prev := [(2, 2)] }
    canSendPartialFullPushes 0 r = false ∧
    narrowRegenerate 0 r c1 = true ∧ narrowRegenerate 0 r c2 = true ∧
    edsResponse 0 r {} [c1, c2] = [true, true] := by decide

/-- PeerAuthentication: the service's namespace hits, another namespace does not, the root
    namespace makes the push full; an Endpoints key is matched by name only. -/
example :
    let c : ClusterFacts := { host := 10, svcNs := some 1 }
    narrowRegenerate 0 { keys := [⟨.peerAuthentication, 3, 1⟩] } c = true ∧
    narrowRegenerate 0 { keys := [⟨.peerAuthentication, 3, 2⟩] } c = false ∧
    narrowRegenerate 0 { keys := [⟨.peerAuthentication, 3, 0⟩] } c = true ∧
    narrowRegenerate 0 { keys := [⟨.endpoints, 10, 7⟩] } c = true ∧
    narrowRegenerate 0 { keys := [⟨.endpoints, 12, 1⟩] } c = false ∧
    narrowRegenerate 0 { keys := [⟨.peerAuthentication, 3, 2⟩] } { c with svcNs := none } = true := by
  decide

end IstioModel.C01
