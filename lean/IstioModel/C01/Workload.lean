import IstioModel.C01.Model

/-!
# C01 - the skip decisions of the ambient generators (`pilot/pkg/xds/workload.go`)

`WorkloadGenerator.GenerateDeltas` (WDS: the Address and Workload types) and
`WorkloadRBACGenerator.GenerateDeltas` (WorkloadAuthorization) take their own skip decision at the
top of the function; neither goes through `xdsNeedsPush` (so the proxy type plays no role).
Tied to the real generators by the `wreq` operation of stream `needs` (a response of zero
resources is still a response; `nil` is a skip).
-/
namespace IstioModel.C01

/-- `PushRequest.IsRequest()`: `len(pr.Reason) == 1 && pr.Reason.Has(ProxyRequest)` - `Reason` is a
    map, so its length is the number of DISTINCT reasons. -/
def isRequest (r : Req) : Bool :=
  r.has .proxyRequest && r.reasons.all (fun x => x == .proxyRequest)

/-- WDS (workload.go:47-52): nothing changed unless the push answers a request of the proxy or
    carries updated addresses. `addrs` = `len(req.AddressesUpdated) > 0`. -/
def wdsNeedsPush (r : Req) (addrs : Bool) : Bool := isRequest r || addrs

/-- WorkloadAuthorization (workload.go:205-216): a Forced push, or some AuthorizationPolicy key
    (the ambient index reports every generated policy under that kind). -/
def wauthNeedsPush (r : Req) : Bool := r.forced || r.hasKind .authorizationPolicy

end IstioModel.C01
