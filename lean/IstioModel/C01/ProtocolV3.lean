import IstioModel.C01.ProtocolV2

/-!
# C01 - a LIMIT of the convergence theorem: the store runs ahead of event delivery

In `ProtocolV2` a `change` step updates the world AND hands the event to the debouncer atomically.
In real istiod the config store / service registries run ahead of event delivery: a write changes
the world at once, its event reaches the debouncer later, and a flush builds the snapshot from
the CURRENT world - which may already contain writes whose keys have not been announced yet.

This file models exactly that (`write` / `deliver` instead of `change`; everything else as in
`ProtocolV2`, without reasons) and proves `store_ahead_breaks_convergence`: there are `build`,
`rebuild`, `gen`, `dec` satisfying `RebuildOK` and `SkipOK` - literally the hypotheses of
`ProtocolV2.convergence` - and a history ending in a quiescent state (no undelivered event,
nothing debounced, queued or in flight) in which a connected client does NOT hold what a freshly
started control plane would generate.

What goes wrong: the first flush publishes a snapshot that already contains an unannounced write.
The request announces only the delivered key, so the premise of `SkipOK` ("the world the proxy is
at differs from the request's world only on announced keys") is false for it and nothing is
promised about the skip; but the push still records the proxy as synced at that snapshot.  When
the late event finally arrives, the decision compares the proxy's previous world with the new
snapshot, sees no difference on that key, and skips again.

So the V2 theorem covers the histories in which every write is delivered before the next flush
(a `write` immediately followed by its `deliver` is the V2 `change` step: same world, same
debouncer contents, and `pendingEvents` stays empty); the general store-ahead behaviour needs
a decision that does not trust the snapshot-to-snapshot comparison for unannounced keys, and is
not covered.
-/
namespace IstioModel.C01.ProtocolV3

open IstioModel.C01.ProtocolV2 (World upd)

/-- a push request (no reasons here) -/
structure Req (κ σ : Type) where
  keys   : List κ
  forced : Bool
  /-- ghost: the world the snapshot `pushS` was published for -/
  push   : World κ
  pushS  : σ

def Req.merge {κ σ : Type} (a b : Req κ σ) : Req κ σ :=
  { keys := a.keys ++ b.keys, forced := a.forced || b.forced, push := b.push, pushS := b.pushS }

structure Sys (κ π τ ρ σ : Type) where
  world         : World κ
  /-- events of writes already applied to the world, not yet delivered (oldest first) -/
  pendingEvents : List (κ × Bool)
  debKeys       : List κ
  debForced     : Bool
  /-- ghost: the world at the last flush -/
  snap          : World κ
  snapS         : σ
  conn          : π → Bool
  queue         : π → Option (Req κ σ)
  infl          : π → Option (Req κ σ)
  held          : π → τ → ρ
  last          : π → World κ

inductive Step (κ π : Type) where
  /-- the store is written: the world changes at once, the event is only queued for delivery -/
  | write (k : κ) (v : Nat) (forced : Bool)
  /-- the oldest undelivered event reaches the debouncer -/
  | deliver
  | flush
  | connect (p : π)
  | dequeue (p : π)
  | pushDone (p : π)

def flushReq {κ π τ ρ σ : Type} (rebuild : σ → List κ → Bool → World κ → σ)
    (s : Sys κ π τ ρ σ) : Req κ σ :=
  { keys := s.debKeys, forced := s.debForced, push := s.world,
    pushS := rebuild s.snapS s.debKeys s.debForced s.world }

def enq {κ σ : Type} : Option (Req κ σ) → Req κ σ → Req κ σ
  | some q, r => q.merge r
  | none, r => r

def step {κ π τ ρ σ : Type} [DecidableEq κ] [DecidableEq π]
    (rebuild : σ → List κ → Bool → World κ → σ) (gen : σ → π → τ → ρ)
    (dec : π → τ → World κ → Req κ σ → Bool)
    (s : Sys κ π τ ρ σ) : Step κ π → Sys κ π τ ρ σ
  | .write k v f =>
    { s with world := s.world.set k v, pendingEvents := s.pendingEvents ++ [(k, f)] }
  | .deliver =>
    match s.pendingEvents with
    | [] => s
    | (k, f) :: rest =>
      { s with pendingEvents := rest, debKeys := k :: s.debKeys, debForced := s.debForced || f }
  | .flush =>
    { s with
      snap := s.world, snapS := rebuild s.snapS s.debKeys s.debForced s.world,
      debKeys := [], debForced := false,
      queue := fun p =>
        if s.conn p = true then some (enq (s.queue p) (flushReq rebuild s)) else s.queue p }
  | .connect p =>
    if s.conn p = true then s else
    { s with
      conn := upd s.conn p true, held := upd s.held p (gen s.snapS p),
      last := upd s.last p s.snap,
      queue := upd s.queue p none, infl := upd s.infl p none }
  | .dequeue p =>
    match s.conn p, s.infl p, s.queue p with
    | true, none, some q => { s with infl := upd s.infl p (some q), queue := upd s.queue p none }
    | _, _, _ => s
  | .pushDone p =>
    match s.infl p with
    | some r =>
      { s with
        infl := upd s.infl p none,
        held := upd s.held p
          (fun t =>
            if (r.forced || dec p t (s.last p) r) = true then gen r.pushS p t else s.held p t),
        last := upd s.last p r.push }
    | none => s

def init {κ π τ ρ σ : Type} (build : World κ → σ) (w : World κ) (h : π → τ → ρ) :
    Sys κ π τ ρ σ :=
  { world := w, pendingEvents := [], debKeys := [], debForced := false, snap := w,
    snapS := build w, conn := fun _ => false, queue := fun _ => none, infl := fun _ => none,
    held := h, last := fun _ => w }

def run {κ π τ ρ σ : Type} [DecidableEq κ] [DecidableEq π]
    (rebuild : σ → List κ → Bool → World κ → σ) (gen : σ → π → τ → ρ)
    (dec : π → τ → World κ → Req κ σ → Bool)
    (s : Sys κ π τ ρ σ) (l : List (Step κ π)) : Sys κ π τ ρ σ :=
  l.foldl (step rebuild gen dec) s

/-- every event delivered, nothing debounced, nothing queued, nothing in flight -/
def Quiescent {κ π τ ρ σ : Type} (s : Sys κ π τ ρ σ) : Prop :=
  s.pendingEvents = [] ∧ s.debKeys = [] ∧ s.debForced = false ∧
  (∀ p, s.queue p = none) ∧ (∀ p, s.infl p = none)

/-- as in `ProtocolV2` -/
def RebuildOK {κ σ : Type} (build : World κ → σ) (rebuild : σ → List κ → Bool → World κ → σ) :
    Prop :=
  ∀ (w0 w : World κ) (keys : List κ) (forced : Bool),
    (forced = true ∨ ∀ k, w0 k ≠ w k → k ∈ keys) → rebuild (build w0) keys forced w = build w

/-- as in `ProtocolV2` -/
def SkipOK {κ π τ ρ σ : Type} (gen : σ → π → τ → ρ) (build : World κ → σ)
    (dec : π → τ → World κ → Req κ σ → Bool) : Prop :=
  ∀ p t (wl : World κ) (r : Req κ σ), r.forced = false → dec p t wl r = false →
    (∀ k, wl k ≠ r.push k → k ∈ r.keys) → gen (build wl) p t = gen (build r.push) p t

/-! ## the witness -/

def v3Build : World Nat → World Nat := fun w => w

/-- any announced key (or Forced) makes the rebuild re-read the whole current world - this is how
    the per-kind indexes behave: they are re-listed from the store; with nothing announced the
    old snapshot is kept -/
def v3Rebuild : World Nat → List Nat → Bool → World Nat → World Nat :=
  fun old keys forced w => if forced = true then w else if keys.isEmpty = true then old else w

/-- the resources depend on key 1 only -/
def v3Gen : World Nat → Unit → Unit → Nat := fun w _ _ => w 1

/-- push iff key 1 is announced AND its value differs between the world the proxy was last synced
    at and the snapshot being pushed (the scope-vs-previous-scope comparison) -/
def v3Dec : Unit → Unit → World Nat → Req Nat (World Nat) → Bool :=
  fun _ _ wl r => r.keys.any (fun k => k == 1 && wl 1 != r.push 1)

theorem v3RebuildOK : RebuildOK v3Build v3Rebuild := by
  intro w0 w keys forced hpre
  cases forced with
  | true => simp [v3Rebuild, v3Build]
  | false =>
    have hk : ∀ k, w0 k ≠ w k → k ∈ keys := by
      rcases hpre with h1 | h1
      · cases h1
      · exact h1
    cases keys with
    | nil =>
      have e : w0 = w := by
        funext k
        apply Decidable.byContradiction
        intro hne
        have := hk k hne
        simp at this
      simp [v3Rebuild, v3Build, e]
    | cons a as => simp [v3Rebuild, v3Build]

theorem v3SkipOK : SkipOK v3Gen v3Build v3Dec := by
  intro p t wl r _ hd hw
  show wl 1 = r.push 1
  apply Decidable.byContradiction
  intro hne
  have hm : 1 ∈ r.keys := hw 1 hne
  have ht : v3Dec p t wl r = true := by
    simp only [v3Dec, List.any_eq_true]
    exact ⟨1, hm, by simp [hne]⟩
  rw [ht] at hd
  cases hd

/-- The proxy connects; keys 0 and 1 are written; only the event of key 0 is delivered before
    the flush, whose snapshot nevertheless already has key 1 = 5.  The push skips (key 1 is not
    announced) and records the proxy as synced at that snapshot.  Then the event of key 1
    arrives, is flushed and pushed: the decision sees key 1 announced but equal in the previous
    and the current snapshot, and skips again. -/
def v3Hist : List (Step Nat Unit) :=
  [.connect (), .write 0 7 false, .write 1 5 false,
   .deliver, .flush, .dequeue (), .pushDone (),
   .deliver, .flush, .dequeue (), .pushDone ()]

/-- **The hypotheses of the V2 convergence theorem do not suffice when the store runs ahead of
    event delivery.** -/
theorem store_ahead_breaks_convergence :
    ∃ (build : World Nat → World Nat) (rebuild : World Nat → List Nat → Bool → World Nat → World Nat)
      (gen : World Nat → Unit → Unit → Nat)
      (dec : Unit → Unit → World Nat → Req Nat (World Nat) → Bool)
      (l : List (Step Nat Unit)),
      RebuildOK build rebuild ∧ SkipOK gen build dec ∧
      Quiescent (run rebuild gen dec (init build (fun _ => 0) (fun _ _ => 7)) l) ∧
      ∃ p t, (run rebuild gen dec (init build (fun _ => 0) (fun _ _ => 7)) l).conn p = true ∧
        (run rebuild gen dec (init build (fun _ => 0) (fun _ _ => 7)) l).held p t ≠
          gen (build (run rebuild gen dec (init build (fun _ => 0) (fun _ _ => 7)) l).world) p t := by
  refine ⟨v3Build, v3Rebuild, v3Gen, v3Dec, v3Hist, v3RebuildOK, v3SkipOK,
    ⟨rfl, rfl, rfl, ?_, ?_⟩, (), (), rfl, ?_⟩
  · intro p; cases p; rfl
  · intro p; cases p; rfl
  · decide

/-- the numbers: the client holds 0 (generated at connect), a fresh control plane would give 5;
    both pushes really were skips on unforced requests, the first announcing only key 0 -/
theorem store_ahead_details :
    (run v3Rebuild v3Gen v3Dec (init v3Build (fun _ => 0) (fun _ _ => 7)) v3Hist).held () () = 0 ∧
    v3Gen (v3Build
      (run v3Rebuild v3Gen v3Dec (init v3Build (fun _ => 0) (fun _ _ => 7)) v3Hist).world) () () = 5 ∧
    (∃ r, (run v3Rebuild v3Gen v3Dec (init v3Build (fun _ => 0) (fun _ _ => 7))
        (v3Hist.take 6)).infl () = some r ∧ r.keys = [0] ∧ r.forced = false ∧ r.pushS 1 = 5 ∧
      v3Dec () ()
        ((run v3Rebuild v3Gen v3Dec (init v3Build (fun _ => 0) (fun _ _ => 7))
          (v3Hist.take 6)).last ()) r = false) ∧
    (∃ r, (run v3Rebuild v3Gen v3Dec (init v3Build (fun _ => 0) (fun _ _ => 7))
        (v3Hist.take 10)).infl () = some r ∧ r.keys = [1] ∧ r.forced = false ∧
      v3Dec () ()
        ((run v3Rebuild v3Gen v3Dec (init v3Build (fun _ => 0) (fun _ _ => 7))
          (v3Hist.take 10)).last ()) r = false) := by
  refine ⟨by decide, by decide, ⟨_, rfl, rfl, rfl, by decide, by decide⟩,
    ⟨_, rfl, rfl, rfl, by decide⟩⟩

end IstioModel.C01.ProtocolV3
