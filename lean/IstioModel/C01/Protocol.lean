/-!
# C01 - the xDS push pipeline as a transition system (abstract generator, abstract skip decision)

istiod holds configuration (the `world`: a version for every config key).  A change event reaches
the debouncer, which merges the events received since the last flush into one pending request
(`debKeys`, `debForced`).  When the debouncer fires (`flush`) a snapshot of the world is published
(the global `PushContext`, here `snap`) and the merged request is enqueued for every connected
proxy; if a request is already queued for that proxy the two are merged (`PushRequest.Merge`:
union of the keys, or of `Forced`, the LATER snapshot).  The push queue hands a proxy's request to
a sender (`dequeue`: the request is now in flight, new requests for that proxy queue up behind
it) and the sender processes it (`pushDone`): for every xDS type the server either regenerates
the resources from the request's snapshot and sends them, or SKIPS the type because it decided
that the changed keys do not concern this proxy / type.

The generator `gen` and the skip decision `dec` are parameters.  `SkipOK gen dec` is the
hypothesis linking them; `Frame` + `SkipSound` decompose it through a relevance relation.

Modelling choices.
* A `flush` with nothing pending is ALLOWED: it publishes the snapshot and enqueues an empty,
  unforced request (harmless: every type may then be skipped, and `SkipOK` makes that sound).
* `connect p` for an already connected proxy is a no-op; `dequeue p` needs `p` connected, nothing
  in flight for `p` and a queued request; `pushDone p` needs an in-flight request.  A step whose
  guard fails leaves the state unchanged, so EVERY list of steps is a legal history.
* What an unconnected proxy "holds" is irrelevant (`connect` overwrites it).
-/
namespace IstioModel.C01.Protocol

/-- config: version (content) of every key -/
abbrev World (κ : Type) := κ → Nat

def World.set {κ : Type} [DecidableEq κ] (w : World κ) (k : κ) (v : Nat) : World κ :=
  fun k' => if k' = k then v else w k'

/-- a push request: changed keys, Forced flag, the snapshot it will be generated from -/
structure Req (κ : Type) where
  keys   : List κ
  forced : Bool
  push   : World κ

/-- "the request announces key k" -/
def Req.covers {κ : Type} (r : Req κ) (k : κ) : Prop := r.forced = true ∨ k ∈ r.keys

/-- `PushRequest.Merge`: union of keys, or of Forced, the later snapshot -/
def Req.merge {κ : Type} (a b : Req κ) : Req κ :=
  { keys := a.keys ++ b.keys, forced := a.forced || b.forced, push := b.push }

structure Sys (κ π τ ρ : Type) where
  world     : World κ
  /-- debouncer: keys / Forced of the events received since the last flush -/
  debKeys   : List κ
  debForced : Bool
  /-- published snapshot (global PushContext) -/
  snap      : World κ
  conn      : π → Bool
  /-- `PushQueue.pending` -/
  queue     : π → Option (Req κ)
  /-- `PushQueue.processing`: dequeued, push not finished -/
  infl      : π → Option (Req κ)
  /-- what the client holds -/
  held      : π → τ → ρ

inductive Step (κ π : Type) where
  /-- a config / service / endpoint change; the event reaches the debouncer -/
  | change (k : κ) (v : Nat) (forced : Bool)
  /-- debounce fires: snapshot := world, enqueue for every connected proxy -/
  | flush
  /-- a new proxy connects and receives everything from the current snapshot -/
  | connect (p : π)
  /-- the push queue hands p's request to a sender -/
  | dequeue (p : π)
  /-- the request is processed: every type is regenerated or skipped -/
  | pushDone (p : π)

/-- pointwise update -/
def upd {π α : Type} [DecidableEq π] (f : π → α) (p : π) (a : α) : π → α :=
  fun p' => if p' = p then a else f p'

/-- the request the debouncer emits when it fires -/
def flushReq {κ π τ ρ : Type} (s : Sys κ π τ ρ) : Req κ :=
  { keys := s.debKeys, forced := s.debForced, push := s.world }

/-- `PushQueue.Enqueue`: merge into the pending request if there is one -/
def enq {κ : Type} : Option (Req κ) → Req κ → Req κ
  | some q, r => q.merge r
  | none, r => r

def step {κ π τ ρ : Type} [DecidableEq κ] [DecidableEq π]
    (gen : World κ → π → τ → ρ) (dec : π → τ → Req κ → Bool)
    (s : Sys κ π τ ρ) : Step κ π → Sys κ π τ ρ
  | .change k v f =>
    { s with world := s.world.set k v, debKeys := k :: s.debKeys, debForced := s.debForced || f }
  | .flush =>
    { s with
      snap := s.world, debKeys := [], debForced := false,
      queue := fun p => if s.conn p = true then some (enq (s.queue p) (flushReq s)) else s.queue p }
  | .connect p =>
    if s.conn p = true then s else
    { s with
      conn := upd s.conn p true, held := upd s.held p (gen s.snap p),
      queue := upd s.queue p none, infl := upd s.infl p none }
  | .dequeue p =>
    match s.conn p, s.infl p, s.queue p with
    | true, none, some q => { s with infl := upd s.infl p (some q), queue := upd s.queue p none }
    | _, _, _ => s
  | .pushDone p =>
    match s.infl p with
    | some r =>
      { s with
        infl := upd s.infl p none,
        held := upd s.held p
          (fun t => if (r.forced || dec p t r) = true then gen r.push p t else s.held p t) }
    | none => s

/-- world = snapshot = `w`, nothing pending, nobody connected -/
def init {κ π τ ρ : Type} (w : World κ) (h : π → τ → ρ) : Sys κ π τ ρ :=
  { world := w, debKeys := [], debForced := false, snap := w, conn := fun _ => false,
    queue := fun _ => none, infl := fun _ => none, held := h }

def run {κ π τ ρ : Type} [DecidableEq κ] [DecidableEq π]
    (gen : World κ → π → τ → ρ) (dec : π → τ → Req κ → Bool)
    (s : Sys κ π τ ρ) (l : List (Step κ π)) : Sys κ π τ ρ :=
  l.foldl (step gen dec) s

/-- nothing debounced, nothing queued, nothing in flight -/
def Quiescent {κ π τ ρ : Type} (s : Sys κ π τ ρ) : Prop :=
  s.debKeys = [] ∧ s.debForced = false ∧ (∀ p, s.queue p = none) ∧ (∀ p, s.infl p = none)

/-- Skipping is only decided when generation cannot have changed: if the decision skips type `t`
    for proxy `p` on request `r`, then any world that differs from the request's snapshot only on
    keys the request announces generates the same resources.  (This is what the real code's
    hand-maintained skip tables must satisfy.) -/
def SkipOK {κ π τ ρ : Type} (gen : World κ → π → τ → ρ) (dec : π → τ → Req κ → Bool) : Prop :=
  ∀ p t (r : Req κ), r.forced = false → dec p t r = false →
    ∀ w : World κ, (∀ k, w k ≠ r.push k → k ∈ r.keys) → gen w p t = gen r.push p t

/-- frame hypothesis: keys that are irrelevant (for p, t) in both worlds do not influence
    generation.  Relevance is world-dependent because a proxy's dependency set (its sidecar scope)
    is itself computed from the config. -/
def Frame {κ π τ ρ : Type} (gen : World κ → π → τ → ρ) (Rel : World κ → κ → π → τ → Prop) : Prop :=
  ∀ w w' p t, (∀ k, w k ≠ w' k → ¬ Rel w k p t ∧ ¬ Rel w' k p t) → gen w p t = gen w' p t

/-- the decision only skips when no announced key is relevant, neither in the snapshot being
    pushed nor in ANY world the proxy may still be at (the real code checks the current and the
    previous scope) -/
def SkipSound {κ π τ : Type} (dec : π → τ → Req κ → Bool) (Rel : World κ → κ → π → τ → Prop) : Prop :=
  ∀ p t (r : Req κ), r.forced = false → dec p t r = false → ∀ k ∈ r.keys, ∀ w, ¬ Rel w k p t

/-- A weaker (more realistic) variant that still suffices: irrelevance is only required in the
    worlds the proxy can actually still be at, i.e. those that differ from the request's snapshot
    on announced keys only (the snapshot itself is one of them). -/
def SkipSoundNear {κ π τ : Type} (dec : π → τ → Req κ → Bool) (Rel : World κ → κ → π → τ → Prop) :
    Prop :=
  ∀ p t (r : Req κ), r.forced = false → dec p t r = false →
    ∀ w : World κ, (∀ k', w k' ≠ r.push k' → k' ∈ r.keys) → ∀ k ∈ r.keys, ¬ Rel w k p t

/-- "the debouncer will announce key k" -/
def debCovers {κ π τ ρ : Type} (s : Sys κ π τ ρ) (k : κ) : Prop :=
  s.debForced = true ∨ k ∈ s.debKeys

/-- the steps that complete whatever is pending for the proxies of `ps`: finish the in-flight
    push if any, take the queued request, finish it -/
def drain {κ π : Type} : List π → List (Step κ π)
  | [] => []
  | p :: ps => .pushDone p :: .dequeue p :: .pushDone p :: drain ps

end IstioModel.C01.Protocol
