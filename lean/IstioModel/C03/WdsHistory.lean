import IstioModel.C03.WdsTheorems
import IstioModel.C03.History

/-!
# C03 - a history theorem for the wildcard ztunnel (Address type) client over the tied handlers

The closed system: the ambient index, ONE delta connection served by the exact model of the real
`WorkloadGenerator` through `wdsProcessT` (`processDeltaRequest`) and `wdsPushOneT` (`pushDeltaXds` +
`sendDelta`, incl. the failed send) - the functions the `wds` stream ties to the real code - and a
client that applies `resources` / `removed_resources` and ACKs.  Histories: index changes announced
by a push that names the changed resources (`AddressesUpdated`), the same with a failing send (the
stream breaks), ACKs, reconnects on which the client reports what it holds WITH the versions it was
given (so that unchanged resources are skipped).  There is no SotW protocol for this type: the
statement is "the client holds exactly the index" (`wds_wildcard_history`).
-/
namespace IstioModel.C03
open IstioModel.C04

structure ZSt where
  v : Srv := {}
  idx : Index := []
  held : Held := []
  nonce : String := ""
  up : Bool := false

inductive ZOp
  | change (idx' : Index) (U : List String)       -- the index becomes idx'; a push names U
  | changeLost (idx' : Index) (U : List String)   -- the same; the send fails, the stream breaks
  | ack                                           -- the client ACKs the last response (again)
  | reconnect (legacy keepNonce : Bool)           -- new stream; `legacy`: no resource_names_subscribe at all

/-- An announced change: the push names resource names (not addresses), at least one, and every
    resource that differs is named. -/
def changeOK (old idx' : Index) (U : List String) : Prop :=
  U ≠ [] ∧ (∀ x ∈ idx', ∀ u ∈ U, ¬ (x.aliasIndexed = true ∧ x.alias = u)) ∧
  (∀ n, n ∉ U → get (idxRes old) n = get (idxRes idx') n)

/-- Validity of a history from an index: names are unique and are not `*`; changes are announced. -/
def validFrom : Index → List ZOp → Prop
  | _, [] => True
  | idx, .change idx' U :: rest =>
    (idx'.map (·.name)).Nodup ∧ "*" ∉ idx'.map (·.name) ∧ changeOK idx idx' U ∧ validFrom idx' rest
  | _, .changeLost idx' _ :: rest =>
    (idx'.map (·.name)).Nodup ∧ "*" ∉ idx'.map (·.name) ∧ validFrom idx' rest
  | idx, _ :: rest => validFrom idx rest

def zdeliver (idx : Index) (v : Srv) (held : Held) (n : String) (w : Option Wire) : Srv × Held × String :=
  match w with
  | none => (v, held, n)
  | some x =>
    let held1 := applyDelta held { resources := x.resources, removed := x.removed }
    -- the ACK; whatever it triggers is applied as well
    match wdsProcessT .addr idx v (ackReq .addr x.nonce) [] with
    | some y =>
      (y.1, match y.2 with
        | some z => applyDelta held1 { resources := z.resources, removed := z.removed }
        | none => held1, x.nonce)
    | none => (v, held1, x.nonce)

def zstep (y : ZSt) : ZOp → ZSt
  | .change idx' U =>
    if y.up then
      let p := wdsPushOneT .addr idx' y.v { isReq := false, updated := U }
      let d := zdeliver idx' p.1 y.held y.nonce p.2.1
      { y with idx := idx', v := d.1, held := d.2.1, nonce := d.2.2 }
    else { y with idx := idx' }
  | .changeLost idx' U =>
    let p := wdsPushOneT .addr idx' { y.v with fail := true } { isReq := false, updated := U }
    { y with idx := idx', up := false, v := p.1,
             held := match p.2.1 with
               | some x => applyDelta y.held { resources := x.resources, removed := x.removed }
               | none => y.held }
  | .ack =>
    if y.up then
      match wdsProcessT .addr y.idx y.v (ackReq .addr y.nonce) [] with
      | some p =>
        { y with v := p.1, held := match p.2 with
            | some z => applyDelta y.held { resources := z.resources, removed := z.removed }
            | none => y.held }
      | none => y
    else y
  | .reconnect legacy keep =>
    let v0 : Srv := { ctr := y.v.ctr }
    match wdsProcessT .addr y.idx v0
        { ty := .addr, sub := if legacy then [] else ["*"], unsub := [], init := names y.held,
          nonce := if keep then y.nonce else "", err := none } y.held with
    | some p =>
      let d := zdeliver y.idx p.1 y.held y.nonce p.2
      { y with up := true, v := d.1, held := d.2.1, nonce := d.2.2 }
    | none => { y with up := true, v := v0 }

/-- While the stream is up: the send works, the Address type is watched as a wildcard with no forced
    response pending, the client holds the index. -/
structure GoodZ (v : Srv) (held : Held) (idx : Index) : Prop where
  ok : v.fail = false
  watch : ∃ w, v.st .addr = some w ∧ w.wildcard = true ∧ w.always = false
  sync : InSync held (idxRes idx)

/-- Closed form of one `pushDeltaXds` of the wildcard Address watch (anything but a push without
    updated addresses, which the generator skips). -/
theorem wdsPushOneT_wild (idx : Index) (v : Srv) (w : WR) (r : WReq)
    (hw : v.st .addr = some w) (hwild : w.wildcard = true) (hok : v.fail = false)
    (hne : (!r.isReq && r.updated.isEmpty) = false) :
    wdsPushOneT .addr idx v r =
      ({ v with st := sendDelta v.st .addr (freshNonce v) none true, ctr := v.ctr + 1 },
       some { ty := .addr, resources := (wildcardOut idx r).out.res, removed := (wildcardOut idx r).out.deleted,
              nonce := freshNonce v }, false) := by
  have hg : wdsGenerateT .addr idx w r = wildcardOut idx r := by
    simp [wdsGenerateT, wdsGenerate, wdsGenerateG, hne, hwild]
  unfold wdsPushOneT
  simp only [hw, hg]
  simp [wildcardOut, pushDelta, GenOut.nilOut, neverRemove, removedRaw, newNames, shouldSetWatched, Ty.managed, hok]

theorem wdsPushOneT_fail_none (t : Ty) (idx : Index) (v : Srv) (r : WReq) (hf : v.fail = true) :
    (wdsPushOneT t idx v r).2.1 = none := by
  unfold wdsPushOneT
  cases v.st t with
  | none => rfl
  | some w =>
    simp only []
    split
    · rfl
    · simp [hf]

theorem sendDelta_watch_none (s : State) (t : Ty) (n : String) (w : WR) (hw : s t = some w) :
    (sendDelta s t n none true) t = some { w with nonceSent := n } := by
  simp [sendDelta, hw]

/-- The ACK (and any other request without a subscription change) of a wildcard ztunnel is silent
    and leaves the watch a wildcard. -/
theorem wdsProcessT_ack (idx : Index) (v : Srv) (held : Held) (n : String) (hg : GoodZ v held idx) :
    ∃ v', wdsProcessT .addr idx v (ackReq .addr n) [] = some (v', none) ∧ GoodZ v' held idx := by
  obtain ⟨hok, ⟨w, hw, hwild, halw⟩, hsync⟩ := hg
  have hch : deltaChanged w (ackReq .addr n) = false := by
    simp [deltaChanged, ackReq, Ty.managed, hwild]
  rcases shouldRespondDelta_watched v.st (ackReq .addr n) w rfl hw with hsil | ⟨d, hsr⟩
  · refine ⟨{ v with st := v.st }, by simp [wdsProcessT, hsil], hok, ⟨w, hw, hwild, halw⟩, hsync⟩
  · rw [hch, halw] at hsr
    refine ⟨{ v with st := v.st.set .addr (some (deltaUpdateG d w (ackReq .addr n))) }, ?_, hok, ?_, hsync⟩
    · simp only [wdsProcessT, hsr]
      rfl
    · refine ⟨deltaUpdateG d w (ackReq .addr n), by simp [ackReq], ?_, deltaUpdateG_always d w _⟩
      unfold deltaUpdateG
      split <;> exact hwild

theorem zdeliver_good (idx : Index) (v : Srv) (held : Held) (n : String) (x : Wire)
    (hg : GoodZ v (applyDelta held { resources := x.resources, removed := x.removed }) idx) :
    GoodZ (zdeliver idx v held n (some x)).1 (zdeliver idx v held n (some x)).2.1 idx := by
  obtain ⟨v', hp, hg'⟩ := wdsProcessT_ack idx v _ x.nonce hg
  simp only [zdeliver, hp]
  exact hg'

/-- The invariant. -/
def ZInv (y : ZSt) : Prop :=
  (y.idx.map (·.name)).Nodup ∧ "*" ∉ y.idx.map (·.name) ∧ "*" ∉ names y.held ∧
  (y.up = true → GoodZ y.v y.held y.idx)

theorem star_not_held_idx (held : Held) (idx : Index) (hstar : "*" ∉ idx.map (·.name)) (hsync : InSync held (idxRes idx)) :
    "*" ∉ names held := by
  intro h
  apply hstar
  rw [← names_idxRes]
  exact names_subset_of_sync held _ hsync _ h

theorem zstep_inv (y : ZSt) (op : ZOp) (rest : List ZOp) (hv : validFrom y.idx (op :: rest)) (h : ZInv y) :
    ZInv (zstep y op) ∧ validFrom (zstep y op).idx rest := by
  obtain ⟨hnd, hsi, hsh, hup⟩ := h
  cases op with
  | change idx' U =>
    obtain ⟨hnd', hsi', ⟨hU, hal, hsame⟩, hrest⟩ := hv
    cases hu : y.up with
    | false =>
      simp only [zstep, hu, Bool.false_eq_true, if_false]
      exact ⟨⟨hnd', hsi', hsh, by intro h; simp at h⟩, hrest⟩
    | true =>
      obtain ⟨hok, ⟨w, hw, hwild, halw⟩, hsync⟩ := hup hu
      have hUe : U.isEmpty = false := by
        cases U with
        | nil => exact absurd rfl hU
        | cons a as => rfl
      have hpush := wdsPushOneT_wild idx' y.v w { isReq := false, updated := U } hw hwild hok (by simp [hUe])
      obtain ⟨_, resp, nn, hpd, hs'⟩ := wds_wildcard_push_sync y.idx idx' hnd' w hwild U hU hal hsame y.held hsync
      have hgen : wdsGenerate idx' w { isReq := false, updated := U } = wildcardOut idx' { isReq := false, updated := U } := by
        simp [wdsGenerate, wdsGenerateG, hUe, hwild]
      have hresp : resp = { resources := (wildcardOut idx' { isReq := false, updated := U }).out.res,
                            removed := (wildcardOut idx' { isReq := false, updated := U }).out.deleted } := by
        rw [hgen] at hpd
        simp [wildcardOut, pushDelta, GenOut.nilOut, neverRemove, removedRaw] at hpd
        rw [← hpd.1]
        simp [wildcardOut]
      have hg1 : GoodZ { y.v with st := sendDelta y.v.st .addr (freshNonce y.v) none true, ctr := y.v.ctr + 1 }
          (applyDelta y.held { resources := (wildcardOut idx' { isReq := false, updated := U }).out.res,
                               removed := (wildcardOut idx' { isReq := false, updated := U }).out.deleted }) idx' := by
        refine ⟨hok, ⟨_, sendDelta_watch_none y.v.st .addr _ w hw, hwild, halw⟩, ?_⟩
        rw [← hresp]; exact hs'
      have hg2 := zdeliver_good idx' _ y.held y.nonce
        { ty := .addr, resources := (wildcardOut idx' { isReq := false, updated := U }).out.res,
          removed := (wildcardOut idx' { isReq := false, updated := U }).out.deleted, nonce := freshNonce y.v } hg1
      simp only [zstep, hu, if_true, hpush]
      exact ⟨⟨hnd', hsi', star_not_held_idx _ idx' hsi' hg2.sync, fun _ => hg2⟩, hrest⟩
  | changeLost idx' U =>
    obtain ⟨hnd', hsi', hrest⟩ := hv
    have hn := wdsPushOneT_fail_none .addr idx' { y.v with fail := true } { isReq := false, updated := U } rfl
    simp only [zstep, hn]
    exact ⟨⟨hnd', hsi', hsh, by intro h; cases h⟩, hrest⟩
  | ack =>
    have hrest : validFrom y.idx rest := hv
    cases hu : y.up with
    | false =>
      simp only [zstep, hu, Bool.false_eq_true, if_false]
      exact ⟨⟨hnd, hsi, hsh, by intro h; simp [hu] at h⟩, hrest⟩
    | true =>
      obtain ⟨v', hp, hg'⟩ := wdsProcessT_ack y.idx y.v y.held y.nonce (hup hu)
      simp only [zstep, hu, if_true, hp]
      exact ⟨⟨hnd, hsi, hsh, fun _ => hg'⟩, hrest⟩
  | reconnect legacy keep =>
    have hrest : validFrom y.idx rest := hv
    let r : DReq := { ty := .addr, sub := if legacy then [] else ["*"], unsub := [], init := names y.held,
                      nonce := if keep then y.nonce else "", err := none }
    let v0 : Srv := { ctr := y.v.ctr }
    have hwildReq : (deltaWatched [] r).2.1 = true := by
      cases legacy
      · -- explicit "*": it is inserted, never erased
        have : "*" ∈ (eraseAll (insertAll (insertAll [] false r.sub).1 (insertAll [] false r.sub).2 r.init).1
            (insertAll (insertAll [] false r.sub).1 (insertAll [] false r.sub).2 r.init).2 r.unsub).1 := by
          rw [mem_eraseAll, mem_insertAll, mem_insertAll]
          simp [r]
        simp only [deltaWatched]
        simp only [Bool.or_eq_true, List.contains_iff_mem]
        exact Or.inl this
      · simp [deltaWatched, r]
    let w0 : WR := { names := [], wildcard := true }
    have hsr : shouldRespondDelta v0.st r = .out true (v0.st.set .addr (some w0)) := by
      have : v0.st r.ty = none := rfl
      rw [delta_unwatched_is_first_request v0.st r this]
      simp only [r] at hwildReq
      simp [r, hwildReq, Ty.managed, w0]
    have hw0 : ({ v0 with st := v0.st.set .addr (some w0) } : Srv).st .addr = some w0 := by simp
    have hpush := wdsPushOneT_wild y.idx { v0 with st := v0.st.set .addr (some w0) } w0
      { isReq := true, sub := (deltaWatched [] r).1, retained := y.held } hw0 rfl rfl (by simp)
    have hreport : ∀ n ∈ names y.held, n ∈ (deltaWatched [] r).1 := by
      intro n hn
      rw [mem_deltaWatched]
      refine ⟨Or.inr (Or.inr hn), by simp [r], ?_⟩
      intro e; subst e; exact hsh hn
    obtain ⟨_, resp, nn, hpd, hs'⟩ := wds_wildcard_request_sync y.idx hnd w0 rfl (deltaWatched [] r).1 y.held hreport
    have hgen : wdsGenerate y.idx w0 { isReq := true, sub := (deltaWatched [] r).1, retained := y.held }
        = wildcardOut y.idx { isReq := true, sub := (deltaWatched [] r).1, retained := y.held } := by
      simp [wdsGenerate, wdsGenerateG, w0]
    have hresp : resp = { resources := (wildcardOut y.idx { isReq := true, sub := (deltaWatched [] r).1, retained := y.held }).out.res,
                          removed := (wildcardOut y.idx { isReq := true, sub := (deltaWatched [] r).1, retained := y.held }).out.deleted } := by
      rw [hgen] at hpd
      simp [wildcardOut, pushDelta, GenOut.nilOut, neverRemove, removedRaw] at hpd
      rw [← hpd.1]
      simp [wildcardOut]
    have hg1 : GoodZ { ({ v0 with st := v0.st.set .addr (some w0) } : Srv) with
          st := sendDelta (v0.st.set .addr (some w0)) .addr (freshNonce { v0 with st := v0.st.set .addr (some w0) }) none true,
          ctr := v0.ctr + 1 }
        (applyDelta y.held { resources := (wildcardOut y.idx { isReq := true, sub := (deltaWatched [] r).1, retained := y.held }).out.res,
                             removed := (wildcardOut y.idx { isReq := true, sub := (deltaWatched [] r).1, retained := y.held }).out.deleted }) y.idx := by
      refine ⟨rfl, ⟨_, sendDelta_watch_none _ .addr _ w0 (by simp), rfl, rfl⟩, ?_⟩
      rw [← hresp]; exact hs'
    have hg2 := zdeliver_good y.idx _ y.held y.nonce
      { ty := .addr, resources := (wildcardOut y.idx { isReq := true, sub := (deltaWatched [] r).1, retained := y.held }).out.res,
        removed := (wildcardOut y.idx { isReq := true, sub := (deltaWatched [] r).1, retained := y.held }).out.deleted,
        nonce := freshNonce { v0 with st := v0.st.set .addr (some w0) } } hg1
    have hproc : wdsProcessT .addr y.idx v0 r y.held = some
        ({ ({ v0 with st := v0.st.set .addr (some w0) } : Srv) with
            st := sendDelta (v0.st.set .addr (some w0)) .addr (freshNonce { v0 with st := v0.st.set .addr (some w0) }) none true,
            ctr := v0.ctr + 1 },
         some { ty := .addr, resources := (wildcardOut y.idx { isReq := true, sub := (deltaWatched [] r).1, retained := y.held }).out.res,
                removed := (wildcardOut y.idx { isReq := true, sub := (deltaWatched [] r).1, retained := y.held }).out.deleted,
                nonce := freshNonce { v0 with st := v0.st.set .addr (some w0) } }) := by
      simp only [wdsProcessT, hsr, hpush]
    simp only [zstep]
    rw [show wdsProcessT .addr y.idx { ctr := y.v.ctr }
        { ty := .addr, sub := if legacy then [] else ["*"], unsub := [], init := names y.held,
          nonce := if keep then y.nonce else "", err := none } y.held = _ from hproc]
    simp only []
    exact ⟨⟨hnd, hsi, star_not_held_idx _ y.idx hsi hg2.sync, fun _ => hg2⟩, hrest⟩

/-- **The wildcard ztunnel client holds exactly the index after every prefix of every history** in
    which changes are announced by the push that follows them - from ANY retained state, through
    failed sends and reconnects that present the retained versions (unchanged resources are skipped
    and kept, changed ones re-sent, vanished ones removed). -/
theorem wds_wildcard_history (y0 : ZSt) (hdown : y0.up = false)
    (hnd : (y0.idx.map (·.name)).Nodup) (hsi : "*" ∉ y0.idx.map (·.name)) (hsh : "*" ∉ names y0.held)
    (ops : List ZOp) (hv : validFrom y0.idx ops) :
    let y := ops.foldl zstep y0
    y.up = true → ∀ n, get y.held n = get (idxRes y.idx) n := by
  intro y hup
  have key : ∀ (l : List ZOp) (x : ZSt), validFrom x.idx l → ZInv x → ZInv (l.foldl zstep x) := by
    intro l
    induction l with
    | nil => intro x _ hx; exact hx
    | cons op l ih =>
      intro x hl hx
      obtain ⟨h1, h2⟩ := zstep_inv x op l hl hx
      exact ih _ h2 h1
  have hinv := key ops y0 hv ⟨hnd, hsi, hsh, by intro h; simp [hdown] at h⟩
  exact (hinv.2.2.2 hup).sync

/-- Non-vacuity: a concrete history (retained stale state, reconnect with version skip, a change, a
    lost push, reconnect, a change). -/
example :
    let i1 : Index := [{ name := "a", alias := "n/1", onNode := false, ver := 1 }, { name := "b", alias := "n/2", onNode := false, ver := 1 }]
    let i2 : Index := [{ name := "a", alias := "n/1", onNode := false, ver := 2 }]
    let i3 : Index := [{ name := "a", alias := "n/1", onNode := false, ver := 2 }, { name := "c", alias := "n/3", onNode := false, ver := 1 }]
    let y0 : ZSt := { idx := i1, held := [("a", 1), ("gone", 1)] }
    let y := [ZOp.reconnect false false, .change i2 ["a", "b"], .changeLost i3 ["c"], .reconnect true true, .ack].foldl zstep y0
    y.up = true ∧ get y.held "a" = some 2 ∧ get y.held "b" = none ∧ get y.held "c" = some 1 ∧ get y.held "gone" = none := by
  decide

end IstioModel.C03
