import IstioModel.C03.Wds
import IstioModel.C03.Theorems

/-!
# C03 / C05 - theorems about the workload (WDS) generator model (`Wds.lean`)

The generator is delta-aware and manages the name record itself.  The statements are about
`wdsGenerate` / `pushDelta` - the definitions the `wds` stream ties to the real
`WorkloadGenerator.GenerateDeltas` / `generateDeltasOndemand` / `appendAddress` - for every index,
subscription and retained client state.
-/
namespace IstioModel.C03
open IstioModel.C04

def idxRes (idx : Index) : List Res := idx.map (fun w => (w.name, w.ver))

theorem names_idxRes (idx : Index) : names (idxRes idx) = idx.map (·.name) := by
  simp [names, idxRes, List.map_map, Function.comp_def]

theorem get_idxRes_of_mem (idx : Index) (hnd : (idx.map (·.name)).Nodup) (w : Wl) (hw : w ∈ idx) :
    get (idxRes idx) w.name = some w.ver := by
  induction idx with
  | nil => cases hw
  | cons x xs ih =>
    simp only [idxRes, List.map_cons, get_cons]
    simp only [List.map_cons, List.nodup_cons] at hnd
    rcases List.mem_cons.mp hw with h | h
    · subst h; simp
    · have hne : x.name ≠ w.name := by
        intro e
        apply hnd.1
        rw [e]
        exact List.mem_map.mpr ⟨w, h, rfl⟩
      simp only [hne, if_false]
      exact ih hnd.2 h

theorem get_idxRes_some (idx : Index) (n : String) (v : Nat) (h : get (idxRes idx) n = some v) :
    ∃ w ∈ idx, w.name = n ∧ w.ver = v := by
  induction idx with
  | nil => simp [idxRes, get_nil] at h
  | cons x xs ih =>
    simp only [idxRes, List.map_cons, get_cons] at h
    by_cases hx : x.name = n
    · simp only [hx, if_true, Option.some.injEq] at h
      exact ⟨x, by simp, hx, h⟩
    · simp only [hx, if_false] at h
      obtain ⟨w, hw, h1, h2⟩ := ih h
      exact ⟨w, List.mem_cons_of_mem _ hw, h1, h2⟩

theorem toSend_names_subset (retained : List (String × Nat)) (ws : List Wl) (n : String)
    (h : n ∈ names (toSend retained ws)) : n ∈ ws.map (·.name) := by
  simp only [toSend, names, List.map_map, List.mem_map, Function.comp] at h ⊢
  obtain ⟨y, hy, hyn⟩ := h
  exact ⟨y, (List.mem_filter.mp hy).1, hyn⟩

/-- What `toSend` contains: the current version of exactly the workloads whose retained version
    differs (version skip). -/
theorem get_toSend (retained : List (String × Nat)) (ws : List Wl) (hnd : (ws.map (·.name)).Nodup)
    (w : Wl) (hw : w ∈ ws) :
    get (toSend retained ws) w.name = if get retained w.name = some w.ver then none else some w.ver := by
  induction ws with
  | nil => cases hw
  | cons x xs ih =>
    simp only [List.map_cons, List.nodup_cons] at hnd
    rcases List.mem_cons.mp hw with h | h
    · subst h
      simp only [toSend, List.filter_cons]
      by_cases hk : get retained w.name = some w.ver
      · have hkf : (get retained w.name != some w.ver) = false := by simp [hk]
        rw [hkf]
        simp only [Bool.false_eq_true, if_false, hk, if_true]
        apply get_none_of_not_mem
        intro hm
        apply hnd.1
        exact toSend_names_subset retained xs w.name hm
      · have hkt : (get retained w.name != some w.ver) = true := by simpa using hk
        rw [hkt]
        simp [get_cons, hk]
    · have hne : x.name ≠ w.name := by
        intro e
        apply hnd.1
        rw [e]
        exact List.mem_map.mpr ⟨w, h, rfl⟩
      have := ih hnd.2 h
      simp only [toSend, List.filter_cons] at this ⊢
      split
      · simp only [List.map_cons, get_cons, hne, if_false]; exact this
      · exact this

/-- **(Re)connect of a wildcard WDS client with version skip.**  For the real generator model:
    the answer to the first request of a wildcard client that reports everything it retained brings
    it exactly to the index: unchanged addresses are skipped (and kept), changed ones re-sent,
    vanished ones removed. -/
theorem wds_wildcard_request_sync (idx : Index) (hnd : (idx.map (·.name)).Nodup) (w : WR) (hw : w.wildcard = true)
    (sub : List String) (retained : Held) (hreport : ∀ n ∈ names retained, n ∈ sub) :
    let g := wdsGenerate idx w { isReq := true, sub := sub, retained := retained }
    g.newNames = none ∧
    ∃ resp nn, pushDelta .addr w.names g.out = some (resp, nn) ∧
      InSync (applyDelta retained resp) (idxRes idx) := by
  intro g
  have hg : g = { out := { res := toSend retained idx, delNil := false,
                           deleted := union (diff sub (idx.map (·.name))) [], usedDelta := true } } := by
    simp [g, wdsGenerate, wdsGenerateG, hw, wildcardOut]
  refine ⟨by rw [hg], ?_⟩
  rw [hg]
  refine ⟨{ resources := toSend retained idx, removed := union (diff sub (idx.map (·.name))) [] }, none, ?_, ?_⟩
  · simp [pushDelta, GenOut.nilOut, neverRemove, removedRaw, newNames, shouldSetWatched, Ty.managed]
  · intro n
    rw [get_applyDelta]
    simp only []
    cases hidx : get (idxRes idx) n with
    | none =>
      have hnot : n ∉ idx.map (·.name) := by
        intro hm
        rw [← names_idxRes] at hm
        have := (get_isSome_iff_mem_names _ n).mpr hm
        simp [hidx] at this
      have hres : get (toSend retained idx) n = none :=
        get_none_of_not_mem _ _ (fun hm => hnot (toSend_names_subset retained idx n hm))
      rw [hres]
      simp only []
      by_cases hh : n ∈ names retained
      · have : n ∈ union (diff sub (idx.map (·.name))) [] := by
          simp [union, mem_diff, hreport n hh, hnot]
        simp [this]
      · simp [get_none_of_not_mem retained n hh]
    | some v =>
      obtain ⟨x, hx, hxn, hxv⟩ := get_idxRes_some idx n v hidx
      subst hxn; subst hxv
      rw [get_toSend retained idx hnd x hx]
      have hnm : x.name ∉ union (diff sub (idx.map (·.name))) [] := by
        simp only [union, List.filter_nil, List.append_nil, mem_diff, not_and]
        intro _ hnot
        exact hnot (List.mem_map.mpr ⟨x, hx, rfl⟩)
      by_cases hsame : get retained x.name = some x.ver
      · simp [hsame, hnm]
      · simp [hsame]

theorem ondemandOut_empty (fixed : Bool) (idx : Index) (w : WR) (r : WReq)
    (h : (ondemandAddresses idx w r).isEmpty = true) :
    ondemandOut fixed idx w r =
      if r.isReq then { out := { res := [], delNil := true, usedDelta := fixed } }
      else { out := { resNil := true, delNil := true } } := by
  simp [ondemandOut, h]

theorem ondemandOut_nonempty (fixed : Bool) (idx : Index) (w : WR) (r : WReq)
    (h : (ondemandAddresses idx w r).isEmpty = false) :
    ondemandOut fixed idx w r =
      { out := { res := toSend r.retained (foundOf idx (ondemandAddresses idx w r)), delNil := false,
                 deleted := (missingOf idx (ondemandAddresses idx w r)).filter
                   (fun a => !((foundOf idx (ondemandAddresses idx w r)).map (·.alias)).contains a),
                 usedDelta := true },
        newNames := some (union w.names ((foundOf idx (ondemandAddresses idx w r)).map (·.name))) } := by
  simp [ondemandOut, h]

/-- **On-demand: only what was not found is reported removed** ("nothing it still needs is
    removed").  Whatever the request, every name in the removed list of the repaired generator
    has no entry in the index - neither under that resource name nor under that address. -/
theorem wds_ondemand_removed_sound (idx : Index) (w : WR) (hw : w.wildcard = false) (r : WReq) (x : String)
    (hx : x ∈ (wdsGenerate idx w r).out.deleted) : idx.lookup x = [] := by
  unfold wdsGenerate wdsGenerateG at hx
  simp only [hw, Bool.false_eq_true, if_false] at hx
  split at hx
  · simp at hx
  · cases he : (ondemandAddresses idx w r).isEmpty
    · rw [ondemandOut_nonempty true idx w r he] at hx
      simp only [List.mem_filter, missingOf] at hx
      simpa using hx.1.2
    · rw [ondemandOut_empty true idx w r he] at hx
      split at hx <;> simp at hx

/-- ... and the whole response of an on-demand request with nothing to send removes nothing. -/
theorem wds_ondemand_empty_request_removes_nothing (idx : Index) (w : WR) (hw : w.wildcard = false)
    (hlocal : additionalSubs idx w.names = []) :
    pushDelta .addr w.names (wdsGenerate idx w { isReq := true, sub := [] }).out
      = some ({ resources := [], removed := [] }, none) := by
  have he : (ondemandAddresses idx w { isReq := true, sub := [] }).isEmpty = true := by
    simp [ondemandAddresses, hlocal, union]
  have : wdsGenerate idx w { isReq := true, sub := [] } = ondemandOut true idx w { isReq := true, sub := [] } := by
    simp [wdsGenerate, wdsGenerateG, hw]
  rw [this, ondemandOut_empty true idx w _ he]
  simp [pushDelta, GenOut.nilOut, neverRemove, removedRaw, newNames, shouldSetWatched, Ty.managed]

/-- Finding F-C03-1 on the pinned tree: the same empty answer reported `usedDelta = false`, so
    `pushDeltaXds` listed EVERY other subscribed name as removed (e.g. after an unsubscribe-only
    request): the client dropped resources it still subscribes to and that still exist. -/
theorem wds_ondemand_unsub_witness_unfixed :
    let idx : Index := [{ name := "a", alias := "net/1", onNode := false, ver := 1 },
                        { name := "b", alias := "net/2", onNode := false, ver := 1 }]
    let w : WR := { names := ["b"] }      -- subscribed to a and b, then unsubscribed a
    pushDelta .addr w.names (wdsGenerateG false idx w { isReq := true, sub := [] }).out
      = some ({ resources := [], removed := ["b"] }, none) := by
  decide

/-- **On-demand: the record never forgets a subscribed name.**  The generator rewrites the record to
    `subs ∪ have`: every name the client subscribed to stays on record, whether or not it currently
    exists (so a later re-creation under the same name is pushed). -/
theorem wds_ondemand_record_monotone (idx : Index) (w : WR) (r : WReq) (nn : List String)
    (h : (wdsGenerate idx w r).newNames = some nn) (n : String) (hn : n ∈ w.names) : n ∈ nn := by
  unfold wdsGenerate wdsGenerateG at h
  split at h
  · simp at h
  · split at h
    · simp [wildcardOut] at h
    · cases he : (ondemandAddresses idx w r).isEmpty
      · rw [ondemandOut_nonempty true idx w r he] at h
        simp only [Option.some.injEq] at h
        rw [← h]
        simp [union, hn]
      · rw [ondemandOut_empty true idx w r he] at h
        split at h <;> simp at h

/-- **On-demand request answers what was asked.**  Each resource name the client subscribes to in
    a request is, after the response, held at its current version if it exists; and it is listed as
    removed if it does not (neither as a name nor as an address). -/
theorem wds_ondemand_request_answers (idx : Index) (hnd : (idx.map (·.name)).Nodup) (w : WR) (hw : w.wildcard = false)
    (sub : List String) (held : Held) (x : Wl) (hx : x ∈ idx) (hsub : x.name ∈ sub) :
    let g := wdsGenerate idx w { isReq := true, sub := sub }
    ∃ resp nn, pushDelta .addr (g.newNames.getD w.names) g.out = some (resp, nn) ∧
      get (applyDelta held resp) x.name = some x.ver := by
  intro g
  let addresses := ondemandAddresses idx w { isReq := true, sub := sub }
  have hmemA : x.name ∈ addresses := by simp [addresses, ondemandAddresses, union, hsub]
  have hne : addresses.isEmpty = false := by
    cases h : addresses with
    | nil => rw [h] at hmemA; cases hmemA
    | cons a as => rfl
  let found := foundOf idx addresses
  have hgout : g.out.res = toSend [] found ∧ g.out.usedDelta = true ∧ g.out.nilOut = false := by
    have hgeq : g = ondemandOut true idx w { isReq := true, sub := sub } := by
      simp [g, wdsGenerate, wdsGenerateG, hw]
    rw [hgeq, ondemandOut_nonempty true idx w _ hne]
    exact ⟨rfl, rfl, rfl⟩
  obtain ⟨hres, hused, hnil⟩ := hgout
  have hxf : x ∈ found := by
    apply List.mem_filter.mpr
    refine ⟨hx, ?_⟩
    simp [hmemA]
  have hndf : (found.map (·.name)).Nodup :=
    List.Nodup.sublist ((List.filter_sublist (l := idx)).map _) hnd
  refine ⟨{ resources := g.out.res, removed := g.out.deleted }, newNames .addr (g.newNames.getD w.names) g.out, ?_, ?_⟩
  · simp [pushDelta, hnil, neverRemove, removedRaw, hused]
  · rw [get_applyDelta]
    simp only [hres]
    rw [get_toSend [] found hndf x hxf]
    simp [get_nil]

end IstioModel.C03
