import IstioModel.C03.Wds
import IstioModel.C03.Theorems

/-!
# C03 / C05 - theorems about the workload (WDS) generator model (`Wds.lean`)

The generator is delta-aware and manages the name record itself.  The statements are about
`wdsGenerate` / `pushDelta` - the definitions the `wds` stream ties to the real
`WorkloadGenerator.GenerateDeltas` / `generateDeltasOndemand` / `appendAddress` - for every index,
subscription and retained client state.
-/
namespace IstioModel.C03
open IstioModel.C04

def idxRes (idx : Index) : List Res := idx.map (fun w => (w.name, w.ver))

theorem names_idxRes (idx : Index) : names (idxRes idx) = idx.map (·.name) := by
  simp [names, idxRes, List.map_map, Function.comp_def]

theorem get_idxRes_of_mem (idx : Index) (hnd : (idx.map (·.name)).Nodup) (w : Wl) (hw : w ∈ idx) :
    get (idxRes idx) w.name = some w.ver := by
  induction idx with
  | nil => cases hw
  | cons x xs ih =>
    simp only [idxRes, List.map_cons, get_cons]
    simp only [List.map_cons, List.nodup_cons] at hnd
    rcases List.mem_cons.mp hw with h | h
    · subst h; simp
    · have hne : x.name ≠ w.name := by
        intro e
        apply hnd.1
        rw [e]
        exact List.mem_map.mpr ⟨w, h, rfl⟩
      simp only [hne, if_false]
      exact ih hnd.2 h

theorem get_idxRes_some (idx : Index) (n : String) (v : Nat) (h : get (idxRes idx) n = some v) :
    ∃ w ∈ idx, w.name = n ∧ w.ver = v := by
  induction idx with
  | nil => simp [idxRes, get_nil] at h
  | cons x xs ih =>
    simp only [idxRes, List.map_cons, get_cons] at h
    by_cases hx : x.name = n
    · simp only [hx, if_true, Option.some.injEq] at h
      exact ⟨x, by simp, hx, h⟩
    · simp only [hx, if_false] at h
      obtain ⟨w, hw, h1, h2⟩ := ih h
      exact ⟨w, List.mem_cons_of_mem _ hw, h1, h2⟩

theorem toSend_names_subset (retained : List (String × Nat)) (ws : List Wl) (n : String)
    (h : n ∈ names (toSend retained ws)) : n ∈ ws.map (·.name) := by
  simp only [toSend, names, List.map_map, List.mem_map, Function.comp] at h ⊢
  obtain ⟨y, hy, hyn⟩ := h
  exact ⟨y, (List.mem_filter.mp hy).1, hyn⟩

/-- What `toSend` contains: the current version of exactly the workloads whose retained version
    differs (version skip). -/
theorem get_toSend (retained : List (String × Nat)) (ws : List Wl) (hnd : (ws.map (·.name)).Nodup)
    (w : Wl) (hw : w ∈ ws) :
    get (toSend retained ws) w.name = if get retained w.name = some w.ver then none else some w.ver := by
  induction ws with
  | nil => cases hw
  | cons x xs ih =>
    simp only [List.map_cons, List.nodup_cons] at hnd
    rcases List.mem_cons.mp hw with h | h
    · subst h
      simp only [toSend, List.filter_cons]
      by_cases hk : get retained w.name = some w.ver
      · have hkf : (get retained w.name != some w.ver) = false := by simp [hk]
        rw [hkf]
        simp only [Bool.false_eq_true, if_false, hk, if_true]
        apply get_none_of_not_mem
        intro hm
        apply hnd.1
        exact toSend_names_subset retained xs w.name hm
      · have hkt : (get retained w.name != some w.ver) = true := by simpa using hk
        rw [hkt]
        simp [get_cons, hk]
    · have hne : x.name ≠ w.name := by
        intro e
        apply hnd.1
        rw [e]
        exact List.mem_map.mpr ⟨w, h, rfl⟩
      have := ih hnd.2 h
      simp only [toSend, List.filter_cons] at this ⊢
      split
      · simp only [List.map_cons, get_cons, hne, if_false]; exact this
      · exact this

/-- **(Re)connect of a wildcard WDS client with version skip.**  For the real generator model:
    the answer to the first request of a wildcard client that reports everything it retained brings
    it exactly to the index: unchanged addresses are skipped (and kept), changed ones re-sent,
    vanished ones removed. -/
theorem wds_wildcard_request_sync (idx : Index) (hnd : (idx.map (·.name)).Nodup) (w : WR) (hw : w.wildcard = true)
    (sub : List String) (retained : Held) (hreport : ∀ n ∈ names retained, n ∈ sub) :
    let g := wdsGenerate idx w { isReq := true, sub := sub, retained := retained }
    g.newNames = none ∧
    ∃ resp nn, pushDelta .addr w.names g.out = some (resp, nn) ∧
      InSync (applyDelta retained resp) (idxRes idx) := by
  intro g
  have hg : g = { out := { res := toSend retained idx, delNil := false,
                           deleted := union (diff sub (idx.map (·.name))) [], usedDelta := true } } := by
    simp [g, wdsGenerate, wdsGenerateG, hw, wildcardOut]
  refine ⟨by rw [hg], ?_⟩
  rw [hg]
  refine ⟨{ resources := toSend retained idx, removed := union (diff sub (idx.map (·.name))) [] }, none, ?_, ?_⟩
  · simp [pushDelta, GenOut.nilOut, neverRemove, removedRaw, newNames, shouldSetWatched, Ty.managed]
  · intro n
    rw [get_applyDelta]
    simp only []
    cases hidx : get (idxRes idx) n with
    | none =>
      have hnot : n ∉ idx.map (·.name) := by
        intro hm
        rw [← names_idxRes] at hm
        have := (get_isSome_iff_mem_names _ n).mpr hm
        simp [hidx] at this
      have hres : get (toSend retained idx) n = none :=
        get_none_of_not_mem _ _ (fun hm => hnot (toSend_names_subset retained idx n hm))
      rw [hres]
      simp only []
      by_cases hh : n ∈ names retained
      · have : n ∈ union (diff sub (idx.map (·.name))) [] := by
          simp [union, mem_diff, hreport n hh, hnot]
        simp [this]
      · simp [get_none_of_not_mem retained n hh]
    | some v =>
      obtain ⟨x, hx, hxn, hxv⟩ := get_idxRes_some idx n v hidx
      subst hxn; subst hxv
      rw [get_toSend retained idx hnd x hx]
      have hnm : x.name ∉ union (diff sub (idx.map (·.name))) [] := by
        simp only [union, List.filter_nil, List.append_nil, mem_diff, not_and]
        intro _ hnot
        exact hnot (List.mem_map.mpr ⟨x, hx, rfl⟩)
      by_cases hsame : get retained x.name = some x.ver
      · simp [hsame, hnm]
      · simp [hsame]

theorem ondemandOut_empty (fixed : Bool) (idx : Index) (w : WR) (r : WReq)
    (h : (ondemandAddresses idx w r).isEmpty = true) :
    ondemandOut fixed idx w r =
      if r.isReq then { out := { res := [], delNil := true, usedDelta := fixed } }
      else { out := { resNil := true, delNil := true } } := by
  simp [ondemandOut, h]

theorem ondemandOut_nonempty (fixed : Bool) (idx : Index) (w : WR) (r : WReq)
    (h : (ondemandAddresses idx w r).isEmpty = false) :
    ondemandOut fixed idx w r =
      { out := { res := toSend r.retained (foundOf idx (ondemandAddresses idx w r)), delNil := false,
                 deleted := (missingOf idx (ondemandAddresses idx w r)).filter
                   (fun a => !((foundOf idx (ondemandAddresses idx w r)).map (·.alias)).contains a),
                 usedDelta := true },
        newNames := some (union w.names ((foundOf idx (ondemandAddresses idx w r)).map (·.name))) } := by
  simp [ondemandOut, h]

/-- **On-demand: only what was not found is reported removed** ("nothing it still needs is
    removed").  Whatever the request, every name in the removed list of the repaired generator
    has no entry in the index - neither under that resource name nor under that address. -/
theorem wds_ondemand_removed_sound (idx : Index) (w : WR) (hw : w.wildcard = false) (r : WReq) (x : String)
    (hx : x ∈ (wdsGenerate idx w r).out.deleted) : idx.lookup x = [] := by
  unfold wdsGenerate wdsGenerateG at hx
  simp only [hw, Bool.false_eq_true, if_false] at hx
  split at hx
  · simp at hx
  · cases he : (ondemandAddresses idx w r).isEmpty
    · rw [ondemandOut_nonempty true idx w r he] at hx
      simp only [List.mem_filter, missingOf] at hx
      simpa using hx.1.2
    · rw [ondemandOut_empty true idx w r he] at hx
      split at hx <;> simp at hx

/-- ... and the whole response of an on-demand request with nothing to send removes nothing. -/
theorem wds_ondemand_empty_request_removes_nothing (idx : Index) (w : WR) (hw : w.wildcard = false)
    (hlocal : additionalSubs idx w.names = []) :
    pushDelta .addr w.names (wdsGenerate idx w { isReq := true, sub := [] }).out
      = some ({ resources := [], removed := [] }, none) := by
  have he : (ondemandAddresses idx w { isReq := true, sub := [] }).isEmpty = true := by
    simp [ondemandAddresses, hlocal, union]
  have : wdsGenerate idx w { isReq := true, sub := [] } = ondemandOut true idx w { isReq := true, sub := [] } := by
    simp [wdsGenerate, wdsGenerateG, hw]
  rw [this, ondemandOut_empty true idx w _ he]
  simp [pushDelta, GenOut.nilOut, neverRemove, removedRaw, newNames, shouldSetWatched, Ty.managed]

/-- Finding F-C03-1 on the pinned tree: the same empty answer reported `usedDelta = false`, so
    `pushDeltaXds` listed EVERY other subscribed name as removed (e.g. after an unsubscribe-only
    request): the client dropped resources it still subscribes to and that still exist. -/
theorem wds_ondemand_unsub_witness_unfixed :
    let idx : Index := [{ name := "a", alias := "net/1", onNode := false, ver := 1 },
                        { name := "b", alias := "net/2", onNode := false, ver := 1 }]
    let w : WR := { names := ["b"] }      -- subscribed to a and b, then unsubscribed a
    pushDelta .addr w.names (wdsGenerateG false idx w { isReq := true, sub := [] }).out
      = some ({ resources := [], removed := ["b"] }, none) := by
  decide

/-- **On-demand: the record never forgets a subscribed name.**  The generator rewrites the record to
    `subs ∪ have`: every name the client subscribed to stays on record, whether or not it currently
    exists (so a later re-creation under the same name is pushed). -/
theorem wds_ondemand_record_monotone (idx : Index) (w : WR) (r : WReq) (nn : List String)
    (h : (wdsGenerate idx w r).newNames = some nn) (n : String) (hn : n ∈ w.names) : n ∈ nn := by
  unfold wdsGenerate wdsGenerateG at h
  split at h
  · simp at h
  · split at h
    · simp [wildcardOut] at h
    · cases he : (ondemandAddresses idx w r).isEmpty
      · rw [ondemandOut_nonempty true idx w r he] at h
        simp only [Option.some.injEq] at h
        rw [← h]
        simp [union, hn]
      · rw [ondemandOut_empty true idx w r he] at h
        split at h <;> simp at h

/-- **On-demand request answers what was asked.**  Each resource name the client subscribes to in
    a request is, after the response, held at its current version if it exists.  (If it does not -
    neither as a name nor as an address - it is listed as removed: `wds_ondemand_request_not_found`.) -/
theorem wds_ondemand_request_answers (idx : Index) (hnd : (idx.map (·.name)).Nodup) (w : WR) (hw : w.wildcard = false)
    (sub : List String) (held : Held) (x : Wl) (hx : x ∈ idx) (hsub : x.name ∈ sub) :
    let g := wdsGenerate idx w { isReq := true, sub := sub }
    ∃ resp nn, pushDelta .addr (g.newNames.getD w.names) g.out = some (resp, nn) ∧
      get (applyDelta held resp) x.name = some x.ver := by
  intro g
  let addresses := ondemandAddresses idx w { isReq := true, sub := sub }
  have hmemA : x.name ∈ addresses := by simp [addresses, ondemandAddresses, union, hsub]
  have hne : addresses.isEmpty = false := by
    cases h : addresses with
    | nil => rw [h] at hmemA; cases hmemA
    | cons a as => rfl
  let found := foundOf idx addresses
  have hgout : g.out.res = toSend [] found ∧ g.out.usedDelta = true ∧ g.out.nilOut = false := by
    have hgeq : g = ondemandOut true idx w { isReq := true, sub := sub } := by
      simp [g, wdsGenerate, wdsGenerateG, hw]
    rw [hgeq, ondemandOut_nonempty true idx w _ hne]
    exact ⟨rfl, rfl, rfl⟩
  obtain ⟨hres, hused, hnil⟩ := hgout
  have hxf : x ∈ found := by
    apply List.mem_filter.mpr
    refine ⟨hx, ?_⟩
    simp [hmemA]
  have hndf : (found.map (·.name)).Nodup :=
    List.Nodup.sublist ((List.filter_sublist (l := idx)).map _) hnd
  refine ⟨{ resources := g.out.res, removed := g.out.deleted }, newNames .addr (g.newNames.getD w.names) g.out, ?_, ?_⟩
  · simp [pushDelta, hnil, neverRemove, removedRaw, hused]
  · rw [get_applyDelta]
    simp only [hres]
    rw [get_toSend [] found hndf x hxf]
    simp [get_nil]

end IstioModel.C03

/-! # Review round 2

Pushes (`isReq = false`) of the Address generator, the alias rule of `generateDeltasOndemand`, the
known class "a subscription by address answered not-found stays dead", the Workload type, and the
Authorization generator (`WorkloadRBACGenerator`). -/
namespace IstioModel.C03
open IstioModel.C04

/-! ## The alias rule (`removed.DeleteAll(aliases...)`) -/

/-- **Nothing delivered is removed in the same breath**: a name in the removed list of an on-demand
    answer is never an address (`Aliases()`) of a resource the same answer found - also when that
    address is not indexed (host-network pods), i.e. when a lookup by it finds nothing. -/
theorem wds_ondemand_removed_not_alias_of_found (idx : Index) (w : WR) (hw : w.wildcard = false) (r : WReq)
    (x : String) (hx : x ∈ (wdsGenerate idx w r).out.deleted) :
    ∀ f ∈ foundOf idx (ondemandAddresses idx w r), f.alias ≠ x := by
  unfold wdsGenerate wdsGenerateG at hx
  simp only [hw, Bool.false_eq_true, if_false] at hx
  split at hx
  · simp at hx
  · cases he : (ondemandAddresses idx w r).isEmpty
    · rw [ondemandOut_nonempty true idx w r he] at hx
      simp only [List.mem_filter] at hx
      intro f hf e
      have : x ∈ (foundOf idx (ondemandAddresses idx w r)).map (·.alias) := List.mem_map.mpr ⟨f, hf, e⟩
      have h2 := hx.2
      simp [this] at h2
    · rw [ondemandOut_empty true idx w r he] at hx
      split at hx <;> simp at hx

/-- The rule is not vacuous: a host-network pod subscribed by resource name AND by its address.  The
    address is "missing" for the index, the pod is found: the answer carries the pod and removes
    nothing (without the rule it would remove the pod's own address). -/
theorem wds_ondemand_alias_rule_live :
    let idx : Index := [{ name := "w1", alias := "net/1", onNode := false, ver := 1, aliasIndexed := false }]
    let g := wdsGenerate idx {} { isReq := true, sub := ["w1", "net/1"] }
    missingOf idx ["w1", "net/1"] = ["net/1"] ∧ g.out.res = [("w1", 1)] ∧ g.out.deleted = [] := by
  decide

/-! ## Pushes: the wildcard client -/

theorem get_toSend_nil (ws : List Wl) (hnd : (ws.map (·.name)).Nodup) (w : Wl) (hw : w ∈ ws) :
    get (toSend [] ws) w.name = some w.ver := by
  rw [get_toSend [] ws hnd w hw]
  simp [get_nil]

theorem get_idxRes_none (idx : Index) (n : String) (h : ∀ w ∈ idx, w.name ≠ n) : get (idxRes idx) n = none := by
  apply get_none_of_not_mem
  rw [names_idxRes]
  intro hm
  obtain ⟨w, hw, e⟩ := List.mem_map.mp hm
  exact h w hw e

/-- **Wildcard push.**  The index changed from `old` to `idx` on the names `U` (the push names them:
    `AddressesUpdated`; they are resource names, not addresses): a wildcard client in sync with the
    old index is in sync with the new one after applying the response - changed and new addresses are
    sent, vanished ones are listed as removed, everything else is left alone. -/
theorem wds_wildcard_push_sync (old idx : Index) (hnd : (idx.map (·.name)).Nodup) (w : WR) (hw : w.wildcard = true)
    (U : List String) (hU : U ≠ [])
    (hnames : ∀ x ∈ idx, ∀ u ∈ U, ¬ (x.aliasIndexed = true ∧ x.alias = u))
    (hsame : ∀ n, n ∉ U → get (idxRes old) n = get (idxRes idx) n)
    (held : Held) (hsync : InSync held (idxRes old)) :
    let g := wdsGenerate idx w { isReq := false, updated := U }
    g.newNames = none ∧
    ∃ resp nn, pushDelta .addr w.names g.out = some (resp, nn) ∧ InSync (applyDelta held resp) (idxRes idx) := by
  intro g
  have hUe : U.isEmpty = false := by
    cases U with
    | nil => exact absurd rfl hU
    | cons a as => rfl
  have hg : g = { out := { res := toSend [] (foundOf idx U), delNil := false, deleted := missingOf idx U, usedDelta := true } } := by
    simp [g, wdsGenerate, wdsGenerateG, hw, wildcardOut, hUe]
  refine ⟨by rw [hg], ?_⟩
  rw [hg]
  refine ⟨{ resources := toSend [] (foundOf idx U), removed := missingOf idx U }, none, ?_, ?_⟩
  · simp [pushDelta, GenOut.nilOut, neverRemove, removedRaw, newNames, shouldSetWatched, Ty.managed]
  · have hndf : ((foundOf idx U).map (·.name)).Nodup :=
      List.Nodup.sublist ((List.filter_sublist (l := idx)).map _) hnd
    intro n
    rw [get_applyDelta]
    simp only []
    by_cases hnU : n ∈ U
    · -- a name the push names: found (current version) or missing (removed)
      by_cases hex : ∃ x ∈ idx, x.name = n
      · obtain ⟨x, hx, hxn⟩ := hex
        subst hxn
        have hxf : x ∈ foundOf idx U := by
          apply List.mem_filter.mpr
          exact ⟨hx, by simp [hnU]⟩
        rw [get_toSend_nil _ hndf x hxf, get_idxRes_of_mem idx hnd x hx]
      · have hno : ∀ x ∈ idx, x.name ≠ n := fun x hx e => hex ⟨x, hx, e⟩
        have hres : get (toSend [] (foundOf idx U)) n = none := by
          apply get_none_of_not_mem
          intro hm
          obtain ⟨y, hy, hyn⟩ := List.mem_map.mp (toSend_names_subset [] _ n hm)
          exact hno y (List.mem_filter.mp hy).1 hyn
        have hmiss : n ∈ missingOf idx U := by
          apply List.mem_filter.mpr
          refine ⟨hnU, ?_⟩
          simp only [Index.lookup, List.isEmpty_iff, List.filter_eq_nil_iff]
          intro x hx
          have h1 := hno x hx
          have h2 := hnames x hx n hnU
          simp only [Bool.or_eq_true, Bool.and_eq_true, beq_iff_eq, not_or, not_and]
          exact ⟨h1, fun hi => by simpa [hi] using h2⟩
        rw [hres, get_idxRes_none idx n hno]
        simp [hmiss]
    · -- untouched: neither sent nor removed
      have hres : get (toSend [] (foundOf idx U)) n = none := by
        apply get_none_of_not_mem
        intro hm
        obtain ⟨y, hy, hyn⟩ := List.mem_map.mp (toSend_names_subset [] _ n hm)
        have hyf := (List.mem_filter.mp hy)
        have hc := hyf.2
        simp only [Bool.or_eq_true, List.contains_iff_mem, Bool.and_eq_true] at hc
        rcases hc with h1 | ⟨hi, h2⟩
        · exact hnU (hyn ▸ h1)
        · exact hnames y hyf.1 y.alias h2 ⟨hi, rfl⟩
      have hnm : n ∉ missingOf idx U := fun hm => hnU (List.mem_filter.mp hm).1
      rw [hres]
      simp only []
      have : (missingOf idx U).contains n = false := by simpa using hnm
      rw [this]
      simp only [Bool.false_eq_true, if_false]
      rw [hsync n, hsame n hnU]

end IstioModel.C03

namespace IstioModel.C03
open IstioModel.C04

/-! ## Pushes: the on-demand client -/

/-- **On-demand push, resource still exists.**  A resource whose NAME is on record (the client
    subscribed to it, or the generator merged it in when it answered a subscription by address / it
    runs on the client's node) and that the push names is re-sent: the client holds its current
    version afterwards. -/
theorem wds_ondemand_push_updates (idx : Index) (hnd : (idx.map (·.name)).Nodup) (w : WR) (hw : w.wildcard = false)
    (U : List String) (held : Held) (x : Wl) (hx : x ∈ idx) (hU : x.name ∈ U) (hrec : x.name ∈ w.names) :
    let g := wdsGenerate idx w { isReq := false, updated := U }
    ∃ resp nn, pushDelta .addr (g.newNames.getD w.names) g.out = some (resp, nn) ∧
      get (applyDelta held resp) x.name = some x.ver := by
  intro g
  let r : WReq := { isReq := false, updated := U }
  let addresses := ondemandAddresses idx w r
  have hmemA : x.name ∈ addresses := by
    simp only [addresses, ondemandAddresses, r, union, Bool.false_eq_true, if_false]
    apply List.mem_append_left
    exact List.mem_filter.mpr ⟨hU, by simpa using hrec⟩
  have hne : addresses.isEmpty = false := by
    cases h : addresses with
    | nil => rw [h] at hmemA; cases hmemA
    | cons a as => rfl
  have hUe : U.isEmpty = false := by
    cases U with
    | nil => cases hU
    | cons a as => rfl
  have hgeq : g = ondemandOut true idx w r := by
    simp [g, r, wdsGenerate, wdsGenerateG, hw, hUe]
  have hgout : g.out.res = toSend [] (foundOf idx addresses) ∧ g.out.usedDelta = true ∧ g.out.nilOut = false := by
    rw [hgeq, ondemandOut_nonempty true idx w r hne]
    exact ⟨rfl, rfl, rfl⟩
  obtain ⟨hres, hused, hnil⟩ := hgout
  have hxf : x ∈ foundOf idx addresses := List.mem_filter.mpr ⟨hx, by simp [hmemA]⟩
  have hndf : ((foundOf idx addresses).map (·.name)).Nodup :=
    List.Nodup.sublist ((List.filter_sublist (l := idx)).map _) hnd
  refine ⟨{ resources := g.out.res, removed := g.out.deleted }, newNames .addr (g.newNames.getD w.names) g.out, ?_, ?_⟩
  · simp [pushDelta, hnil, neverRemove, removedRaw, hused]
  · rw [get_applyDelta]
    simp only [hres]
    rw [get_toSend_nil _ hndf x hxf]

/-- **On-demand push, resource vanished.**  A name on record that the push names and that no longer
    resolves (neither as a resource name nor as an indexed address), and that is not an address of
    something the same answer found, is listed as removed: the client drops it. -/
theorem wds_ondemand_push_removes (idx : Index) (w : WR) (hw : w.wildcard = false)
    (U : List String) (held : Held) (n : String) (hU : n ∈ U) (hrec : n ∈ w.names)
    (hgone : idx.lookup n = [])
    (hnoalias : ∀ f ∈ foundOf idx (ondemandAddresses idx w { isReq := false, updated := U }), f.alias ≠ n) :
    let g := wdsGenerate idx w { isReq := false, updated := U }
    ∃ resp nn, pushDelta .addr (g.newNames.getD w.names) g.out = some (resp, nn) ∧ n ∈ resp.removed ∧
      get (applyDelta held resp) n = none := by
  intro g
  let r : WReq := { isReq := false, updated := U }
  let addresses := ondemandAddresses idx w r
  have hmemA : n ∈ addresses := by
    simp only [addresses, ondemandAddresses, r, union, Bool.false_eq_true, if_false]
    apply List.mem_append_left
    exact List.mem_filter.mpr ⟨hU, by simpa using hrec⟩
  have hne : addresses.isEmpty = false := by
    cases h : addresses with
    | nil => rw [h] at hmemA; cases hmemA
    | cons a as => rfl
  have hUe : U.isEmpty = false := by
    cases U with
    | nil => cases hU
    | cons a as => rfl
  have hgeq : g = ondemandOut true idx w r := by
    simp [g, r, wdsGenerate, wdsGenerateG, hw, hUe]
  have hform := ondemandOut_nonempty true idx w r hne
  have hdel : n ∈ g.out.deleted := by
    rw [hgeq, hform]
    have hmiss : n ∈ missingOf idx (ondemandAddresses idx w r) :=
      List.mem_filter.mpr ⟨hmemA, by simp [hgone]⟩
    have : n ∉ (foundOf idx (ondemandAddresses idx w r)).map (·.alias) := by
      intro hm
      obtain ⟨f, hf, e⟩ := List.mem_map.mp hm
      exact hnoalias f hf e
    exact List.mem_filter.mpr ⟨hmiss, by simpa using this⟩
  have hres : get g.out.res n = none := by
    rw [hgeq, hform]
    apply get_none_of_not_mem
    intro hm
    obtain ⟨y, hy, hyn⟩ := List.mem_map.mp (toSend_names_subset _ _ n hm)
    have hyi := (List.mem_filter.mp hy).1
    have : y ∈ idx.lookup n := by
      apply List.mem_filter.mpr
      exact ⟨hyi, by simp [hyn]⟩
    rw [hgone] at this
    cases this
  have hused : g.out.usedDelta = true ∧ g.out.nilOut = false := by
    rw [hgeq, hform]; exact ⟨rfl, rfl⟩
  refine ⟨{ resources := g.out.res, removed := g.out.deleted }, newNames .addr (g.newNames.getD w.names) g.out, ?_, hdel, ?_⟩
  · simp [pushDelta, hused.2, neverRemove, removedRaw, hused.1]
  · rw [get_applyDelta]
    have : g.out.deleted.contains n = true := by simpa using hdel
    simp only [hres, this, if_true]

/-- **On-demand request, resource does not exist**: a subscribed name that resolves to nothing (and
    is not an address of something found) is listed as removed (the second half of
    `wds_ondemand_request_answers`). -/
theorem wds_ondemand_request_not_found (idx : Index) (w : WR) (hw : w.wildcard = false)
    (sub : List String) (n : String) (hsub : n ∈ sub) (hgone : idx.lookup n = [])
    (hnoalias : ∀ f ∈ foundOf idx (ondemandAddresses idx w { isReq := true, sub := sub }), f.alias ≠ n) :
    n ∈ (wdsGenerate idx w { isReq := true, sub := sub }).out.deleted := by
  let r : WReq := { isReq := true, sub := sub }
  have hmemA : n ∈ ondemandAddresses idx w r := by simp [ondemandAddresses, r, union, hsub]
  have hne : (ondemandAddresses idx w r).isEmpty = false := by
    cases h : ondemandAddresses idx w r with
    | nil => rw [h] at hmemA; cases hmemA
    | cons a as => rfl
  have hgeq : wdsGenerate idx w r = ondemandOut true idx w r := by
    simp [r, wdsGenerate, wdsGenerateG, hw]
  show n ∈ (wdsGenerate idx w r).out.deleted
  rw [hgeq, ondemandOut_nonempty true idx w r hne]
  have hmiss : n ∈ missingOf idx (ondemandAddresses idx w r) :=
    List.mem_filter.mpr ⟨hmemA, by simp [hgone]⟩
  have : n ∉ (foundOf idx (ondemandAddresses idx w r)).map (·.alias) := by
    intro hm
    obtain ⟨f, hf, e⟩ := List.mem_map.mp hm
    exact hnoalias f hf e
  exact List.mem_filter.mpr ⟨hmiss, by simpa using this⟩

/-! ### Known class D: pushes match subscriptions by resource name only

The full statement one would like - whatever way the client subscribed to a resource (by name or by
address), a push that names the resource re-sends it - is FALSE for the generator as it is: a
subscription by address that was answered "not found" leaves only the address on record, and
`AddressesUpdated ∩ ResourceNames` never contains it.  Reproduced on the real server by the e2e
corpus `c03.zt-ondemand-{pod-ip,service-vip}-subscribed-before-creation` (known finding
`e2e:delta-ne-fresh:ondemand:alias-key-created-after-subscribe`). -/

def OndemandPushFollowsSubscription : Prop :=
  ∀ (idx : Index) (w : WR) (U : List String) (x : Wl),
    w.wildcard = false → x ∈ idx → x.name ∈ U →
    (x.name ∈ w.names ∨ (x.aliasIndexed = true ∧ x.alias ∈ w.names)) →
    x.name ∈ names (wdsGenerate idx w { isReq := false, updated := U }).out.res

theorem wds_ondemand_push_alias_witness : ¬ OndemandPushFollowsSubscription := by
  intro h
  -- the client subscribed to net/1 before w1 existed; w1 (address net/1) is created, the push names it
  have := h [{ name := "w1", alias := "net/1", onNode := false, ver := 1 }] { names := ["net/1"] } ["w1"]
    { name := "w1", alias := "net/1", onNode := false, ver := 1 } rfl (by simp) (by simp) (Or.inr ⟨rfl, by simp⟩)
  revert this
  decide

/-- ... while the same subscription on a fresh stream IS answered (what the e2e oracle compares with). -/
theorem wds_ondemand_alias_fresh_request_answers :
    let idx : Index := [{ name := "w1", alias := "net/1", onNode := false, ver := 1 }]
    (wdsGenerate idx {} { isReq := true, sub := ["net/1"] }).out.res = [("w1", 1)] := by
  decide

/-! ## The Workload type (`v3.WorkloadType` arm of `appendAddress`) -/

/-- For the Workload type the answer is the Address answer without the Service resources: removed
    names and the record the generator writes are the same. -/
theorem wl_type_same_bookkeeping (idx : Index) (w : WR) (r : WReq) :
    (wdsGenerateT .wl idx w r).newNames = (wdsGenerate idx w r).newNames ∧
    (wdsGenerateT .wl idx w r).out.deleted = (wdsGenerate idx w r).out.deleted ∧
    (wdsGenerateT .wl idx w r).out.usedDelta = (wdsGenerate idx w r).out.usedDelta ∧
    (wdsGenerateT .wl idx w r).out.nilOut = (wdsGenerate idx w r).out.nilOut := by
  simp [wdsGenerateT, GenOut.nilOut]

theorem name_inj (idx : Index) (hnd : (idx.map (·.name)).Nodup) (y x : Wl) (hy : y ∈ idx) (hx : x ∈ idx)
    (e : y.name = x.name) : y = x := by
  induction idx with
  | nil => cases hy
  | cons a as ih =>
    simp only [List.map_cons, List.nodup_cons] at hnd
    rcases List.mem_cons.mp hy with h1 | h1 <;> rcases List.mem_cons.mp hx with h2 | h2
    · rw [h1, h2]
    · exfalso; apply hnd.1; rw [← h1, e]; exact List.mem_map.mpr ⟨x, h2, rfl⟩
    · exfalso; apply hnd.1; rw [← h2, ← e]; exact List.mem_map.mpr ⟨y, h1, rfl⟩
    · exact ih hnd.2 h1 h2

/-- A workload the Address answer carries is carried by the Workload answer too (same version); a
    Service never is. -/
theorem wl_type_resources (idx : Index) (hnd : (idx.map (·.name)).Nodup) (w : WR) (r : WReq) (x : Wl) (hx : x ∈ idx) :
    get (wdsGenerateT .wl idx w r).out.res x.name =
      if x.isSvc then none else get (wdsGenerate idx w r).out.res x.name := by
  have hp : ∀ y ∈ idx, y.name = x.name → y = x := fun y hy e => name_inj idx hnd y x hy hx e
  have hsvc : (svcNames idx).contains x.name = x.isSvc := by
    cases hs : x.isSvc with
    | true =>
      simp only [svcNames, List.contains_iff_mem, List.mem_map, List.mem_filter]
      exact ⟨x, ⟨hx, hs⟩, rfl⟩
    | false =>
      have : x.name ∉ svcNames idx := by
        simp only [svcNames, List.mem_map, List.mem_filter, not_exists, not_and, and_imp]
        intro y hy hys e
        rw [hp y hy e, hs] at hys
        cases hys
      simpa using this
  simp only [wdsGenerateT, if_true]
  rw [get_filter (wdsGenerate idx w r).out.res (fun n => !(svcNames idx).contains n) x.name, hsvc]
  cases x.isSvc <;> simp

/-! ## The Authorization type: `WorkloadRBACGenerator` -/

theorem get_filter_names (h : Held) (p : String → Bool) (n : String) :
    get (h.filter (fun x => p x.1)) n = if p n then get h n else none := get_filter h p n

/-- **Every request is a full resynchronisation** (a request is a forced generation: `expected` is
    the whole record).  If the record covers what the client holds - on a (re)connect it does: the
    client reports it in `initial_resource_versions` - the answer brings the client exactly to the
    policies that exist; in particular **a policy it retained that was deleted while it was away is
    listed in `removed_resources`**, and nothing that exists is. -/
theorem wauth_forced_sync (pols : List Res) (wn : List String) (held : Held)
    (hcover : ∀ n ∈ names held, n ∈ wn) :
    ∃ resp nn, pushDelta .wauth wn (wauthOut pols true [] wn) = some (resp, nn) ∧
      resp.resources = pols ∧
      (∀ n, n ∈ resp.removed ↔ n ∈ wn ∧ n ∉ names pols) ∧
      (∀ n ∈ names held, n ∉ names pols → n ∈ resp.removed) ∧
      InSync (applyDelta held resp) pols ∧
      (∀ n ∈ names pols, ∃ l, nn = some l ∧ n ∈ l) := by
  refine ⟨{ resources := pols, removed := diff wn (names pols) },
    some (union (diff wn (diff wn (names pols))) (names pols)), ?_, rfl, ?_, ?_, ?_, ?_⟩
  · simp [pushDelta, wauthOut, wauthOutG, GenOut.nilOut, neverRemove, removedRaw, newNames, shouldSetWatched,
      Ty.managed, Ty.wildcard]
  · intro n; exact mem_diff
  · intro n hn hgone
    exact mem_diff.mpr ⟨hcover n hn, hgone⟩
  · exact sync_applyDelta_cover held pols wn hcover
  · intro n hn
    refine ⟨_, rfl, ?_⟩
    simp only [union, List.mem_append, List.mem_filter]
    by_cases h : n ∈ diff wn (diff wn (names pols))
    · exact Or.inl h
    · exact Or.inr ⟨hn, by simpa using h⟩

/-- Without the merge of the record into `expected` (reviewer mutation M2: "forced push no longer
    merges `w.ResourceNames`") the deleted policy a reconnecting ztunnel retained is never removed. -/
theorem wauth_forced_no_merge_witness :
    let retained : Held := [("ns/gone", 1), ("ns/p1", 1)]
    let pols : List Res := [("ns/p1", 2)]
    -- without the merge: nothing is removed, the client keeps the deleted policy
    (pushDelta .wauth ["ns/gone", "ns/p1"] (wauthOutG false pols true [] ["ns/gone", "ns/p1"])).map
        (fun x => (x.1.removed, get (applyDelta retained x.1) "ns/gone")) = some ([], some 1) ∧
    -- as it is: the deleted policy is removed
    (pushDelta .wauth ["ns/gone", "ns/p1"] (wauthOut pols true [] ["ns/gone", "ns/p1"])).map
        (fun x => (x.1.removed, get (applyDelta retained x.1) "ns/gone")) = some (["ns/gone"], none) := by
  decide

/-- **A push for updated policies** (`ConfigsUpdated` holds their keys): the policies changed from
    `old` to `pols` on the keys `U`; a client in sync with the old ones is in sync with the new ones
    after the response - updated policies are sent, deleted ones are listed as removed, everything
    else is left alone.  The record does not matter here (`expected` = the keys). -/
theorem wauth_push_sync (old pols : List Res) (U : List String) (hU : U ≠ []) (wn : List String)
    (hsame : ∀ n, n ∉ U → get old n = get pols n)
    (held : Held) (hsync : InSync held old) :
    ∃ resp nn, pushDelta .wauth wn (wauthOut pols false U wn) = some (resp, nn) ∧
      (∀ n ∈ resp.removed, n ∉ names pols) ∧
      InSync (applyDelta held resp) pols := by
  have hUe : U.isEmpty = false := by
    cases U with
    | nil => exact absurd rfl hU
    | cons a as => rfl
  let found := pols.filter (fun p => U.contains p.1)
  refine ⟨{ resources := found, removed := diff U (names found) }, newNames .wauth wn (wauthOut pols false U wn), ?_, ?_, ?_⟩
  · simp [pushDelta, wauthOut, wauthOutG, hUe, GenOut.nilOut, neverRemove, removedRaw, found]
  · intro n hn hex
    obtain ⟨hnU, hnf⟩ := mem_diff.mp hn
    apply hnf
    obtain ⟨p, hp, e⟩ := List.mem_map.mp hex
    exact List.mem_map.mpr ⟨p, List.mem_filter.mpr ⟨hp, by simpa [e] using hnU⟩, e⟩
  · intro n
    rw [get_applyDelta]
    simp only []
    have hgf : get found n = if U.contains n then get pols n else none :=
      get_filter_names pols (fun m => U.contains m) n
    by_cases hnU : n ∈ U
    · have hc : U.contains n = true := by simpa using hnU
      rw [hgf, hc]
      simp only [if_true]
      cases hg : get pols n with
      | some v => rfl
      | none =>
        simp only []
        have hnf : n ∉ names found := by
          intro hm
          have := (get_isSome_iff_mem_names found n).mpr hm
          rw [hgf, hc] at this
          simp [hg] at this
        have : n ∈ diff U (names found) := mem_diff.mpr ⟨hnU, hnf⟩
        simp [this]
    · have hc : U.contains n = false := by simpa using hnU
      rw [hgf, hc]
      simp only [Bool.false_eq_true, if_false]
      have : n ∉ diff U (names found) := fun h => hnU (mem_diff.mp h).1
      have hcf : (diff U (names found)).contains n = false := by simpa using this
      rw [hcf]
      simp only [Bool.false_eq_true, if_false]
      rw [hsync n, hsame n hnU]

/-- A push that carries no policy key is skipped (nothing is sent). -/
theorem wauth_push_without_keys_silent (pols : List Res) (wn : List String) :
    pushDelta .wauth wn (wauthOut pols false [] wn) = none := by
  simp [pushDelta, wauthOut, wauthOutG, GenOut.nilOut]

end IstioModel.C03

/-! ## Review round 3: no response names a resource in both lists (see `applyDelta_order_irrelevant`) -/
namespace IstioModel.C03
open IstioModel.C04

theorem toSend_names_in_idx (retained : List (String × Nat)) (idx : Index) (addrs : List String) (n : String)
    (h : n ∈ names (toSend retained (foundOf idx addrs))) : ∃ x ∈ idx, x.name = n := by
  obtain ⟨y, hy, hyn⟩ := List.mem_map.mp (toSend_names_subset retained _ n h)
  exact ⟨y, (List.mem_filter.mp hy).1, hyn⟩

theorem missingOf_not_entry (idx : Index) (A : List String) (n : String) (hm : n ∈ missingOf idx A)
    (x : Wl) (hx : x ∈ idx) (hxn : x.name = n) : False := by
  have hlook : x ∈ idx.lookup n := List.mem_filter.mpr ⟨hx, by simp [hxn]⟩
  have := (List.mem_filter.mp hm).2
  simp only [List.isEmpty_iff] at this
  rw [this] at hlook
  cases hlook

/-- The wildcard path: a removed name is not the name of an entry of the index. -/
theorem wildcardOut_removed_not_entry (idx : Index) (r : WReq) (n : String)
    (hd : n ∈ (wildcardOut idx r).out.deleted) (x : Wl) (hx : x ∈ idx) (hxn : x.name = n) : False := by
  simp only [wildcardOut] at hd
  cases hreq : r.isReq with
  | true =>
    simp only [hreq, if_true, List.isEmpty_nil, union, List.filter_nil, List.append_nil, mem_diff] at hd
    exact hd.2 (List.mem_map.mpr ⟨x, hx, hxn⟩)
  | false =>
    simp only [hreq, Bool.false_eq_true, if_false] at hd
    cases he : r.updated.isEmpty with
    | true => simp [he] at hd
    | false =>
      simp only [he, Bool.false_eq_true, if_false] at hd
      exact missingOf_not_entry idx _ n hd x hx hxn

theorem wildcardOut_res_entry (idx : Index) (r : WReq) (n : String)
    (hn : n ∈ names (wildcardOut idx r).out.res) : ∃ x ∈ idx, x.name = n := by
  simp only [wildcardOut] at hn
  obtain ⟨y, hy, hyn⟩ := List.mem_map.mp (toSend_names_subset _ _ n hn)
  refine ⟨y, ?_, hyn⟩
  repeat' split at hy
  all_goals first
    | exact hy
    | exact (List.mem_filter.mp hy).1

/-- The real Workload generator (either type, request or push, wildcard or on-demand): a removed name is never the
    name of a resource in the same answer. -/
theorem wds_removed_disjoint (t : Ty) (idx : Index) (w : WR) (r : WReq) :
    ∀ n ∈ names (wdsGenerateT t idx w r).out.res, n ∉ (wdsGenerateT t idx w r).out.deleted := by
  intro n hn hd
  -- the Workload type only drops resources; removed names are the same
  have hd' : n ∈ (wdsGenerate idx w r).out.deleted := by
    have := (wl_type_same_bookkeeping idx w r).2.1
    by_cases ht : t = .wl
    · subst ht; rw [← this]; exact hd
    · simpa [wdsGenerateT, ht] using hd
  have hn' : n ∈ names (wdsGenerate idx w r).out.res := by
    by_cases ht : t = .wl
    · subst ht
      simp only [wdsGenerateT, if_true, names, List.mem_map, List.mem_filter] at hn
      obtain ⟨x, ⟨hx, _⟩, e⟩ := hn
      exact List.mem_map.mpr ⟨x, hx, e⟩
    · simpa [wdsGenerateT, ht] using hn
  unfold wdsGenerate wdsGenerateG at hn' hd'
  by_cases h1 : (!r.isReq && r.updated.isEmpty) = true
  · simp [h1, names] at hn'
  · simp only [h1, if_false] at hn' hd'
    cases hw : w.wildcard with
    | true =>
      simp only [hw, if_true] at hn' hd'
      obtain ⟨x, hx, hxn⟩ := wildcardOut_res_entry idx r n hn'
      exact wildcardOut_removed_not_entry idx r n hd' x hx hxn
    | false =>
      simp only [hw, Bool.false_eq_true, if_false] at hn' hd'
      cases he : (ondemandAddresses idx w r).isEmpty
      · rw [ondemandOut_nonempty true idx w r he] at hn' hd'
        obtain ⟨x, hx, hxn⟩ := toSend_names_in_idx _ idx _ n hn'
        exact missingOf_not_entry idx _ n (List.mem_filter.mp hd').1 x hx hxn
      · rw [ondemandOut_empty true idx w r he] at hn'
        split at hn' <;> simp [names] at hn'

/-- The Authorization generator: removed = expected - found. -/
theorem wauth_removed_disjoint (pols : List Res) (forced : Bool) (updated wn : List String) :
    ∀ n ∈ names (wauthOut pols forced updated wn).res, n ∉ (wauthOut pols forced updated wn).deleted := by
  intro n hn hd
  cases forced with
  | true =>
    simp only [wauthOut, wauthOutG, if_true] at hn hd
    exact (mem_diff.mp hd).2 hn
  | false =>
    cases he : updated.isEmpty with
    | true => simp [wauthOut, wauthOutG, he, names] at hn
    | false =>
      simp only [wauthOut, wauthOutG, he, Bool.false_eq_true, if_false] at hn hd
      exact (mem_diff.mp hd).2 hn

end IstioModel.C03
