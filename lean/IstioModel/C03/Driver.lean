import IstioModel.Common.Wire
import IstioModel.C04.Driver
import IstioModel.C03.Server
import IstioModel.C03.Clients
import IstioModel.C03.Wds

/-! Line-protocol driver for C03, stream `book` (scripted generator outputs). See harness/c03. -/
namespace IstioModel.C03
open IstioModel.Wire IstioModel.C04

structure DState where
  d    : Srv := {}
  s    : Srv := {}
  outs : List (Ty × GenOut) := []
  sys  : Sys := {}
  widx : Index := []           -- stream wds: the stub ambient index
  wpols : List Res := []       -- stream wds: the stub authorization policies
  wsrv : Srv := {}             -- stream wds: the ztunnel connection
  wheld : Held := []           -- stream wds: what the delta client holds of the Address type
  wlheld : Held := []          -- ... of the Workload type
  waheld : Held := []          -- ... of the Authorization type

def lookupOut (outs : List (Ty × GenOut)) (t : Ty) : GenOut :=
  match outs.find? (fun p => p.1 == t) with
  | some p => p.2
  | none => { resNil := true, delNil := true }

def DState.gen (ds : DState) : Gen := fun t _ => lookupOut ds.outs t

def decRes (tok : String) : List Res :=
  if tok == "-" || tok == "nil" then [] else
  (tok.splitOn ",").map fun e =>
    match e.splitOn "@" with
    | [n, v] => (dec n, v.toNat?.getD 0)
    | _ => (dec e, 0)

def encRes (l : List Res) : String :=
  if l.isEmpty then "-" else ",".intercalate (l.map fun r => s!"{enc r.1}@{r.2}")

def showWire (w : Wire) : String := s!"{w.ty.tok}:res={encRes w.resources};rem={encSet w.removed}"

def showWires (ws : List Wire) : String :=
  if ws.isEmpty then "-" else " ".intercalate (ws.map showWire)

def showWRn (t : Ty) (w : WR) : String :=
  let acked := if w.nonceAcked == "" then "empty" else if w.nonceAcked == w.nonceSent then "cur" else "old"
  s!"{t.tok}[names={encSet w.names};w={boolTok w.wildcard};sent={boolTok (w.nonceSent != "")};acked={acked};always={boolTok w.always};err={enc w.lastError}]"

def showStateN (s : State) : String :=
  let parts := Ty.all.filterMap (fun t => (s t).map (showWRn t))
  if parts.isEmpty then "empty" else " ".intercalate parts

/-- `cur` = whatever nonce the server last sent for this type, `stale` = a nonce never sent. -/
def resolveNonce (st : State) (t : Ty) (kind : String) : String :=
  match kind with
  | "cur" => match st t with
    | some w => w.nonceSent
    | none => ""
  | "stale" => "stale-nonce"
  | _ => ""

def equivTypes : List Ty := [.cds, .eds, .lds, .rds, .sds, .ecds, .nds]

def sortHeld (h : Held) : List Res :=
  (sortNames (names h)).filterMap (fun n => (get h n).map (fun v => (n, v)))

def showClient (c : Client) : String :=
  let parts := equivTypes.filterMap fun t =>
    let ct := c t
    if !ct.subscribed && ct.held.isEmpty then none
    else some (t.tok ++ "{" ++ encRes (sortHeld ct.held) ++ "}")
  if parts.isEmpty then "none" else " ".intercalate parts

def showLog (l : List (Ty × Nat × Nat)) : String :=
  if l.isEmpty then "-" else ",".intercalate (l.map fun e => s!"{e.1.tok}/{e.2.1}/{e.2.2}")

/-- What the two clients hold, and every response delivered to them during the op. -/
def showSys (y : Sys) : String := s!"S:{showClient y.sc} D:{showClient y.dc} | s={showLog y.slog} d={showLog y.dlog}"

def normClient (c : Client) : Client :=
  let tbl := Ty.all.map (fun t => (t, c t))
  fun t => match tbl.find? (fun p => p.1 == t) with
    | some p => p.2
    | none => {}

/-- Re-materialise the function-valued parts of the system state (see `C04.normalize`). -/
@[noinline] def normSys (y : Sys) : Sys :=
  { y with ssrv := { y.ssrv with st := normalize y.ssrv.st }, dsrv := { y.dsrv with st := normalize y.dsrv.st } }

def DState.heldOf (ds : DState) (t : Ty) : Held := if t = .wl then ds.wlheld else ds.wheld

def DState.setHeld (ds : DState) (t : Ty) (h : Held) : DState :=
  if t = .wl then { ds with wlheld := h } else { ds with wheld := h }

/-- Stream wds: a delta request for the Address / Workload type. -/
def wreqD (ds : DState) (t : Ty) (sub unsub init nk : String) : DState × String :=
  -- `held`: a conformant (re)connecting client reports everything it holds
  -- `heldx`: ... with versions this server never produced (nothing may be skipped)
  let cur := ds.heldOf t
  let retained := if init == "held" then sortHeld cur
    else if init == "heldx" then (sortHeld cur).map (fun r => (r.1, r.2 + 1000000)) else []
  let r : DReq := { ty := t, sub := decList sub, unsub := decList unsub, init := names retained,
                    nonce := resolveNonce ds.wsrv.st t nk, err := none }
  match wdsProcessT t ds.widx ds.wsrv r retained with
  | none => (ds, "crash")
  | some (v, w) =>
    let v := { v with st := normalize v.st }
    let held := match w with
      | some x => applyDelta cur { resources := x.resources, removed := x.removed }
      | none => cur
    ({ ds with wsrv := v }.setHeld t held, s!"{showWires w.toList} | {showStateN v.st}")

/-- Stream wds: `pushConnectionDelta` for updated addresses: the Address type, then the Workload
    type (the Authorization generator skips a push without policy keys); stops at a failed send. -/
def wpushD (ds : DState) (upd : String) : DState × String :=
  let r : WReq := { isReq := false, updated := decList upd }
  let x := wdsPushOneT .addr ds.widx ds.wsrv r
  let y := if x.2.2 then (x.1, none, true) else wdsPushOneT .wl ds.widx x.1 r
  let v := { y.1 with st := normalize y.1.st }
  let app := fun (h : Held) (w : Option Wire) => match w with
    | some w => applyDelta h { resources := w.resources, removed := w.removed }
    | none => h
  ({ ds with wsrv := v, wheld := app ds.wheld x.2.1, wlheld := app ds.wlheld y.2.1 },
   s!"{showWires (x.2.1.toList ++ y.2.1.toList)} | {showStateN v.st}")

def stepD (ds : DState) (toks : List String) : DState × String :=
  match toks with
  | ["case", _, "equivd"] => ({ sys := { deltaCds := true } }, "ok")
  | ["case", _, _, flags] =>
    -- C05 case flags: d = delta-aware CDS generator, z = found-only generators return nil when nothing is found
    ({ sys := { deltaCds := flags.contains 'd', nilFound := flags.contains 'z' } }, "ok")
  | "case" :: _ => ({}, "ok")
  | ["world", ty, res] =>
    match Ty.ofTok ty with
    | none => (ds, "bad-op")
    | some t =>
      let y := normSys (IstioModel.C03.step ds.sys (.world t ((decRes res).mergeSort (fun a b => !(b.1 < a.1)))))
      ({ ds with sys := y }, showSys y)
  | ["sub", ty, nm] =>
    match Ty.ofTok ty with
    | none => (ds, "bad-op")
    | some t => let y := normSys (IstioModel.C03.step ds.sys (.sub t (decList nm))); ({ ds with sys := y }, showSys y)
  | ["sub", ty, nm, flags] =>
    -- C05: n = first delta request presents the retained nonce, e = legacy empty wildcard subscription
    match Ty.ofTok ty with
    | none => (ds, "bad-op")
    | some t =>
      let y := normSys (IstioModel.C03.step ds.sys (.subx t (decList nm) (flags.contains 'n') (flags.contains 'e') (flags.contains 'x')))
      ({ ds with sys := y }, showSys y)
  | ["widx", ws] =>
    -- name:alias:onNode:ver,...  (sorted by name by the harness)
    let idx : Index := if ws == "-" then [] else (ws.splitOn ",").filterMap fun e =>
      match e.splitOn ":" with
      | [n, a, l, v] => some { name := dec n, alias := dec a, onNode := tokBool l, ver := v.toNat?.getD 0 }
      -- flags: x = the alias is not indexed (host network), s = a Service address
      | [n, a, l, v, fl] => some { name := dec n, alias := dec a, onNode := tokBool l, ver := v.toNat?.getD 0,
                                   aliasIndexed := !fl.contains 'x', isSvc := fl.contains 's' }
      | _ => none
    ({ ds with widx := idx }, "ok")
  | ["wpol", ps] => ({ ds with wpols := (decRes ps).mergeSort (fun a b => !(b.1 < a.1)) }, "ok")
  | ["wfail", v] => ({ ds with wsrv := { ds.wsrv with fail := tokBool v } }, "ok")
  | ["wreq", sub, unsub, init, nk] => wreqD ds .addr sub unsub init nk
  | ["wlreq", sub, unsub, init, nk] => wreqD ds .wl sub unsub init nk
  | ["wreconnect"] => ({ ds with wsrv := { ctr := ds.wsrv.ctr } }, "ok")
  | ["wpush", upd] => wpushD ds upd
  | ["wareq", sub, unsub, init, nk] =>
    let retained := if init == "held" then sortHeld ds.waheld else []
    let r : DReq := { ty := .wauth, sub := decList sub, unsub := decList unsub, init := names retained,
                      nonce := resolveNonce ds.wsrv.st .wauth nk, err := none }
    match wauthProcess ds.wpols ds.wsrv r with
    | none => (ds, "crash")
    | some (v, ws) =>
      let v := { v with st := normalize v.st }
      let held := ws.foldl (fun h x => applyDelta h { resources := x.resources, removed := x.removed }) ds.waheld
      ({ ds with wsrv := v, waheld := held }, s!"{showWires ws} | {showStateN v.st}")
  | ["wapush", upd, forced] =>
    let x := wauthPush ds.wpols (tokBool forced) (decList upd) ds.wsrv
    let v := { x.1 with st := normalize x.1.st }
    let held := match x.2.1 with
      | some w => applyDelta ds.waheld { resources := w.resources, removed := w.removed }
      | none => ds.waheld
    ({ ds with wsrv := v, waheld := held }, s!"{showWires x.2.1.toList} | {showStateN v.st}")
  | ["pushall"] => let y := normSys (IstioModel.C03.step ds.sys .pushall); ({ ds with sys := y }, showSys y)
  | ["reconnect"] => let y := normSys (IstioModel.C03.step ds.sys .reconnect); ({ ds with sys := y }, showSys y)
  | ["pushcut", k] => let y := normSys (IstioModel.C03.step ds.sys (.pushcut (k.toNat?.getD 0))); ({ ds with sys := y }, showSys y)
  | ["out", ty, kind, res, del, used, inc] =>
    match Ty.ofTok ty with
    | none => (ds, "bad-op")
    | some t =>
      let o : GenOut :=
        if kind == "plain" then
          { resNil := res == "nil", res := decRes res, delNil := true, deleted := [], usedDelta := false,
            incremental := tokBool inc }
        else
          { resNil := res == "nil", res := decRes res, delNil := del == "nil", deleted := decList (if del == "nil" then "-" else del),
            usedDelta := tokBool used, incremental := tokBool inc }
      ({ ds with outs := (t, o) :: ds.outs.filter (fun p => p.1 != t) }, "ok")
  | ["fail", which, v] =>
    if which == "D" then ({ ds with d := { ds.d with fail := tokBool v } }, "ok")
    else ({ ds with s := { ds.s with fail := tokBool v } }, "ok")
  | ["dreq", ty, sub, unsub, init, nk, err] =>
    match Ty.ofTok ty with
    | none => (ds, "bad-op")
    | some t =>
      let r : DReq := { ty := t, sub := decList sub, unsub := decList unsub, init := decList init,
                        nonce := resolveNonce ds.d.st t nk, err := decErr err }
      match processDelta ds.gen ds.d r with
      | none => (ds, "crash")
      | some (v, ws) => let v := { v with st := normalize v.st }; ({ ds with d := v }, s!"{showWires ws} | {showStateN v.st}")
  | ["dpush"] =>
    let (v, ws) := pushConnDelta ds.gen ds.d
    let v := { v with st := normalize v.st }
    ({ ds with d := v }, s!"{showWires ws} | {showStateN v.st}")
  | ["req", ty, names, nk, err] =>
    match Ty.ofTok ty with
    | none => (ds, "bad-op")
    | some t =>
      let r : Req := { ty := t, names := decList names, nonce := resolveNonce ds.s.st t nk, err := decErr err }
      match processSotw ds.gen ds.s r with
      | none => (ds, "crash")
      | some (v, ws) => let v := { v with st := normalize v.st }; ({ ds with s := v }, s!"{showWires ws} | {showStateN v.st}")
  | ["push"] =>
    let (v, ws) := pushConnSotw ds.gen ds.s
    let v := { v with st := normalize v.st }
    ({ ds with s := v }, s!"{showWires ws} | {showStateN v.st}")
  | _ => (ds, "bad-op")

end IstioModel.C03
