import IstioModel.C04.Model

/-!
C03 - executable model of the server-side bookkeeping of delta xDS and of the two client kinds.

Go sources modelled (istio/istio):
  pilot/pkg/xds/delta.go    pushDeltaXds (request-delta narrowing of the watched resource, the
                            usedDelta / !logdata.Incremental / neverRemoveDelta / shouldSetWatchedResources
                            branches, removed = watched - generated, new ResourceNames), sendDelta,
                            processDeltaRequest (ResourceDelta construction, forceEDSPush after CDS),
                            shouldRespondDelta / deltaWatchedResources (from the C04 model)
  pilot/pkg/xds/xdsgen.go   pushXds (request-delta narrowing for SotW)
  pkg/xds/server.go         ShouldRespond / Send (from the C04 model)

A generator is abstract: one call returns `GenOut` (what `Generate` / `GenerateDeltas` returned).
A resource is `(name, version)`; the version stands for the content.
-/
namespace IstioModel.C03
open IstioModel.C04

abbrev Res := String × Nat

def names (l : List Res) : List String := l.map (·.1)

/-- What one generator call returned. -/
structure GenOut where
  resNil      : Bool := false      -- `res == nil` (an empty non-nil slice is a real, empty answer)
  res         : List Res := []
  delNil      : Bool := true       -- `deletedRes == nil`
  deleted     : List String := []
  usedDelta   : Bool := false
  incremental : Bool := false
  deriving Repr, DecidableEq

/-- `res == nil && deletedRes == nil`: `pushDeltaXds` sends nothing. -/
def GenOut.nilOut (o : GenOut) : Bool := o.resNil && o.delNil

/-- `neverRemoveDelta`. -/
def neverRemove : Ty → Bool
  | .ecds => true
  | _ => false

/-- `shouldSetWatchedResources`. -/
def shouldSetWatched (t : Ty) : Bool := !t.managed && t.wildcard

/-- The name set of the `w` handed to the generator by `pushDeltaXds`: narrowed to the newly
    subscribed names when the push answers a subscription change (except generator-managed types). -/
def narrowedDelta (t : Ty) (wnames sub unsub : List String) : List String :=
  if !(sub.isEmpty && unsub.isEmpty) && !t.managed then sub else wnames

/-- Same for SotW `pushXds` (proxyless gRPC is outside the model). -/
def narrowedSotw (wnames sub : List String) : List String :=
  if !sub.isEmpty then sub else wnames

structure DeltaResp where
  resources : List Res
  removed   : List String
  deriving Repr, DecidableEq

def union (a b : List String) : List String := a ++ b.filter (fun x => !a.contains x)

/-- `removed` as computed by `pushDeltaXds` before the never-remove rule. -/
def removedRaw (wn : List String) (o : GenOut) : List String :=
  if o.usedDelta then o.deleted
  else if !o.incremental then diff wn (names o.res)
  else []

/-- New `ResourceNames` handed to `sendDelta` (`none` = leave the record alone). -/
def newNames (t : Ty) (wn : List String) (o : GenOut) : Option (List String) :=
  if shouldSetWatched t then
    some (if o.usedDelta then union (diff wn (removedRaw wn o)) (names o.res) else names o.res)
  else none

/-- Body of `pushDeltaXds` after the generator returned: the response (if any) and the new names.
    `wn` is the (possibly narrowed) name set the generator saw. -/
def pushDelta (t : Ty) (wn : List String) (o : GenOut) : Option (DeltaResp × Option (List String)) :=
  if o.nilOut then none
  else
    let removed := if neverRemove t then [] else removedRaw wn o
    some ({ resources := o.res, removed := removed }, newNames t wn o)

/-- Body of SotW `pushXds` after the generator returned: the response, if any. -/
def pushSotw (o : GenOut) : Option (List Res) := if o.resNil then none else some o.res

/-! ### Clients -/

/-- What a client holds for one type: an association list, first entry for a name wins. -/
abbrev Held := List Res

def get (h : Held) (n : String) : Option Nat := (h.find? (fun r => r.1 == n)).map (·.2)

/-- A delta client applies `resources` (add / overwrite) and `removed_resources`. -/
def applyDelta (h : Held) (r : DeltaResp) : Held :=
  r.resources ++ h.filter (fun x => !(names r.resources).contains x.1 && !r.removed.contains x.1)

/-- A SotW client, wildcard type (CDS, LDS, ...): the response is the complete set. -/
def applySotwWild (_ : Held) (res : List Res) : Held := res

/-- A SotW client, named type (EDS, RDS, SDS, ECDS): named resources are added / overwritten. -/
def applySotwNamed (h : Held) (res : List Res) : Held :=
  res ++ h.filter (fun x => !(names res).contains x.1)

/-- Either client drops a resource it unsubscribes from (named types: implied by the removal of the
    parent resource; the server sends nothing). -/
def dropNames (h : Held) (ns : List String) : Held := h.filter (fun x => !ns.contains x.1)

end IstioModel.C03
