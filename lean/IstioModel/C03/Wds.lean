import IstioModel.C03.Server

/-!
C03 / C05 - exact model of the workload (WDS: Address / Workload types) generator over an abstract
ambient index, and of the request / push handlers around it.

Go sources modelled: pilot/pkg/xds/workload.go `WorkloadGenerator.GenerateDeltas` (wildcard path),
`generateDeltasOndemand`, `appendAddress` (version skip with `initial_resource_versions`);
the index behind `model.AmbientIndexes` is a parameter with the contract of
pilot/pkg/serviceregistry/ambient/ambientindex.go `AddressInformation` (lookup by resource name or
by `network/ip` alias; an empty request = everything; names not found are "removed") and of the
node-local part of `AdditionalPodSubscriptions`.  The harness (stream `wds`) plugs a stub index with
exactly these definitions into the real generator.
-/
namespace IstioModel.C03
open IstioModel.C04

/-- One address of the index: resource name (workload uid, or `namespace/hostname` of a service), its
    `network/ip` alias (what `AddressInfo.Aliases()` lists), whether it runs on the proxy's node, and
    a content version.  `aliasIndexed = false`: the address is listed in `Aliases()` but a lookup by
    it finds nothing (host-network pods are not indexed by IP).  Several entries may share one alias
    (a lookup by it returns all of them).  `isSvc`: a Service address (the Workload type never
    carries it). -/
structure Wl where
  name  : String
  alias : String
  onNode : Bool
  ver   : Nat
  aliasIndexed : Bool := true
  isSvc : Bool := false
  deriving Repr, DecidableEq

abbrev Index := List Wl      -- names distinct

def Index.lookup (idx : Index) (k : String) : List Wl :=
  idx.filter (fun w => w.name == k || (w.aliasIndexed && w.alias == k))

/-- `AddressInformation` for a non-empty request: the entries found (one per resource name) ... -/
def foundOf (idx : Index) (addrs : List String) : List Wl :=
  idx.filter (fun w => addrs.contains w.name || (w.aliasIndexed && addrs.contains w.alias))

/-- ... and the requested names with no entry ("removed"). An empty request means everything. -/
def missingOf (idx : Index) (addrs : List String) : List String :=
  addrs.filter (fun a => (idx.lookup a).isEmpty)

/-- Node-local part of `AdditionalPodSubscriptions`. -/
def additionalSubs (idx : Index) (currentSubs : List String) : List String :=
  (idx.filter (fun w => w.onNode && !currentSubs.contains w.name)).map (·.name)

/-- What the generator is asked: a client request (`IsRequest`: `Delta.Subscribed`, retained
    versions) or a push for updated addresses. -/
structure WReq where
  isReq    : Bool
  updated  : List String := []            -- `req.AddressesUpdated`
  sub      : List String := []            -- `req.Delta.Subscribed`
  retained : List (String × Nat) := []    -- `req.Delta.InitialResourceVersions`
  deriving Repr

/-- `appendAddress`: skipped when the retained version equals the current one. -/
def toSend (retained : List (String × Nat)) (ws : List Wl) : List Res :=
  (ws.filter (fun w => get retained w.name != some w.ver)).map (fun w => (w.name, w.ver))

structure WOut where
  out      : GenOut
  newNames : Option (List String) := none   -- on-demand: the generator rewrites `w.ResourceNames`
  deriving Repr

/-- The wildcard path of `GenerateDeltas`. -/
def wildcardOut (idx : Index) (r : WReq) : WOut :=
  let reqAddresses := if r.isReq then [] else r.updated
  let found := if reqAddresses.isEmpty then idx else foundOf idx reqAddresses
  let missing := if reqAddresses.isEmpty then [] else missingOf idx reqAddresses
  let removed := if r.isReq then union (diff r.sub (found.map (·.name))) missing else missing
  { out := { res := toSend r.retained found, delNil := false, deleted := removed, usedDelta := true } }

/-- The addresses an on-demand call looks up: what was asked (request) or what was updated and is
    subscribed (push), plus the node-local workloads. -/
def ondemandAddresses (idx : Index) (w : WR) (r : WReq) : List String :=
  union (if r.isReq then r.sub else r.updated.filter (fun a => w.names.contains a)) (additionalSubs idx w.names)

/-- `generateDeltasOndemand`. `fixed = false` is the pinned tree: the empty answer to a request
    reported `usedDelta = false`, so that `pushDeltaXds` listed every other subscribed name as
    removed (finding F-C03-1, repaired by 1dbc042). -/
def ondemandOut (fixed : Bool) (idx : Index) (w : WR) (r : WReq) : WOut :=
  let addresses := ondemandAddresses idx w r
  if addresses.isEmpty then
    if r.isReq then { out := { res := [], delNil := true, usedDelta := fixed } }
    else { out := { resNil := true, delNil := true } }
  else
    let found := foundOf idx addresses
    let aliases := found.map (·.alias)
    let removed := (missingOf idx addresses).filter (fun a => !aliases.contains a)
    { out := { res := toSend r.retained found, delNil := false, deleted := removed, usedDelta := true },
      newNames := some (union w.names (found.map (·.name))) }

/-- `GenerateDeltas`. -/
def wdsGenerateG (fixed : Bool) (idx : Index) (w : WR) (r : WReq) : WOut :=
  if !r.isReq && r.updated.isEmpty then { out := { resNil := true, delNil := true } }
  else if w.wildcard then wildcardOut idx r
  else ondemandOut fixed idx w r

def wdsGenerate : Index → WR → WReq → WOut := wdsGenerateG true

/-- Names of the Service addresses of the index. -/
def svcNames (idx : Index) : List String := (idx.filter (·.isSvc)).map (·.name)

/-- `GenerateDeltas` for a request of type `t` (Address or Workload - one generator serves both).
    `appendAddress` counts every address found (`have`) and applies the version skip whatever the
    type; only then the Workload type appends nothing for an address that is not a workload.  So the
    answer for the Workload type is the answer for the Address type without the Service resources;
    removed names and the rewritten record are the same. -/
def wdsGenerateT (t : Ty) (idx : Index) (w : WR) (r : WReq) : WOut :=
  let g := wdsGenerate idx w r
  if t = .wl then
    { g with out := { g.out with res := g.out.res.filter (fun x => !(svcNames idx).contains x.1) } }
  else g

/-- One `pushDeltaXds` for type `t` with the real generator: new server state, the response (if
    any) and whether the send failed.  The on-demand generator rewrites the record in place BEFORE
    anything is sent: the rewrite survives a failed send (the nonce does not move). -/
def wdsPushOneT (t : Ty) (idx : Index) (v : Srv) (r : WReq) : Srv × Option Wire × Bool :=
  match v.st t with
  | none => (v, none, false)
  | some w =>
    let g := wdsGenerateT t idx w r
    let st1 := match g.newNames with
      | some n => v.st.set t (some { w with names := n })
      | none => v.st
    match pushDelta t (match g.newNames with | some n => n | none => w.names) g.out with
    | none => ({ v with st := st1 }, none, false)
    | some (resp, nn) =>
      if v.fail then ({ v with st := st1 }, none, true)
      else
        ({ v with st := sendDelta st1 t (freshNonce v) nn true, ctr := v.ctr + 1 },
         some { ty := t, resources := resp.resources, removed := resp.removed, nonce := freshNonce v }, false)

/-- `processDeltaRequest` for type `t` (Address or Workload). -/
def wdsProcessT (t : Ty) (idx : Index) (v : Srv) (r : DReq) (retained : List (String × Nat)) : Option (Srv × Option Wire) :=
  match shouldRespondDelta v.st r with
  | .crash => none
  | .out false s' => some ({ v with st := s' }, none)
  | .out true s' =>
    let subs := (deltaWatched [] r).1
    let x := wdsPushOneT t idx { v with st := s' } { isReq := true, sub := subs, retained := retained }
    some (x.1, x.2.1)

/-! ### The Authorization type: `WorkloadRBACGenerator`

`pols` = what `AmbientIndexes.Policies` knows (name = `namespace/name`, version = content); the
generator asks for all of them (forced push, every request) or for the updated keys only. -/

/-- `WorkloadRBACGenerator.GenerateDeltas`.  `wn` = the names of the watched resource it is handed
    (the record, or the newly subscribed names when the push answers a subscription change);
    `updated` = the `AuthorizationPolicy` keys of `ConfigsUpdated`.
    `expected = (forced ? record : updated keys)`, removed = expected - found. -/
def wauthOutG (mergeRecord : Bool) (pols : List Res) (forced : Bool) (updated : List String) (wn : List String) : GenOut :=
  if forced then
    { res := pols, delNil := false, deleted := diff (if mergeRecord then wn else []) (names pols), usedDelta := true }
  else if updated.isEmpty then { resNil := true, delNil := true }
  else
    let found := pols.filter (fun p => updated.contains p.1)
    { res := found, delNil := false, deleted := diff updated (names found), usedDelta := true }

def wauthOut : List Res → Bool → List String → List String → GenOut := wauthOutG true

def wauthGen (pols : List Res) (forced : Bool) (updated : List String) : Gen :=
  fun _ wn => wauthOut pols forced updated wn

/-- `processDeltaRequest` for the Authorization type (a request is a forced generation). -/
def wauthProcess (pols : List Res) (v : Srv) (r : DReq) : Option (Srv × List Wire) :=
  processDelta (wauthGen pols true []) v { r with ty := .wauth }

/-- One `pushDeltaXds` for the Authorization type on a push. -/
def wauthPush (pols : List Res) (forced : Bool) (updated : List String) (v : Srv) : Srv × Option Wire × Bool :=
  pushDeltaOne (wauthGen pols forced updated) v .wauth [] []

end IstioModel.C03
