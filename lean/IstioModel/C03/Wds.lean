import IstioModel.C03.Server

/-!
C03 / C05 - exact model of the workload (WDS: Address / Workload types) generator over an abstract
ambient index, and of the request / push handlers around it.

Go sources modelled: pilot/pkg/xds/workload.go `WorkloadGenerator.GenerateDeltas` (wildcard path),
`generateDeltasOndemand`, `appendAddress` (version skip with `initial_resource_versions`);
the index behind `model.AmbientIndexes` is a parameter with the contract of
pilot/pkg/serviceregistry/ambient/ambientindex.go `AddressInformation` (lookup by resource name or
by `network/ip` alias; an empty request = everything; names not found are "removed") and of the
node-local part of `AdditionalPodSubscriptions`.  The harness (stream `wds`) plugs a stub index with
exactly these definitions into the real generator.
-/
namespace IstioModel.C03
open IstioModel.C04

/-- One workload of the index: resource name (uid), its `network/ip` alias, whether it runs on the
    proxy's node, and a content version. -/
structure Wl where
  name  : String
  alias : String
  onNode : Bool
  ver   : Nat
  deriving Repr, DecidableEq

abbrev Index := List Wl      -- names distinct

def Index.lookup (idx : Index) (k : String) : List Wl := idx.filter (fun w => w.name == k || w.alias == k)

/-- `AddressInformation` for a non-empty request: the entries found (one per resource name) ... -/
def foundOf (idx : Index) (addrs : List String) : List Wl :=
  idx.filter (fun w => addrs.contains w.name || addrs.contains w.alias)

/-- ... and the requested names with no entry ("removed"). An empty request means everything. -/
def missingOf (idx : Index) (addrs : List String) : List String :=
  addrs.filter (fun a => (idx.lookup a).isEmpty)

/-- Node-local part of `AdditionalPodSubscriptions`. -/
def additionalSubs (idx : Index) (currentSubs : List String) : List String :=
  (idx.filter (fun w => w.onNode && !currentSubs.contains w.name)).map (·.name)

/-- What the generator is asked: a client request (`IsRequest`: `Delta.Subscribed`, retained
    versions) or a push for updated addresses. -/
structure WReq where
  isReq    : Bool
  updated  : List String := []            -- `req.AddressesUpdated`
  sub      : List String := []            -- `req.Delta.Subscribed`
  retained : List (String × Nat) := []    -- `req.Delta.InitialResourceVersions`
  deriving Repr

/-- `appendAddress`: skipped when the retained version equals the current one. -/
def toSend (retained : List (String × Nat)) (ws : List Wl) : List Res :=
  (ws.filter (fun w => get retained w.name != some w.ver)).map (fun w => (w.name, w.ver))

structure WOut where
  out      : GenOut
  newNames : Option (List String) := none   -- on-demand: the generator rewrites `w.ResourceNames`
  deriving Repr

/-- The wildcard path of `GenerateDeltas`. -/
def wildcardOut (idx : Index) (r : WReq) : WOut :=
  let reqAddresses := if r.isReq then [] else r.updated
  let found := if reqAddresses.isEmpty then idx else foundOf idx reqAddresses
  let missing := if reqAddresses.isEmpty then [] else missingOf idx reqAddresses
  let removed := if r.isReq then union (diff r.sub (found.map (·.name))) missing else missing
  { out := { res := toSend r.retained found, delNil := false, deleted := removed, usedDelta := true } }

/-- The addresses an on-demand call looks up: what was asked (request) or what was updated and is
    subscribed (push), plus the node-local workloads. -/
def ondemandAddresses (idx : Index) (w : WR) (r : WReq) : List String :=
  union (if r.isReq then r.sub else r.updated.filter (fun a => w.names.contains a)) (additionalSubs idx w.names)

/-- `generateDeltasOndemand`. `fixed = false` is the pinned tree: the empty answer to a request
    reported `usedDelta = false`, so that `pushDeltaXds` listed every other subscribed name as
    removed (finding F-C03-1, repaired by 1dbc042). -/
def ondemandOut (fixed : Bool) (idx : Index) (w : WR) (r : WReq) : WOut :=
  let addresses := ondemandAddresses idx w r
  if addresses.isEmpty then
    if r.isReq then { out := { res := [], delNil := true, usedDelta := fixed } }
    else { out := { resNil := true, delNil := true } }
  else
    let found := foundOf idx addresses
    let aliases := found.map (·.alias)
    let removed := (missingOf idx addresses).filter (fun a => !aliases.contains a)
    { out := { res := toSend r.retained found, delNil := false, deleted := removed, usedDelta := true },
      newNames := some (union w.names (found.map (·.name))) }

/-- `GenerateDeltas`. -/
def wdsGenerateG (fixed : Bool) (idx : Index) (w : WR) (r : WReq) : WOut :=
  if !r.isReq && r.updated.isEmpty then { out := { resNil := true, delNil := true } }
  else if w.wildcard then wildcardOut idx r
  else ondemandOut fixed idx w r

def wdsGenerate : Index → WR → WReq → WOut := wdsGenerateG true

/-- One `pushDeltaXds` for the Address type with the real generator: response and new server state. -/
def wdsPushOne (idx : Index) (v : Srv) (r : WReq) : Srv × Option Wire :=
  match v.st .addr with
  | none => (v, none)
  | some w =>
    let g := wdsGenerate idx w r
    -- the generator rewrites the record in place before anything is sent
    let st1 := match g.newNames with
      | some n => v.st.set .addr (some { w with names := n })
      | none => v.st
    match pushDelta .addr (match g.newNames with | some n => n | none => w.names) g.out with
    | none => ({ v with st := st1 }, none)
    | some (resp, nn) =>
      ({ v with st := sendDelta st1 .addr (freshNonce v) nn true, ctr := v.ctr + 1 },
       some { ty := .addr, resources := resp.resources, removed := resp.removed, nonce := freshNonce v })

/-- `processDeltaRequest` for the Address type. -/
def wdsProcess (idx : Index) (v : Srv) (r : DReq) (retained : List (String × Nat)) : Option (Srv × Option Wire) :=
  match shouldRespondDelta v.st r with
  | .crash => none
  | .out false s' => some ({ v with st := s' }, none)
  | .out true s' =>
    let subs := (deltaWatched [] r).1
    some (wdsPushOne idx { v with st := s' } { isReq := true, sub := subs, retained := retained })

end IstioModel.C03
