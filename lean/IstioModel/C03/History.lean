import IstioModel.C03.Theorems

/-!
# C03 - the history theorem over the tied handlers

`Theorems.lean` proves `delta_eq_sotw_wild` about the abstract per-type run `wstep` and two one-step
refinement lemmas.  This file composes the steps: a closed system for ONE wildcard, not
generator-managed type (CDS, LDS, NDS, the ztunnel Authorization type) whose every server decision
is taken by the functions the `book` / `equiv` / `reconn` streams tie to the real code -

  `processDelta`   (`processDeltaRequest`: `shouldRespondDelta`, the narrowing, `forceEDSPush`)
  `pushDeltaOne`   (`pushDeltaXds` + `sendDelta`, incl. the failed send)
  `processSotw`    (`processRequest`: `ShouldRespond`, narrowing)
  `pushSotwOne`    (`pushXds` + `Send`)

- and whose clients are `applyDelta` / "a wildcard SotW response replaces the set", each response
being ACKed through the same request handlers.  Histories: pushes of a new world, pushes whose send
fails (the streams break), arbitrary subscription changes of the clients, reconnects on which the
clients present what they retained (optionally the retained nonce).  `delta_eq_sotw_history`: after
EVERY prefix of EVERY history from ANY retained state, whenever the streams are up the delta client
holds exactly what the SotW client holds, which is the world.
-/
namespace IstioModel.C03
open IstioModel.C04

/-- The generator of a connection whose snapshot is `W`: full, not delta-aware. -/
def fullGen (W : List Res) : Gen := fun _ _ => fullOut W

/-! ## Plumbing -/

theorem eraseAll_changed_of_mem (res : List String) (c : Bool) (xs : List String) (x : String)
    (hx : x ∈ xs) (hr : x ∈ res) : (eraseAll res c xs).2 = true := by
  induction xs generalizing res c with
  | nil => cases hx
  | cons y ys ih =>
    simp only [eraseAll]
    by_cases h : res.contains y = true
    · simp only [h, if_true]
      exact eraseAll_changed_mono _ _
    · have hf : res.contains y = false := by simpa using h
      simp only [hf, Bool.false_eq_true, if_false]
      rcases List.mem_cons.mp hx with e | hys
      · subst e
        have : x ∉ res := by simpa using hf
        exact absurd hr this
      · exact ih res c hys hr

/-- A request that does not change the subscription erases nothing that is on record. -/
theorem deltaWatched_unchanged_no_erase (names : List String) (r : DReq)
    (h : (deltaWatched names r).2.2 = false) (x : String) (hx : x ∈ names) : x ∉ r.unsub := by
  intro hu
  have hmem : x ∈ (insertAll (insertAll names false r.sub).1 (insertAll names false r.sub).2 r.init).1 := by
    rw [mem_insertAll, mem_insertAll]
    exact Or.inl (Or.inl hx)
  have := eraseAll_changed_of_mem _ (insertAll (insertAll names false r.sub).1 (insertAll names false r.sub).2 r.init).2
    r.unsub x hu hmem
  unfold deltaWatched at h
  simp only [] at h
  rw [this] at h
  cases h

theorem managed_false_of_set (t : Ty) (hset : shouldSetWatched t = true) : t.managed = false := by
  cases t <;> simp_all [shouldSetWatched, Ty.managed, Ty.wildcard]

theorem wildcard_of_set (t : Ty) (hset : shouldSetWatched t = true) : t.wildcard = true := by
  cases t <;> simp_all [shouldSetWatched, Ty.managed, Ty.wildcard]

theorem ne_eds_of_set (t : Ty) (hset : shouldSetWatched t = true) : t ≠ .eds := by
  cases t <;> simp_all [shouldSetWatched, Ty.managed, Ty.wildcard]

/-! ## Closed forms of the tied handlers for the full generator -/

/-- `pushDeltaXds` + `sendDelta` with a successful send. -/
theorem pushDeltaOne_full (W : List Res) (v : Srv) (t : Ty) (w : WR) (sub unsub : List String)
    (hset : shouldSetWatched t = true) (hnr : neverRemove t = false)
    (hw : v.st t = some w) (hok : v.fail = false) :
    pushDeltaOne (fullGen W) v t sub unsub =
      ({ v with st := sendDelta v.st t (freshNonce v) (some (names W)) true, ctr := v.ctr + 1 },
       some { ty := t, resources := W, removed := diff (narrowedDelta t w.names sub unsub) (names W),
              nonce := freshNonce v }, false) := by
  simp [pushDeltaOne, hw, fullGen, pushDelta, GenOut.nilOut, fullOut, hnr, removedRaw, newNames, hset, hok]

/-- ... with a failing send: nothing changes, nothing reaches the client. -/
theorem pushDeltaOne_failed (W : List Res) (v : Srv) (t : Ty) (w : WR) (sub unsub : List String)
    (hw : v.st t = some w) (hfail : v.fail = true) :
    pushDeltaOne (fullGen W) v t sub unsub = (v, none, true) := by
  simp [pushDeltaOne, hw, fullGen, pushDelta, GenOut.nilOut, fullOut, hfail]

/-- A type that is not watched is not pushed. -/
theorem pushDeltaOne_unwatched (gen : Gen) (v : Srv) (t : Ty) (sub unsub : List String)
    (hw : v.st t = none) : pushDeltaOne gen v t sub unsub = (v, none, false) := by
  simp [pushDeltaOne, hw]

/-- Frame: a push of another type leaves the watch of `t` and the stream alone. -/
theorem pushDeltaOne_frame (gen : Gen) (v : Srv) (t t' : Ty) (sub unsub : List String) (h : t ≠ t') :
    (pushDeltaOne gen v t' sub unsub).1.st t = v.st t ∧ (pushDeltaOne gen v t' sub unsub).1.fail = v.fail := by
  unfold pushDeltaOne
  cases hw : v.st t' with
  | none => simp
  | some w =>
    simp only []
    cases hp : pushDelta t' (narrowedDelta t' w.names sub unsub) (gen t' (narrowedDelta t' w.names sub unsub)) with
    | none => simp
    | some x =>
      obtain ⟨resp, nn⟩ := x
      simp only []
      by_cases hf : v.fail = true
      · simp [hf]
      · have hff : v.fail = false := by simpa using hf
        simp only [hff, Bool.false_eq_true, if_false]
        unfold sendDelta
        simp [State.set, h]

theorem pushSotwOne_full (W : List Res) (v : Srv) (t : Ty) (w : WR) (sub : List String)
    (hw : v.st t = some w) (hok : v.fail = false) :
    pushSotwOne (fullGen W) v t sub =
      ({ v with st := send v.st t (freshNonce v) true, ctr := v.ctr + 1 },
       some { ty := t, resources := W, removed := [], nonce := freshNonce v }, false) := by
  simp [pushSotwOne, hw, fullGen, pushSotw, fullOut, hok]

theorem pushSotwOne_failed (W : List Res) (v : Srv) (t : Ty) (w : WR) (sub : List String)
    (hw : v.st t = some w) (hfail : v.fail = true) :
    pushSotwOne (fullGen W) v t sub = (v, none, true) := by
  simp [pushSotwOne, hw, fullGen, pushSotw, fullOut, hfail]

theorem freshNonce_ne_empty (v : Srv) : freshNonce v ≠ "" := by
  unfold freshNonce
  intro h
  have : ("N" ++ toString (v.ctr + 1)).length = 0 := by rw [h]; rfl
  simp [String.length_append] at this

theorem pushDeltaOne_wire_ty (gen : Gen) (v : Srv) (t : Ty) (sub unsub : List String) (w : Wire)
    (h : (pushDeltaOne gen v t sub unsub).2.1 = some w) : w.ty = t := by
  unfold pushDeltaOne at h
  cases hw : v.st t with
  | none => simp [hw] at h
  | some wr =>
    simp only [hw] at h
    cases hp : pushDelta t (narrowedDelta t wr.names sub unsub) (gen t (narrowedDelta t wr.names sub unsub)) with
    | none => simp [hp] at h
    | some x =>
      obtain ⟨resp, nn⟩ := x
      simp only [hp] at h
      by_cases hf : v.fail = true
      · simp [hf] at h
      · have hff : v.fail = false := by simpa using hf
        simp only [hff, Bool.false_eq_true, if_false, Option.some.injEq] at h
        rw [← h]

/-! ## The clients -/

/-- The delta client applies the responses of its type (responses of other types belong to the
    client state of those types). -/
def applyWiresD (t : Ty) (h : Held) (ws : List Wire) : Held :=
  ws.foldl (fun h w => if w.ty = t then applyDelta h { resources := w.resources, removed := w.removed } else h) h

/-- The SotW client, wildcard type: a response replaces the set. -/
def applyWiresS (t : Ty) (h : Held) (ws : List Wire) : Held :=
  ws.foldl (fun h w => if w.ty = t then applySotwWild h w.resources else h) h

/-- The nonce of the last response of type `t` (what the client echoes in its ACK). -/
def lastNonce (t : Ty) (n : String) (ws : List Wire) : String :=
  ws.foldl (fun n w => if w.ty = t then w.nonce else n) n

/-! ## One request of the delta client -/

/-- What holds of the delta connection and its client while the stream is up: the send works, the
    type is watched, every name the client holds is on record, and the client holds `W`. -/
structure GoodD (t : Ty) (v : Srv) (held : Held) (W : List Res) : Prop where
  ok : v.fail = false
  watch : ∃ w, v.st t = some w ∧ ∀ n ∈ names held, n ∈ w.names
  sync : InSync held W

theorem shouldRespondDelta_watched (s : State) (r : DReq) (prev : WR)
    (herr : r.err = none) (hprev : s r.ty = some prev) :
    shouldRespondDelta s r = .out false s ∨
    ∃ d, shouldRespondDelta s r =
      .out (deltaChanged prev r || prev.always) (s.set r.ty (some (deltaUpdateG d prev r))) := by
  by_cases hn : r.nonce = ""
  · exact Or.inr ⟨false, delta_fresh_branch s r prev herr hprev (Or.inl hn)⟩
  · by_cases hcur : r.nonce = prev.nonceSent
    · exact Or.inr ⟨false, delta_fresh_branch s r prev herr hprev (Or.inr hcur)⟩
    · cases hc : r.carries with
      | false => exact Or.inl (delta_stale_nonce_silent s r prev herr hprev hn hcur hc)
      | true => exact Or.inr ⟨true, delta_stale_sub_change_applied s r prev herr hprev hn hcur hc⟩

/-- `processDeltaRequest` once `shouldRespondDelta` said "answer". -/
theorem processDelta_answered (gen : Gen) (v : Srv) (r : DReq) (s' : State)
    (h : shouldRespondDelta v.st r = .out true s') :
    processDelta gen v r =
      if (pushDeltaOne gen { v with st := s' } r.ty (deltaWatched [] r).1 (r.unsub.filter (· ≠ "*"))).2.2 || r.ty ≠ .cds then
        some ((pushDeltaOne gen { v with st := s' } r.ty (deltaWatched [] r).1 (r.unsub.filter (· ≠ "*"))).1,
              (pushDeltaOne gen { v with st := s' } r.ty (deltaWatched [] r).1 (r.unsub.filter (· ≠ "*"))).2.1.toList)
      else
        some ((pushDeltaOne gen (pushDeltaOne gen { v with st := s' } r.ty (deltaWatched [] r).1 (r.unsub.filter (· ≠ "*"))).1 .eds [] []).1,
              (pushDeltaOne gen { v with st := s' } r.ty (deltaWatched [] r).1 (r.unsub.filter (· ≠ "*"))).2.1.toList ++
              (pushDeltaOne gen (pushDeltaOne gen { v with st := s' } r.ty (deltaWatched [] r).1 (r.unsub.filter (· ≠ "*"))).1 .eds [] []).2.1.toList) := by
  unfold processDelta
  rw [h]

/-- **Any request of the delta client on a healthy stream** - an ACK (current or stale nonce), a
    subscription change (subscribe and / or unsubscribe, attached to an ACK or spontaneous) - is
    handled by `processDeltaRequest` so that the client stays in sync with the snapshot and covered
    by the record, whether or not it is answered. -/
theorem processDelta_good (t : Ty) (hset : shouldSetWatched t = true) (hnr : neverRemove t = false)
    (W : List Res) (hstar : "*" ∉ names W) (v : Srv) (held : Held) (r : DReq)
    (hty : r.ty = t) (herr : r.err = none) (hg : GoodD t v held W) :
    ∃ v' ws, processDelta (fullGen W) v r = some (v', ws) ∧ GoodD t v' (applyWiresD t held ws) W := by
  obtain ⟨hok, ⟨prev, hprev, hcover⟩, hsync⟩ := hg
  have hman := managed_false_of_set t hset
  subst hty
  have hheldW : ∀ n ∈ names held, n ∈ names W := names_subset_of_sync held W hsync
  rcases shouldRespondDelta_watched v.st r prev herr hprev with hsil | ⟨d, hsr⟩
  · -- dropped: nothing changes
    refine ⟨{ v with st := v.st }, [], by simp [processDelta, hsil], ?_⟩
    exact ⟨hok, ⟨prev, hprev, hcover⟩, hsync⟩
  · cases hb : (deltaChanged prev r || prev.always) with
    | false =>
      -- not answered: the record is updated by the (empty) change; nothing on record was erased
      rw [hb] at hsr
      refine ⟨{ v with st := v.st.set r.ty (some (deltaUpdateG d prev r)) }, [], by simp [processDelta, hsr], ?_⟩
      refine ⟨hok, ⟨deltaUpdateG d prev r, by simp, ?_⟩, hsync⟩
      intro n hn
      rw [deltaUpdateG_names]
      unfold deltaNames
      simp only [hman, Bool.false_and, Bool.false_eq_true, if_false]
      rw [mem_deltaWatched]
      have hch : deltaChanged prev r = false := by
        cases h1 : deltaChanged prev r with
        | false => rfl
        | true => simp [h1] at hb
      have hch' : (deltaWatched prev.names r).2.2 = false := by
        unfold deltaChanged at hch
        simpa [hman] using hch
      refine ⟨Or.inl (hcover n hn), deltaWatched_unchanged_no_erase prev.names r hch' n (hcover n hn), ?_⟩
      intro e
      subst e
      exact hstar (hheldW _ hn)
    | true =>
      rw [hb] at hsr
      -- answered: one full response for the type (and the forced EDS push after a CDS request)
      let s' := v.st.set r.ty (some (deltaUpdateG d prev r))
      let v0 : Srv := { v with st := s' }
      have hw0 : v0.st r.ty = some (deltaUpdateG d prev r) := by simp [v0, s']
      have hpush := pushDeltaOne_full W v0 r.ty (deltaUpdateG d prev r) (deltaWatched [] r).1
        (r.unsub.filter (· ≠ "*")) hset hnr hw0 hok
      let v1 : Srv := { v0 with st := sendDelta v0.st r.ty (freshNonce v0) (some (names W)) true, ctr := v0.ctr + 1 }
      let rem := diff (narrowedDelta r.ty (deltaUpdateG d prev r).names (deltaWatched [] r).1 (r.unsub.filter (· ≠ "*"))) (names W)
      let wire : Wire := { ty := r.ty, resources := W, removed := rem, nonce := freshNonce v0 }
      have hheld1 : InSync (applyDelta held { resources := wire.resources, removed := wire.removed }) W :=
        sync_applyDelta_same held W _ hsync
      have hv1 : ∃ w, v1.st r.ty = some w ∧ w.names = names W := by
        refine ⟨{ (deltaUpdateG d prev r) with names := names W, nonceSent := freshNonce v0 }, ?_, rfl⟩
        simp [v1, sendDelta, hw0]
      have hgood1 : GoodD r.ty v1 (applyDelta held { resources := wire.resources, removed := wire.removed }) W := by
        obtain ⟨w1, hw1, hn1⟩ := hv1
        refine ⟨hok, ⟨w1, hw1, ?_⟩, hheld1⟩
        intro n hn
        rw [hn1]
        exact names_subset_of_sync _ W hheld1 n hn
      by_cases hcds : r.ty = .cds
      · -- forceEDSPush
        refine ⟨(pushDeltaOne (fullGen W) v1 .eds [] []).1, [wire] ++ (pushDeltaOne (fullGen W) v1 .eds [] []).2.1.toList, ?_, ?_⟩
        · rw [processDelta_answered _ _ _ _ hsr, hpush]
          simp [v1, v0, s', wire, rem, hcds]
        · have hne : r.ty ≠ .eds := ne_eds_of_set r.ty hset
          obtain ⟨hfr1, hfr2⟩ := pushDeltaOne_frame (fullGen W) v1 r.ty .eds [] [] hne
          have happly : applyWiresD r.ty held ([wire] ++ (pushDeltaOne (fullGen W) v1 .eds [] []).2.1.toList)
              = applyDelta held { resources := wire.resources, removed := wire.removed } := by
            cases hw2 : (pushDeltaOne (fullGen W) v1 .eds [] []).2.1 with
            | none => simp [applyWiresD, wire]
            | some w2 =>
              have hty2 : w2.ty = .eds := pushDeltaOne_wire_ty _ _ _ _ _ w2 hw2
              have : ¬ (w2.ty = r.ty) := by rw [hty2]; exact fun e => hne e.symm
              simp [applyWiresD, wire, this]
          rw [happly]
          obtain ⟨hok1, ⟨w1, hw1, hc1⟩, hs1⟩ := hgood1
          exact ⟨by rw [hfr2]; exact hok1, ⟨w1, by rw [hfr1]; exact hw1, hc1⟩, hs1⟩
      · refine ⟨v1, [wire], ?_, ?_⟩
        · rw [processDelta_answered _ _ _ _ hsr, hpush]
          simp [v1, v0, s', wire, rem, hcds]
        · have : applyWiresD r.ty held [wire] = applyDelta held { resources := wire.resources, removed := wire.removed } := by
            simp [applyWiresD, wire]
          rw [this]
          exact hgood1

/-- **The first request of a type on a stream** (fresh connection or reconnect), reporting what the
    client retained in `initial_resource_versions`, whatever nonce it presents: the answer removes
    what ceased to exist and brings the client to the snapshot. -/
theorem processDelta_first_good (t : Ty) (hset : shouldSetWatched t = true) (hnr : neverRemove t = false)
    (W : List Res) (v : Srv) (held : Held) (sub : List String) (nonce : String)
    (hnone : v.st t = none) (hok : v.fail = false) (hstarH : "*" ∉ names held) :
    ∃ v' ws, processDelta (fullGen W) v { ty := t, sub := sub, unsub := [], init := names held, nonce := nonce, err := none }
        = some (v', ws) ∧ GoodD t v' (applyWiresD t held ws) W := by
  have hman := managed_false_of_set t hset
  let r : DReq := { ty := t, sub := sub, unsub := [], init := names held, nonce := nonce, err := none }
  let rec0 := (deltaWatched [] r).1
  let w0 : WR := { names := rec0, wildcard := (deltaWatched [] r).2.1 }
  have hsr : shouldRespondDelta v.st r = .out true (v.st.set t (some w0)) := by
    rw [delta_unwatched_is_first_request v.st r hnone]
    simp [r, hman, w0, rec0]
  let v0 : Srv := { v with st := v.st.set t (some w0) }
  have hw0 : v0.st r.ty = some w0 := by simp [v0, r]
  have hpush := pushDeltaOne_full W v0 r.ty w0 (deltaWatched [] r).1 (r.unsub.filter (· ≠ "*")) hset hnr hw0 hok
  have hnarrow : narrowedDelta r.ty w0.names (deltaWatched [] r).1 (r.unsub.filter (· ≠ "*")) = rec0 := by
    unfold narrowedDelta
    split <;> rfl
  rw [hnarrow] at hpush
  have hcover : ∀ n ∈ names held, n ∈ rec0 := by
    intro n hn
    simp only [rec0]
    rw [mem_deltaWatched]
    refine ⟨Or.inr (Or.inr hn), by simp [r], ?_⟩
    intro e
    subst e
    exact hstarH hn
  let v1 : Srv := { v0 with st := sendDelta v0.st r.ty (freshNonce v0) (some (names W)) true, ctr := v0.ctr + 1 }
  let wire : Wire := { ty := r.ty, resources := W, removed := diff rec0 (names W), nonce := freshNonce v0 }
  have hheld1 : InSync (applyDelta held { resources := wire.resources, removed := wire.removed }) W :=
    sync_applyDelta_cover held W rec0 hcover
  have hgood1 : GoodD t v1 (applyDelta held { resources := wire.resources, removed := wire.removed }) W := by
    refine ⟨hok, ⟨{ w0 with names := names W, nonceSent := freshNonce v0 }, ?_, ?_⟩, hheld1⟩
    · simp [v1, sendDelta, v0, r]
    · intro n hn
      exact names_subset_of_sync _ W hheld1 n hn
  by_cases hcds : t = .cds
  · refine ⟨(pushDeltaOne (fullGen W) v1 .eds [] []).1, [wire] ++ (pushDeltaOne (fullGen W) v1 .eds [] []).2.1.toList, ?_, ?_⟩
    · show processDelta (fullGen W) v r = _
      rw [processDelta_answered _ _ _ _ hsr, hpush]
      simp [v1, v0, wire, r, hcds]
    · have hne : t ≠ .eds := ne_eds_of_set t hset
      obtain ⟨hfr1, hfr2⟩ := pushDeltaOne_frame (fullGen W) v1 t .eds [] [] hne
      have happly : applyWiresD t held ([wire] ++ (pushDeltaOne (fullGen W) v1 .eds [] []).2.1.toList)
          = applyDelta held { resources := wire.resources, removed := wire.removed } := by
        cases hw2 : (pushDeltaOne (fullGen W) v1 .eds [] []).2.1 with
        | none => simp [applyWiresD, wire, r]
        | some w2 =>
          have hty2 : w2.ty = .eds := pushDeltaOne_wire_ty _ _ _ _ _ w2 hw2
          have : ¬ (w2.ty = t) := by rw [hty2]; exact fun e => hne e.symm
          simp [applyWiresD, wire, r, this]
      rw [happly]
      obtain ⟨hok1, ⟨w1, hw1, hc1⟩, hs1⟩ := hgood1
      exact ⟨by rw [hfr2]; exact hok1, ⟨w1, by rw [hfr1]; exact hw1, hc1⟩, hs1⟩
  · refine ⟨v1, [wire], ?_, ?_⟩
    · show processDelta (fullGen W) v r = _
      rw [processDelta_answered _ _ _ _ hsr, hpush]
      simp [v1, v0, wire, r, hcds]
    · have : applyWiresD t held [wire] = applyDelta held { resources := wire.resources, removed := wire.removed } := by
        simp [applyWiresD, wire, r]
      rw [this]
      exact hgood1

/-- **A push of a new snapshot on a healthy stream**: the response removes exactly the recorded
    names that ceased to exist, the client ends in sync with the new snapshot. -/
theorem pushDeltaOne_good (t : Ty) (hset : shouldSetWatched t = true) (hnr : neverRemove t = false)
    (Wold W : List Res) (v : Srv) (held : Held) (hg : GoodD t v held Wold) :
    ∃ v' wire, pushDeltaOne (fullGen W) v t [] [] = (v', some wire, false) ∧ wire.ty = t ∧
      GoodD t v' (applyDelta held { resources := wire.resources, removed := wire.removed }) W := by
  obtain ⟨hok, ⟨w, hw, hcover⟩, _⟩ := hg
  have hman := managed_false_of_set t hset
  have hpush := pushDeltaOne_full W v t w [] [] hset hnr hw hok
  have hnarrow : narrowedDelta t w.names [] [] = w.names := by simp [narrowedDelta]
  rw [hnarrow] at hpush
  have hheld1 : InSync (applyDelta held { resources := W, removed := diff w.names (names W) }) W :=
    sync_applyDelta_cover held W w.names hcover
  refine ⟨_, _, hpush, rfl, hok, ⟨{ w with names := names W, nonceSent := freshNonce v }, ?_, ?_⟩, hheld1⟩
  · simp [sendDelta, hw]
  · intro n hn
    exact names_subset_of_sync _ W hheld1 n hn

/-! ## The SotW connection -/

/-- `processRequest` once `ShouldRespond` said "answer": the type is watched afterwards, so the
    full generator's answer goes out. -/
theorem processSotw_answered (W : List Res) (v : Srv) (r : Req) (sub : List String) (s' : State) (w : WR)
    (h : shouldRespond v.st r = .out true sub s') (hw : s' r.ty = some w) (hok : v.fail = false) :
    processSotw (fullGen W) v r =
      some ({ v with st := send s' r.ty (freshNonce v) true, ctr := v.ctr + 1 },
            [{ ty := r.ty, resources := W, removed := [], nonce := freshNonce v }]) := by
  unfold processSotw
  rw [h]
  have := pushSotwOne_full W { v with st := s' } r.ty w sub hw hok
  simp only [] at this ⊢
  rw [this]
  rfl

theorem send_watch (s : State) (t : Ty) (n : String) (w : WR) (hw : s t = some w) (hn : n ≠ "") :
    (send s t n true) t = some { w with nonceSent := n } := by
  simp [send, hn, hw]

/-- **Any request of the SotW client** (first request, re-sent request after a reconnect with or
    without the retained nonce, ACK, subscription change): the type is watched afterwards and every
    response carries the whole snapshot. -/
theorem processSotw_good (t : Ty) (hwild : t.wildcard = true) (W : List Res) (v : Srv) (r : Req)
    (hty : r.ty = t) (herr : r.err = none) (hok : v.fail = false) :
    ∃ v' ws, processSotw (fullGen W) v r = some (v', ws) ∧ v'.fail = false ∧ (v'.st t).isSome = true ∧
      (∀ w ∈ ws, w.ty = t ∧ w.resources = W) ∧ (v.st t = none → ws ≠ []) := by
  subst hty
  have hun : r.unsub = false := by simp [Req.unsub, hwild]
  have hfn := freshNonce_ne_empty v
  -- the shapes of the decision (C04.respond_shapes): not answered and the watch stays, or answered and the
  -- type is watched afterwards
  have key := respond_shapes v.st r herr hun
  rcases key with ⟨s', hs, hsome, hprev⟩ | ⟨sub, s', w, hs, hw⟩
  · refine ⟨{ v with st := s' }, [], by simp [processSotw, hs], hok, hsome, by simp, ?_⟩
    intro hnone
    rw [hnone] at hprev
    cases hprev
  · refine ⟨_, _, processSotw_answered W v r sub s' w hs hw hok, hok, ?_, ?_, by simp⟩
    · simp [send_watch s' r.ty (freshNonce v) w hw hfn]
    · intro x hx
      simp only [List.mem_singleton] at hx
      subst hx
      exact ⟨rfl, rfl⟩

/-- A push on the SotW connection: the whole snapshot. -/
theorem pushSotwOne_good (t : Ty) (W : List Res) (v : Srv) (hok : v.fail = false) (hw : (v.st t).isSome = true) :
    ∃ v' wire, pushSotwOne (fullGen W) v t [] = (v', some wire, false) ∧ wire.ty = t ∧ wire.resources = W ∧
      v'.fail = false ∧ (v'.st t).isSome = true := by
  cases hp : v.st t with
  | none => simp [hp] at hw
  | some w =>
    refine ⟨_, _, pushSotwOne_full W v t w [] hp hok, rfl, rfl, hok, ?_⟩
    simp [send_watch v.st t (freshNonce v) w hp (freshNonce_ne_empty v)]

theorem pushDeltaOne_fail_none (gen : Gen) (v : Srv) (t : Ty) (sub unsub : List String) (hf : v.fail = true) :
    (pushDeltaOne gen v t sub unsub).2.1 = none := by
  unfold pushDeltaOne
  cases v.st t with
  | none => rfl
  | some w =>
    simp only []
    cases pushDelta t (narrowedDelta t w.names sub unsub) (gen t (narrowedDelta t w.names sub unsub)) with
    | none => rfl
    | some x => simp [hf]

theorem pushSotwOne_fail_none (gen : Gen) (v : Srv) (t : Ty) (sub : List String) (hf : v.fail = true) :
    (pushSotwOne gen v t sub).2.1 = none := by
  unfold pushSotwOne
  cases v.st t with
  | none => rfl
  | some w =>
    simp only []
    cases pushSotw (gen t (narrowedSotw w.names sub)) with
    | none => rfl
    | some x => simp [hf]

/-! ## The closed system and its histories -/

/-- Server side of the two connections of one proxy, the snapshot they see, and the two clients
    (what they hold of type `t`, the last nonce they saw, the names the SotW client lists). -/
structure HSt where
  dsrv : Srv := {}
  ssrv : Srv := {}
  world : List Res := []
  heldD : Held := []
  heldS : Held := []
  nonceD : String := ""
  nonceS : String := ""
  subS : List String := []
  up : Bool := false

inductive HOp
  /-- the snapshot becomes `W`; it is pushed to both connections; the clients apply and ACK -/
  | push (W : List Res)
  /-- the snapshot becomes `W`; the send fails on both streams: nothing arrives, the streams break -/
  | pushLost (W : List Res)
  /-- the clients change their subscription (delta: subscribe / unsubscribe lists; SotW: the new name list) -/
  | request (sub unsub : List String)
  /-- the streams are (re-)established: the server forgot everything; the delta client reports what
      it holds, the SotW client re-sends its names; both may present the nonce they retained; `legacy`: the
      delta client uses the legacy wildcard (no `resource_names_subscribe` at all) instead of `*` -/
  | reconnect (keepNonce : Bool) (legacy : Bool := false)

def HOp.wf : HOp → Prop
  | .push W => "*" ∉ names W
  | .pushLost W => "*" ∉ names W
  | _ => True

def ackReq (t : Ty) (n : String) : DReq := { ty := t, sub := [], unsub := [], init := [], nonce := n, err := none }

/-- The delta client receives responses: it applies those of its type and ACKs (the nonce of the last
    one); whatever the ACK triggers is applied as well. -/
def deliverD (t : Ty) (W : List Res) (v : Srv) (held : Held) (n : String) (ws : List Wire) : Srv × Held × String :=
  let held1 := applyWiresD t held ws
  let n1 := lastNonce t n ws
  if ws.any (fun w => w.ty = t) then
    match processDelta (fullGen W) v (ackReq t n1) with
    | some x => (x.1, applyWiresD t held1 x.2, lastNonce t n1 x.2)
    | none => (v, held1, n1)
  else (v, held1, n1)

def deliverS (t : Ty) (W : List Res) (v : Srv) (held : Held) (n : String) (nm : List String) (ws : List Wire) :
    Srv × Held × String :=
  let held1 := applyWiresS t held ws
  let n1 := lastNonce t n ws
  if ws.any (fun w => w.ty = t) then
    match processSotw (fullGen W) v { ty := t, names := nm, nonce := n1, err := none } with
    | some x => (x.1, applyWiresS t held1 x.2, lastNonce t n1 x.2)
    | none => (v, held1, n1)
  else (v, held1, n1)

def hstep (t : Ty) (y : HSt) : HOp → HSt
  | .push W =>
    if y.up then
      let d := pushDeltaOne (fullGen W) y.dsrv t [] []
      let dd := deliverD t W d.1 y.heldD y.nonceD d.2.1.toList
      let s := pushSotwOne (fullGen W) y.ssrv t []
      let ss := deliverS t W s.1 y.heldS y.nonceS y.subS s.2.1.toList
      { y with world := W, dsrv := dd.1, heldD := dd.2.1, nonceD := dd.2.2, ssrv := ss.1, heldS := ss.2.1, nonceS := ss.2.2 }
    else { y with world := W }
  | .pushLost W =>
    let d := pushDeltaOne (fullGen W) { y.dsrv with fail := true } t [] []
    let s := pushSotwOne (fullGen W) { y.ssrv with fail := true } t []
    { y with world := W, up := false, dsrv := d.1, ssrv := s.1,
             heldD := applyWiresD t y.heldD d.2.1.toList, heldS := applyWiresS t y.heldS s.2.1.toList }
  | .request sub unsub =>
    if y.up then
      let nm := (union y.subS sub).filter (fun x => !unsub.contains x)
      let d := match processDelta (fullGen y.world) y.dsrv { ty := t, sub := sub, unsub := unsub, init := [], nonce := "", err := none } with
        | some x => deliverD t y.world x.1 y.heldD y.nonceD x.2
        | none => (y.dsrv, y.heldD, y.nonceD)
      let s := match processSotw (fullGen y.world) y.ssrv { ty := t, names := nm, nonce := y.nonceS, err := none } with
        | some x => deliverS t y.world x.1 y.heldS y.nonceS nm x.2
        | none => (y.ssrv, y.heldS, y.nonceS)
      { y with dsrv := d.1, heldD := d.2.1, nonceD := d.2.2, ssrv := s.1, heldS := s.2.1, nonceS := s.2.2, subS := nm }
    else y
  | .reconnect keep legacy =>
    let dv : Srv := { ctr := y.dsrv.ctr }
    let sv : Srv := { ctr := y.ssrv.ctr }
    let d := match processDelta (fullGen y.world) dv
        { ty := t, sub := if legacy then [] else ["*"], unsub := [], init := names y.heldD,
          nonce := if keep then y.nonceD else "", err := none } with
      | some x => deliverD t y.world x.1 y.heldD y.nonceD x.2
      | none => (dv, y.heldD, y.nonceD)
    let s := match processSotw (fullGen y.world) sv { ty := t, names := y.subS, nonce := if keep then y.nonceS else "", err := none } with
      | some x => deliverS t y.world x.1 y.heldS y.nonceS y.subS x.2
      | none => (sv, y.heldS, y.nonceS)
    { y with up := true, dsrv := d.1, heldD := d.2.1, nonceD := d.2.2, ssrv := s.1, heldS := s.2.1, nonceS := s.2.2 }

/-- What holds of the SotW connection and its client while the stream is up. -/
structure GoodS (t : Ty) (v : Srv) (held : Held) (W : List Res) : Prop where
  ok : v.fail = false
  watch : (v.st t).isSome = true
  sync : InSync held W

theorem deliverD_good (t : Ty) (hset : shouldSetWatched t = true) (hnr : neverRemove t = false)
    (W : List Res) (hstar : "*" ∉ names W) (v : Srv) (held : Held) (n : String) (ws : List Wire)
    (hg : GoodD t v (applyWiresD t held ws) W) :
    GoodD t (deliverD t W v held n ws).1 (deliverD t W v held n ws).2.1 W := by
  unfold deliverD
  simp only []
  split
  · obtain ⟨v', ws', hp, hg'⟩ := processDelta_good t hset hnr W hstar v (applyWiresD t held ws)
      (ackReq t (lastNonce t n ws)) rfl rfl hg
    rw [hp]
    exact hg'
  · exact hg

theorem applyWiresS_all (t : Ty) (W : List Res) (held : Held) (ws : List Wire)
    (hall : ∀ w ∈ ws, w.ty = t ∧ w.resources = W) (hsync : ws = [] → InSync held W) :
    InSync (applyWiresS t held ws) W := by
  induction ws generalizing held with
  | nil => exact hsync rfl
  | cons w ws ih =>
    have hw := hall w (by simp)
    simp only [applyWiresS, List.foldl_cons, hw.1, if_true, applySotwWild, hw.2]
    apply ih
    · intro x hx
      exact hall x (List.mem_cons_of_mem _ hx)
    · intro _ _
      rfl

theorem deliverS_good (t : Ty) (hwild : t.wildcard = true) (W : List Res) (v : Srv) (held : Held) (n : String)
    (nm : List String) (ws : List Wire)
    (hok : v.fail = false) (hw : (v.st t).isSome = true) (hsync : InSync (applyWiresS t held ws) W) :
    GoodS t (deliverS t W v held n nm ws).1 (deliverS t W v held n nm ws).2.1 W := by
  unfold deliverS
  simp only []
  split
  · obtain ⟨v', ws', hp, hok', hw', hall, _⟩ := processSotw_good t hwild W v
      { ty := t, names := nm, nonce := lastNonce t n ws, err := none } rfl rfl hok
    rw [hp]
    exact ⟨hok', hw', applyWiresS_all t W _ ws' hall (fun _ => hsync)⟩
  · exact ⟨hok, hw, hsync⟩

/-- The invariant of the closed system. -/
def HInv (t : Ty) (y : HSt) : Prop :=
  "*" ∉ names y.world ∧ "*" ∉ names y.heldD ∧
  (y.up = true → GoodD t y.dsrv y.heldD y.world ∧ GoodS t y.ssrv y.heldS y.world)

theorem star_not_held (held : Held) (W : List Res) (hstar : "*" ∉ names W) (hsync : InSync held W) :
    "*" ∉ names held := fun h => hstar (names_subset_of_sync held W hsync _ h)

theorem hstep_inv (t : Ty) (hset : shouldSetWatched t = true) (hnr : neverRemove t = false)
    (y : HSt) (op : HOp) (hwf : op.wf) (h : HInv t y) : HInv t (hstep t y op) := by
  have hwild := wildcard_of_set t hset
  obtain ⟨hsw, hsh, hup⟩ := h
  cases op with
  | push W =>
    have hW : "*" ∉ names W := hwf
    cases hu : y.up with
    | false =>
      simp only [hstep, hu, Bool.false_eq_true, if_false]
      exact ⟨hW, hsh, by intro h; simp at h⟩
    | true =>
      obtain ⟨hgd, hgs⟩ := hup hu
      obtain ⟨dv, dwire, hdp, hdty, hgd1⟩ := pushDeltaOne_good t hset hnr y.world W y.dsrv y.heldD hgd
      obtain ⟨sv, swire, hsp, hsty, hsres, hsok, hsw1⟩ := pushSotwOne_good t W y.ssrv hgs.ok hgs.watch
      have hda : applyWiresD t y.heldD [dwire] = applyDelta y.heldD { resources := dwire.resources, removed := dwire.removed } := by
        simp [applyWiresD, hdty]
      have hgd2 := deliverD_good t hset hnr W hW dv y.heldD y.nonceD [dwire] (by rw [hda]; exact hgd1)
      have hsa : InSync (applyWiresS t y.heldS [swire]) W :=
        applyWiresS_all t W y.heldS [swire] (by intro w hw; simp at hw; subst hw; exact ⟨hsty, hsres⟩) (by intro h; cases h)
      have hgs2 := deliverS_good t hwild W sv y.heldS y.nonceS y.subS [swire] hsok hsw1 hsa
      simp only [hstep, hu, if_true, hdp, hsp, Option.toList]
      exact ⟨hW, star_not_held _ W hW hgd2.sync, fun _ => ⟨hgd2, hgs2⟩⟩
  | pushLost W =>
    have hW : "*" ∉ names W := hwf
    have hd := pushDeltaOne_fail_none (fullGen W) { y.dsrv with fail := true } t [] [] rfl
    simp only [hstep, hd, Option.toList, applyWiresD, List.foldl_nil]
    exact ⟨hW, hsh, by intro h; cases h⟩
  | request sub unsub =>
    cases hu : y.up with
    | false =>
      simp only [hstep, hu, Bool.false_eq_true, if_false]
      exact ⟨hsw, hsh, by intro h; simp [hu] at h⟩
    | true =>
      obtain ⟨hgd, hgs⟩ := hup hu
      obtain ⟨dv, dws, hdp, hgd1⟩ := processDelta_good t hset hnr y.world hsw y.dsrv y.heldD
        { ty := t, sub := sub, unsub := unsub, init := [], nonce := "", err := none } rfl rfl hgd
      have hgd2 := deliverD_good t hset hnr y.world hsw dv y.heldD y.nonceD dws hgd1
      obtain ⟨sv, sws, hsp, hsok, hsw1, hsall, _⟩ := processSotw_good t hwild y.world y.ssrv
        { ty := t, names := (union y.subS sub).filter (fun x => !unsub.contains x), nonce := y.nonceS, err := none } rfl rfl hgs.ok
      have hsa : InSync (applyWiresS t y.heldS sws) y.world :=
        applyWiresS_all t y.world y.heldS sws hsall (fun _ => hgs.sync)
      have hgs2 := deliverS_good t hwild y.world sv y.heldS y.nonceS
        ((union y.subS sub).filter (fun x => !unsub.contains x)) sws hsok hsw1 hsa
      simp only [hstep, hu, if_true, hdp, hsp]
      exact ⟨hsw, star_not_held _ y.world hsw hgd2.sync, fun _ => ⟨hgd2, hgs2⟩⟩
  | reconnect keep legacy =>
    obtain ⟨dv, dws, hdp, hgd1⟩ := processDelta_first_good t hset hnr y.world { ctr := y.dsrv.ctr } y.heldD
      (if legacy then [] else ["*"])
      (if keep then y.nonceD else "") rfl rfl hsh
    have hgd2 := deliverD_good t hset hnr y.world hsw dv y.heldD y.nonceD dws hgd1
    obtain ⟨sv, sws, hsp, hsok, hsw1, hsall, hne⟩ := processSotw_good t hwild y.world { ctr := y.ssrv.ctr }
      { ty := t, names := y.subS, nonce := if keep then y.nonceS else "", err := none } rfl rfl rfl
    have hsa : InSync (applyWiresS t y.heldS sws) y.world :=
      applyWiresS_all t y.world y.heldS sws hsall (fun e => absurd e (hne rfl))
    have hgs2 := deliverS_good t hwild y.world sv y.heldS y.nonceS y.subS sws hsok hsw1 hsa
    simp only [hstep, hdp, hsp]
    exact ⟨hsw, star_not_held _ y.world hsw hgd2.sync, fun _ => ⟨hgd2, hgs2⟩⟩

/-- **Delta = SotW after every prefix of every history, over the tied handlers.**  From ANY state of
    the two clients (whatever they retained) with the streams down, after any sequence of pushes,
    lost pushes, subscription changes and reconnects - every server decision taken by
    `processDelta` / `pushDeltaOne` / `processSotw` / `pushSotwOne`, every response ACKed through the
    same handlers - whenever the streams are up the delta client holds exactly what the SotW client
    holds, and that is the snapshot.  Scope: `t` is any wildcard, not generator-managed type, but the premise
    "the generator is full and not delta-aware" (`fullGen`) is what the REAL code does only for LDS, NDS, and CDS on
    forced pushes / requests (`BuildDeltaClusters` answers non-forced pushes with `usedDelta`; the Authorization
    generator always does: for it see `wauth_*` in WdsTheorems.lean).  Only type `t` is watched in this system, so
    the forced EDS push after a CDS request is the no-op branch here (`book` ties it, e2e c05 / c03 `creconn`
    observe it).  The snapshots contain no resource named `*`. -/
theorem delta_eq_sotw_history (t : Ty) (hset : shouldSetWatched t = true) (hnr : neverRemove t = false)
    (y0 : HSt) (hdown : y0.up = false) (hw0 : "*" ∉ names y0.world) (hh0 : "*" ∉ names y0.heldD)
    (ops : List HOp) (hwf : ∀ op ∈ ops, op.wf) :
    let y := ops.foldl (hstep t) y0
    y.up = true → ∀ n, get y.heldD n = get y.heldS n ∧ get y.heldD n = get y.world n := by
  intro y hup
  have h0 : HInv t y0 := ⟨hw0, hh0, by intro h; simp [hdown] at h⟩
  have hinv : HInv t y := by
    have : ∀ (l : List HOp) (x : HSt), (∀ op ∈ l, op.wf) → HInv t x → HInv t (l.foldl (hstep t) x) := by
      intro l
      induction l with
      | nil => intro x _ hx; exact hx
      | cons op l ih =>
        intro x hl hx
        exact ih _ (fun o ho => hl o (List.mem_cons_of_mem _ ho)) (hstep_inv t hset hnr x op (hl op (by simp)) hx)
    exact this ops y0 hwf h0
  obtain ⟨hgd, hgs⟩ := hinv.2.2 hup
  intro n
  exact ⟨by rw [hgd.sync n, hgs.sync n], hgd.sync n⟩

/-! ### Non-vacuity: a concrete history through the handlers -/

example : shouldSetWatched .cds = true ∧ neverRemove .cds = false ∧ shouldSetWatched .wauth = true := by decide

/-- CDS: a client retaining a deleted cluster reconnects (with its old nonce), a push is lost, it
    reconnects again, subscribes to a name explicitly, and a further push deletes a cluster. -/
example :
    let y0 : HSt := { world := [("a", 2), ("b", 1)], heldD := [("old", 1), ("a", 1)], heldS := [("old", 1), ("a", 1)] }
    let y := [HOp.reconnect true, .pushLost [("a", 3), ("b", 1), ("c", 1)], .reconnect false true, .request ["b"] [],
              .push [("a", 3), ("c", 2)]].foldl (hstep .cds) y0
    y.up = true ∧ get y.heldD "old" = none ∧ get y.heldD "a" = some 3 ∧ get y.heldD "b" = none ∧
      get y.heldD "c" = some 2 ∧ y.heldS = [("a", 3), ("c", 2)] := by
  decide

end IstioModel.C03
