import IstioModel.C03.Server

/-!
C03 - the two client kinds and the closed system "server + SotW client + delta client" following
one history over a world of resources.  Mirrors harness/c03 (stream `equiv`): every server decision
there is taken by the real code, the client logic is this file's.

World-based generators (what the fake generators of the harness compute):
* `wild`  (CDS LDS NDS): every resource of the world, whatever names are watched;
* `named` (EDS RDS):     one resource per watched name (version 0 when it does not exist);
* `found` (SDS ECDS):    one resource per watched name that exists.
With `deltaCds` the CDS generator is delta-aware in the manner of `BuildDeltaClusters`: on a
non-forced push it returns the changed resources and the watched names that ceased to exist.
-/
namespace IstioModel.C03
open IstioModel.C04

inductive GenClass | wild | named | found
  deriving DecidableEq, Repr

def genClass : Ty → GenClass
  | .eds | .rds => .named
  | .sds | .ecds => .found
  | _ => .wild

abbrev World := Ty → List Res      -- per type, sorted by name, names distinct

def sortNames (l : List String) : List String :=
  let s := l.mergeSort (fun a b => !(b < a))
  s.foldr (fun x acc => match acc with
    | y :: _ => if x = y then acc else x :: acc
    | [] => [x]) []

def verOf (w : List Res) (n : String) : Nat := (get w n).getD 0

/-- The world-based plain generator. -/
def worldGen (world : World) (t : Ty) (wn : List String) (nilFound : Bool := false) : GenOut :=
  match genClass t with
  | .wild => { res := world t }
  | .named => { res := (sortNames wn).map (fun n => (n, verOf (world t) n)) }
  | .found =>
    -- `nilFound`: a found-only generator with nothing to say returns nil (nothing is sent), not an empty list
    let res := (sortNames wn).filterMap (fun n => (get (world t) n).map (fun v => (n, v)))
    { res := res, resNil := nilFound && res.isEmpty }

/-- The delta-aware CDS generator on a non-forced push: `changed` = names touched since the last push. -/
def deltaCdsGen (world : World) (changed : List String) (wn : List String) : GenOut :=
  let ch := sortNames changed
  { res := ch.filterMap (fun n => (get (world .cds) n).map (fun v => (n, v))),
    delNil := false,
    deleted := ch.filter (fun n => (get (world .cds) n).isNone && wn.contains n),
    usedDelta := true }

structure ClientTy where
  subscribed : Bool := false
  sub   : List String := []      -- sorted set; empty = wildcard for wildcard types
  held  : Held := []
  nonce : String := ""
  deriving Repr

abbrev Client := Ty → ClientTy

def Client.set (c : Client) (t : Ty) (v : ClientTy) : Client := fun t' => if t' = t then v else c t'

structure Sys where
  world   : World := fun _ => []       -- what the generators of this connection see
  pending : World := fun _ => []       -- latest state, published to `world` by the next push
  changed : Ty → List String := fun _ => []
  deltaCds : Bool := false
  nilFound : Bool := false
  ssrv : Srv := {}
  dsrv : Srv := {}
  sc : Client := fun _ => {}
  dc : Client := fun _ => {}
  -- the responses delivered to the two clients during the current op, in delivery order:
  -- (type, number of resources, number of removed names)
  slog : List (Ty × Nat × Nat) := []
  dlog : List (Ty × Nat × Nat) := []

/-- Generator seen by request handling (forced) and by SotW pushes. -/
def Sys.genReq (y : Sys) : Gen := fun t wn => worldGen y.world t wn y.nilFound
/-- Generator seen by a non-forced delta push. -/
def Sys.genPushDelta (y : Sys) : Gen := fun t wn =>
  if y.deltaCds && t = .cds then deltaCdsGen y.world (y.changed .cds) wn else worldGen y.world t wn y.nilFound

def upsert (h : Held) (res : List Res) : Held := res ++ h.filter (fun x => !(names res).contains x.1)

/-- The SotW client applies one response and ACKs it (when still subscribed); returns the
    further responses the ACK triggered. -/
def sotwDeliver (y : Sys) (w : Wire) : Sys × List Wire :=
  let ct := y.sc w.ty
  let held := if w.ty.wildcard then w.resources else upsert ct.held w.resources
  let nonce := w.nonce
  let ct' := { ct with held := held, nonce := nonce }
  let y1 := { y with sc := y.sc.set w.ty ct', slog := y.slog ++ [(w.ty, w.resources.length, 0)] }
  if ct.subscribed then
    match processSotw y1.genReq y1.ssrv { ty := w.ty, names := ct.sub, nonce := nonce, err := none } with
    | some (v, ws) => ({ y1 with ssrv := v }, ws)
    | none => (y1, [])
  else (y1, [])

def deltaDeliver (y : Sys) (w : Wire) : Sys × List Wire :=
  let ct := y.dc w.ty
  let held := applyDelta ct.held { resources := w.resources, removed := w.removed }
  let nonce := w.nonce
  let ct' := { ct with held := held, nonce := nonce }
  let y1 := { y with dc := y.dc.set w.ty ct', dlog := y.dlog ++ [(w.ty, w.resources.length, w.removed.length)] }
  match processDelta y1.genReq y1.dsrv { ty := w.ty, sub := [], unsub := [], init := [], nonce := nonce, err := none } with
  | some (v, ws) => ({ y1 with dsrv := v }, ws)
  | none => (y1, [])

def deliverAll (f : Sys → Wire → Sys × List Wire) (y : Sys) : List Wire → Sys × List Wire
  | [] => (y, [])
  | w :: ws =>
    let (y1, more1) := f y w
    let (y2, more2) := deliverAll f y1 ws
    (y2, more1 ++ more2)

/-- Deliver responses round by round (bounded like the harness: 8 rounds), at most `bs` to the SotW
    client and `bd` to the delta client: after that the stream is cut, the remaining responses are
    lost and never acknowledged. -/
def deliverRounds : Nat → Nat → Nat → Sys → List Wire → List Wire → Sys
  | 0, _, _, y, _, _ => y
  | fuel + 1, bs, bd, y, sw, dw =>
    if sw.isEmpty && dw.isEmpty then y else
    let sw' := sw.take bs
    let dw' := dw.take bd
    let (y1, sMore) := deliverAll sotwDeliver y sw'
    let (y2, dMore) := deliverAll deltaDeliver y1 dw'
    deliverRounds fuel (bs - sw'.length) (bd - dw'.length) y2 sMore dMore

def unbounded : Nat := 1073741824

def deliver (y : Sys) (sw dw : List Wire) : Sys := deliverRounds 8 unbounded unbounded y sw dw

inductive Op
  | world (t : Ty) (res : List Res)
  | sub (t : Ty) (names : List String)
  | subx (t : Ty) (names : List String) (keepNonce legacy : Bool) (nackFirst : Bool := false)
  | pushall
  | reconnect
  | pushcut (k : Nat)

def changedNames (old new : List Res) : List String :=
  (new.filter (fun r => get old r.1 != some r.2)).map (·.1) ++
  (old.filter (fun r => (get new r.1).isNone)).map (·.1)

/-- `keepNonce`: the delta client presents the nonce it retained from the previous stream in the first request
    of a stream; `legacy`: it makes a wildcard subscription the legacy way (no `resource_names_subscribe`). -/
def stepSub (y : Sys) (t : Ty) (rawNames : List String) (keepNonce : Bool := false) (legacy : Bool := false)
    (nackFirst : Bool := false) : Sys :=
  -- `nackFirst`: the first request of the stream for this type carries `error_detail` (the NACK the proxy could
  -- not send before the previous stream broke), for both clients
  let nackErr : Option String := some "rejected on the previous stream"
  let nm := sortNames rawNames
  -- SotW client
  let sc := y.sc t
  let removedS := sc.sub.filter (fun n => !nm.contains n)
  let heldS := if t.wildcard then sc.held else dropNames sc.held removedS
  let (y1, sw) :=
    if nm.isEmpty && !t.wildcard then
      let y0 := { y with sc := y.sc.set t { sc with held := [], subscribed := false, sub := [] } }
      if sc.subscribed then
        match processSotw y0.genReq y0.ssrv { ty := t, names := [], nonce := sc.nonce, err := none } with
        | some (v, ws) => ({ y0 with ssrv := v }, ws)
        | none => (y0, [])
      else (y0, [])
    else
      -- a reconnecting client presents the nonce it retained from the previous stream
      let y0 := { y with sc := y.sc.set t { sc with held := heldS, subscribed := true, sub := nm } }
      let errS := if nackFirst && !sc.subscribed then nackErr else none
      match processSotw y0.genReq y0.ssrv { ty := t, names := nm, nonce := sc.nonce, err := errS } with
      | some (v, ws) => ({ y0 with ssrv := v }, ws)
      | none => (y0, [])
  -- delta client
  let dc := y1.dc t
  let (y2, dw) :=
    if !dc.subscribed then
      if nm.isEmpty && !t.wildcard then
        -- nothing wanted of this type any more
        ({ y1 with dc := y1.dc.set t { dc with held := [] } }, [])
      else
        let sub := if nm.isEmpty && !legacy then ["*"] else nm
        -- a named resource the client no longer wants is dropped before it reports what it retains
        let heldD := if t.wildcard then dc.held else dc.held.filter (fun x => nm.contains x.1)
        let y0 := { y1 with dc := y1.dc.set t { dc with held := heldD, subscribed := true, sub := nm } }
        let errD := if nackFirst then nackErr else none
        -- first request on a stream: report everything retained (initial_resource_versions)
        match processDelta y0.genReq y0.dsrv { ty := t, sub := sub, unsub := [], init := sortNames (names heldD),
                                               nonce := if keepNonce then dc.nonce else "", err := errD } with
        | some (v, ws) => ({ y0 with dsrv := v }, ws)
        | none => (y0, [])
    else
      let add := nm.filter (fun n => !dc.sub.contains n)
      let rem := dc.sub.filter (fun n => !nm.contains n)
      let heldD := if t.wildcard then dc.held else dropNames dc.held rem
      let y0 := { y1 with dc := y1.dc.set t { dc with held := heldD, sub := nm } }
      if add.isEmpty && rem.isEmpty then (y0, [])
      else
        match processDelta y0.genReq y0.dsrv { ty := t, sub := add, unsub := rem, init := [], nonce := "", err := none } with
        | some (v, ws) => ({ y0 with dsrv := v }, ws)
        | none => (y0, [])
  deliver y2 sw dw

def stepCore (y : Sys) : Op → Sys
  | .world t res =>
    -- xDS is generated from the PushContext snapshot of the last push to this connection
    -- (`proxy.LastPushContext`): a change becomes visible at the next push.  Endpoints are read
    -- from the live EndpointIndex: visible at once.
    let ch := changedNames (y.pending t) res
    { y with pending := fun t' => if t' = t then res else y.pending t',
             world := fun t' => if t' = t && t = .eds then res else y.world t',
             changed := fun t' => if t' = t then y.changed t ++ ch else y.changed t' }
  | .sub t names => stepSub y t names
  | .subx t names keepNonce legacy nackFirst => stepSub y t names keepNonce legacy nackFirst
  | .pushcut k =>
    -- a push whose delivery is cut after `k` responses per client, then both streams break
    let y := { y with world := y.pending }
    let (sv, sw) := pushConnSotw y.genReq y.ssrv
    let (dv, dw) := pushConnDelta y.genPushDelta y.dsrv
    let y1 := { y with ssrv := sv, dsrv := dv, changed := fun _ => [] }
    let y2 := deliverRounds 8 k k y1 sw dw
    { y2 with ssrv := { ctr := y2.ssrv.ctr }, dsrv := { ctr := y2.dsrv.ctr },
              sc := fun t => { y2.sc t with subscribed := false },
              dc := fun t => { y2.dc t with subscribed := false } }
  | .reconnect =>
    -- both streams break; the server forgets everything about them (fresh watch tables, possibly
    -- another instance); the clients keep what they hold, their nonces and subscriptions and will
    -- re-send the latter. The new connection starts from the latest published snapshot.
    { y with world := y.pending, ssrv := { ctr := y.ssrv.ctr }, dsrv := { ctr := y.dsrv.ctr },
             sc := fun t => { y.sc t with subscribed := false },
             dc := fun t => { y.dc t with subscribed := false } }
  | .pushall =>
    let y := { y with world := y.pending }
    let (sv, sw) := pushConnSotw y.genReq y.ssrv
    let (dv, dw) := pushConnDelta y.genPushDelta y.dsrv
    let y1 := { y with ssrv := sv, dsrv := dv, changed := fun _ => [] }
    deliver y1 sw dw

/-- One operation; the delivery logs cover exactly this operation. -/
def step (y : Sys) (op : Op) : Sys := stepCore { y with slog := [], dlog := [] } op

end IstioModel.C03
