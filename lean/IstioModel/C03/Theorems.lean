import IstioModel.C03.Clients
import IstioModel.C04.Theorems

/-!
# C03 - property theorems

"For the same proxy and the same history, a client speaking incremental (delta) xDS that applies
every response's resources and removed-resource names ends up holding exactly the resource set a
state-of-the-world client holds.  Resources that cease to exist are explicitly removed for the
delta client, and nothing it still needs is removed."

The theorems are about `pushDelta` / `newNames` / `applyDelta` - the very definitions the executable
system model (`Clients.step`, tied to the real server by the `book`, `equiv`, `equivd` streams) is
built from - for an arbitrary generator output satisfying the stated class hypothesis.
-/
namespace IstioModel.C03
open IstioModel.C04

/-! ## Association-list lemmas -/

theorem get_nil (n : String) : get [] n = none := rfl

theorem get_cons (r : Res) (h : Held) (n : String) :
    get (r :: h) n = if r.1 = n then some r.2 else get h n := by
  unfold get
  simp only [List.find?_cons]
  by_cases hr : r.1 = n
  · simp [hr]
  · have : (r.1 == n) = false := by simpa using hr
    simp [this, hr]

theorem get_append (a b : Held) (n : String) :
    get (a ++ b) n = match get a n with
      | some v => some v
      | none => get b n := by
  induction a with
  | nil => simp [get_nil]
  | cons r a ih =>
    simp only [List.cons_append, get_cons]
    by_cases hr : r.1 = n
    · simp [hr]
    · simp [hr, ih]

theorem get_isSome_iff_mem_names (h : Held) (n : String) : (get h n).isSome ↔ n ∈ names h := by
  induction h with
  | nil => simp [get_nil, names]
  | cons r h ih =>
    rw [get_cons]
    by_cases hr : r.1 = n
    · simp [hr, names]
    · simp only [hr, if_false, ih, names, List.map_cons, List.mem_cons]
      constructor
      · intro hm; exact Or.inr hm
      · intro hm
        rcases hm with hm | hm
        · exact absurd hm.symm hr
        · exact hm

theorem get_none_of_not_mem (h : Held) (n : String) (hn : n ∉ names h) : get h n = none := by
  cases hg : get h n with
  | none => rfl
  | some v =>
    have : (get h n).isSome := by simp [hg]
    exact absurd ((get_isSome_iff_mem_names h n).mp this) hn

theorem get_filter (h : Held) (p : String → Bool) (n : String) :
    get (h.filter (fun x => p x.1)) n = if p n then get h n else none := by
  induction h with
  | nil => simp [get_nil]
  | cons r h ih =>
    simp only [List.filter_cons]
    by_cases hp : p r.1 = true
    · simp only [hp, if_true, get_cons, ih]
      by_cases hr : r.1 = n
      · subst hr; simp [hp]
      · simp [hr]
    · have hpf : p r.1 = false := by simpa using hp
      simp only [hpf, Bool.false_eq_true, if_false, ih, get_cons]
      by_cases hr : r.1 = n
      · subst hr; simp [hpf]
      · simp [hr]

/-- What a delta client holds after applying one response. -/
theorem get_applyDelta (h : Held) (r : DeltaResp) (n : String) :
    get (applyDelta h r) n =
      match get r.resources n with
      | some v => some v
      | none => if r.removed.contains n then none else get h n := by
  unfold applyDelta
  rw [get_append]
  cases hg : get r.resources n with
  | some v => rfl
  | none =>
    simp only []
    have hnot : n ∉ names r.resources := by
      intro hm
      have := (get_isSome_iff_mem_names r.resources n).mpr hm
      simp [hg] at this
    rw [get_filter h (fun m => !(names r.resources).contains m && !r.removed.contains m) n]
    have h1 : (names r.resources).contains n = false := by simpa using hnot
    simp only [h1, Bool.not_false, Bool.true_and]
    cases hc : r.removed.contains n <;> simp

/-! ## Bookkeeping of one `pushDeltaXds` -/

/-- `removed = watched - generated` for a generator that is not delta-aware and not incremental:
    nothing still generated is removed, everything watched that ceased to exist is. -/
theorem removed_exact (t : Ty) (wn : List String) (o : GenOut) (resp : DeltaResp) (nn : Option (List String))
    (hplain : o.usedDelta = false) (hinc : o.incremental = false) (hnr : neverRemove t = false)
    (h : pushDelta t wn o = some (resp, nn)) (x : String) :
    x ∈ resp.removed ↔ x ∈ wn ∧ x ∉ names o.res := by
  unfold pushDelta at h
  split at h
  · cases h
  · injection h with h; injection h with h1 _
    rw [← h1]
    simp [hnr, removedRaw, hplain, hinc, mem_diff]

/-- The response carries exactly what the generator produced. -/
theorem resources_exact (t : Ty) (wn : List String) (o : GenOut) (resp : DeltaResp) (nn : Option (List String))
    (h : pushDelta t wn o = some (resp, nn)) : resp.resources = o.res := by
  unfold pushDelta at h
  split at h
  · cases h
  · injection h with h; injection h with h1 _
    rw [← h1]

/-- ECDS: nothing is ever removed (Envoy garbage-collects unreferenced extension configs itself). -/
theorem ecds_never_removed (wn : List String) (o : GenOut) (resp : DeltaResp) (nn : Option (List String))
    (h : pushDelta .ecds wn o = some (resp, nn)) : resp.removed = [] := by
  unfold pushDelta at h
  split at h
  · cases h
  · injection h with h; injection h with h1 _
    rw [← h1]; rfl

/-- For wildcard (non generator-managed) types the record after the push is the set of generated
    names when the generator is not delta-aware. -/
theorem newNames_plain (t : Ty) (wn : List String) (o : GenOut) (hset : shouldSetWatched t = true)
    (hplain : o.usedDelta = false) : newNames t wn o = some (names o.res) := by
  simp [newNames, hset, hplain]

/-- Named types never have their record touched by a push (only by the client's requests). -/
theorem newNames_named (t : Ty) (wn : List String) (o : GenOut) (hset : shouldSetWatched t = false) :
    newNames t wn o = none := by
  simp [newNames, hset]

/-! ## One push keeps / brings the delta client in sync -/

/-- The delta client agrees with the map `W`. -/
def InSync (h : Held) (W : List Res) : Prop := ∀ n, get h n = get W n

/-- **Wildcard types, full push.** If the server's record covers every name the delta client
    holds (`names held ⊆ wn`), then after a push by a non-delta-aware generator that produced the
    whole current set `W`, the delta client holds exactly `W` - which is what a SotW client holds
    (`applySotwWild`) - and the new record is exactly the set of names it holds. -/
theorem wild_push_sync (t : Ty) (wn : List String) (held : Held) (o : GenOut)
    (hset : shouldSetWatched t = true) (hnr : neverRemove t = false)
    (hplain : o.usedDelta = false) (hinc : o.incremental = false) (hnil : o.nilOut = false)
    (hcover : ∀ n ∈ names held, n ∈ wn) :
    ∃ resp, pushDelta t wn o = some (resp, some (names o.res)) ∧
      InSync (applyDelta held resp) o.res ∧
      InSync (applySotwWild held o.res) o.res := by
  have hpd : pushDelta t wn o =
      some ({ resources := o.res, removed := diff wn (names o.res) }, some (names o.res)) := by
    simp [pushDelta, hnil, hnr, removedRaw, hplain, hinc, newNames, hset]
  refine ⟨_, hpd, ?_, fun _ => rfl⟩
  intro n
  rw [get_applyDelta]
  cases hg : get o.res n with
  | some v => rfl
  | none =>
    simp only []
    have hnot : n ∉ names o.res := by
      intro hm
      have := (get_isSome_iff_mem_names o.res n).mpr hm
      simp [hg] at this
    by_cases hh : n ∈ names held
    · have : n ∈ diff wn (names o.res) := mem_diff.mpr ⟨hcover n hh, hnot⟩
      simp [this]
    · have := get_none_of_not_mem held n hh
      split <;> simp [this]

/-- **Wildcard types, answer to a subscription change** (the generator is handed only the newly
    subscribed names `sub`, produces the whole set `W` all the same): a client already in sync with
    `W` stays in sync, and the record becomes the names of `W`. Nothing it still needs is removed. -/
theorem wild_request_preserves_sync (t : Ty) (sub : List String) (held : Held) (o : GenOut)
    (hset : shouldSetWatched t = true) (hnr : neverRemove t = false)
    (hplain : o.usedDelta = false) (hinc : o.incremental = false) (hnil : o.nilOut = false)
    (hsync : InSync held o.res) :
    ∃ resp, pushDelta t sub o = some (resp, some (names o.res)) ∧
      InSync (applyDelta held resp) o.res := by
  have hpd : pushDelta t sub o =
      some ({ resources := o.res, removed := diff sub (names o.res) }, some (names o.res)) := by
    simp [pushDelta, hnil, hnr, removedRaw, hplain, hinc, newNames, hset]
  refine ⟨_, hpd, ?_⟩
  intro n
  rw [get_applyDelta]
  cases hg : get o.res n with
  | some v => rfl
  | none =>
    simp only []
    split
    · rfl
    · rw [hsync n, hg]

/-- **Delta-aware generators** (`usedDelta`, e.g. delta CDS, partial EDS): if the generator's
    answer is a correct delta from `Wold` to `Wnew` relative to the record - every resource whose
    content differs is re-sent, every recorded name that ceased to exist is deleted, nothing that
    still exists is deleted, and what is sent is current - then a client in sync with `Wold` ends in
    sync with `Wnew`. (That the real `BuildDeltaClusters` is such a generator is observed by the
    end-to-end stream, not proved.) -/
theorem delta_aware_sync (t : Ty) (wn : List String) (held : Held) (o : GenOut) (Wold Wnew : List Res)
    (hnr : neverRemove t = false) (hused : o.usedDelta = true) (hnil : o.nilOut = false)
    (hsync : InSync held Wold)
    (hcur : ∀ n v, get o.res n = some v → get Wnew n = some v)
    (hchg : ∀ n, get Wold n ≠ get Wnew n → (get Wnew n).isSome → (get o.res n).isSome)
    (hdel : ∀ n, (get Wold n).isSome → get Wnew n = none → n ∈ o.deleted)
    (hkeep : ∀ n ∈ o.deleted, get Wnew n = none) :
    ∃ resp nn, pushDelta t wn o = some (resp, nn) ∧ InSync (applyDelta held resp) Wnew := by
  have hpd : pushDelta t wn o =
      some ({ resources := o.res, removed := o.deleted }, newNames t wn o) := by
    simp [pushDelta, hnil, hnr, removedRaw, hused]
  refine ⟨_, _, hpd, ?_⟩
  intro n
  rw [get_applyDelta]
  cases hg : get o.res n with
  | some v => exact (hcur n v hg).symm
  | none =>
    simp only []
    by_cases hc : o.deleted.contains n = true
    · simp only [hc, if_true]
      exact (hkeep n (by simpa using hc)).symm
    · have hcf : o.deleted.contains n = false := by simpa using hc
      simp only [hcf, Bool.false_eq_true, if_false]
      rw [hsync n]
      by_cases heq : get Wold n = get Wnew n
      · exact heq
      · cases hnew : get Wnew n with
        | some v =>
          have := hchg n heq (by simp [hnew])
          simp [hg] at this
        | none =>
          cases hold : get Wold n with
          | none => rfl
          | some v =>
            have := hdel n (by simp [hold]) hnew
            have : o.deleted.contains n = true := by simpa using this
            rw [hcf] at this; cases this

/-- **Named types, always-answering generators (EDS, RDS).** A push over the subscription `wn`
    answers every subscribed name: afterwards the delta client and the SotW client both hold, for
    every subscribed name, the current version; nothing is removed. -/
theorem named_push_sync (t : Ty) (wn : List String) (heldD heldS : Held) (o : GenOut) (cur : String → Nat)
    (hnr : neverRemove t = false) (hplain : o.usedDelta = false) (hinc : o.incremental = false)
    (hnil : o.nilOut = false)
    (hans : ∀ n ∈ wn, get o.res n = some (cur n)) (honly : ∀ n ∈ names o.res, n ∈ wn) :
    ∃ resp nn, pushDelta t wn o = some (resp, nn) ∧ resp.removed = [] ∧
      ∀ n ∈ wn, get (applyDelta heldD resp) n = some (cur n) ∧
                get (applySotwNamed heldS o.res) n = some (cur n) := by
  have hrem : diff wn (names o.res) = [] := by
    apply List.eq_nil_iff_forall_not_mem.mpr
    intro x hx
    have := mem_diff.mp hx
    have hs : (get o.res x).isSome := by simp [hans x this.1]
    exact this.2 ((get_isSome_iff_mem_names o.res x).mp hs)
  have hpd : pushDelta t wn o = some ({ resources := o.res, removed := [] }, newNames t wn o) := by
    simp [pushDelta, hnil, hnr, removedRaw, hplain, hinc, hrem]
  refine ⟨_, _, hpd, rfl, ?_⟩
  intro n hn
  constructor
  · rw [get_applyDelta]; simp [hans n hn]
  · unfold applySotwNamed
    rw [get_append]; simp [hans n hn]

/-! ## Histories: wildcard types

An abstract run for one wildcard, non generator-managed type with a non-delta-aware generator:
`push W` = the world visible to the connection becomes `W` and a full push is made;
`request sub` = the client changes its subscription by `sub`, the server answers from the same
snapshot (requests are served from `proxy.LastPushContext`).  The server record, the delta client
and the SotW client evolve by `pushDelta` / `applyDelta` / `applySotwWild`. -/

inductive WOp
  | push (W : List Res)
  | request (sub : List String)

structure WSt where
  record : List String
  world  : List Res
  heldD  : Held
  heldS  : Held

def fullOut (W : List Res) : GenOut := { res := W }

def wstep (t : Ty) (s : WSt) : WOp → WSt
  | .push W =>
    match pushDelta t s.record (fullOut W) with
    | some (resp, some nn) =>
      { record := nn, world := W, heldD := applyDelta s.heldD resp, heldS := applySotwWild s.heldS W }
    | _ => s
  | .request sub =>
    match pushDelta t sub (fullOut s.world) with
    | some (resp, some nn) =>
      { s with record := nn, heldD := applyDelta s.heldD resp, heldS := applySotwWild s.heldS s.world }
    | _ => s

/-- Invariant: both clients hold the visible world and the record is its name set. -/
def WInv (s : WSt) : Prop := InSync s.heldD s.world ∧ InSync s.heldS s.world ∧ s.record = names s.world

theorem wstep_inv (t : Ty) (hset : shouldSetWatched t = true) (hnr : neverRemove t = false)
    (s : WSt) (op : WOp) (h : WInv s) : WInv (wstep t s op) := by
  obtain ⟨hD, hS, hR⟩ := h
  cases op with
  | push W =>
    have hcover : ∀ n ∈ names s.heldD, n ∈ s.record := by
      intro n hn
      rw [hR]
      have h1 : (get s.heldD n).isSome := (get_isSome_iff_mem_names _ _).mpr hn
      rw [hD n] at h1
      exact (get_isSome_iff_mem_names _ _).mp h1
    obtain ⟨resp, hpd, hsyncD, hsyncS⟩ := wild_push_sync t s.record s.heldD (fullOut W) hset hnr rfl rfl rfl hcover
    simp only [wstep, hpd]
    exact ⟨hsyncD, fun _ => rfl, rfl⟩
  | request sub =>
    obtain ⟨resp, hpd, hsyncD⟩ := wild_request_preserves_sync t sub s.heldD (fullOut s.world) hset hnr rfl rfl rfl hD
    simp only [wstep, hpd]
    exact ⟨hsyncD, fun _ => rfl, rfl⟩

/-- **Delta = SotW after every prefix of every history (wildcard types).**  The first push
    establishes the invariant from ANY retained client state, provided the record covers what the
    client retained (a reconnecting client reports it in `initial_resource_versions`, which
    `deltaWatchedResources` folds into the record - see C05). -/
theorem delta_eq_sotw_wild (t : Ty) (hset : shouldSetWatched t = true) (hnr : neverRemove t = false)
    (record : List String) (retained : Held) (heldS : Held)
    (hcover : ∀ n ∈ names retained, n ∈ record)
    (W0 : List Res) (ops : List WOp) :
    let s0 : WSt := { record := record, world := [], heldD := retained, heldS := heldS }
    let s := ops.foldl (wstep t) (wstep t s0 (.push W0))
    ∀ n, get s.heldD n = get s.heldS n := by
  intro s0 s
  have h0 : WInv (wstep t s0 (.push W0)) := by
    obtain ⟨resp, hpd, hsyncD, _⟩ := wild_push_sync t record retained (fullOut W0) hset hnr rfl rfl rfl hcover
    simp only [wstep, s0, hpd]
    exact ⟨hsyncD, fun _ => rfl, rfl⟩
  have hinv : WInv s := by
    have : ∀ (l : List WOp) (x : WSt), WInv x → WInv (l.foldl (wstep t) x) := by
      intro l
      induction l with
      | nil => intro x hx; exact hx
      | cons op l ih => intro x hx; exact ih _ (wstep_inv t hset hnr x op hx)
    exact this ops _ h0
  intro n
  rw [hinv.1 n, hinv.2.1 n]

/-! ### The abstract run is what the tied handlers do

`wstep` is not a separate story: for a full, non delta-aware generator its two transitions are
exactly what `pushDeltaOne` (the body of `pushConnectionDelta` / `processDeltaRequest`, the functions
the `book`, `equiv`, `reconn` streams tie to the real code) computes for that type - same response,
same new record - whenever the send succeeds. -/

theorem pushDeltaOne_refines_wstep_push (gen : Gen) (v : Srv) (t : Ty) (w : WR) (s : WSt) (W : List Res)
    (hset : shouldSetWatched t = true) (hnr : neverRemove t = false)
    (hw : v.st t = some w) (hok : v.fail = false) (hgen : ∀ wn, gen t wn = fullOut W)
    (hrec : s.record = w.names) :
    ∃ v' wire, pushDeltaOne gen v t [] [] = (v', some wire, false) ∧
      (wstep t s (.push W)).heldD = applyDelta s.heldD { resources := wire.resources, removed := wire.removed } ∧
      (∃ w', v'.st t = some w' ∧ w'.names = (wstep t s (.push W)).record) := by
  have hman : t.managed = false := by
    cases t <;> simp_all [shouldSetWatched, Ty.managed, Ty.wildcard]
  have hpd : pushDelta t w.names (fullOut W) =
      some ({ resources := W, removed := diff w.names (names W) }, some (names W)) := by
    simp [pushDelta, GenOut.nilOut, fullOut, hnr, removedRaw, newNames, hset]
  refine ⟨{ v with st := sendDelta v.st t (freshNonce v) (some (names W)) true, ctr := v.ctr + 1 },
    { ty := t, resources := W, removed := diff w.names (names W), nonce := freshNonce v }, ?_, ?_, ?_⟩
  · simp [pushDeltaOne, hw, narrowedDelta, hgen, hpd, hok]
  · simp [wstep, hrec, hpd]
  · refine ⟨{ w with names := names W, nonceSent := freshNonce v }, by simp [sendDelta, hw], ?_⟩
    simp [wstep, hrec, hpd]

theorem pushDeltaOne_refines_wstep_request (gen : Gen) (v : Srv) (t : Ty) (w : WR) (s : WSt) (sub : List String)
    (hset : shouldSetWatched t = true) (hnr : neverRemove t = false) (hsub : sub ≠ [])
    (hw : v.st t = some w) (hok : v.fail = false) (hgen : ∀ wn, gen t wn = fullOut s.world) :
    ∃ v' wire, pushDeltaOne gen v t sub [] = (v', some wire, false) ∧
      (wstep t s (.request sub)).heldD = applyDelta s.heldD { resources := wire.resources, removed := wire.removed } ∧
      (∃ w', v'.st t = some w' ∧ w'.names = (wstep t s (.request sub)).record) := by
  have hman : t.managed = false := by
    cases t <;> simp_all [shouldSetWatched, Ty.managed, Ty.wildcard]
  have hpd : pushDelta t sub (fullOut s.world) =
      some ({ resources := s.world, removed := diff sub (names s.world) }, some (names s.world)) := by
    simp [pushDelta, GenOut.nilOut, fullOut, hnr, removedRaw, newNames, hset]
  have hne : sub.isEmpty = false := by
    cases sub with
    | nil => exact absurd rfl hsub
    | cons a as => rfl
  refine ⟨{ v with st := sendDelta v.st t (freshNonce v) (some (names s.world)) true, ctr := v.ctr + 1 },
    { ty := t, resources := s.world, removed := diff sub (names s.world), nonce := freshNonce v }, ?_, ?_, ?_⟩
  · simp [pushDeltaOne, hw, narrowedDelta, hne, hman, hgen, hpd, hok]
  · simp [wstep, hpd]
  · refine ⟨{ w with names := names s.world, nonceSent := freshNonce v }, by simp [sendDelta, hw], ?_⟩
    simp [wstep, hpd]

/-- Explicit removal: a resource the delta client held that is absent from the pushed world is
    named in `removed_resources` (it is not merely dropped by the client model). -/
theorem ceased_resources_removed (t : Ty) (hnr : neverRemove t = false)
    (record : List String) (held : Held) (W : List Res) (resp : DeltaResp) (nn : Option (List String))
    (hcover : ∀ n ∈ names held, n ∈ record)
    (h : pushDelta t record (fullOut W) = some (resp, nn))
    (n : String) (hheld : n ∈ names held) (hgone : n ∉ names W) : n ∈ resp.removed :=
  (removed_exact t record (fullOut W) resp nn rfl rfl hnr h n).mpr ⟨hcover n hheld, hgone⟩

/-- Nothing still needed is removed. -/
theorem needed_not_removed (t : Ty) (hnr : neverRemove t = false)
    (record : List String) (W : List Res) (resp : DeltaResp) (nn : Option (List String))
    (h : pushDelta t record (fullOut W) = some (resp, nn))
    (n : String) (hexists : n ∈ names W) : n ∉ resp.removed := by
  intro hr
  exact ((removed_exact t record (fullOut W) resp nn rfl rfl hnr h n).mp hr).2 hexists

/-! ## Why requests must be served from the connection's last snapshot

If a subscription-change request on a wildcard type could see a world NEWER than the one of the
last push to the connection, `pushDeltaXds` would reset the record to the names of the new world
and forget the names pending deletion: they are never removed.  The real server avoids this because
`processDeltaRequest` generates from `proxy.LastPushContext`; the `equiv` stream models exactly that
visibility rule.  This witness documents the dependency (model level; not reachable on /repo). -/
theorem narrowed_reset_witness :
    -- the client holds x and y; the world changed to {y} (x deleted) but the push has not happened;
    -- the client subscribes to "z": the answer resets the record to ["y"]
    pushDelta .cds ["z"] (fullOut [("y", 1)])
        = some ({ resources := [("y", 1)], removed := ["z"] }, some ["y"]) ∧
    -- the later full push computes removals from the reset record: x is never removed
    pushDelta .cds ["y"] (fullOut [("y", 1)]) = some ({ resources := [("y", 1)], removed := [] }, some ["y"]) ∧
    get (applyDelta (applyDelta [("x", 1), ("y", 1)] { resources := [("y", 1)], removed := ["z"] })
          { resources := [("y", 1)], removed := [] }) "x" = some 1 := by
  decide

/-! ## Non-vacuity -/

example : shouldSetWatched .cds = true ∧ neverRemove .cds = false := by decide
example : shouldSetWatched .lds = true ∧ neverRemove .lds = false := by decide

/-- A concrete run: reconnecting delta client retaining a deleted cluster `old`. -/
example :
    let s0 : WSt := { record := ["old", "a"], world := [], heldD := [("old", 1), ("a", 1)], heldS := [] }
    let s := [WOp.request ["b"], WOp.push [("a", 3)]].foldl (wstep .cds) (wstep .cds s0 (.push [("a", 2), ("b", 1)]))
    get s.heldD "old" = none ∧ get s.heldD "a" = some 3 ∧ get s.heldD "b" = none ∧ s.heldS = [("a", 3)] := by
  decide

/-! ## Review round 2: sync lemmas shared by `History.lean` and `WdsTheorems.lean` -/

/-- Names of a held set that is in sync with `W` are names of `W`. -/
theorem names_subset_of_sync (held : Held) (W : List Res) (h : InSync held W) (n : String)
    (hn : n ∈ names held) : n ∈ names W := by
  have h1 : (get held n).isSome := (get_isSome_iff_mem_names _ _).mpr hn
  rw [h n] at h1
  exact (get_isSome_iff_mem_names _ _).mp h1

/-- A full response keeps a client that already holds `W` in sync, whatever it removes. -/
theorem sync_applyDelta_same (held : Held) (W : List Res) (removed : List String) (h : InSync held W) :
    InSync (applyDelta held { resources := W, removed := removed }) W := by
  intro n
  rw [get_applyDelta]
  cases hg : get W n with
  | some v => rfl
  | none =>
    simp only []
    split
    · rfl
    · rw [h n, hg]

/-- A full response brings a client whose names are all on record to `W`. -/
theorem sync_applyDelta_cover (held : Held) (W : List Res) (record : List String)
    (hcover : ∀ n ∈ names held, n ∈ record) :
    InSync (applyDelta held { resources := W, removed := diff record (names W) }) W := by
  intro n
  rw [get_applyDelta]
  cases hg : get W n with
  | some v => rfl
  | none =>
    simp only []
    have hnot : n ∉ names W := by
      intro hm
      have := (get_isSome_iff_mem_names W n).mpr hm
      simp [hg] at this
    by_cases hh : n ∈ names held
    · have : n ∈ diff record (names W) := mem_diff.mpr ⟨hcover n hh, hnot⟩
      simp [this]
    · have := get_none_of_not_mem held n hh
      split <;> simp [this]

/-! ## Review round 2: the model's own delta-aware CDS generator

`delta_aware_sync` is stated for an abstract generator whose answer is "a correct delta".  Here its
hypotheses are DISCHARGED for `deltaCdsGen` - the `BuildDeltaClusters`-like generator of the tied
`equivd` stream - under the one condition that makes a keyed delta correct: the keys of the push
name every resource that differs between the client's snapshot and the new one.  The condition is
necessary (`delta_cds_keys_behind_state_witness`): it is exactly what fails in the known class
"events behind state" (a push context already contains a change whose own key arrives later and is
then dropped as irrelevant; e2e corpus `c03.lag-*`, known finding
`e2e:delta-ne-sotw:events-behind-state`). -/

theorem mem_sortNames (l : List String) (n : String) : n ∈ sortNames l ↔ n ∈ l := by
  unfold sortNames
  simp only []
  refine Iff.trans ?_ (List.mem_mergeSort (le := fun a b => !(b < a)))
  generalize List.mergeSort l (fun a b => !(b < a)) = s
  induction s with
  | nil => simp
  | cons a as ih =>
    simp only [List.foldr_cons]
    revert ih
    generalize List.foldr (fun x acc => match acc with
      | y :: _ => if x = y then acc else x :: acc
      | [] => [x]) [] as = acc
    intro ih
    cases acc with
    | nil =>
      have has : n ∉ as := fun h => by have := ih.mpr h; cases this
      simp [has]
    | cons y ys =>
      by_cases hay : a = y
      · subst hay
        simp only [if_true]
        rw [ih]
        constructor
        · intro h; exact List.mem_cons_of_mem _ h
        · intro h
          rcases List.mem_cons.mp h with e | h
          · subst e; exact ih.mp (by simp)
          · exact h
      · simp only [hay, if_false]
        rw [List.mem_cons, ih, List.mem_cons]

/-- What a keyed generator sends for a key list `ch`: the current version of every key that exists. -/
theorem get_filterMap_keys (W : List Res) (ch : List String) (n : String) :
    get (ch.filterMap (fun m => (get W m).map (fun v => (m, v)))) n = if n ∈ ch then get W n else none := by
  induction ch with
  | nil => simp [get_nil]
  | cons a as ih =>
    simp only [List.filterMap_cons]
    cases hg : get W a with
    | none =>
      simp only [Option.map_none, ih, List.mem_cons]
      by_cases hna : n = a
      · subst hna; simp [hg]
      · simp [hna]
    | some v =>
      simp only [Option.map_some, get_cons, ih, List.mem_cons]
      by_cases han : a = n
      · subst han; simp [hg]
      · have : ¬ n = a := fun e => han e.symm
        simp [han, this]

/-- **The model's delta-aware CDS generator keeps the delta client in sync** whenever the keys of the
    push name every cluster that differs between the snapshot the client holds and the new one, and
    the record covers what the client holds. -/
theorem delta_cds_gen_sync (world : World) (changed wn : List String) (held : Held) (Wold : List Res)
    (hsync : InSync held Wold) (hcover : ∀ n ∈ names held, n ∈ wn)
    (hkeys : ∀ n, get Wold n ≠ get (world .cds) n → n ∈ changed) :
    ∃ resp nn, pushDelta .cds wn (deltaCdsGen world changed wn) = some (resp, nn) ∧
      InSync (applyDelta held resp) (world .cds) := by
  apply delta_aware_sync .cds wn held (deltaCdsGen world changed wn) Wold (world .cds) rfl rfl rfl hsync
  · intro n v h
    simp only [deltaCdsGen] at h
    rw [get_filterMap_keys] at h
    split at h
    · exact h
    · cases h
  · intro n hne hsome
    simp only [deltaCdsGen]
    rw [get_filterMap_keys]
    have : n ∈ sortNames changed := (mem_sortNames changed n).mpr (hkeys n hne)
    simp [this, hsome]
  · intro n hold hnew
    simp only [deltaCdsGen, List.mem_filter]
    have hne : get Wold n ≠ get (world .cds) n := by
      rw [hnew]; intro e; rw [e] at hold; cases hold
    refine ⟨(mem_sortNames changed n).mpr (hkeys n hne), ?_⟩
    have hheld : n ∈ names held := by
      apply (get_isSome_iff_mem_names held n).mp
      rw [hsync n]; exact hold
    simp [hnew, hcover n hheld]
  · intro n hn
    simp only [deltaCdsGen, List.mem_filter, Bool.and_eq_true, Option.isNone_iff_eq_none] at hn
    exact hn.2.1

/-- The full statement one would like - a keyed delta push brings the client to the new snapshot
    WHATEVER the keys are - is false ... -/
def DeltaCdsSyncsWhateverTheKeys : Prop :=
  ∀ (world : World) (changed wn : List String) (held : Held) (Wold : List Res),
    InSync held Wold → (∀ n ∈ names held, n ∈ wn) →
    ∀ resp nn, pushDelta .cds wn (deltaCdsGen world changed wn) = some (resp, nn) →
      InSync (applyDelta held resp) (world .cds)

/-- ... witness (known class "events behind state"): cluster `b` was deleted, but the push that first
    sees the new snapshot carries the key of ANOTHER change (`a`): `b` is not removed.  (On the real
    server the key of `b` arrives later, when neither the scope nor the previous scope know `b` any
    more, and is dropped as irrelevant to the proxy: the delta client keeps `b` for good.) -/
theorem delta_cds_keys_behind_state_witness : ¬ DeltaCdsSyncsWhateverTheKeys := by
  intro h
  let world : World := fun t => if t = .cds then [("a", 2)] else []
  let o := deltaCdsGen world ["a"] ["a", "b"]
  have hpd : pushDelta .cds ["a", "b"] o = some ({ resources := o.res, removed := o.deleted }, newNames .cds ["a", "b"] o) := by
    simp [pushDelta, GenOut.nilOut, neverRemove, removedRaw, o, deltaCdsGen]
  have hs := h world ["a"] ["a", "b"] [("a", 1), ("b", 1)] [("a", 1), ("b", 1)] (fun _ => rfl) (by decide) _ _ hpd "b"
  rw [get_applyDelta] at hs
  have hb : "b" ∉ sortNames ["a"] := by rw [mem_sortNames]; decide
  have hres : get o.res "b" = none := by
    simp only [o, deltaCdsGen]
    rw [get_filterMap_keys]
    simp [hb]
  have hdel : o.deleted.contains "b" = false := by
    have : "b" ∉ o.deleted := by
      simp only [o, deltaCdsGen, List.mem_filter]
      exact fun hm => hb hm.1
    simpa using this
  simp only [hres, hdel] at hs
  revert hs
  decide

/-! ## Review round 3: the order in which a client applies `resources` and `removed_resources`

`applyDelta` lets a resource of the response win over a removal of the same name in the same response; the Go
harness clients (and harness/e2e) apply `resources` first and `removed_resources` last, so there the removal wins.
The two readings agree whenever a response never names one resource in both lists - which is proved below for
every response `pushDeltaXds` builds from a generator that is not delta-aware, for the model's delta-aware CDS
generator, and (WdsTheorems.lean) for the real Workload and Authorization generators. -/

/-- The client of the Go harnesses: `removed_resources` are applied last. -/
def applyDeltaRemovedLast (h : Held) (r : DeltaResp) : Held :=
  (r.resources ++ h.filter (fun x => !(names r.resources).contains x.1)).filter (fun x => !r.removed.contains x.1)

theorem get_applyDeltaRemovedLast (h : Held) (r : DeltaResp) (n : String) :
    get (applyDeltaRemovedLast h r) n =
      if r.removed.contains n then none else
        match get r.resources n with
        | some v => some v
        | none => get h n := by
  unfold applyDeltaRemovedLast
  rw [get_filter _ (fun m => !r.removed.contains m) n]
  cases hc : r.removed.contains n
  · simp only [Bool.not_false, if_true, Bool.false_eq_true, if_false]
    rw [get_append]
    cases hg : get r.resources n with
    | some v => rfl
    | none =>
      simp only []
      rw [get_filter h (fun m => !(names r.resources).contains m) n]
      have hnot : n ∉ names r.resources := by
        intro hm
        have := (get_isSome_iff_mem_names r.resources n).mpr hm
        simp [hg] at this
      simp [hnot]
  · simp

/-- If no name is in both lists the two orders give the same client state. -/
theorem applyDelta_order_irrelevant (h : Held) (r : DeltaResp)
    (hdisj : ∀ n ∈ names r.resources, n ∉ r.removed) (n : String) :
    get (applyDelta h r) n = get (applyDeltaRemovedLast h r) n := by
  rw [get_applyDelta, get_applyDeltaRemovedLast]
  cases hg : get r.resources n with
  | some v =>
    have hm : n ∈ names r.resources := (get_isSome_iff_mem_names _ _).mp (by simp [hg])
    simp [hdisj n hm]
  | none =>
    cases r.removed.contains n <;> simp

/-- Generators that are not delta-aware: `removed = watched - generated` never names a generated resource. -/
theorem removed_disjoint_plain (t : Ty) (wn : List String) (o : GenOut) (resp : DeltaResp) (nn : Option (List String))
    (hplain : o.usedDelta = false) (hinc : o.incremental = false)
    (h : pushDelta t wn o = some (resp, nn)) : ∀ n ∈ names resp.resources, n ∉ resp.removed := by
  intro n hn hr
  have hres := resources_exact t wn o resp nn h
  cases hnr : neverRemove t with
  | false =>
    have := (removed_exact t wn o resp nn hplain hinc hnr h n).mp hr
    rw [hres] at hn
    exact this.2 hn
  | true =>
    unfold pushDelta at h
    split at h
    · cases h
    · injection h with h; injection h with h1 _
      rw [← h1] at hr
      simp [hnr] at hr

/-- The model's delta-aware CDS generator: what it deletes does not exist, what it sends does. -/
theorem removed_disjoint_delta_cds (world : World) (changed wn : List String) (resp : DeltaResp) (nn : Option (List String))
    (h : pushDelta .cds wn (deltaCdsGen world changed wn) = some (resp, nn)) :
    ∀ n ∈ names resp.resources, n ∉ resp.removed := by
  intro n hn hr
  have hpd : pushDelta .cds wn (deltaCdsGen world changed wn) =
      some ({ resources := (deltaCdsGen world changed wn).res, removed := (deltaCdsGen world changed wn).deleted },
            newNames .cds wn (deltaCdsGen world changed wn)) := by
    simp [pushDelta, GenOut.nilOut, neverRemove, removedRaw, deltaCdsGen]
  rw [hpd] at h
  injection h with h; injection h with h1 _
  rw [← h1] at hn hr
  simp only [deltaCdsGen, List.mem_filter, Bool.and_eq_true, Option.isNone_iff_eq_none] at hr
  have hs : (get (deltaCdsGen world changed wn).res n).isSome := (get_isSome_iff_mem_names _ _).mpr hn
  simp only [deltaCdsGen] at hs
  rw [get_filterMap_keys] at hs
  split at hs
  · rw [hr.2.1] at hs; cases hs
  · cases hs

end IstioModel.C03
