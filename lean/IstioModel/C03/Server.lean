import IstioModel.C03.Model

/-!
C03 - the request / push handlers around the bookkeeping, over the C04 watch table:
`processDeltaRequest` (+ `forceEDSPush`), `pushConnectionDelta`, `processRequest`, `pushConnection`.
Generators are a parameter `gen : Ty → List String → GenOut` (type, name set of the `w` the
generator is handed).  Nonces: the model draws `N<k>` from a counter (the real ones are random;
the drivers compare nonces only through "is the acked nonce the current one").
-/
namespace IstioModel.C03
open IstioModel.C04

/-- `PushOrder`, then the unordered types (their relative order is random in Go; the effects on
    different types commute and the drivers sort responses by type). -/
def pushOrder : List Ty := [.cds, .eds, .lds, .rds, .sds, .addr, .wl, .wauth, .ecds, .nds]

structure Srv where
  st   : State := State.empty
  ctr  : Nat := 0
  fail : Bool := false          -- the stream's Send fails

/-- A response as seen on the wire (type, resources, removed names). -/
structure Wire where
  ty        : Ty
  resources : List Res
  removed   : List String
  nonce     : String := ""     -- the response's nonce (what a conformant client echoes in its ACK)
  deriving Repr, DecidableEq

abbrev Gen := Ty → List String → GenOut

def freshNonce (v : Srv) : String := "N" ++ toString (v.ctr + 1)

/-- One `pushDeltaXds` call. Returns the new server, the response put on the wire (if any) and
    whether the send failed (an error that aborts the caller's loop). -/
def pushDeltaOne (gen : Gen) (v : Srv) (t : Ty) (sub unsub : List String) : Srv × Option Wire × Bool :=
  match v.st t with
  | none => (v, none, false)
  | some w =>
    let wn := narrowedDelta t w.names sub unsub
    match pushDelta t wn (gen t wn) with
    | none => (v, none, false)
    | some (resp, nn) =>
      if v.fail then (v, none, true)
      else
        ({ v with st := sendDelta v.st t (freshNonce v) nn true, ctr := v.ctr + 1 },
         some { ty := t, resources := resp.resources, removed := resp.removed, nonce := freshNonce v }, false)

/-- `processDeltaRequest` (debug / health types are outside the model). -/
def processDelta (gen : Gen) (v : Srv) (r : DReq) : Option (Srv × List Wire) :=
  match shouldRespondDelta v.st r with
  | .crash => none
  | .out false s' => some ({ v with st := s' }, [])
  | .out true s' =>
    let subs := (deltaWatched [] r).1
    let unsub := r.unsub.filter (· ≠ "*")
    let (v1, w1, failed) := pushDeltaOne gen { v with st := s' } r.ty subs unsub
    let out1 := w1.toList
    if failed || r.ty ≠ .cds then some (v1, out1)
    else
      -- forceEDSPush: a CDS request is always followed by an EDS push when EDS is watched
      let (v2, w2, _) := pushDeltaOne gen v1 .eds [] []
      some (v2, out1 ++ w2.toList)

/-- The loop of `pushConnectionDelta` over the watched types; stops at the first failed send. -/
def pushAllDelta (gen : Gen) (v : Srv) : List Ty → Srv × List Wire
  | [] => (v, [])
  | t :: ts =>
    let (v1, w1, failed) := pushDeltaOne gen v t [] []
    if failed then (v1, [])
    else
      let (v2, ws) := pushAllDelta gen v1 ts
      (v2, w1.toList ++ ws)

def pushConnDelta (gen : Gen) (v : Srv) : Srv × List Wire := pushAllDelta gen v pushOrder

/-! ### State of the world -/

def pushSotwOne (gen : Gen) (v : Srv) (t : Ty) (sub : List String) : Srv × Option Wire × Bool :=
  match v.st t with
  | none => (v, none, false)
  | some w =>
    let wn := narrowedSotw w.names sub
    match pushSotw (gen t wn) with
    | none => (v, none, false)
    | some res =>
      if v.fail then (v, none, true)
      else
        ({ v with st := send v.st t (freshNonce v) true, ctr := v.ctr + 1 },
         some { ty := t, resources := res, removed := [], nonce := freshNonce v }, false)

/-- `processRequest`. -/
def processSotw (gen : Gen) (v : Srv) (r : Req) : Option (Srv × List Wire) :=
  match shouldRespond v.st r with
  | .crash => none
  | .out false _ s' => some ({ v with st := s' }, [])
  | .out true sub s' =>
    let (v1, w1, _) := pushSotwOne gen { v with st := s' } r.ty sub
    some (v1, w1.toList)

def pushAllSotw (gen : Gen) (v : Srv) : List Ty → Srv × List Wire
  | [] => (v, [])
  | t :: ts =>
    let (v1, w1, failed) := pushSotwOne gen v t []
    if failed then (v1, [])
    else
      let (v2, ws) := pushAllSotw gen v1 ts
      (v2, w1.toList ++ ws)

def pushConnSotw (gen : Gen) (v : Srv) : Srv × List Wire := pushAllSotw gen v pushOrder

end IstioModel.C03
