import IstioModel.C16.IndexTheorems
import IstioModel.C16.RuntimeTheorems
import IstioModel.C16.IndexModel

/-!
C16 - index maintenance for ANY extractor (`extract : O → []string`, no, one or several index keys per
object) and for an index created at ANY time on an already populated collection
(`manyCollection.index()`: backfill from the current outputs, then `collectionIndex.update` with every
delivered event): `late_index_correct`.  The functions themselves (`idxUpdateG`, `idxBackfill`, ...) live in
IndexModel.lean (core only) and are executed by the driver of the stream `exact` (`lateindex` / `flookup`).
-/
namespace IstioModel.C16
open AMap

/-- the index lists under `ik` exactly the objects one of whose extracted keys is `ik` -/
def IdxInvG (ext : Val → List String) (m : FinMap) (ix : AMap (List Key)) : Prop :=
  ∀ ik k, idxMem ix ik k ↔ ∃ v, lookup m k = some v ∧ ik ∈ ext v

theorem mem_idxDel1 (ix : AMap (List Key)) (ik0 : String) (k : Key) (ik : String) (k' : Key) :
    idxMem (idxDel1 ix ik0 k) ik k' ↔ idxMem ix ik k' ∧ ¬ (ik = ik0 ∧ k' = k) := by
  unfold idxDel1 idxMem
  cases h : lookup ix ik0 with
  | none =>
    show k' ∈ (lookup ix ik).getD [] ↔ _
    constructor
    · intro hm
      refine ⟨hm, ?_⟩
      rintro ⟨e, _⟩
      rw [e, h] at hm; simp at hm
    · exact fun hm => hm.1
  | some ks =>
    show k' ∈ (lookup (if (ks.filter (fun x => x != k)).isEmpty = true then erase ix ik0
      else AMap.set ix ik0 (ks.filter (fun x => x != k))) ik).getD [] ↔ _
    by_cases hemp : (ks.filter (fun x => x != k)).isEmpty = true
    · rw [if_pos hemp, lookup_erase]
      by_cases hik : ik = ik0
      · subst hik
        rw [if_pos rfl, h]
        constructor
        · intro hm; simp at hm
        · rintro ⟨hm, hcon⟩
          exfalso
          apply hcon
          refine ⟨rfl, ?_⟩
          by_cases hk : k' = k
          · exact hk
          · exfalso
            have hm' : k' ∈ ks := by simpa using hm
            have : k' ∈ ks.filter (fun x => x != k) := by
              simp only [List.mem_filter, bne_iff_ne, ne_eq]; exact ⟨hm', hk⟩
            have he : ks.filter (fun x => x != k) = [] := by simpa using hemp
            rw [he] at this; simp at this
      · rw [if_neg hik]
        simp [hik]
    · rw [if_neg hemp, lookup_set]
      by_cases hik : ik = ik0
      · subst hik
        rw [if_pos rfl, h]
        simp only [Option.getD_some, List.mem_filter, bne_iff_ne, ne_eq, true_and]
      · rw [if_neg hik]
        simp [hik]

theorem mem_idxIns1 (ix : AMap (List Key)) (ik0 : String) (k : Key) (ik : String) (k' : Key) :
    idxMem (idxIns1 ix ik0 k) ik k' ↔ idxMem ix ik k' ∨ (ik = ik0 ∧ k' = k) := by
  unfold idxIns1 idxMem
  cases h : lookup ix ik0 with
  | none =>
    show k' ∈ (lookup (AMap.set ix ik0 [k]) ik).getD [] ↔ _
    rw [lookup_set]
    by_cases hik : ik = ik0
    · subst hik; rw [if_pos rfl, h]; simp
    · rw [if_neg hik]; simp [hik]
  | some ks =>
    show k' ∈ (lookup (if ks.contains k = true then ix else AMap.set ix ik0 (k :: ks)) ik).getD [] ↔ _
    by_cases hc : ks.contains k = true
    · rw [if_pos hc]
      constructor
      · exact Or.inl
      · rintro (hm | ⟨e, e2⟩)
        · exact hm
        · subst e; subst e2; rw [h]; simpa using hc
    · rw [if_neg hc, lookup_set]
      by_cases hik : ik = ik0
      · subst hik; rw [if_pos rfl, h]; simp [or_comm]
      · rw [if_neg hik]; simp [hik]

theorem mem_foldl_del (iks : List String) (ix : AMap (List Key)) (k : Key) (ik : String) (k' : Key) :
    idxMem (iks.foldl (fun ix ik => idxDel1 ix ik k) ix) ik k' ↔ idxMem ix ik k' ∧ ¬ (ik ∈ iks ∧ k' = k) := by
  induction iks generalizing ix with
  | nil => simp
  | cons a iks ih =>
    simp only [List.foldl_cons, ih, mem_idxDel1, List.mem_cons]
    constructor
    · rintro ⟨⟨h1, h2⟩, h3⟩
      refine ⟨h1, ?_⟩
      rintro ⟨ha | ha, hk⟩
      · exact h2 ⟨ha, hk⟩
      · exact h3 ⟨ha, hk⟩
    · rintro ⟨h1, h2⟩
      exact ⟨⟨h1, fun ⟨ha, hk⟩ => h2 ⟨Or.inl ha, hk⟩⟩, fun ⟨ha, hk⟩ => h2 ⟨Or.inr ha, hk⟩⟩

theorem mem_foldl_ins (iks : List String) (ix : AMap (List Key)) (k : Key) (ik : String) (k' : Key) :
    idxMem (iks.foldl (fun ix ik => idxIns1 ix ik k) ix) ik k' ↔ idxMem ix ik k' ∨ (ik ∈ iks ∧ k' = k) := by
  induction iks generalizing ix with
  | nil => simp
  | cons a iks ih =>
    simp only [List.foldl_cons, ih, mem_idxIns1, List.mem_cons]
    constructor
    · rintro ((h1 | ⟨ha, hk⟩) | ⟨ha, hk⟩)
      · exact Or.inl h1
      · exact Or.inr ⟨Or.inl ha, hk⟩
      · exact Or.inr ⟨Or.inr ha, hk⟩
    · rintro (h1 | ⟨ha | ha, hk⟩)
      · exact Or.inl (Or.inl h1)
      · exact Or.inl (Or.inr ⟨ha, hk⟩)
      · exact Or.inr ⟨ha, hk⟩

theorem mem_idxDelG (ext : Val → List String) (ix : AMap (List Key)) (v : Val) (k : Key) (ik : String) (k' : Key) :
    idxMem (idxDelG ext ix v k) ik k' ↔ idxMem ix ik k' ∧ ¬ (ik ∈ ext v ∧ k' = k) := mem_foldl_del _ _ _ _ _

theorem mem_idxInsG (ext : Val → List String) (ix : AMap (List Key)) (v : Val) (k : Key) (ik : String) (k' : Key) :
    idxMem (idxInsG ext ix v k) ik k' ↔ idxMem ix ik k' ∨ (ik ∈ ext v ∧ k' = k) := mem_foldl_ins _ _ _ _ _

/-- one legal event keeps index and contents consistent -/
theorem idxInvG_event {ext : Val → List String} {m : FinMap} {ix : AMap (List Key)} (h : IdxInvG ext m ix)
    (e : Event) (hl : (stepB m e).isSome = true) : IdxInvG ext (applyEv m e) (idxUpdateG ext ix e) := by
  rw [stepB_isSome_iff] at hl
  intro ik k
  cases e with
  | add k0 v =>
    simp only at hl
    simp only [idxUpdateG, applyEv, mem_idxInsG, lookup_set, h ik k]
    by_cases hk : k = k0
    · subst hk; simp [hl]
    · simp [hk]
  | update k0 o n =>
    simp only at hl
    simp only [idxUpdateG, applyEv, mem_idxInsG, mem_idxDelG, lookup_set, h ik k]
    by_cases hk : k = k0
    · subst hk
      simp only [hl, Option.some.injEq, exists_eq_left', and_true, if_true]
      constructor
      · rintro (⟨h1, h2⟩ | h3)
        · exact absurd h1 h2
        · exact h3
      · intro h3; exact Or.inr h3
    · simp [hk]
  | delete k0 o =>
    simp only at hl
    simp only [idxUpdateG, applyEv, mem_idxDelG, lookup_erase, h ik k]
    by_cases hk : k = k0
    · subst hk; simp [hl]
    · simp [hk]

/-- an index that is right stays right along every well-formed stream of delivered events -/
theorem idxInvG_stream {ext : Val → List String} (s : List Event) {m : FinMap} {ix : AMap (List Key)}
    (h : IdxInvG ext m ix) (hw : WellFormedFrom m s) :
    IdxInvG ext (replayFrom m s) (s.foldl (idxUpdateG ext) ix) := by
  induction s generalizing m ix with
  | nil => exact h
  | cons e s ih =>
    obtain ⟨hl, hrest⟩ := (wellFormedFrom_cons m e s).1 hw
    simp only [List.foldl_cons, replayFrom_cons]
    exact ih (idxInvG_event h e hl) hrest

theorem idxInvG_congr {ext : Val → List String} {m m' : FinMap} {ix : AMap (List Key)} (h : MapEq m m')
    (hi : IdxInvG ext m ix) : IdxInvG ext m' ix := by
  intro ik k; rw [hi ik k]; simp only [h k]

theorem idxBackfill_eq (ext : Val → List String) (m : FinMap) (ix : AMap (List Key)) :
    m.foldl (fun ix kv => idxInsG ext ix kv.2 kv.1) ix = (addsOf m).foldl (idxUpdateG ext) ix := by
  induction m generalizing ix with
  | nil => rfl
  | cons p m ih => simp only [List.foldl_cons, addsOf, List.map_cons, idxUpdateG]; exact ih _

/-- **the backfill of a new index is exact** (whatever the collection holds, whatever the extractor) -/
theorem idxBackfill_correct (ext : Val → List String) (m : FinMap) (nd : NoDupKeys m) :
    IdxInvG ext m (idxBackfill ext m) := by
  have hacc := (monitorB_iff _ _).1 (addsOf_accepted m nd)
  have h0 : IdxInvG ext [] ([] : AMap (List Key)) := by intro ik k; simp [idxMem, lookup]
  have := idxInvG_stream (addsOf m) h0 hacc.1
  rw [idxBackfill, idxBackfill_eq]
  exact idxInvG_congr hacc.2 this

/-- **late_index_correct**: an index with any extractor, created at any point of any run respecting
    DisjointAtApply (backfill from the outputs held then) and maintained with every event delivered
    afterwards, lists at every later moment exactly the outputs whose extracted keys contain the index
    key - no stale entry, none missing. -/
theorem late_index_correct (T : Transform) (ext : Val → List String) (r1 r2 : List Act)
    (hok : runOK T {} (r1 ++ r2) = true) :
    ∃ t, (exec T {} (r1 ++ r2)).out = (exec T {} r1).out ++ t ∧
      IdxInvG ext (exec T {} (r1 ++ r2)).col.outputs
        (t.foldl (idxUpdateG ext) (idxBackfill ext (exec T {} r1).col.outputs)) := by
  rw [runOK_append, Bool.and_eq_true] at hok
  have h1 := sysInv_exec (sysInv_init T) r1 hok.1
  have h2 := sysInv_exec h1 r2 hok.2
  obtain ⟨t, ht⟩ := exec_out_prefix T (exec T {} r1) r2
  rw [exec_append]
  refine ⟨t, ht, ?_⟩
  have wf2 := h2.stream.wf
  have rep2 := h2.stream.rep
  rw [ht] at wf2 rep2
  rw [WellFormed, wellFormedFrom_append] at wf2
  rw [replay, replayFrom_append] at rep2
  have hw : WellFormedFrom (exec T {} r1).col.outputs t := (wellFormedFrom_congr h1.stream.rep t).1 wf2.2
  have hrep : MapEq (replayFrom (exec T {} r1).col.outputs t) (exec T (exec T {} r1) r2).col.outputs :=
    MapEq.trans (MapEq.symm (replayFrom_congr h1.stream.rep t)) rep2
  exact idxInvG_congr hrep (idxInvG_stream t (idxBackfill_correct ext _ h1.stream.nd) hw)

/-- the multi-key index of the check (`lateindex`: extract = keys of the fetched objects) is an instance -/
example (T : Transform) (r1 r2 : List Act) (hok : runOK T {} (r1 ++ r2) = true) :=
  late_index_correct T outFetched r1 r2 hok

end IstioModel.C16
