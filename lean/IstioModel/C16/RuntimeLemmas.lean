import IstioModel.C16.Model
import IstioModel.C16.MonitorTheorems

/-!
C16 - helper lemmas for the runtime theorems: source collections, closed forms of the loops of
`handleChangedPrimaryInputEvents`, structural invariant of the collection state.
-/
namespace IstioModel.C16
open AMap

/-! ## sources -/

theorem oget_odel (l : List Obj) (k k' : Key) :
    oget (odel l k) k' = if k' = k then none else oget l k' := by
  induction l with
  | nil => simp [odel, oget]
  | cons o l ih =>
    by_cases hk : k = o.key
    · simp only [odel, hk, if_true, oget]
      rw [← hk, ih]
      by_cases h : k' = k <;> simp [h]
    · simp only [odel, hk, if_false, oget, ih]
      by_cases h : k' = k
      · subst h; simp [hk]
      · simp [h]

theorem oget_oset (l : List Obj) (o : Obj) (k' : Key) :
    oget (oset l o) k' = if k' = o.key then some o else oget l k' := by
  simp only [oset, oget, oget_odel]
  by_cases h : k' = o.key <;> simp [h]

theorem oget_key {l : List Obj} {k : Key} {o : Obj} (h : oget l k = some o) : o.key = k := by
  induction l with
  | nil => simp [oget] at h
  | cons x l ih =>
    simp only [oget] at h
    by_cases hk : k = x.key
    · simp [hk] at h; subst h; exact hk.symm
    · simp [hk] at h; exact ih h

theorem oget_mem {l : List Obj} {k : Key} {o : Obj} (h : oget l k = some o) : o ∈ l := by
  induction l with
  | nil => simp [oget] at h
  | cons x l ih =>
    simp only [oget] at h
    by_cases hk : k = x.key
    · simp [hk] at h; subst h; simp
    · simp [hk] at h; exact List.mem_cons_of_mem _ (ih h)

theorem oget_none_of_not_mem {l : List Obj} {k : Key} (h : ∀ o ∈ l, o.key ≠ k) : oget l k = none := by
  induction l with
  | nil => rfl
  | cons x l ih =>
    have hx : k ≠ x.key := fun e => h x (List.mem_cons_self ..) e.symm
    simp only [oget, hx, if_false]
    exact ih (fun o ho => h o (List.mem_cons_of_mem _ ho))

/-- keys of a source collection are distinct -/
def SrcOK (l : List Obj) : Prop := (l.map Obj.key).Nodup

theorem mem_odel {l : List Obj} {k : Key} {o : Obj} : o ∈ odel l k ↔ o ∈ l ∧ o.key ≠ k := by
  induction l with
  | nil => simp [odel]
  | cons x l ih =>
    by_cases hk : k = x.key
    · simp only [odel, hk, if_true]
      rw [← hk, ih]
      constructor
      · intro ⟨h1, h2⟩; exact ⟨List.mem_cons_of_mem _ h1, h2⟩
      · intro ⟨h1, h2⟩
        rcases List.mem_cons.1 h1 with h | h
        · subst h; exact absurd hk.symm h2
        · exact ⟨h, h2⟩
    · simp only [odel, hk, if_false, List.mem_cons, ih]
      constructor
      · rintro (h | ⟨h1, h2⟩)
        · subst h; exact ⟨Or.inl rfl, fun e => hk e.symm⟩
        · exact ⟨Or.inr h1, h2⟩
      · rintro ⟨h | h, h2⟩
        · exact Or.inl h
        · exact Or.inr ⟨h, h2⟩

theorem srcOK_odel {l : List Obj} (h : SrcOK l) (k : Key) : SrcOK (odel l k) := by
  induction l with
  | nil => simpa [odel] using h
  | cons x l ih =>
    simp only [SrcOK, List.map_cons, List.nodup_cons] at h
    by_cases hk : k = x.key
    · simp only [odel, hk, if_true]; rw [← hk]; exact ih h.2
    · simp only [odel, hk, if_false, SrcOK, List.map_cons, List.nodup_cons]
      refine ⟨?_, ih h.2⟩
      intro hm
      apply h.1
      simp only [List.mem_map] at hm ⊢
      obtain ⟨o, ho, hko⟩ := hm
      exact ⟨o, (mem_odel.1 ho).1, hko⟩

theorem srcOK_oset {l : List Obj} (h : SrcOK l) (o : Obj) : SrcOK (oset l o) := by
  simp only [oset, SrcOK, List.map_cons, List.nodup_cons]
  refine ⟨?_, srcOK_odel h o.key⟩
  intro hm
  simp only [List.mem_map] at hm
  obtain ⟨x, hx, hk⟩ := hm
  exact (mem_odel.1 hx).2 hk

theorem srcOK_srcStep {l : List Obj} (h : SrcOK l) (op : SrcOp) : SrcOK (srcStep l op) := by
  cases op with
  | set o => exact srcOK_oset h o
  | del k => exact srcOK_odel h k

theorem srcOK_srcSteps {l : List Obj} (h : SrcOK l) (ops : List SrcOp) : SrcOK (srcSteps l ops) := by
  induction ops generalizing l with
  | nil => exact h
  | cons op ops ih => exact ih (srcOK_srcStep h op)

theorem oget_of_mem {l : List Obj} (h : SrcOK l) {o : Obj} (ho : o ∈ l) : oget l o.key = some o := by
  induction l with
  | nil => simp at ho
  | cons x l ih =>
    simp only [SrcOK, List.map_cons, List.nodup_cons] at h
    rcases List.mem_cons.1 ho with hx | hx
    · subst hx; simp [oget]
    · have hne : o.key ≠ x.key := by
        intro e
        apply h.1
        simp only [List.mem_map]
        exact ⟨o, hx, e⟩
      simp only [oget, hne, if_false]
      exact ih h.2 hx

theorem odel_absent {l : List Obj} {k : Key} (h : oget l k = none) : odel l k = l := by
  induction l with
  | nil => rfl
  | cons x l ih =>
    simp only [oget] at h
    by_cases hk : k = x.key
    · simp [hk] at h
    · simp only [hk, if_false] at h
      simp only [odel, hk, if_false, ih h]

/-- Filtering a source after one change: unchanged when neither the removed nor the inserted
    object passes the filter. -/
theorem filter_odel (p : Obj → Bool) {l : List Obj} (hl : SrcOK l) (k : Key)
    (h : ∀ o, oget l k = some o → p o = false) : (odel l k).filter p = l.filter p := by
  induction l with
  | nil => rfl
  | cons x l ih =>
    simp only [SrcOK, List.map_cons, List.nodup_cons] at hl
    by_cases hk : k = x.key
    · have hx : p x = false := h x (by simp [oget, hk])
      have habs : oget l k = none := by
        apply oget_none_of_not_mem
        intro o ho e
        apply hl.1
        simp only [List.mem_map]
        exact ⟨o, ho, by rw [e, hk]⟩
      simp only [odel, hk, if_true]
      rw [← hk, odel_absent habs, List.filter_cons, hx]
      simp
    · simp only [odel, hk, if_false, List.filter_cons]
      have := ih hl.2 (fun o ho => h o (by simp [oget, hk, ho]))
      rw [this]

theorem filter_srcStep (p : Obj → Bool) {l : List Obj} (hl : SrcOK l) (op : SrcOp)
    (h : ∀ e ∈ srcEvent l op, ∀ o ∈ e.items, p o = false) : (srcStep l op).filter p = l.filter p := by
  cases op with
  | set o =>
    simp only [srcEvent, List.mem_singleton, forall_eq, SrcEv.items] at h
    have ho : p o = false := h o (by simp)
    simp only [srcStep, oset, List.filter_cons, ho]
    simp only [Bool.false_eq_true, if_false]
    apply filter_odel p hl
    intro x hx
    exact h x (by simp [hx])
  | del k =>
    simp only [srcStep]
    apply filter_odel p hl
    intro x hx
    simp only [srcEvent, hx, List.mem_singleton, forall_eq, SrcEv.items] at h
    exact h x (by simp)

theorem filter_srcSteps (p : Obj → Bool) {l : List Obj} (hl : SrcOK l) (ops : List SrcOp)
    (h : ∀ e ∈ srcEvents l ops, ∀ o ∈ e.items, p o = false) : (srcSteps l ops).filter p = l.filter p := by
  induction ops generalizing l with
  | nil => rfl
  | cons op ops ih =>
    simp only [srcEvents, List.mem_append] at h
    simp only [srcSteps, List.foldl_cons]
    have h1 := filter_srcStep p hl op (fun e he => h e (Or.inl he))
    have h2 := ih (srcOK_srcStep hl op) (fun e he => h e (Or.inr he))
    simp only [srcSteps] at h2
    rw [h2, h1]

/-- The event of a change carries the key of the changed object. -/
theorem srcEvent_key {l : List Obj} {op : SrcOp} {e : SrcEv} (h : e ∈ srcEvent l op) :
    e.key = (match op with | .set o => o.key | .del k => k) := by
  cases op with
  | set o => simp only [srcEvent, List.mem_singleton] at h; subst h; simp [SrcEv.key]
  | del k =>
    simp only [srcEvent] at h
    cases hg : oget l k with
    | none => simp [hg] at h
    | some old =>
      simp only [hg, List.mem_singleton] at h; subst h
      simp [SrcEv.key, oget_key hg]

/-- A key without an event in the batch keeps its object. -/
theorem oget_srcStep_other {l : List Obj} {op : SrcOp} {i : Key}
    (h : ∀ e ∈ srcEvent l op, e.key ≠ i) : oget (srcStep l op) i = oget l i := by
  cases op with
  | set o =>
    have : o.key ≠ i := by
      have := h ⟨oget l o.key, some o⟩ (by simp [srcEvent])
      simpa [SrcEv.key] using this
    have hne : i ≠ o.key := fun e => this e.symm
    simp [srcStep, oget_oset, hne]
  | del k =>
    simp only [srcStep, oget_odel]
    by_cases hik : i = k
    · subst hik
      cases hg : oget l i with
      | none => simp
      | some old =>
        exfalso
        have := h ⟨some old, none⟩ (by simp [srcEvent, hg])
        simp [SrcEv.key, oget_key hg] at this
    · simp [hik]

theorem oget_srcSteps_other {l : List Obj} {ops : List SrcOp} {i : Key}
    (h : ∀ e ∈ srcEvents l ops, e.key ≠ i) : oget (srcSteps l ops) i = oget l i := by
  induction ops generalizing l with
  | nil => rfl
  | cons op ops ih =>
    simp only [srcEvents, List.mem_append] at h
    simp only [srcSteps, List.foldl_cons]
    have h2 := ih (l := srcStep l op) (fun e he => h e (Or.inr he))
    simp only [srcSteps] at h2
    rw [h2, oget_srcStep_other (fun e he => h e (Or.inl he))]

/-! ## `dedup` -/

theorem mem_dedup {l : List Key} {k : Key} : k ∈ dedup l ↔ k ∈ l := by
  induction l with
  | nil => simp [dedup]
  | cons x l ih =>
    by_cases hx : x ∈ l
    · have hc : l.contains x = true := by simpa using hx
      rw [dedup, if_pos hc, ih, List.mem_cons]
      constructor
      · exact Or.inr
      · rintro (h | h)
        · subst h; exact hx
        · exact h
    · have hc : ¬ (l.contains x = true) := by simpa using hx
      rw [dedup, if_neg hc, List.mem_cons, List.mem_cons, ih]

theorem nodup_dedup (l : List Key) : (dedup l).Nodup := by
  induction l with
  | nil => simp [dedup]
  | cons x l ih =>
    by_cases hx : x ∈ l
    · have hc : l.contains x = true := by simpa using hx
      rw [dedup, if_pos hc]; exact ih
    · have hc : ¬ (l.contains x = true) := by simpa using hx
      rw [dedup, if_neg hc, List.nodup_cons]
      exact ⟨fun h => hx (mem_dedup.1 h), ih⟩

/-! ## the transformation -/

theorem lookup_map_const (ks : List Key) (v : Val) (k : Key) :
    lookup (ks.map (fun x => (x, v))) k = if k ∈ ks then some v else none := by
  induction ks with
  | nil => simp [lookup]
  | cons x ks ih =>
    simp only [List.map_cons, lookup, ih, List.mem_cons]
    by_cases h : k = x <;> simp [h]

theorem mem_newKeysOf {T : Transform} {sec : List Obj} {i : Obj} {k : Key} :
    k ∈ newKeysOf T sec i ↔ ∃ v, (k, v) ∈ transform T sec i := by
  simp only [newKeysOf, mem_dedup, List.mem_map]
  constructor
  · rintro ⟨⟨k', v⟩, h, rfl⟩; exact ⟨v, h⟩
  · rintro ⟨v, h⟩; exact ⟨(k, v), h, rfl⟩

theorem transform_val {T : Transform} {sec : List Obj} {i : Obj} {k : Key} {v : Val}
    (h : (k, v) ∈ transform T sec i) : v = outVal T sec i := by
  simp only [transform] at h
  split at h
  · simp at h
  · simp only [List.mem_map] at h
    obtain ⟨x, _, hx⟩ := h
    simp only [Prod.mk.injEq] at hx
    exact hx.2.symm

/-- Closed form of the lookup in the result map of one input (`slices.GroupUnique`). -/
theorem lookup_transform (T : Transform) (sec : List Obj) (i : Obj) (k : Key) :
    lookup (transform T sec i) k = if k ∈ newKeysOf T sec i then some (outVal T sec i) else none := by
  simp only [newKeysOf, mem_dedup, transform]
  split
  · simp [lookup]
  · rw [lookup_map_const]
    simp

/-! ## closed forms of the loops -/

theorem lookup_keyOutputs (r o : FinMap) (key k : Key) :
    lookup (keyOutputs r o key) k = if k = key then lookup r key else lookup o k := by
  simp only [keyOutputs]
  cases hr : lookup r key with
  | none => simp [lookup_erase]
  | some n =>
    simp only
    by_cases ho : lookup o key = some n
    · simp only [ho, if_true]
      by_cases h : k = key
      · subst h; simp [ho]
      · simp [h]
    · simp only [ho, if_false, lookup_set]

theorem loopCol_fields (r : FinMap) (c : Col) (ks : List Key) :
    (loopCol r c ks).mappings = c.mappings ∧ (loopCol r c ks).deps = c.deps ∧
    (loopCol r c ks).inputs = c.inputs := by
  induction ks generalizing c with
  | nil => simp [loopCol]
  | cons k ks ih =>
    have := ih (stepKey r c k)
    simp only [loopCol, List.foldl_cons] at this ⊢
    simpa [stepKey] using this

theorem lookup_loopCol (r : FinMap) (c : Col) (ks : List Key) (k : Key) :
    lookup (loopCol r c ks).outputs k = if k ∈ ks then lookup r k else lookup c.outputs k := by
  induction ks generalizing c with
  | nil => simp [loopCol]
  | cons x ks ih =>
    have := ih (stepKey r c x)
    simp only [loopCol, List.foldl_cons] at this ⊢
    rw [this]
    simp only [stepKey, lookup_keyOutputs, List.mem_cons]
    by_cases h1 : k ∈ ks
    · simp [h1]
    · by_cases h2 : k = x
      · subst h2; simp [h1]
      · simp [h1, h2]

theorem delKey_fields (c : Col) (k : Key) :
    (delKey c k).mappings = c.mappings ∧ (delKey c k).deps = c.deps ∧ (delKey c k).inputs = c.inputs := by
  simp only [delKey]; split <;> simp

theorem lookup_delKey (c : Col) (k k' : Key) :
    lookup (delKey c k).outputs k' = if k' = k then none else lookup c.outputs k' := by
  simp only [delKey]
  cases h : lookup c.outputs k with
  | none =>
    simp only
    by_cases hk : k' = k
    · subst hk; simp [h]
    · simp [hk]
  | some old => simp [lookup_erase]

theorem foldl_delKey_fields (c : Col) (ks : List Key) :
    (ks.foldl delKey c).mappings = c.mappings ∧ (ks.foldl delKey c).deps = c.deps ∧
    (ks.foldl delKey c).inputs = c.inputs := by
  induction ks generalizing c with
  | nil => simp
  | cons k ks ih =>
    have := ih (delKey c k)
    have h2 := delKey_fields c k
    simp only [List.foldl_cons]
    exact ⟨this.1.trans h2.1, this.2.1.trans h2.2.1, this.2.2.trans h2.2.2⟩

theorem lookup_foldl_delKey (c : Col) (ks : List Key) (k' : Key) :
    lookup (ks.foldl delKey c).outputs k' = if k' ∈ ks then none else lookup c.outputs k' := by
  induction ks generalizing c with
  | nil => simp
  | cons x ks ih =>
    simp only [List.foldl_cons, ih, lookup_delKey, List.mem_cons]
    by_cases h1 : k' ∈ ks
    · simp [h1]
    · by_cases h2 : k' = x <;> simp [h1, h2]

theorem mem_allKeysOf {T : Transform} {sec : List Obj} {c : Col} {i : Obj} {k : Key} :
    k ∈ allKeysOf T sec c i ↔ k ∈ newKeysOf T sec i ∨ k ∈ oldKeysOf c i.key := by
  simp only [allKeysOf, List.mem_append, List.mem_filter, Bool.not_eq_true', List.contains_eq_mem,
    decide_eq_false_iff_not]
  constructor
  · rintro (h | ⟨h, _⟩)
    · exact Or.inl h
    · exact Or.inr h
  · rintro (h | h)
    · exact Or.inl h
    · by_cases hn : k ∈ newKeysOf T sec i
      · exact Or.inl hn
      · exact Or.inr ⟨h, hn⟩

/-- Closed form of the recompute branch. -/
theorem recomputeCol_mappings (T : Transform) (sec : List Obj) (c : Col) (i : Obj) :
    (recomputeCol T sec c i).mappings = set c.mappings i.key (newKeysOf T sec i) := by
  simp [recomputeCol, (loopCol_fields _ _ _).1, recordCol]

theorem recomputeCol_deps (T : Transform) (sec : List Obj) (c : Col) (i : Obj) :
    (recomputeCol T sec c i).deps = set c.deps i.key (depsOf T sec i) := by
  simp [recomputeCol, (loopCol_fields _ _ _).2.1, recordCol]

theorem lookup_recomputeCol_outputs (T : Transform) (sec : List Obj) (c : Col) (i : Obj) (k : Key) :
    lookup (recomputeCol T sec c i).outputs k =
      if k ∈ newKeysOf T sec i then some (outVal T sec i)
      else if k ∈ oldKeysOf c i.key then none else lookup c.outputs k := by
  simp only [recomputeCol, lookup_loopCol, mem_allKeysOf, lookup_transform, recordCol]
  by_cases h1 : k ∈ newKeysOf T sec i
  · simp [h1]
  · by_cases h2 : k ∈ oldKeysOf c i.key <;> simp [h1, h2]

/-- Closed form of the delete branch. -/
theorem deleteCol_mappings (c : Col) (k : Key) : (deleteCol c k).mappings = erase c.mappings k := by
  simp [deleteCol, forgetCol, (foldl_delKey_fields _ _).1]

theorem deleteCol_deps (c : Col) (k : Key) : (deleteCol c k).deps = erase c.deps k := by
  simp [deleteCol, forgetCol, (foldl_delKey_fields _ _).2.1]

theorem lookup_deleteCol_outputs (c : Col) (i : Key) (k : Key) :
    lookup (deleteCol c i).outputs k = if k ∈ oldKeysOf c i then none else lookup c.outputs k := by
  simp [deleteCol, forgetCol, lookup_foldl_delKey]

end IstioModel.C16
