import IstioModel.C16.JoinSpec

/-
C16 - executable model of the checked `krt.JoinCollection` event path (pkg/kube/krt/join.go):
`handleSubCollectionEvents` / `refreshEvents` / `processedState`.  Every joined collection has its
own handler pump (FIFO); `refreshEvents` converts or drops an event of collection `idx` by reading the
LIVE contents of the other collections (`getFromColIdx`), not `processedState` - the root of finding F10.
Core Lean only.
-/
namespace IstioModel.C16
open AMap

/-- an event of a joined collection: Add (none, some), Update (some, some), Delete (some, none) -/
structure JEv where
  old : Option JObj
  new : Option JObj
  deriving DecidableEq, Repr, Inhabited

def JEv.key (e : JEv) : Key :=
  match e.new, e.old with
  | some o, _ => o.key
  | none, some o => o.key
  | none, none => ""

structure JSys where
  /-- live contents of the joined collections -/
  cols : List (List JObj) := []
  /-- events distributed by each joined collection, not yet handled by the join -/
  qs   : List (List JEv) := []
  /-- `join.processedState` -/
  processed : FinMap := []
  /-- everything distributed to the join's subscribers -/
  out  : List Event := []
  deriving Repr, Inhabited

def JSys.init (n : Nat) : JSys := { cols := List.replicate n [], qs := List.replicate n [] }

def updAt {α : Type} : List α → Nat → (α → α) → List α
  | [], _, _ => []
  | x :: l, 0, f => f x :: l
  | x :: l, n + 1, f => x :: updAt l n f

def colAt (cols : List (List JObj)) : Nat → List JObj
  | 0 => cols.headD []
  | n + 1 => colAt cols.tail n

inductive JOp where
  | set (o : JObj)
  | del (k : Key)
  deriving DecidableEq, Repr, Inhabited

/-- `UpdateObject` / `DeleteObject` on joined collection `i`. -/
def jenv (s : JSys) (i : Nat) : JOp → JSys
  | .set o =>
    { s with cols := updAt s.cols i (fun c => jset c o)
             qs := updAt s.qs i (fun q => q ++ [⟨jget (colAt s.cols i) o.key, some o⟩]) }
  | .del k =>
    match jget (colAt s.cols i) k with
    | none => s
    | some old =>
      { s with cols := updAt s.cols i (fun c => jdel c k)
               qs := updAt s.qs i (fun q => q ++ [⟨some old, none⟩]) }

/-- first object with this key in any collection -/
def firstIn : List (List JObj) → Key → Option JObj
  | [], _ => none
  | c :: cs, k =>
    match jget c k with
    | some o => some o
    | none => firstIn cs k

/-- first object with this key in the collections `start, start+1, ...` -/
def firstFrom : List (List JObj) → Nat → Key → Option JObj
  | cs, 0, k => firstIn cs k
  | [], _ + 1, _ => none
  | _ :: cs, n + 1, k => firstFrom cs n k

/-- some collection before `idx` holds the key -/
def hasHigher : List (List JObj) → Nat → Key → Bool
  | _, 0, _ => false
  | [], _ + 1, _ => false
  | c :: cs, n + 1, k => (jget c k).isSome || hasHigher cs n k

/-- `refreshEvents` for one event of collection `idx` (`none` = dropped). -/
def refreshOne (cols : List (List JObj)) (idx : Nat) (e : JEv) : Option Event :=
  if hasHigher cols idx e.key then none else
  match e.old, e.new with
  | some old, none =>            -- Delete: fall back to a lower-priority collection's object
    match firstFrom cols (idx + 1) e.key with
    | some f => some (.update e.key old.tok f.tok)
    | none => some (.delete e.key old.tok)
  | none, some new =>            -- Add: replaces a lower-priority collection's object
    match firstFrom cols (idx + 1) e.key with
    | some o => some (.update e.key o.tok new.tok)
    | none => some (.add e.key new.tok)
  | some old, some new => some (.update e.key old.tok new.tok)
  | none, none => none

def jApplyProcessed (m : FinMap) : Event → FinMap
  | .add k v => set m k v
  | .update k _ v => set m k v
  | .delete k _ => erase m k

/-- the join handles the oldest pending event of collection `i` -/
def jproc (s : JSys) (i : Nat) : JSys :=
  match (s.qs.drop i).headD [] with
  | [] => s
  | e :: _ =>
    match refreshOne s.cols i e with
    | none => { s with qs := updAt s.qs i List.tail }
    | some ev =>
      { s with qs := updAt s.qs i List.tail
               processed := jApplyProcessed s.processed ev
               out := s.out ++ [ev] }

inductive JAct where
  | env (i : Nat) (op : JOp)
  | proc (i : Nat)
  deriving DecidableEq, Repr, Inhabited

def jstep (s : JSys) : JAct → JSys
  | .env i op => jenv s i op
  | .proc i => jproc s i

def jexec (s : JSys) (run : List JAct) : JSys := run.foldl jstep s

def JSys.quiescent (s : JSys) : Bool := s.qs.all (·.isEmpty)

end IstioModel.C16
