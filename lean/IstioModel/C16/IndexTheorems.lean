import IstioModel.C16.RuntimeSys

/-!
C16 - index maintenance of a derived collection (`collectionIndex.update / delete / Lookup` in
pkg/kube/krt/collection.go): `index_correct`.
-/
namespace IstioModel.C16
open AMap

/-! ## index maintenance (`collectionIndex.update / delete / Lookup`) -/

/-- `k` is listed under index key `ik`. -/
def idxMem (ix : AMap (List Key)) (ik : String) (k : Key) : Prop := k ∈ (lookup ix ik).getD []

/-- The index lists exactly the outputs whose extracted index key is `ik`. -/
def IdxInv (c : Col) : Prop :=
  ∀ ik k, idxMem c.index ik k ↔ ∃ v, lookup c.outputs k = some v ∧ outNs v = ik

theorem mem_idxDel (ix : AMap (List Key)) (v : Val) (k : Key) (ik : String) (k' : Key) :
    idxMem (idxDel ix v k) ik k' ↔ idxMem ix ik k' ∧ ¬ (ik = outNs v ∧ k' = k) := by
  unfold idxDel idxMem
  cases h : lookup ix (outNs v) with
  | none =>
    show k' ∈ (lookup ix ik).getD [] ↔ _
    constructor
    · intro hm
      refine ⟨hm, ?_⟩
      rintro ⟨e, _⟩
      rw [e, h] at hm; simp at hm
    · exact fun hm => hm.1
  | some ks =>
    show k' ∈ (lookup (if (ks.filter (fun x => x != k)).isEmpty = true then erase ix (outNs v)
      else AMap.set ix (outNs v) (ks.filter (fun x => x != k))) ik).getD [] ↔ _
    by_cases hemp : (ks.filter (fun x => x != k)).isEmpty = true
    · rw [if_pos hemp, lookup_erase]
      by_cases hik : ik = outNs v
      · subst hik
        rw [if_pos rfl, h]
        constructor
        · intro hm; simp at hm
        · rintro ⟨hm, hcon⟩
          exfalso
          apply hcon
          refine ⟨rfl, ?_⟩
          by_cases hk : k' = k
          · exact hk
          · exfalso
            have hm' : k' ∈ ks := by simpa using hm
            have : k' ∈ ks.filter (fun x => x != k) := by
              simp only [List.mem_filter, bne_iff_ne, ne_eq]; exact ⟨hm', hk⟩
            have he : ks.filter (fun x => x != k) = [] := by simpa using hemp
            rw [he] at this; simp at this
      · rw [if_neg hik]
        simp [hik]
    · rw [if_neg hemp, lookup_set]
      by_cases hik : ik = outNs v
      · subst hik
        rw [if_pos rfl, h]
        simp only [Option.getD_some, List.mem_filter, bne_iff_ne, ne_eq, true_and]
      · rw [if_neg hik]
        simp [hik]

theorem mem_idxIns (ix : AMap (List Key)) (v : Val) (k : Key) (ik : String) (k' : Key) :
    idxMem (idxIns ix v k) ik k' ↔ idxMem ix ik k' ∨ (ik = outNs v ∧ k' = k) := by
  unfold idxIns idxMem
  cases h : lookup ix (outNs v) with
  | none =>
    show k' ∈ (lookup (AMap.set ix (outNs v) [k]) ik).getD [] ↔ _
    rw [lookup_set]
    by_cases hik : ik = outNs v
    · subst hik; rw [if_pos rfl, h]; simp
    · rw [if_neg hik]; simp [hik]
  | some ks =>
    show k' ∈ (lookup (if ks.contains k = true then ix else AMap.set ix (outNs v) (k :: ks)) ik).getD [] ↔ _
    by_cases hc : ks.contains k = true
    · rw [if_pos hc]
      constructor
      · exact Or.inl
      · rintro (hm | ⟨e, e2⟩)
        · exact hm
        · subst e; subst e2; rw [h]; simpa using hc
    · rw [if_neg hc, lookup_set]
      by_cases hik : ik = outNs v
      · subst hik; rw [if_pos rfl, h]; simp [or_comm]
      · rw [if_neg hik]; simp [hik]

/-- shapes of the event of one loop iteration -/
theorem keyEvent_shape {r o : FinMap} {key : Key} {e : Event} (he : keyEvent r o key = some e)
    (h : lookup r key ≠ none ∨ lookup o key ≠ none) :
    (∃ n, e = .add key n ∧ lookup o key = none) ∨
    (∃ ov n, e = .update key ov n ∧ lookup o key = some ov) ∨
    (∃ ov, e = .delete key ov ∧ lookup o key = some ov) := by
  simp only [keyEvent] at he
  cases hr : lookup r key with
  | none =>
    cases ho : lookup o key with
    | none => simp [hr, ho] at h
    | some ov =>
      simp only [hr, ho, Option.some.injEq] at he
      exact Or.inr (Or.inr ⟨ov, he.symm, rfl⟩)
  | some n =>
    cases ho : lookup o key with
    | none =>
      simp only [hr, ho, Option.some.injEq] at he
      exact Or.inl ⟨n, he.symm, rfl⟩
    | some ov =>
      simp only [hr, ho] at he
      by_cases hn : n = ov
      · simp [hn] at he
      · simp only [hn, if_false, Option.some.injEq] at he
        exact Or.inr (Or.inl ⟨ov, n, he.symm, rfl⟩)

/-- applying a legal event of key `key` to outputs and index keeps them consistent -/
theorem idxInv_event {outputs : FinMap} {index : AMap (List Key)}
    (h : ∀ ik k, idxMem index ik k ↔ ∃ v, lookup outputs k = some v ∧ outNs v = ik)
    (key : Key) (e : Event)
    (hs : (∃ n, e = .add key n ∧ lookup outputs key = none) ∨
          (∃ ov n, e = .update key ov n ∧ lookup outputs key = some ov) ∨
          (∃ ov, e = .delete key ov ∧ lookup outputs key = some ov)) :
    ∀ ik k, idxMem (idxUpdate index key e) ik k ↔ ∃ v, lookup (applyEv outputs e) k = some v ∧ outNs v = ik := by
  intro ik k
  rcases hs with ⟨n, rfl, ho⟩ | ⟨ov, n, rfl, ho⟩ | ⟨ov, rfl, ho⟩
  · simp only [idxUpdate, applyEv, mem_idxIns, lookup_set, h]
    by_cases hk : k = key
    · subst hk; simp [ho, eq_comm]
    · simp [hk]
  · simp only [idxUpdate, applyEv, mem_idxIns, mem_idxDel, lookup_set, h]
    by_cases hk : k = key
    · subst hk
      simp only [ho, Option.some.injEq, exists_eq_left', and_true, if_true]
      constructor
      · rintro (⟨h1, h2⟩ | h3)
        · exact absurd h1.symm h2
        · exact h3.symm
      · intro h3; exact Or.inr h3.symm
    · simp [hk]
  · simp only [idxUpdate, applyEv, mem_idxDel, lookup_erase, h]
    by_cases hk : k = key
    · subst hk
      simp only [ho, Option.some.injEq, exists_eq_left', and_true, if_true]
      simp
      intro h1; exact h1.symm
    · simp [hk]

theorem idxInv_stepKey {r : FinMap} {c : Col} (h : IdxInv c) (key : Key)
    (hl : lookup r key ≠ none ∨ lookup c.outputs key ≠ none) : IdxInv (stepKey r c key) := by
  have hstep := keyStep_ok r c.outputs key hl
  cases he : keyEvent r c.outputs key with
  | none =>
    simp only [he] at hstep
    intro ik k
    simp only [stepKey, he, hstep]
    exact h ik k
  | some e =>
    simp only [he] at hstep
    intro ik k
    simp only [stepKey, he, hstep.2]
    exact idxInv_event h key e (keyEvent_shape he hl) ik k

theorem idxInv_loop (r : FinMap) (ks : List Key) (c : Col) (h : IdxInv c) (hnd : ks.Nodup)
    (hl : ∀ k ∈ ks, lookup r k ≠ none ∨ lookup c.outputs k ≠ none) : IdxInv (loopCol r c ks) := by
  induction ks generalizing c with
  | nil => exact h
  | cons k ks ih =>
    simp only [List.nodup_cons] at hnd
    simp only [loopCol, List.foldl_cons]
    apply ih (stepKey r c k) (idxInv_stepKey h k (hl k (List.mem_cons_self ..))) hnd.2
    intro k' hk'
    have hne : k' ≠ k := fun e => hnd.1 (e ▸ hk')
    simp only [stepKey, lookup_keyOutputs, hne, if_false]
    exact hl k' (List.mem_cons_of_mem _ hk')

theorem idxInv_delKey {c : Col} (h : IdxInv c) (k : Key) : IdxInv (delKey c k) := by
  simp only [delKey]
  cases ho : lookup c.outputs k with
  | none => exact h
  | some old =>
    intro ik k'
    have := idxInv_event h k (.delete k old) (Or.inr (Or.inr ⟨old, rfl, ho⟩)) ik k'
    simpa [idxUpdate, applyEv] using this

theorem idxInv_applyItem {T : Transform} {sec : List Obj} {c : Col} (hc : ColInv c) (h : IdxInv c)
    (it : Item) : IdxInv (applyItem T sec c it) := by
  cases it with
  | recompute i =>
    simp only [applyItem, recomputeCol]
    apply idxInv_loop _ _ _ (by exact h) (nodup_allKeysOf hc i)
    intro k hk
    rcases mem_allKeysOf.1 hk with h1 | h1
    · left; rw [lookup_transform]; simp [h1]
    · right
      cases hi : lookup c.mappings i.key with
      | none => simp [oldKeysOf_none hi] at h1
      | some ks =>
        rw [oldKeysOf_eq hi] at h1
        have := hc.sub _ _ _ hi h1
        simp only [recordCol]
        intro e; rw [e] at this; simp at this
  | delete k =>
    simp only [applyItem, deleteCol]
    have : ∀ (ks : List Key) (c : Col), IdxInv c → IdxInv (ks.foldl delKey c) := by
      intro ks
      induction ks with
      | nil => intro c h; exact h
      | cons x ks ih => intro c h; exact ih _ (idxInv_delKey h x)
    have h2 := this (oldKeysOf c k) c h
    intro ik k'
    simpa [forgetCol] using h2 ik k'

theorem idxInv_items {T : Transform} {sec : List Obj} (its : List Item) {c : Col} (hc : ColInv c)
    (h : IdxInv c) (hok : itemsOK T sec c its = true) : IdxInv (applyItems T sec c its) := by
  induction its generalizing c with
  | nil => exact h
  | cons it its ih =>
    simp only [itemsOK, Bool.and_eq_true] at hok
    simp only [applyItems, List.foldl_cons]
    exact ih (colInv_applyItem hc it hok.1) (idxInv_applyItem hc h it) hok.2

theorem idxInv_exec {T : Transform} {s : Sys} (hs : SysInv T s) (h : IdxInv s.col) (run : List Act)
    (hok : runOK T s run = true) : IdxInv (exec T s run).col := by
  induction run generalizing s with
  | nil => exact h
  | cons a run ih =>
    simp only [runOK, Bool.and_eq_true] at hok
    simp only [exec, List.foldl_cons]
    apply ih (sysInv_step hs a hok.1) _ hok.2
    cases a with
    | envP ops => exact h
    | envS ops => exact h
    | procP => exact idxInv_items _ hs.m.col h hok.1
    | procS => exact idxInv_items _ hs.m.col h hok.1

/-- **index_correct**: along every run respecting DisjointAtApply, at every moment, `Index.Lookup(ik)`
    returns exactly the outputs whose index key is `ik` (no stale entry, none missing). -/
theorem index_correct (T : Transform) (run : List Act) (hok : runOK T {} run = true)
    (ik : String) (k : Key) (v : Val) :
    (k, v) ∈ idxLookup (exec T {} run).col ik ↔
      lookup (exec T {} run).col.outputs k = some v ∧ outNs v = ik := by
  have h := idxInv_exec (sysInv_init T) (by intro ik k; simp [idxMem, lookup]) run hok
  simp only [idxLookup, List.mem_filterMap, Option.map_eq_some_iff, Prod.mk.injEq]
  constructor
  · rintro ⟨k', hk', v', hv', rfl, rfl⟩
    obtain ⟨w, hw, hns⟩ := (h ik k').1 hk'
    rw [hv'] at hw
    simp only [Option.some.injEq] at hw
    subst hw
    exact ⟨hv', hns⟩
  · rintro ⟨hv, hns⟩
    exact ⟨k, (h ik k).2 ⟨v, hv, hns⟩, v, hv, rfl, rfl⟩

end IstioModel.C16
