import IstioModel.C16.Model

/-
C16 - the input-level barrier discipline: between two quiescent points an output key is claimed by
at most one input.  `claimsOf` only looks at the input object (not at the fetched collection, not
at the collection's recorded mappings); `disciplined` walks a run, reading only the source
collection and whether the queues are empty.  `Disciplined run → runOK` is proved in
DisciplineTheorems.lean; the drivers (Lean and Go) evaluate the same bookkeeping
(`claimBad / claimAdd / resetClaims`) on the history ops, with the barriers as quiescent points.
Core Lean only.
-/
namespace IstioModel.C16
open AMap

/-- The output keys an input can produce, whatever it fetches. -/
def claimsOf (T : Transform) (o : Obj) : List Key := outKeys T o

def claimedByOther (cl : AMap (List Key)) (p k : Key) : Bool :=
  cl.any (fun e => e.1 != p && e.2.contains k)

/-- the keys of `ks` that another input has claimed since the last quiescent point -/
def claimBad (cl : AMap (List Key)) (p : Key) (ks : List Key) : List Key :=
  ks.filter (fun k => claimedByOther cl p k)

def claimAdd (cl : AMap (List Key)) (p : Key) (ks : List Key) : AMap (List Key) :=
  set cl p ((lookup cl p).getD [] ++ ks)

/-- claims table after one batch of source changes -/
def discClaims (T : Transform) : AMap (List Key) → List SrcOp → AMap (List Key)
  | cl, [] => cl
  | cl, .set o :: ops => discClaims T (claimAdd cl o.key (claimsOf T o)) ops
  | cl, .del _ :: ops => discClaims T cl ops

/-- offending keys of one batch of source changes -/
def discBad (T : Transform) : AMap (List Key) → List SrcOp → List Key
  | _, [] => []
  | cl, .set o :: ops =>
    claimBad cl o.key (claimsOf T o) ++ discBad T (claimAdd cl o.key (claimsOf T o)) ops
  | cl, .del _ :: ops => discBad T cl ops

/-- at a quiescent point: what the current inputs claim -/
def resetClaims (T : Transform) (prim : List Obj) : AMap (List Key) :=
  prim.map (fun o => (o.key, claimsOf T o))

/-- **The discipline along a run** (reads `s.prim` and the emptiness of the queues only). -/
def disciplined (T : Transform) : Sys → AMap (List Key) → List Act → Bool
  | _, _, [] => true
  | s, cl, .envP ops :: run =>
    (discBad T cl ops).isEmpty && disciplined T (step T s (.envP ops)) (discClaims T cl ops) run
  | s, cl, .envS ops :: run => disciplined T (step T s (.envS ops)) cl run
  | s, cl, .procP :: run =>
    disciplined T (step T s .procP)
      (if (step T s .procP).quiescent then resetClaims T (step T s .procP).prim else cl) run
  | s, cl, .procS :: run =>
    disciplined T (step T s .procS)
      (if (step T s .procS).quiescent then resetClaims T (step T s .procS).prim else cl) run

def Disciplined (T : Transform) (run : List Act) : Bool := disciplined T {} [] run

end IstioModel.C16
