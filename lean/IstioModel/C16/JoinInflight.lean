import IstioModel.C16.JoinModelTheorems
import IstioModel.C16.RuntimeSys

/-!
C16 - the checked join with SEVERAL events in flight.

`join_inflight_correct`: along any run in which, whenever the join handles an event of collection `i`
for key `k`, no OTHER joined collection has an unhandled event for `k` (what the discipline of stream
`join` guarantees: between two quiescent points a key is changed by one collection only -
`jdisc_runOK`), the delivered stream is well formed at every moment and, at quiescence, replays to the
first-collection-wins contents.  Any number of events of any number of keys may be queued.

Also: `processed_eq_replay` (`processedState` is the replay of what was delivered, so a late
`RegisterBatch(true)` gets the right initial Adds: `join_late_subscriber`), and
`join_overlap_at_start_witness` (the other half of F10: two collections hold the key when the join is
created).
-/
namespace IstioModel.C16
open AMap

/-! ## everything about one key lives in a vector of options -/

/-- per collection: the object it holds for key `k` -/
def liveV (cols : List (List JObj)) (k : Key) : List (Option JObj) := cols.map (fun c => jget c k)

/-- first-collection-wins on such a vector -/
def specOpt : List (Option JObj) → Option Val
  | [] => none
  | some o :: _ => some o.tok
  | none :: l => specOpt l

def firstInV : List (Option JObj) → Option JObj
  | [] => none
  | some o :: _ => some o
  | none :: l => firstInV l

def firstFromV : List (Option JObj) → Nat → Option JObj
  | l, 0 => firstInV l
  | [], _ + 1 => none
  | _ :: l, n + 1 => firstFromV l n

def hasHigherV : List (Option JObj) → Nat → Bool
  | _, 0 => false
  | [], _ + 1 => false
  | x :: l, n + 1 => x.isSome || hasHigherV l n

theorem specOpt_firstInV (l : List (Option JObj)) : specOpt l = (firstInV l).map (·.tok) := by
  induction l with
  | nil => rfl
  | cons x l ih => cases x <;> simp [specOpt, firstInV, ih]

theorem joinGetSpec_liveV (cols : List (List JObj)) (k : Key) : joinGetSpec cols k = specOpt (liveV cols k) := by
  induction cols with
  | nil => rfl
  | cons c cs ih =>
    simp only [joinGetSpec, liveV, List.map_cons] at ih ⊢
    cases h : jget c k with
    | none => simpa [specOpt] using ih
    | some o => simp [specOpt]

theorem firstIn_liveV (cols : List (List JObj)) (k : Key) : firstIn cols k = firstInV (liveV cols k) := by
  induction cols with
  | nil => rfl
  | cons c cs ih =>
    simp only [firstIn, liveV, List.map_cons] at ih ⊢
    cases h : jget c k with
    | none => simpa [firstInV] using ih
    | some o => simp [firstInV]

theorem firstFrom_liveV (cols : List (List JObj)) (n : Nat) (k : Key) :
    firstFrom cols n k = firstFromV (liveV cols k) n := by
  induction cols generalizing n with
  | nil => cases n <;> simp [firstFrom, firstFromV, liveV, firstIn, firstInV]
  | cons c cs ih =>
    cases n with
    | zero => simp only [firstFrom, firstFromV]; exact firstIn_liveV _ _
    | succ m => simp only [firstFrom, liveV, List.map_cons, firstFromV]; exact ih m

theorem hasHigher_liveV (cols : List (List JObj)) (n : Nat) (k : Key) :
    hasHigher cols n k = hasHigherV (liveV cols k) n := by
  induction cols generalizing n with
  | nil => cases n <;> simp [hasHigher, hasHigherV, liveV]
  | cons c cs ih =>
    cases n with
    | zero => simp [hasHigher, hasHigherV]
    | succ m => simp only [hasHigher, liveV, List.map_cons, hasHigherV, ih m]

/-- `refreshOne` on the vector of key `e.key` -/
def refreshV (L : List (Option JObj)) (idx : Nat) (e : JEv) : Option Event :=
  if hasHigherV L idx then none else
  match e.old, e.new with
  | some old, none =>
    match firstFromV L (idx + 1) with
    | some f => some (.update e.key old.tok f.tok)
    | none => some (.delete e.key old.tok)
  | none, some new =>
    match firstFromV L (idx + 1) with
    | some o => some (.update e.key o.tok new.tok)
    | none => some (.add e.key new.tok)
  | some old, some new => some (.update e.key old.tok new.tok)
  | none, none => none

theorem refreshOne_V (cols : List (List JObj)) (idx : Nat) (e : JEv) :
    refreshOne cols idx e = refreshV (liveV cols e.key) idx e := by
  simp only [refreshOne, refreshV, hasHigher_liveV, firstFrom_liveV]
  rfl

/-- **the step on vectors**: the subscribers' view `B[i := e.old]` moves to `B[i := e.new]` whatever
    collection `i` holds right now (`x`): `refreshEvents` does not look at the event's own collection. -/
theorem stepV (B : List (Option JObj)) (i : Nat) (hi : i < B.length) (x : Option JObj) (e : JEv)
    (hne : ¬ (e.old = none ∧ e.new = none)) :
    StepOK (specOpt (B.set i e.old)) (specOpt (B.set i e.new)) e.key (refreshV (B.set i x) i e) := by
  induction B generalizing i with
  | nil => simp at hi
  | cons b B ih =>
    cases i with
    | zero =>
      simp only [List.set_cons_zero, refreshV, hasHigherV, Bool.false_eq_true, if_false, firstFromV]
      cases ho : e.old with
      | none =>
        cases hn : e.new with
        | none => exact absurd ⟨ho, hn⟩ hne
        | some new =>
          simp only [specOpt, specOpt_firstInV]
          cases firstInV B <;> simp [StepOK]
      | some old =>
        cases hn : e.new with
        | none =>
          simp only [specOpt, specOpt_firstInV]
          cases firstInV B <;> simp [StepOK]
        | some new => simp [specOpt, StepOK]
    | succ n =>
      have hn : n < B.length := by simpa using hi
      have := ih n hn
      simp only [List.set_cons_succ, refreshV, hasHigherV, firstFromV] at this ⊢
      cases b with
      | some o => simp [specOpt, StepOK]
      | none => simpa [specOpt] using this

/-! ## what has been delivered for a key: the start of the pending chain -/

/-- the state of key `k` in a collection as the join has seen it: the Old of the first unhandled event
    of `k`, or the live object if there is none -/
def dstart : List JEv → Key → Option JObj → Option JObj
  | [], _, live => live
  | e :: q, k, live => if e.key = k then e.old else dstart q k live

def noPend (q : List JEv) (k : Key) : Prop := ∀ e ∈ q, e.key ≠ k

theorem dstart_noPend {q : List JEv} {k : Key} (h : noPend q k) (live : Option JObj) : dstart q k live = live := by
  induction q with
  | nil => rfl
  | cons e q ih =>
    have he : e.key ≠ k := h e (List.mem_cons_self ..)
    simp only [dstart, he, if_false]
    exact ih (fun x hx => h x (List.mem_cons_of_mem _ hx))

theorem dstart_append_other (q : List JEv) (e : JEv) (k : Key) (live : Option JObj) (h : e.key ≠ k) :
    dstart (q ++ [e]) k live = dstart q k live := by
  induction q with
  | nil => simp [dstart, h]
  | cons x q ih => simp only [List.cons_append, dstart, ih]

theorem dstart_append_self (q : List JEv) (e : JEv) (live : Option JObj) :
    dstart (q ++ [e]) e.key live = dstart q e.key e.old := by
  induction q with
  | nil => simp [dstart]
  | cons x q ih => simp only [List.cons_append, dstart, ih]

/-- every queued event's New is the start of what follows it: the queue is a history from what was
    delivered to what is live -/
def chain : List JEv → Key → Option JObj → Prop
  | [], _, _ => True
  | e :: q, k, live => (e.key = k → e.new = dstart q k live) ∧ chain q k live

theorem chain_append_other (q : List JEv) (e : JEv) (k : Key) (live : Option JObj) (h : e.key ≠ k)
    (hc : chain q k live) : chain (q ++ [e]) k live := by
  induction q with
  | nil => simp [chain, h]
  | cons x q ih =>
    simp only [List.cons_append, chain] at hc ⊢
    exact ⟨by rw [dstart_append_other _ _ _ _ h]; exact hc.1, ih hc.2⟩

theorem chain_append_self (q : List JEv) (e : JEv) (hc : chain q e.key e.old) :
    chain (q ++ [e]) e.key e.new := by
  induction q with
  | nil => simp [chain, dstart]
  | cons x q ih =>
    simp only [List.cons_append, chain] at hc ⊢
    exact ⟨by rw [dstart_append_self]; exact hc.1, ih hc.2⟩

/-- well-shaped events: Old (if any) has the event's key, and not both sides empty -/
def EvOK (e : JEv) : Prop := (∀ o, e.old = some o → o.key = e.key) ∧ ¬ (e.old = none ∧ e.new = none)

/-! ## the delivered vector of the whole system -/

def dvec : List (List JEv) → List (List JObj) → Key → List (Option JObj)
  | q :: qs, c :: cs, k => dstart q k (jget c k) :: dvec qs cs k
  | _, _, _ => []

theorem dvec_length (qs : List (List JEv)) (cols : List (List JObj)) (k : Key) (h : qs.length = cols.length) :
    (dvec qs cols k).length = cols.length := by
  induction qs generalizing cols with
  | nil => cases cols <;> simp_all [dvec]
  | cons q qs ih =>
    cases cols with
    | nil => simp at h
    | cons c cs => simp only [dvec, List.length_cons]; rw [ih cs (by simpa using h)]

/-- the other queues have nothing pending for `k` -/
def OthersQuiet (qs : List (List JEv)) (i : Nat) (k : Key) : Prop :=
  ∀ (j : Nat) (q : List JEv), qs[j]? = some q → j ≠ i → noPend q k

theorem othersQuiet_tail {q : List JEv} {qs : List (List JEv)} {n : Nat} {k : Key}
    (h : OthersQuiet (q :: qs) (n + 1) k) : OthersQuiet qs n k := by
  intro j q' hj hne
  exact h (j + 1) q' (by simpa using hj) (by omega)

theorem othersQuiet_zero_tail {q : List JEv} {qs : List (List JEv)} {k : Key}
    (h : OthersQuiet (q :: qs) 0 k) : ∀ (j : Nat) (q' : List JEv), qs[j]? = some q' → noPend q' k := by
  intro j q' hj
  exact h (j + 1) q' (by simpa using hj) (by omega)

theorem dvec_all_quiet (qs : List (List JEv)) (cols : List (List JObj)) (k : Key)
    (hlen : qs.length = cols.length) (h : ∀ (j : Nat) (q' : List JEv), qs[j]? = some q' → noPend q' k) :
    dvec qs cols k = liveV cols k := by
  induction qs generalizing cols with
  | nil => cases cols <;> simp_all [dvec, liveV]
  | cons q qs ih =>
    cases cols with
    | nil => simp at hlen
    | cons c cs =>
      simp only [dvec, liveV, List.map_cons]
      rw [dstart_noPend (h 0 q (by simp))]
      have := ih cs (by simpa using hlen) (fun j q' hj => h (j + 1) q' (by simpa using hj))
      simp only [liveV] at this
      rw [this]

/-- with the other queues quiet for `k`, live and delivered vectors differ at position `i` only -/
theorem liveV_eq_dvec_set (qs : List (List JEv)) (cols : List (List JObj)) (i : Nat) (k : Key)
    (hlen : qs.length = cols.length) (hq : OthersQuiet qs i k) :
    liveV cols k = (dvec qs cols k).set i (jget (colAt cols i) k) := by
  induction qs generalizing cols i with
  | nil => cases cols <;> simp_all [dvec, liveV]
  | cons q qs ih =>
    cases cols with
    | nil => simp at hlen
    | cons c cs =>
      have hl : qs.length = cs.length := by simpa using hlen
      cases i with
      | zero =>
        simp only [dvec, List.set_cons_zero, colAt, List.headD_cons, liveV, List.map_cons]
        rw [dvec_all_quiet qs cs k hl (othersQuiet_zero_tail hq)]
        rfl
      | succ n =>
        simp only [dvec, List.set_cons_succ, colAt, List.tail_cons, liveV, List.map_cons]
        rw [dstart_noPend (hq 0 q (by simp) (by omega))]
        have := ih cs n hl (othersQuiet_tail hq)
        simp only [liveV] at this
        rw [this]

/-- position `i` of the delivered vector -/
theorem dvec_set_self (qs : List (List JEv)) (cols : List (List JObj)) (i : Nat) (k : Key)
    (hlen : qs.length = cols.length) :
    (dvec qs cols k).set i (dstart ((qs.drop i).headD []) k (jget (colAt cols i) k)) = dvec qs cols k := by
  induction qs generalizing cols i with
  | nil => cases cols <;> simp [dvec]
  | cons q qs ih =>
    cases cols with
    | nil => simp at hlen
    | cons c cs =>
      cases i with
      | zero => simp [dvec, colAt]
      | succ n =>
        simp only [dvec, List.set_cons_succ, List.drop_succ_cons, colAt, List.tail_cons]
        rw [ih cs n (by simpa using hlen)]

/-- popping the head of queue `i` -/
theorem dvec_pop (qs : List (List JEv)) (cols : List (List JObj)) (i : Nat) (k : Key)
    (hlen : qs.length = cols.length) :
    dvec (updAt qs i List.tail) cols k =
      (dvec qs cols k).set i (dstart ((qs.drop i).headD []).tail k (jget (colAt cols i) k)) := by
  induction qs generalizing cols i with
  | nil => cases cols <;> simp [dvec, updAt]
  | cons q qs ih =>
    cases cols with
    | nil => simp at hlen
    | cons c cs =>
      cases i with
      | zero => simp [dvec, updAt, colAt]
      | succ n =>
        simp only [dvec, updAt, List.set_cons_succ, List.drop_succ_cons, colAt, List.tail_cons]
        rw [ih cs n (by simpa using hlen)]

/-! ## the system invariant -/

def chainAll : List (List JEv) → List (List JObj) → Prop
  | q :: qs, c :: cs => (∀ k, chain q k (jget c k)) ∧ chainAll qs cs
  | _, _ => True

structure JG (s : JSys) : Prop where
  len : s.qs.length = s.cols.length
  chains : chainAll s.qs s.cols
  evok : ∀ q ∈ s.qs, ∀ e ∈ q, EvOK e
  wf : WellFormed s.out
  rep : ∀ k, lookup (replay s.out) k = specOpt (dvec s.qs s.cols k)

theorem deliver_gen {out : List Event} {f f' : Key → Option Val} {k : Key} {ev : Option Event}
    (wf : WellFormed out) (rep : ∀ k, lookup (replay out) k = f k)
    (hother : ∀ k', k' ≠ k → f' k' = f k') (hstep : StepOK (f k) (f' k) k ev) :
    WellFormed (out ++ ev.toList) ∧ ∀ k', lookup (replay (out ++ ev.toList)) k' = f' k' := by
  cases ev with
  | none =>
    simp only [StepOK] at hstep
    simp only [Option.toList, List.append_nil]
    refine ⟨wf, fun k' => ?_⟩
    by_cases hk : k' = k
    · subst hk; rw [rep, hstep]
    · rw [rep, hother k' hk]
  | some e =>
    simp only [Option.toList]
    have hrep : replay (out ++ [e]) = applyEv (replay out) e := by
      rw [replay_append]; rfl
    have hw : ∀ (hl : (stepB (replay out) e).isSome = true), WellFormed (out ++ [e]) := by
      intro hl
      rw [WellFormed, wellFormedFrom_append]
      exact ⟨wf, (wellFormedFrom_cons _ _ _).2 ⟨hl, wellFormedFrom_nil _⟩⟩
    cases e with
    | add k0 v =>
      obtain ⟨rfl, hb, ha⟩ := hstep
      refine ⟨hw (by simp [stepB, rep, hb]), fun k' => ?_⟩
      rw [hrep]
      simp only [applyEv, lookup_set]
      by_cases hk : k' = k0
      · simp [hk, ha]
      · simp [hk, rep, hother k' hk]
    | update k0 o v =>
      obtain ⟨rfl, hb, ha⟩ := hstep
      refine ⟨hw (by simp [stepB, rep, hb]), fun k' => ?_⟩
      rw [hrep]
      simp only [applyEv, lookup_set]
      by_cases hk : k' = k0
      · simp [hk, ha]
      · simp [hk, rep, hother k' hk]
    | delete k0 o =>
      obtain ⟨rfl, hb, ha⟩ := hstep
      refine ⟨hw (by simp [stepB, rep, hb]), fun k' => ?_⟩
      rw [hrep]
      simp only [applyEv, lookup_erase]
      by_cases hk : k' = k0
      · simp [hk, ha]
      · simp [hk, rep, hother k' hk]

/-! ### a change of a joined collection: nothing delivered changes -/

/-- appending the event of a change to queue `i` and applying the change to collection `i` -/
theorem dvec_env (qs : List (List JEv)) (cols : List (List JObj)) (i : Nat) (e : JEv) (f : List JObj → List JObj)
    (hlen : qs.length = cols.length)
    (hold : e.old = jget (colAt cols i) e.key)
    (hother : ∀ c k, k ≠ e.key → jget (f c) k = jget c k) (k : Key) :
    dvec (updAt qs i (fun q => q ++ [e])) (updAt cols i f) k = dvec qs cols k := by
  induction qs generalizing cols i with
  | nil => cases cols <;> simp [dvec, updAt]
  | cons q qs ih =>
    cases cols with
    | nil => simp at hlen
    | cons c cs =>
      cases i with
      | zero =>
        simp only [updAt, dvec, colAt, List.headD_cons] at hold ⊢
        by_cases hk : k = e.key
        · subst hk; rw [dstart_append_self, hold]
        · rw [dstart_append_other _ _ _ _ (fun x => hk x.symm), hother c k hk]
      | succ n =>
        simp only [updAt, dvec, colAt, List.tail_cons] at hold ⊢
        rw [ih cs n (by simpa using hlen) hold]

theorem chainAll_env (qs : List (List JEv)) (cols : List (List JObj)) (i : Nat) (e : JEv) (f : List JObj → List JObj)
    (hlen : qs.length = cols.length) (hc : chainAll qs cols)
    (hold : e.old = jget (colAt cols i) e.key)
    (hnew : ∀ c, jget (f c) e.key = e.new)
    (hother : ∀ c k, k ≠ e.key → jget (f c) k = jget c k) :
    chainAll (updAt qs i (fun q => q ++ [e])) (updAt cols i f) := by
  induction qs generalizing cols i with
  | nil => cases cols <;> simp [chainAll, updAt]
  | cons q qs ih =>
    cases cols with
    | nil => simp at hlen
    | cons c cs =>
      cases i with
      | zero =>
        simp only [updAt, chainAll, colAt, List.headD_cons] at hold hc ⊢
        refine ⟨fun k => ?_, hc.2⟩
        by_cases hk : k = e.key
        · subst hk
          rw [hnew c]
          apply chain_append_self
          rw [hold]; exact hc.1 e.key
        · rw [hother c k hk]
          exact chain_append_other _ _ _ _ (fun x => hk x.symm) (hc.1 k)
      | succ n =>
        simp only [updAt, chainAll, colAt, List.tail_cons] at hold hc ⊢
        exact ⟨hc.1, ih cs n (by simpa using hlen) hc.2 hold⟩

theorem mem_updAt_append {qs : List (List JEv)} {i : Nat} {e : JEv} {q : List JEv}
    (h : q ∈ updAt qs i (fun q => q ++ [e])) : q ∈ qs ∨ ∃ q0 ∈ qs, q = q0 ++ [e] := by
  rcases mem_updAt h with h | ⟨y, hy, rfl⟩
  · exact Or.inl h
  · exact Or.inr ⟨y, hy, rfl⟩

theorem jg_env {s : JSys} (h : JG s) (i : Nat) (op : JOp) : JG (jenv s i op) := by
  cases op with
  | set o =>
    have hkey : (⟨jget (colAt s.cols i) o.key, some o⟩ : JEv).key = o.key := by simp [JEv.key]
    have hother : ∀ c k, k ≠ (⟨jget (colAt s.cols i) o.key, some o⟩ : JEv).key → jget (jset c o) k = jget c k := by
      intro c k hk; rw [hkey] at hk; simp [jget_jset, hk]
    refine ⟨by simp [jenv, length_updAt, h.len], ?_, ?_, h.wf, ?_⟩
    · exact chainAll_env s.qs s.cols i _ _ h.len h.chains (by simp [hkey]) (by intro c; simp [hkey, jget_jset]) hother
    · intro q hq e he
      simp only [jenv] at hq
      rcases mem_updAt_append hq with hq | ⟨q0, hq0, rfl⟩
      · exact h.evok q hq e he
      · rcases List.mem_append.1 he with he | he
        · exact h.evok q0 hq0 e he
        · simp only [List.mem_singleton] at he; subst he
          refine ⟨?_, by simp⟩
          intro x hx
          simp only at hx
          rw [hkey]; exact jget_key hx
    · intro k
      simp only [jenv]
      rw [dvec_env s.qs s.cols i _ _ h.len (by simp [hkey]) hother k]
      exact h.rep k
  | del k0 =>
    simp only [jenv]
    cases hold : jget (colAt s.cols i) k0 with
    | none => exact h
    | some old =>
      have hok : old.key = k0 := jget_key hold
      have hkey : (⟨some old, none⟩ : JEv).key = k0 := by simp [JEv.key, hok]
      have hother : ∀ c k, k ≠ (⟨some old, none⟩ : JEv).key → jget (jdel c k0) k = jget c k := by
        intro c k hk; rw [hkey] at hk; simp [jget_jdel, hk]
      refine ⟨by simp [length_updAt, h.len], ?_, ?_, h.wf, ?_⟩
      · exact chainAll_env s.qs s.cols i _ _ h.len h.chains (by simp [hkey, hold]) (by intro c; simp [hkey, jget_jdel]) hother
      · intro q hq e he
        rcases mem_updAt_append hq with hq | ⟨q0, hq0, rfl⟩
        · exact h.evok q hq e he
        · rcases List.mem_append.1 he with he | he
          · exact h.evok q0 hq0 e he
          · simp only [List.mem_singleton] at he; subst he
            refine ⟨?_, by simp⟩
            intro x hx
            simp only [Option.some.injEq] at hx
            subst hx; rw [hkey]; exact hok
      · intro k
        rw [dvec_env s.qs s.cols i _ _ h.len (by simp [hkey, hold]) hother k]
        exact h.rep k

/-! ### the join handles one event -/

theorem chainAll_pop (qs : List (List JEv)) (cols : List (List JObj)) (i : Nat) (hc : chainAll qs cols) :
    chainAll (updAt qs i List.tail) cols := by
  induction qs generalizing cols i with
  | nil => cases cols <;> simp [chainAll, updAt]
  | cons q qs ih =>
    cases cols with
    | nil => simp [chainAll]
    | cons c cs =>
      cases i with
      | zero =>
        simp only [updAt, chainAll] at hc ⊢
        refine ⟨fun k => ?_, hc.2⟩
        cases q with
        | nil => simp [chain]
        | cons e q => exact (hc.1 k).2
      | succ n =>
        simp only [updAt, chainAll] at hc ⊢
        exact ⟨hc.1, ih cs n hc.2⟩

/-- the chain of the head queue: what follows the head starts with the head's New -/
theorem chain_head (qs : List (List JEv)) (cols : List (List JObj)) (i : Nat) (e : JEv) (q' : List JEv)
    (hc : chainAll qs cols) (hlen : qs.length = cols.length) (hh : (qs.drop i).headD [] = e :: q') :
    dstart q' e.key (jget (colAt cols i) e.key) = e.new := by
  induction qs generalizing cols i with
  | nil => simp at hh
  | cons q qs ih =>
    cases cols with
    | nil => simp at hlen
    | cons c cs =>
      cases i with
      | zero =>
        simp only [List.drop_zero, List.headD_cons] at hh
        subst hh
        simp only [chainAll, colAt, List.headD_cons] at hc ⊢
        exact ((hc.1 e.key).1 rfl).symm
      | succ n =>
        simp only [List.drop_succ_cons, colAt, List.tail_cons, chainAll] at hh hc ⊢
        exact ih cs n hc.2 (by simpa using hlen) hh

theorem mem_of_head {qs : List (List JEv)} {i : Nat} {e : JEv} {q' : List JEv}
    (hh : (qs.drop i).headD [] = e :: q') : (e :: q') ∈ qs := by
  induction qs generalizing i with
  | nil => simp at hh
  | cons q qs ih =>
    cases i with
    | zero => simp only [List.drop_zero, List.headD_cons] at hh; subst hh; simp
    | succ n => simp only [List.drop_succ_cons] at hh; exact List.mem_cons_of_mem _ (ih hh)

theorem head_lt {qs : List (List JEv)} {i : Nat} {e : JEv} {q' : List JEv}
    (hh : (qs.drop i).headD [] = e :: q') : i < qs.length := by
  induction qs generalizing i with
  | nil => simp at hh
  | cons q qs ih =>
    cases i with
    | zero => simp
    | succ n => simp only [List.drop_succ_cons] at hh; simpa using ih hh

theorem jproc_nil {s : JSys} {i : Nat} (hh : (s.qs.drop i).headD [] = []) : jproc s i = s := by
  unfold jproc; rw [hh]

theorem jproc_none {s : JSys} {i : Nat} {e : JEv} {q' : List JEv} (hh : (s.qs.drop i).headD [] = e :: q')
    (hr : refreshOne s.cols i e = none) : jproc s i = { s with qs := updAt s.qs i List.tail } := by
  unfold jproc; rw [hh]; simp only [hr]

theorem jproc_some {s : JSys} {i : Nat} {e : JEv} {q' : List JEv} {ev : Event}
    (hh : (s.qs.drop i).headD [] = e :: q') (hr : refreshOne s.cols i e = some ev) :
    jproc s i = { s with qs := updAt s.qs i List.tail, processed := jApplyProcessed s.processed ev,
                         out := s.out ++ [ev] } := by
  unfold jproc; rw [hh]; simp only [hr]

theorem jg_proc {s : JSys} (h : JG s) (i : Nat)
    (hq : ∀ e q', (s.qs.drop i).headD [] = e :: q' → OthersQuiet s.qs i e.key) : JG (jproc s i) := by
  cases hh : (s.qs.drop i).headD [] with
  | nil => rw [jproc_nil hh]; exact h
  | cons e q' =>
    have hquiet := hq e q' hh
    have hiq : i < s.qs.length := head_lt hh
    have hevok : EvOK e := h.evok _ (mem_of_head hh) e (List.mem_cons_self ..)
    -- vectors of the key of the event
    let B := dvec s.qs s.cols e.key
    have hBlen : i < B.length := by rw [dvec_length _ _ _ h.len, ← h.len]; exact hiq
    have hBself : B.set i e.old = B := by
      have := dvec_set_self s.qs s.cols i e.key h.len
      rw [hh] at this
      simpa [dstart] using this
    have hlive : liveV s.cols e.key = B.set i (jget (colAt s.cols i) e.key) :=
      liveV_eq_dvec_set s.qs s.cols i e.key h.len hquiet
    have hpopk : dvec (updAt s.qs i List.tail) s.cols e.key = B.set i e.new := by
      rw [dvec_pop _ _ _ _ h.len, hh]
      simp only [List.tail_cons]
      rw [chain_head s.qs s.cols i e q' h.chains h.len hh]
    have hpopo : ∀ k', k' ≠ e.key → dvec (updAt s.qs i List.tail) s.cols k' = dvec s.qs s.cols k' := by
      intro k' hk
      rw [dvec_pop _ _ _ _ h.len, hh]
      simp only [List.tail_cons]
      have := dvec_set_self s.qs s.cols i k' h.len
      rw [hh] at this
      have hne : ¬ e.key = k' := fun x => hk x.symm
      simp only [dstart] at this
      rw [if_neg hne] at this
      exact this
    have hstep := stepV B i hBlen (jget (colAt s.cols i) e.key) e hevok.2
    rw [hBself, ← hlive, ← refreshOne_V] at hstep
    have hdel := deliver_gen (f := fun k => specOpt (dvec s.qs s.cols k))
      (f' := fun k => specOpt (dvec (updAt s.qs i List.tail) s.cols k)) (k := e.key)
      (ev := refreshOne s.cols i e) h.wf h.rep
      (fun k' hk => by simp only [hpopo k' hk])
      (by simp only [hpopk]; exact hstep)
    have hev' : ∀ q ∈ updAt s.qs i List.tail, ∀ x ∈ q, EvOK x := by
      intro q hq x hx
      rcases mem_updAt hq with hq | ⟨y, hy, rfl⟩
      · exact h.evok q hq x hx
      · exact h.evok y hy x (List.mem_of_mem_tail hx)
    cases hr : refreshOne s.cols i e with
    | none =>
      rw [hr] at hdel
      rw [jproc_none hh hr]
      exact ⟨by simp [length_updAt, h.len], chainAll_pop _ _ _ h.chains, hev',
        by simpa using hdel.1, by simpa using hdel.2⟩
    | some ev =>
      rw [hr] at hdel
      rw [jproc_some hh hr]
      exact ⟨by simp [length_updAt, h.len], chainAll_pop _ _ _ h.chains, hev',
        by simpa using hdel.1, by simpa using hdel.2⟩

/-! ## runs -/

def quietQ (q : List JEv) (k : Key) : Bool := q.all (fun e => e.key != k)

/-- when an event of key `k` of queue `i` is handled, no other queue holds an event of `k` -/
def othersQuietB : List (List JEv) → Nat → Key → Bool
  | [], _, _ => true
  | _ :: qs, 0, k => qs.all (fun q => quietQ q k)
  | q :: qs, n + 1, k => quietQ q k && othersQuietB qs n k

theorem quietQ_noPend {q : List JEv} {k : Key} (h : quietQ q k = true) : noPend q k := by
  intro e he
  simp only [quietQ, List.all_eq_true, bne_iff_ne, ne_eq] at h
  exact h e he

theorem othersQuietB_sound (qs : List (List JEv)) (i : Nat) (k : Key) (h : othersQuietB qs i k = true) :
    OthersQuiet qs i k := by
  induction qs generalizing i with
  | nil => intro j q hj; simp at hj
  | cons q0 qs ih =>
    cases i with
    | zero =>
      simp only [othersQuietB, List.all_eq_true] at h
      intro j q hj hne
      cases j with
      | zero => exact absurd rfl hne
      | succ m =>
        simp only [List.getElem?_cons_succ] at hj
        exact quietQ_noPend (h q (List.mem_of_getElem? hj))
    | succ n =>
      simp only [othersQuietB, Bool.and_eq_true] at h
      intro j q hj hne
      cases j with
      | zero => simp only [List.getElem?_cons_zero, Option.some.injEq] at hj; subst hj; exact quietQ_noPend h.1
      | succ m =>
        simp only [List.getElem?_cons_succ] at hj
        exact ih n h.2 m q hj (by omega)

/-- the run-level condition (the analogue of DisjointAtApply for the join) -/
def jrunOK : JSys → List JAct → Bool
  | _, [] => true
  | s, .env i op :: run => jrunOK (jenv s i op) run
  | s, .proc i :: run =>
    (match (s.qs.drop i).headD [] with
     | [] => true
     | e :: _ => othersQuietB s.qs i e.key) && jrunOK (jproc s i) run

theorem jg_init (n : Nat) : JG (JSys.init n) := by
  refine ⟨by simp [JSys.init], ?_, ?_, wellFormedFrom_nil _, ?_⟩
  · simp only [JSys.init]
    induction n with
    | zero => simp [chainAll]
    | succ m ih => simp only [List.replicate_succ, chainAll]; exact ⟨fun k => by simp [chain], ih⟩
  · intro q hq e he
    simp only [JSys.init, List.mem_replicate] at hq
    rw [hq.2] at he; simp at he
  · intro k
    simp only [JSys.init, replay, replayFrom, List.foldl_nil, lookup]
    induction n with
    | zero => simp [dvec, specOpt]
    | succ m ih => simp only [List.replicate_succ, dvec, dstart, jget, specOpt]; exact ih

theorem jg_exec {s : JSys} (h : JG s) (run : List JAct) (hok : jrunOK s run = true) : JG (jexec s run) := by
  induction run generalizing s with
  | nil => exact h
  | cons a run ih =>
    cases a with
    | env i op =>
      simp only [jrunOK] at hok
      simp only [jexec, List.foldl_cons, jstep]
      exact ih (jg_env h i op) hok
    | proc i =>
      simp only [jrunOK, Bool.and_eq_true] at hok
      simp only [jexec, List.foldl_cons, jstep]
      apply ih (jg_proc h i _) hok.2
      intro e q' hh
      have := hok.1
      rw [hh] at this
      exact othersQuietB_sound _ _ _ this

theorem dvec_quiescent (qs : List (List JEv)) (cols : List (List JObj)) (k : Key)
    (hlen : qs.length = cols.length) (hq : qs.all (·.isEmpty) = true) : dvec qs cols k = liveV cols k := by
  apply dvec_all_quiet _ _ _ hlen
  intro j q' hj e he
  simp only [List.all_eq_true, List.isEmpty_iff] at hq
  rw [hq q' (List.mem_of_getElem? hj)] at he
  simp at he

/-- **join_inflight_correct**: with any number of events of any number of keys queued, as long as an
    event is never handled while another collection has an unhandled event for the same key, the
    stream delivered by the checked join is well formed at every moment, and whenever the queues are
    empty it replays to the first-collection-wins contents. -/
theorem join_inflight_correct (n : Nat) (run : List JAct) (hok : jrunOK (JSys.init n) run = true) :
    WellFormed (jexec (JSys.init n) run).out ∧
    ((jexec (JSys.init n) run).quiescent = true →
      monitorB (jexec (JSys.init n) run).out (joinContents (jexec (JSys.init n) run).cols) = true) := by
  have h := jg_exec (jg_init n) run hok
  refine ⟨h.wf, fun hq => ?_⟩
  rw [monitorB_iff]
  refine ⟨h.wf, fun k => ?_⟩
  rw [h.rep k, dvec_quiescent _ _ _ h.len hq, ← joinGetSpec_liveV]
  exact (joinGet_first_wins _ k).symm

/-! ## the input-level discipline of stream `join` implies the run-level condition -/

def JOp.key : JOp → Key
  | .set o => o.key
  | .del k => k

def tblFree (tbl : AMap Nat) (k : Key) (i : Nat) : Bool :=
  match lookup tbl k with
  | none => true
  | some j => j == i

/-- per key: the collection that changed it since the last quiescent point -/
def jdisc : JSys → AMap Nat → List JAct → Bool
  | _, _, [] => true
  | s, tbl, .env i op :: run => tblFree tbl op.key i && jdisc (jenv s i op) (AMap.set tbl op.key i) run
  | s, tbl, .proc i :: run =>
    jdisc (jproc s i) (if (jproc s i).quiescent then [] else tbl) run

/-- every queued event belongs to the collection recorded for its key -/
def TblInv (qs : List (List JEv)) (tbl : AMap Nat) : Prop :=
  ∀ (j : Nat) (q : List JEv), qs[j]? = some q → ∀ e ∈ q, lookup tbl e.key = some j

theorem getElem?_updAt {α : Type} (l : List α) (i : Nat) (f : α → α) (j : Nat) :
    (updAt l i f)[j]? = if j = i then l[j]?.map f else l[j]? := by
  induction l generalizing i j with
  | nil => simp [updAt]
  | cons x l ih =>
    cases i with
    | zero => cases j <;> simp [updAt]
    | succ n =>
      cases j with
      | zero => simp [updAt]
      | succ m => simp only [updAt, List.getElem?_cons_succ, ih n m]; simp

theorem tblInv_quiet {qs : List (List JEv)} {tbl : AMap Nat} (h : TblInv qs tbl) (i : Nat) (e : JEv)
    (hi : lookup tbl e.key = some i) : OthersQuiet qs i e.key := by
  intro j q hj hne x hx hk
  have := h j q hj x hx
  rw [hk, hi] at this
  simp only [Option.some.injEq] at this
  exact hne this.symm

theorem tblInv_env {s : JSys} {tbl : AMap Nat} (h : TblInv s.qs tbl) (i : Nat) (op : JOp)
    (hfree : tblFree tbl op.key i = true) :
    TblInv (jenv s i op).qs (AMap.set tbl op.key i) := by
  have keep : ∀ (k0 : Key), tblFree tbl k0 i = true →
      ∀ (j : Nat) (q : List JEv), s.qs[j]? = some q → ∀ e ∈ q, lookup (AMap.set tbl k0 i) e.key = some j := by
    intro k0 hf j q hj e he
    have := h j q hj e he
    rw [lookup_set]
    by_cases hk : e.key = k0
    · rw [hk] at this
      simp only [tblFree, this, beq_iff_eq] at hf
      simp [hk, hf]
    · simp [hk, this]
  cases op with
  | set o =>
    simp only [jenv, JOp.key] at hfree ⊢
    intro j q hj e he
    rw [getElem?_updAt] at hj
    by_cases hji : j = i
    · simp only [hji, if_true, Option.map_eq_some_iff] at hj
      obtain ⟨q0, hq0, rfl⟩ := hj
      rcases List.mem_append.1 he with he | he
      · have := keep o.key hfree i q0 hq0 e he; rw [hji]; exact this
      · simp only [List.mem_singleton] at he; subst he
        simp [JEv.key, lookup_set, hji]
    · simp only [hji, if_false] at hj
      exact keep o.key hfree j q hj e he
  | del k0 =>
    simp only [jenv, JOp.key] at hfree ⊢
    cases hold : jget (colAt s.cols i) k0 with
    | none => exact keep k0 hfree
    | some old =>
      intro j q hj e he
      simp only at hj
      rw [getElem?_updAt] at hj
      by_cases hji : j = i
      · simp only [hji, if_true, Option.map_eq_some_iff] at hj
        obtain ⟨q0, hq0, rfl⟩ := hj
        rcases List.mem_append.1 he with he | he
        · have := keep k0 hfree i q0 hq0 e he; rw [hji]; exact this
        · simp only [List.mem_singleton] at he; subst he
          simp [JEv.key, jget_key hold, lookup_set, hji]
      · simp only [hji, if_false] at hj
        exact keep k0 hfree j q hj e he

theorem jproc_qs (s : JSys) (i : Nat) : (jproc s i).qs = s.qs ∨ (jproc s i).qs = updAt s.qs i List.tail := by
  unfold jproc
  split
  · exact Or.inl rfl
  · split <;> exact Or.inr rfl

theorem tblInv_proc {s : JSys} {tbl : AMap Nat} (h : TblInv s.qs tbl) (i : Nat) : TblInv (jproc s i).qs tbl := by
  rcases jproc_qs s i with hq | hq
  · rw [hq]; exact h
  · rw [hq]
    intro j q hj e he
    rw [getElem?_updAt] at hj
    by_cases hji : j = i
    · simp only [hji, if_true, Option.map_eq_some_iff] at hj
      obtain ⟨q0, hq0, rfl⟩ := hj
      rw [hji]; exact h i q0 hq0 e (List.mem_of_mem_tail he)
    · simp only [hji, if_false] at hj
      exact h j q hj e he

theorem tblInv_nil_of_quiescent {s : JSys} (hq : s.quiescent = true) : TblInv s.qs [] := by
  intro j q hj e he
  simp only [JSys.quiescent, List.all_eq_true, List.isEmpty_iff] at hq
  rw [hq q (List.mem_of_getElem? hj)] at he
  simp at he

theorem head_getElem? {qs : List (List JEv)} {i : Nat} {e : JEv} {q' : List JEv}
    (hh : (qs.drop i).headD [] = e :: q') : qs[i]? = some (e :: q') := by
  induction qs generalizing i with
  | nil => simp at hh
  | cons q qs ih =>
    cases i with
    | zero => simp only [List.drop_zero, List.headD_cons] at hh; simp [hh]
    | succ n => simp only [List.drop_succ_cons] at hh; simpa using ih hh

/-- **the discipline of stream `join` implies the run-level condition** -/
theorem jdisc_runOK (run : List JAct) {s : JSys} {tbl : AMap Nat} (h : TblInv s.qs tbl)
    (hd : jdisc s tbl run = true) : jrunOK s run = true := by
  induction run generalizing s tbl with
  | nil => rfl
  | cons a run ih =>
    cases a with
    | env i op =>
      simp only [jdisc, Bool.and_eq_true] at hd
      simp only [jrunOK]
      exact ih (tblInv_env h i op hd.1) hd.2
    | proc i =>
      simp only [jdisc] at hd
      simp only [jrunOK, Bool.and_eq_true]
      constructor
      · cases hh : (s.qs.drop i).headD [] with
        | nil => rfl
        | cons e q' =>
          simp only
          have hi : lookup tbl e.key = some i := h i (e :: q') (head_getElem? hh) e (List.mem_cons_self ..)
          have hoq := tblInv_quiet h i e hi
          -- from the Prop back to the Bool
          have back : ∀ (qs : List (List JEv)) (i : Nat) (k : Key), OthersQuiet qs i k → othersQuietB qs i k = true := by
            intro qs
            induction qs with
            | nil => intro i k _; rfl
            | cons q0 qs ihq =>
              intro i k ho
              have qb : ∀ q, noPend q k → quietQ q k = true := by
                intro q hn
                simp only [quietQ, List.all_eq_true, bne_iff_ne, ne_eq]
                exact hn
              cases i with
              | zero =>
                simp only [othersQuietB, List.all_eq_true]
                intro q hq
                obtain ⟨m, hm⟩ := List.getElem?_of_mem hq
                exact qb q (ho (m + 1) q (by simpa using hm) (by omega))
              | succ n =>
                simp only [othersQuietB, Bool.and_eq_true]
                exact ⟨qb q0 (ho 0 q0 (by simp) (by omega)), ihq n k (othersQuiet_tail ho)⟩
          exact back _ _ _ hoq
      · by_cases hq : (jproc s i).quiescent = true
        · rw [if_pos hq] at hd
          exact ih (tblInv_nil_of_quiescent hq) hd
        · rw [if_neg hq] at hd
          exact ih (tblInv_proc h i) hd

/-- Stream `join`'s discipline, for every run: well-formed stream at every moment, right replay at quiescence. -/
theorem join_disciplined_correct (n : Nat) (run : List JAct) (hd : jdisc (JSys.init n) [] run = true) :
    WellFormed (jexec (JSys.init n) run).out ∧
    ((jexec (JSys.init n) run).quiescent = true →
      monitorB (jexec (JSys.init n) run).out (joinContents (jexec (JSys.init n) run).cols) = true) :=
  join_inflight_correct n run (jdisc_runOK run (by
    intro j q hj e he
    simp only [JSys.init] at hj
    have := List.mem_of_getElem? hj
    simp only [List.mem_replicate] at this
    rw [this.2] at he; simp at he) hd)

/-! ## processedState and late registration -/

theorem jApplyProcessed_eq (m : FinMap) (e : Event) : jApplyProcessed m e = applyEv m e := by
  cases e <;> rfl

/-- `processedState` is the replay of what has been delivered -/
theorem processed_eq_replay (s : JSys) (run : List JAct) (h : s.processed = replayFrom [] s.out) :
    (jexec s run).processed = replayFrom [] (jexec s run).out := by
  induction run generalizing s with
  | nil => exact h
  | cons a run ih =>
    simp only [jexec, List.foldl_cons]
    apply ih
    cases a with
    | env i op =>
      cases op with
      | set o => simpa [jstep, jenv] using h
      | del k =>
        simp only [jstep, jenv]
        split <;> simpa using h
    | proc i =>
      simp only [jstep, jproc]
      split
      · exact h
      · split
        · simpa using h
        · simp only [jApplyProcessed_eq, replayFrom, List.foldl_append, List.foldl_cons, List.foldl_nil]
          rw [h]; rfl

/-- a subscriber that registers at any moment with `RegisterBatch(f, true)` receives the Adds of
    `processedState` and then everything delivered later: accepted at every later quiescent point -/
theorem join_late_subscriber (n : Nat) (r1 r2 : List JAct) (hok : jrunOK (JSys.init n) (r1 ++ r2) = true)
    (hq : (jexec (JSys.init n) (r1 ++ r2)).quiescent = true) :
    monitorB (addsOf (jexec (JSys.init n) r1).processed ++
        (jexec (JSys.init n) (r1 ++ r2)).out.drop (jexec (JSys.init n) r1).out.length)
      (joinContents (jexec (JSys.init n) (r1 ++ r2)).cols) = true := by
  have hall := join_inflight_correct n (r1 ++ r2) hok
  have hacc := (monitorB_iff _ _).1 (hall.2 hq)
  have hp : (jexec (JSys.init n) r1).processed = replayFrom [] (jexec (JSys.init n) r1).out :=
    processed_eq_replay _ r1 rfl
  -- out of the whole run = out of the prefix ++ t
  have hpre : ∃ t, (jexec (JSys.init n) (r1 ++ r2)).out = (jexec (JSys.init n) r1).out ++ t := by
    have gen : ∀ (run : List JAct) (s : JSys), ∃ t, (jexec s run).out = s.out ++ t := by
      intro run
      induction run with
      | nil => intro s; exact ⟨[], by simp [jexec]⟩
      | cons a run ih =>
        intro s
        obtain ⟨t, ht⟩ := ih (jstep s a)
        have : ∃ u, (jstep s a).out = s.out ++ u := by
          cases a with
          | env i op =>
            cases op with
            | set o => exact ⟨[], by simp [jstep, jenv]⟩
            | del k => simp only [jstep, jenv]; split <;> exact ⟨[], by simp⟩
          | proc i =>
            simp only [jstep, jproc]
            split
            · exact ⟨[], by simp⟩
            · split
              · exact ⟨[], by simp⟩
              · exact ⟨_, rfl⟩
        obtain ⟨u, hu⟩ := this
        exact ⟨u ++ t, by simp only [jexec, List.foldl_cons] at ht ⊢; rw [ht, hu, List.append_assoc]⟩
    have := gen r2 (jexec (JSys.init n) r1)
    simpa [jexec, List.foldl_append] using this
  obtain ⟨t, ht⟩ := hpre
  rw [ht, List.drop_left]
  have nd : NoDupKeys (jexec (JSys.init n) r1).processed := by
    rw [hp]; exact noDupKeys_replayFrom (by simp [NoDupKeys, keys]) _
  rw [monitorB_late_iff _ nd, hp]
  rw [ht, WellFormed, wellFormedFrom_append] at hacc
  refine ⟨hacc.1.2, ?_⟩
  have := hacc.2
  rw [replay, replayFrom_append] at this
  exact this

/-! ## the other half of F10: two collections hold the key when the join is created -/

/-- the join registers to its collections with `runExistingState = true`: the objects they hold arrive
    as Add events -/
def JSys.start (cols : List (List JObj)) : JSys :=
  { cols := cols, qs := cols.map (fun c => c.map (fun o => (⟨none, some o⟩ : JEv))) }

/-- `k` is in both collections when the join is created: whichever initial event is handled first, the
    subscribers get an Update for a key they do not hold (the conversion looks at the LIVE other
    collection, whose own Add has not been handled). -/
theorem join_overlap_at_start_witness :
    monitorB (jexec (JSys.start [[f10k0], [f10k1]]) [.proc 0, .proc 1]).out
      (joinContents [[f10k0], [f10k1]]) = false ∧
    monitorB (jexec (JSys.start [[f10k0], [f10k1]]) [.proc 1, .proc 0]).out
      (joinContents [[f10k0], [f10k1]]) = false := by decide

/-! ## a join created over POPULATED collections: the invariant holds from `JSys.start` too, so the in-flight
    theorem covers a join whose collections already hold objects when it registers (no key in two of them:
    `jrunOK` then rejects the run, that half is finding F10, `join_overlap_at_start_witness`) -/

def jaddsOf (c : List JObj) : List JEv := c.map (fun o => (⟨none, some o⟩ : JEv))

theorem chain_of_noPend {q : List JEv} {k : Key} (h : noPend q k) (live : Option JObj) : chain q k live := by
  induction q with
  | nil => trivial
  | cons e q ih =>
    refine ⟨fun he => absurd he (h e (List.mem_cons_self ..)), ih (fun x hx => h x (List.mem_cons_of_mem _ hx))⟩

theorem jaddsOf_key (o : JObj) : (⟨none, some o⟩ : JEv).key = o.key := rfl

theorem noPend_jaddsOf {c : List JObj} {k : Key} (h : ∀ o ∈ c, o.key ≠ k) : noPend (jaddsOf c) k := by
  intro e he
  simp only [jaddsOf, List.mem_map] at he
  obtain ⟨o, ho, rfl⟩ := he
  exact h o ho

/-- what the join has seen of a collection whose objects are all still queued as Adds: nothing -/
theorem dstart_jaddsOf (c : List JObj) (k : Key) : dstart (jaddsOf c) k (jget c k) = none := by
  induction c with
  | nil => rfl
  | cons o l ih =>
    simp only [jaddsOf, List.map_cons, dstart]
    by_cases hk : o.key = k
    · rw [if_pos (by rw [jaddsOf_key]; exact hk)]
    · rw [if_neg (by rw [jaddsOf_key]; exact hk)]
      have : jget (o :: l) k = jget l k := by
        simp only [jget]; rw [if_neg (fun h => hk h.symm)]
      rw [this]; exact ih

theorem chain_jaddsOf (c : List JObj) (hnd : (c.map (·.key)).Nodup) (k : Key) : chain (jaddsOf c) k (jget c k) := by
  induction c with
  | nil => trivial
  | cons o l ih =>
    simp only [List.map_cons, List.nodup_cons] at hnd
    simp only [jaddsOf, List.map_cons, chain]
    by_cases hk : o.key = k
    · have hno : noPend (jaddsOf l) k := noPend_jaddsOf (fun x hx hxk => hnd.1 (by
        rw [hk, ← hxk]; exact List.mem_map_of_mem (f := (·.key)) hx))
      have hj : jget (o :: l) k = some o := by simp only [jget]; rw [if_pos hk.symm]
      rw [hj]
      exact ⟨fun _ => (dstart_noPend hno _).symm, chain_of_noPend hno _⟩
    · have hj : jget (o :: l) k = jget l k := by
        simp only [jget]; rw [if_neg (fun h => hk h.symm)]
      rw [hj]
      exact ⟨fun he => absurd (by rw [jaddsOf_key] at he; exact he) hk, ih hnd.2⟩

theorem jg_start (cols : List (List JObj)) (hnd : ∀ c ∈ cols, (c.map (·.key)).Nodup) : JG (JSys.start cols) := by
  refine ⟨by simp [JSys.start], ?_, ?_, wellFormedFrom_nil _, ?_⟩
  · show chainAll (cols.map jaddsOf) cols
    induction cols with
    | nil => trivial
    | cons c cs ih =>
      simp only [List.map_cons, chainAll]
      exact ⟨fun k => chain_jaddsOf c (hnd c (List.mem_cons_self ..)) k,
        ih (fun c' hc' => hnd c' (List.mem_cons_of_mem _ hc'))⟩
  · intro q hq e he
    simp only [JSys.start, List.mem_map] at hq
    obtain ⟨c, _, rfl⟩ := hq
    simp only [List.mem_map] at he
    obtain ⟨o, _, rfl⟩ := he
    exact ⟨fun o' h => by simp at h, fun h => by simp at h⟩
  · intro k
    show lookup (replay []) k = specOpt (dvec (cols.map jaddsOf) cols k)
    simp only [replay, replayFrom, List.foldl_nil, lookup]
    clear hnd
    induction cols with
    | nil => rfl
    | cons c cs ih =>
      simp only [List.map_cons, dvec, dstart_jaddsOf, specOpt]
      exact ih

/-- **join_populated_correct**: the join is created over collections that already hold objects (each a map:
    no key twice inside one collection); as long as an event is never handled while another collection has
    an unhandled event for the same key - in particular no key is in two collections at the start - the
    stream is well formed at every moment and replays to the first-collection-wins contents at quiescence. -/
theorem join_populated_correct (cols : List (List JObj)) (hnd : ∀ c ∈ cols, (c.map (·.key)).Nodup)
    (run : List JAct) (hok : jrunOK (JSys.start cols) run = true) :
    WellFormed (jexec (JSys.start cols) run).out ∧
    ((jexec (JSys.start cols) run).quiescent = true →
      monitorB (jexec (JSys.start cols) run).out (joinContents (jexec (JSys.start cols) run).cols) = true) := by
  have h := jg_exec (jg_start cols hnd) run hok
  refine ⟨h.wf, fun hq => ?_⟩
  rw [monitorB_iff]
  refine ⟨h.wf, fun k => ?_⟩
  rw [h.rep k, dvec_quiescent _ _ _ h.len hq, ← joinGetSpec_liveV]
  exact (joinGet_first_wins _ k).symm

/-- non-vacuity: two populated disjoint collections, the initial Adds handled in either order with a change of
    the second collection in flight: accepted, and the stream replays to the contents -/
theorem join_populated_example :
    let cols : List (List JObj) := [[f10k0], [{ key := "n/other", ns := "n", tok := "c1" }]]
    let run : List JAct := [.env 1 (.set { key := "n/other", ns := "n", tok := "c1-changed" }), .proc 1, .proc 0, .proc 1]
    jrunOK (JSys.start cols) run = true ∧ (jexec (JSys.start cols) run).quiescent = true ∧
    monitorB (jexec (JSys.start cols) run).out (joinContents (jexec (JSys.start cols) run).cols) = true := by
  decide

end IstioModel.C16
