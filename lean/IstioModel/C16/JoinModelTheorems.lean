import IstioModel.C16.JoinModel
import IstioModel.C16.JoinTheorems

/-!
C16 - theorems about the join event path (JoinModel.lean).

* `join_f10_witness`      the stream clause fails for the checked join when the same key changes in two
                           joined collections before the join handled the first change (finding F10)
* `join_seq_correct`      if every change is handled before the next one is made (what the barrier
                           discipline of stream `join` guarantees per key), the subscribers' stream is well
                           formed and replays to the first-collection-wins contents
-/
namespace IstioModel.C16
open AMap

/-! ## the F10 witness -/

def f10k0 : JObj := { key := "n/k", ns := "n", tok := "from-c0" }
def f10k1 : JObj := { key := "n/k", ns := "n", tok := "from-c1" }

/-- `c1` holds `k` and the subscribers know it; `c0.UpdateObject(k)` and `c1.DeleteObject(k)` happen
    before the join handles either event. -/
def f10Run : List JAct :=
  [.env 1 (.set f10k1), .proc 1, .env 0 (.set f10k0), .env 1 (.del "n/k"), .proc 0, .proc 1]

/-- the other order of handling -/
def f10Run' : List JAct :=
  [.env 1 (.set f10k1), .proc 1, .env 0 (.set f10k0), .env 1 (.del "n/k"), .proc 1, .proc 0]

/-- The property's stream clause for the join: at quiescence the delivered stream is accepted against
    the first-collection-wins contents. -/
def JoinStreamCorrect : Prop :=
  ∀ (n : Nat) (run : List JAct), (jexec (JSys.init n) run).quiescent = true →
    monitorB (jexec (JSys.init n) run).out (joinContents (jexec (JSys.init n) run).cols) = true

/-- **join_f10_witness** (finding F10): the statement is false - both handling orders deliver a
    duplicate Add of `k`. Replayed on the real krt by `harness/corpus/C16/join.f10-set-and-delete.ops`. -/
theorem join_f10_witness : ¬ JoinStreamCorrect := by
  intro h
  have := h 2 f10Run (by decide)
  revert this
  decide

theorem join_f10_both_orders :
    (jexec (JSys.init 2) f10Run).out = [.add "n/k" "from-c1", .add "n/k" "from-c0"] ∧
    (jexec (JSys.init 2) f10Run').out = [.add "n/k" "from-c1", .add "n/k" "from-c0"] := by decide

/-! ## sequential handling is correct -/

theorem jget_jdel (c : List JObj) (k k' : Key) : jget (jdel c k) k' = if k' = k then none else jget c k' := by
  induction c with
  | nil => simp [jdel, jget]
  | cons o c ih =>
    by_cases hk : k = o.key
    · simp only [jdel, hk, if_true, jget]
      rw [← hk, ih]
      by_cases h : k' = k <;> simp [h]
    · simp only [jdel, hk, if_false, jget, ih]
      by_cases h : k' = k
      · subst h; simp [hk]
      · simp [h]

theorem jget_jset (c : List JObj) (o : JObj) (k' : Key) :
    jget (jset c o) k' = if k' = o.key then some o else jget c k' := by
  simp only [jset, jget, jget_jdel]
  by_cases h : k' = o.key <;> simp [h]

theorem jget_key' {c : List JObj} {k : Key} {o : JObj} (h : jget c k = some o) : o.key = k := jget_key h

/-- `joinGetSpec` through `firstIn` -/
theorem joinGetSpec_firstIn (cols : List (List JObj)) (k : Key) :
    joinGetSpec cols k = (firstIn cols k).map (·.tok) := by
  induction cols with
  | nil => rfl
  | cons c cs ih =>
    simp only [joinGetSpec, firstIn]
    cases jget c k with
    | none => simpa using ih
    | some o => rfl

/-- the event `refreshOne` delivers is legal for what the subscribers hold (`before`) and leads to
    `after`; a dropped event means nothing changed -/
def StepOK (before after : Option Val) (k : Key) : Option Event → Prop
  | none => after = before
  | some (.add k' v) => k' = k ∧ before = none ∧ after = some v
  | some (.update k' o v) => k' = k ∧ before = some o ∧ after = some v
  | some (.delete k' o) => k' = k ∧ before = some o ∧ after = none

/-- other keys are not affected by a change of key `k` in collection `i` -/
theorem spec_other_set (cols : List (List JObj)) (i : Nat) (o : JObj) (k' : Key) (h : k' ≠ o.key) :
    joinGetSpec (updAt cols i (fun c => jset c o)) k' = joinGetSpec cols k' := by
  induction cols generalizing i with
  | nil => rfl
  | cons c cs ih =>
    cases i with
    | zero => simp [updAt, joinGetSpec, jget_jset, h]
    | succ n => simp only [updAt, joinGetSpec, ih n]

theorem spec_other_del (cols : List (List JObj)) (i : Nat) (k k' : Key) (h : k' ≠ k) :
    joinGetSpec (updAt cols i (fun c => jdel c k)) k' = joinGetSpec cols k' := by
  induction cols generalizing i with
  | nil => rfl
  | cons c cs ih =>
    cases i with
    | zero => simp [updAt, joinGetSpec, jget_jdel, h]
    | succ n => simp only [updAt, joinGetSpec, ih n]

/-- **one set, handled at once** -/
theorem step_set (cols : List (List JObj)) (i : Nat) (hi : i < cols.length) (o : JObj) :
    StepOK (joinGetSpec cols o.key) (joinGetSpec (updAt cols i (fun c => jset c o)) o.key) o.key
      (refreshOne (updAt cols i (fun c => jset c o)) i ⟨jget (colAt cols i) o.key, some o⟩) := by
  induction cols generalizing i with
  | nil => simp at hi
  | cons c cs ih =>
    cases i with
    | zero =>
      simp only [updAt, colAt, List.headD_cons, refreshOne, hasHigher, Bool.false_eq_true, if_false,
        JEv.key, firstFrom, joinGetSpec, jget_jset, if_true]
      cases hc : jget c o.key with
      | some x => simp [StepOK]
      | none =>
        simp only [joinGetSpec_firstIn]
        cases hf : firstIn cs o.key with
        | none => simp [StepOK]
        | some f => simp [StepOK]
    | succ n =>
      have hn : n < cs.length := by simpa using hi
      have := ih n hn
      simp only [updAt, colAt, List.tail_cons, joinGetSpec]
      cases hc : jget c o.key with
      | some x =>
        simp [refreshOne, hasHigher, hc, JEv.key, StepOK]
      | none =>
        simp only [refreshOne, hasHigher, hc, Option.isSome_none, Bool.false_or, JEv.key, firstFrom] at this ⊢
        exact this

/-- **one delete, handled at once** (`old` = the deleted object) -/
theorem step_del (cols : List (List JObj)) (i : Nat) (hi : i < cols.length) (k : Key) (old : JObj)
    (hold : jget (colAt cols i) k = some old) :
    StepOK (joinGetSpec cols k) (joinGetSpec (updAt cols i (fun c => jdel c k)) k) k
      (refreshOne (updAt cols i (fun c => jdel c k)) i ⟨some old, none⟩) := by
  have hkey : old.key = k := jget_key hold
  induction cols generalizing i with
  | nil => simp at hi
  | cons c cs ih =>
    cases i with
    | zero =>
      simp only [colAt, List.headD_cons] at hold
      simp only [updAt, refreshOne, hasHigher, Bool.false_eq_true, if_false, JEv.key, hkey, firstFrom,
        joinGetSpec, jget_jdel, if_true, hold]
      simp only [joinGetSpec_firstIn]
      cases hf : firstIn cs k with
      | none => simp [StepOK]
      | some f => simp [StepOK]
    | succ n =>
      have hn : n < cs.length := by simpa using hi
      simp only [colAt, List.tail_cons] at hold
      have := ih n hn hold
      simp only [updAt, joinGetSpec]
      cases hc : jget c k with
      | some x =>
        simp [refreshOne, hasHigher, hc, JEv.key, hkey, StepOK]
      | none =>
        simp only [refreshOne, hasHigher, JEv.key, hkey, hc, Option.isSome_none, Bool.false_or, firstFrom] at this ⊢
        exact this

/-! ### lifting to the system -/

theorem length_updAt {α : Type} (l : List α) (i : Nat) (f : α → α) : (updAt l i f).length = l.length := by
  induction l generalizing i with
  | nil => rfl
  | cons x l ih => cases i <;> simp [updAt, ih]

theorem mem_updAt {α : Type} {l : List α} {i : Nat} {f : α → α} {x : α} (h : x ∈ updAt l i f) :
    x ∈ l ∨ ∃ y ∈ l, x = f y := by
  induction l generalizing i with
  | nil => simp [updAt] at h
  | cons a l ih =>
    cases i with
    | zero =>
      simp only [updAt, List.mem_cons] at h
      rcases h with h | h
      · exact Or.inr ⟨a, List.mem_cons_self .., h⟩
      · exact Or.inl (List.mem_cons_of_mem _ h)
    | succ n =>
      simp only [updAt, List.mem_cons] at h
      rcases h with h | h
      · exact Or.inl (h ▸ List.mem_cons_self ..)
      · rcases ih h with h | ⟨y, hy, hxy⟩
        · exact Or.inl (List.mem_cons_of_mem _ h)
        · exact Or.inr ⟨y, List.mem_cons_of_mem _ hy, hxy⟩

theorem updAt_updAt {α : Type} (l : List α) (i : Nat) (f g : α → α) :
    updAt (updAt l i f) i g = updAt l i (fun x => g (f x)) := by
  induction l generalizing i with
  | nil => rfl
  | cons x l ih => cases i <;> simp [updAt, ih]

theorem head_drop_updAt {α : Type} (l : List (List α)) (i : Nat) (hi : i < l.length) (f : List α → List α)
    (hall : ∀ q ∈ l, q = []) : ((updAt l i f).drop i).headD [] = f [] := by
  induction l generalizing i with
  | nil => simp at hi
  | cons x l ih =>
    cases i with
    | zero => simp [updAt, hall x (List.mem_cons_self ..)]
    | succ n =>
      simp only [updAt, List.drop_succ_cons]
      exact ih n (by simpa using hi) (fun q hq => hall q (List.mem_cons_of_mem _ hq))

theorem updAt_id {α : Type} (l : List α) (i : Nat) : updAt l i id = l := by
  induction l generalizing i with
  | nil => rfl
  | cons x l ih => cases i <;> simp [updAt, ih]

theorem spec_replicate_nil (m : Nat) (k : Key) : joinGetSpec (List.replicate m []) k = none := by
  induction m with
  | zero => rfl
  | succ m ih => simp [List.replicate_succ, joinGetSpec, jget, ih]

/-- a change of collection `i` handled before the next change is made -/
def jseq (s : JSys) (i : Nat) (op : JOp) : JSys := jproc (jenv s i op) i

def jseqRun (s : JSys) (ops : List (Nat × JOp)) : JSys := ops.foldl (fun s p => jseq s p.1 p.2) s

structure JInv (s : JSys) : Prop where
  len : s.qs.length = s.cols.length
  empty : ∀ q ∈ s.qs, q = []
  wf : WellFormed s.out
  rep : ∀ k, lookup (replay s.out) k = joinGetSpec s.cols k

/-- delivering the refreshed event keeps the subscribers' copy equal to the join -/
theorem jinv_deliver {out : List Event} {cols cols' : List (List JObj)} {k : Key} {ev : Option Event}
    (wf : WellFormed out) (rep : ∀ k, lookup (replay out) k = joinGetSpec cols k)
    (hother : ∀ k', k' ≠ k → joinGetSpec cols' k' = joinGetSpec cols k')
    (hstep : StepOK (joinGetSpec cols k) (joinGetSpec cols' k) k ev) :
    WellFormed (out ++ ev.toList) ∧ ∀ k', lookup (replay (out ++ ev.toList)) k' = joinGetSpec cols' k' := by
  cases ev with
  | none =>
    simp only [StepOK] at hstep
    simp only [Option.toList, List.append_nil]
    refine ⟨wf, fun k' => ?_⟩
    by_cases hk : k' = k
    · subst hk; rw [rep, hstep]
    · rw [rep, hother k' hk]
  | some e =>
    simp only [Option.toList]
    have hrep : replay (out ++ [e]) = applyEv (replay out) e := by
      rw [replay_append]; rfl
    have hw : ∀ (hl : (stepB (replay out) e).isSome = true), WellFormed (out ++ [e]) := by
      intro hl
      rw [WellFormed, wellFormedFrom_append]
      exact ⟨wf, (wellFormedFrom_cons _ _ _).2 ⟨hl, wellFormedFrom_nil _⟩⟩
    cases e with
    | add k0 v =>
      obtain ⟨rfl, hb, ha⟩ := hstep
      refine ⟨hw (by simp [stepB, rep, hb]), fun k' => ?_⟩
      rw [hrep]
      simp only [applyEv, lookup_set]
      by_cases hk : k' = k0
      · simp [hk, ha]
      · simp [hk, rep, hother k' hk]
    | update k0 o v =>
      obtain ⟨rfl, hb, ha⟩ := hstep
      refine ⟨hw (by simp [stepB, rep, hb]), fun k' => ?_⟩
      rw [hrep]
      simp only [applyEv, lookup_set]
      by_cases hk : k' = k0
      · simp [hk, ha]
      · simp [hk, rep, hother k' hk]
    | delete k0 o =>
      obtain ⟨rfl, hb, ha⟩ := hstep
      refine ⟨hw (by simp [stepB, rep, hb]), fun k' => ?_⟩
      rw [hrep]
      simp only [applyEv, lookup_erase]
      by_cases hk : k' = k0
      · simp [hk, ha]
      · simp [hk, rep, hother k' hk]

theorem jinv_seq {s : JSys} (h : JInv s) (i : Nat) (hi : i < s.cols.length) (op : JOp) : JInv (jseq s i op) := by
  have hiq : i < s.qs.length := by rw [h.len]; exact hi
  have tailEmpty : ∀ (e : JEv), ∀ q ∈ updAt (updAt s.qs i (fun q => q ++ [e])) i List.tail, q = [] := by
    intro e q hq
    rw [updAt_updAt] at hq
    rcases mem_updAt hq with hq | ⟨y, hy, rfl⟩
    · exact h.empty q hq
    · rw [h.empty y hy]; rfl
  cases op with
  | set o =>
    have hhead := head_drop_updAt s.qs i hiq (fun q => q ++ [(⟨jget (colAt s.cols i) o.key, some o⟩ : JEv)]) h.empty
    have hstep := step_set s.cols i hi o
    have hother := fun k' hk => spec_other_set s.cols i o k' hk
    simp only [jseq, jenv, jproc, hhead, List.nil_append]
    cases hr : refreshOne (updAt s.cols i (fun c => jset c o)) i ⟨jget (colAt s.cols i) o.key, some o⟩ with
    | none =>
      rw [hr] at hstep
      obtain ⟨w, r⟩ := jinv_deliver h.wf h.rep hother hstep
      exact ⟨by simp [length_updAt, h.len], tailEmpty _, by simpa using w, by simpa using r⟩
    | some ev =>
      rw [hr] at hstep
      obtain ⟨w, r⟩ := jinv_deliver h.wf h.rep hother hstep
      exact ⟨by simp [length_updAt, h.len], tailEmpty _, by simpa using w, by simpa using r⟩
  | del k =>
    simp only [jseq, jenv]
    cases hold : jget (colAt s.cols i) k with
    | none =>
      simp only [jproc]
      have : (s.qs.drop i).headD [] = [] := by
        have := head_drop_updAt s.qs i hiq id h.empty
        rw [updAt_id] at this; exact this
      simp only [this]
      exact h
    | some old =>
      have hhead := head_drop_updAt s.qs i hiq (fun q => q ++ [(⟨some old, none⟩ : JEv)]) h.empty
      have hstep := step_del s.cols i hi k old hold
      have hother := fun k' hk => spec_other_del s.cols i k k' hk
      simp only [jproc, hhead, List.nil_append]
      cases hr : refreshOne (updAt s.cols i (fun c => jdel c k)) i ⟨some old, none⟩ with
      | none =>
        rw [hr] at hstep
        obtain ⟨w, r⟩ := jinv_deliver h.wf h.rep hother hstep
        exact ⟨by simp [length_updAt, h.len], tailEmpty _, by simpa using w, by simpa using r⟩
      | some ev =>
        rw [hr] at hstep
        obtain ⟨w, r⟩ := jinv_deliver h.wf h.rep hother hstep
        exact ⟨by simp [length_updAt, h.len], tailEmpty _, by simpa using w, by simpa using r⟩

theorem jseq_cols_length (s : JSys) (i : Nat) (op : JOp) : (jseq s i op).cols.length = s.cols.length := by
  cases op with
  | set o =>
    simp only [jseq, jenv, jproc]
    split
    · simp [length_updAt]
    · split <;> simp [length_updAt]
  | del k =>
    simp only [jseq, jenv]
    split
    · simp only [jproc]; split
      · rfl
      · split <;> rfl
    · simp only [jproc]
      split
      · simp [length_updAt]
      · split <;> simp [length_updAt]

/-- **join_seq_correct**: when every change of a joined collection is handled by the join before the
    next change is made, the stream delivered to the join's subscribers is well formed and replays to
    the first-collection-wins contents (for every number of collections and every sequence of changes). -/
theorem join_seq_correct (n : Nat) (ops : List (Nat × JOp)) (hops : ∀ p ∈ ops, p.1 < n) :
    monitorB (jseqRun (JSys.init n) ops).out (joinContents (jseqRun (JSys.init n) ops).cols) = true := by
  have main : ∀ (ops : List (Nat × JOp)) (s : JSys), JInv s → (∀ p ∈ ops, p.1 < s.cols.length) →
      JInv (jseqRun s ops) := by
    intro ops
    induction ops with
    | nil => intro s h _; exact h
    | cons p ops ih =>
      intro s h hp
      simp only [jseqRun, List.foldl_cons]
      apply ih _ (jinv_seq h p.1 (hp p (List.mem_cons_self ..)) p.2)
      intro q hq
      rw [jseq_cols_length]
      exact hp q (List.mem_cons_of_mem _ hq)
  have h0 : JInv (JSys.init n) := by
    refine ⟨by simp [JSys.init], ?_, wellFormedFrom_nil _, ?_⟩
    · intro q hq; simp only [JSys.init, List.mem_replicate] at hq; exact hq.2
    · intro k
      simp only [JSys.init, replay, replayFrom, List.foldl_nil, lookup, spec_replicate_nil]
  have hfin := main ops (JSys.init n) h0 (by intro p hp; simpa [JSys.init] using hops p hp)
  rw [monitorB_iff]
  refine ⟨hfin.wf, fun k => ?_⟩
  rw [hfin.rep k]
  exact (joinGet_first_wins _ k).symm

end IstioModel.C16
