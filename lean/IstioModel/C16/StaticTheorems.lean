import IstioModel.C16.StaticModel
import IstioModel.C16.JoinInflight

/-!
C16 - the static collection model is exact: after any sequence of changes (Reset included: `resetPrims`, a key
may occur twice) the distributed stream is well formed and replays to the contents; a subscriber that
registers at any moment (snapshot, then what is distributed later) is accepted.
-/
namespace IstioModel.C16
open AMap

structure SInv (s : SSys) : Prop where
  wf : WellFormed s.out
  rep : ∀ k, lookup (replay s.out) k = lookup s.vals k

theorem sVals_other (m : FinMap) (op : SOp) (k : Key) (h : k ≠ op.key) : lookup (sVals m op) k = lookup m k := by
  cases op <;> simp only [sVals, SOp.key] at h ⊢
  · rw [lookup_set, if_neg h]
  · rw [lookup_set, if_neg h]
  · rw [lookup_erase, if_neg h]

theorem sinv_step {s : SSys} (h : SInv s) (op : SOp) : SInv (sstep s op) := by
  have := deliver_gen (out := s.out) (f := fun k => lookup s.vals k) (f' := fun k => lookup (sVals s.vals op) k)
    (k := op.key) (ev := sEvent s.vals op) h.wf h.rep (fun k' hk => sVals_other _ op k' hk) (by
      cases op with
      | set k v =>
        simp only [sEvent, sSetEvent, sVals, SOp.key]
        cases hl : lookup s.vals k with
        | none => exact ⟨rfl, rfl, by rw [lookup_set, if_pos rfl]⟩
        | some o => exact ⟨rfl, rfl, by rw [lookup_set, if_pos rfl]⟩
      | cset k v =>
        simp only [sEvent, sSetEvent, sVals, SOp.key]
        by_cases he : lookup s.vals k = some v
        · rw [if_pos he]; simp only [StepOK]; rw [lookup_set, if_pos rfl, he]
        · rw [if_neg he]
          cases hl : lookup s.vals k with
          | none => exact ⟨rfl, rfl, by rw [lookup_set, if_pos rfl]⟩
          | some o => exact ⟨rfl, rfl, by rw [lookup_set, if_pos rfl]⟩
      | del k =>
        simp only [sEvent, sVals, SOp.key]
        cases hl : lookup s.vals k with
        | none => simp only [Option.map_none, StepOK]; rw [lookup_erase, if_pos rfl]
        | some o => exact ⟨rfl, rfl, by rw [lookup_erase, if_pos rfl]⟩)
  exact ⟨this.1, this.2⟩

theorem sinv_exec {s : SSys} (h : SInv s) (ops : List SOp) : SInv (sexec s ops) := by
  induction ops generalizing s with
  | nil => exact h
  | cons op ops ih => exact ih (sinv_step h op)

/-- **static_exact**: whatever is done to a static collection, what it has distributed is a well-formed stream
    that replays to its contents (the monitor accepts it against the contents). -/
theorem static_exact (ops : List SOp) :
    monitorB (sexec {} ops).out (sexec {} ops).vals = true := by
  have h := sinv_exec (s := {}) ⟨wellFormedFrom_nil _, fun _ => rfl⟩ ops
  rw [monitorB_iff]; exact ⟨h.wf, h.rep⟩

theorem sexec_out_prefix (s : SSys) (ops : List SOp) : ∃ t, (sexec s ops).out = s.out ++ t := by
  induction ops generalizing s with
  | nil => exact ⟨[], by simp [sexec]⟩
  | cons op ops ih =>
    obtain ⟨t, ht⟩ := ih (sstep s op)
    exact ⟨(sEvent s.vals op).toList ++ t, by
      simp only [sexec, List.foldl_cons] at ht ⊢; rw [ht]; simp [sstep, List.append_assoc]⟩

/-- **static_late_subscriber**: a subscriber that registers after `r1` (it receives the Adds of what the
    collection holds, i.e. of the replay of what was distributed) and then everything distributed during `r2`
    is accepted against the final contents. -/
theorem static_late_subscriber (r1 r2 : List SOp) :
    monitorB (addsOf (replay (sexec {} r1).out) ++ (sexec {} (r1 ++ r2)).out.drop (sexec {} r1).out.length)
      (sexec {} (r1 ++ r2)).vals = true := by
  have h := sinv_exec (s := {}) ⟨wellFormedFrom_nil _, fun _ => rfl⟩ (r1 ++ r2)
  obtain ⟨t, ht⟩ := sexec_out_prefix (sexec {} r1) r2
  have hrun : sexec {} (r1 ++ r2) = sexec (sexec {} r1) r2 := by simp [sexec, List.foldl_append]
  rw [hrun] at h ⊢
  rw [ht, List.drop_left]
  have nd : NoDupKeys (replay (sexec {} r1).out) := noDupKeys_replayFrom (by simp [NoDupKeys, keys]) _
  rw [monitorB_late_iff _ nd]
  have hwf := h.wf
  rw [ht, WellFormed, wellFormedFrom_append] at hwf
  refine ⟨hwf.2, fun k => ?_⟩
  have := h.rep k
  rw [ht, replay, replayFrom_append] at this
  exact this

/-- `Reset` with the same key twice (finding F14): the later object wins, one Update from the earlier one,
    never a second Add -/
theorem static_reset_duplicate_example :
    (sexec { vals := [("a", "1")] } (resetPrims [("a", "1")] [("a", "2"), ("a", "3")])).out =
      [.update "a" "1" "2", .update "a" "2" "3"] := by decide

end IstioModel.C16
