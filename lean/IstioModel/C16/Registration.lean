import IstioModel.C16.RuntimeTheorems

/-!
C16 - late registration as TWO steps: `RegisterBatch(f, runExistingState = true)` first takes a
snapshot of the contents (the initial Add events) and then inserts the handler into the handler set.
In krt both happen while the collection's lock is held (`h.mu.RLock()` ... `eventHandlers.Insert`), so
that no batch can be applied in between; that the lock is held at every Insert / Distribute call is a
source-level fact regenerated on every run (GenTie.lean).

* `reg_gap_witness`        without atomicity the property fails: a batch applied between the snapshot
                           and the insertion is lost to the new subscriber for good
* `reg_atomic_accepted`    with the two steps adjacent, for every run and every registration point
* `reg_quiet_window_accepted`  it suffices that nothing was delivered inside the window
-/
namespace IstioModel.C16
open AMap

/-- a run with one registration: `r1`, snapshot, `gap` (what the collection does between the two
    steps), insert, `r2` -/
structure RegRun where
  r1  : List Act
  gap : List Act
  r2  : List Act

def RegRun.all (r : RegRun) : List Act := r.r1 ++ r.gap ++ r.r2

/-- what the new subscriber receives: the initial Adds of the snapshot, then everything delivered
    after the handler was inserted -/
def RegRun.stream (T : Transform) (r : RegRun) : List Event :=
  addsOf (exec T {} r.r1).col.outputs ++
    (exec T {} r.all).out.drop (exec T {} (r.r1 ++ r.gap)).out.length

def RegRun.accepted (T : Transform) (r : RegRun) : Bool :=
  monitorB (r.stream T) (exec T {} r.all).col.outputs

/-- The property for late registration WITHOUT assuming atomicity. -/
def RegCorrectAnyWindow : Prop :=
  ∀ (T : Transform) (r : RegRun), runOK T {} r.all = true → r.accepted T = true

def regWitness : RegRun :=
  { r1 := [.envP [.set { ns := "n1", name := "a", val := "v1" }], .procP],
    gap := [.envP [.set { ns := "n1", name := "a", val := "v2" }], .procP],
    r2 := [] }

/-- **reg_gap_witness**: if a batch is applied between the snapshot and the insertion of the handler
    (here: the Update `v1 → v2`), the subscriber keeps the stale `v1` for ever although every later
    event would be delivered: "none dropped" fails. The run itself respects DisjointAtApply. -/
theorem reg_gap_witness : ¬ RegCorrectAnyWindow := by
  intro h
  have := h { multi := false } regWitness (by decide)
  revert this
  decide

theorem exec_append3 (T : Transform) (a b c : List Act) :
    exec T {} (a ++ b ++ c) = exec T (exec T (exec T {} a) b) c := by
  rw [exec_append, exec_append]

/-- it suffices that nothing was delivered between the two steps -/
theorem reg_quiet_window_accepted (T : Transform) (r : RegRun) (hok : runOK T {} r.all = true)
    (hquiet : (exec T {} (r.r1 ++ r.gap)).out = (exec T {} r.r1).out)
    (hsame : MapEq (exec T {} (r.r1 ++ r.gap)).col.outputs (exec T {} r.r1).col.outputs) :
    r.accepted T = true := by
  simp only [RegRun.all, List.append_assoc] at hok
  have hok' : runOK T {} ((r.r1 ++ r.gap) ++ r.r2) = true := by simpa [List.append_assoc] using hok
  rw [runOK_append, Bool.and_eq_true] at hok'
  have hok1 : runOK T {} r.r1 = true := by
    have := hok'.1; rw [runOK_append, Bool.and_eq_true] at this; exact this.1
  have h1 := sysInv_exec (sysInv_init T) r.r1 hok1
  have h12 := sysInv_exec (sysInv_init T) (r.r1 ++ r.gap) hok'.1
  have h2 := sysInv_exec h12 r.r2 hok'.2
  obtain ⟨t, ht⟩ := exec_out_prefix T (exec T {} (r.r1 ++ r.gap)) r.r2
  have hall : exec T {} r.all = exec T (exec T {} (r.r1 ++ r.gap)) r.r2 := by
    simp only [RegRun.all]; rw [exec_append]
  simp only [RegRun.accepted, RegRun.stream, hall, ht, List.drop_left]
  rw [monitorB_late_iff _ h1.stream.nd]
  have wf2 := h2.stream.wf
  have rep2 := h2.stream.rep
  rw [ht] at wf2 rep2
  rw [WellFormed, wellFormedFrom_append] at wf2
  rw [replay, replayFrom_append] at rep2
  -- what the subscriber holds after the snapshot = what the stream had delivered when it was inserted
  have hrep1 : MapEq (replayFrom [] (exec T {} (r.r1 ++ r.gap)).out) (exec T {} r.r1).col.outputs :=
    MapEq.trans h12.stream.rep hsame
  exact ⟨(wellFormedFrom_congr hrep1 t).1 wf2.2,
         MapEq.trans (MapEq.symm (replayFrom_congr hrep1 t)) rep2⟩

/-- **reg_atomic_accepted**: with snapshot and insertion adjacent (the collection lock is held across
    both), a subscriber registered at ANY point of ANY run respecting DisjointAtApply receives a stream
    that the monitor accepts against the contents at any later point. -/
theorem reg_atomic_accepted (T : Transform) (r1 r2 : List Act) (hok : runOK T {} (r1 ++ r2) = true) :
    RegRun.accepted T { r1 := r1, gap := [], r2 := r2 } = true := by
  apply reg_quiet_window_accepted
  · simpa [RegRun.all] using hok
  · simp
  · simp only [List.append_nil]; exact MapEq.refl _

end IstioModel.C16
