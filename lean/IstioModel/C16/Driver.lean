import IstioModel.Common.Wire
import IstioModel.C16.Spec

/-!
Line-protocol driver for C16 (streams `krt`, `krtf6`).  Input = the *trace* written by
`harness/c16 exec`: the history ops of a case, with the observed event streams appended to the
`stream` / `ustream` lines.  The driver keeps the current inputs itself, recomputes
`specContents` at every query and runs the verified monitor on every recorded stream.

    case <n> <stream> <transform> [f6]      reset
    p.set <obj> | p.del <key> | p.reset <obj>*     primary (input) collection
    s.set <obj> | s.del <key> | s.reset <obj>*     secondary (fetched) collection
    start                                   the derived collection is created here
    sub <name> single|batch|nostate         subscriber registered here (`nostate` implies a barrier)
    sync                                    barrier (quiescence)
    list | get <key> | lookup <ns>          queries (imply a barrier); answers = specification
    stream <name> <event>*                  answer = verdict of `monitorB`
    ulist | ulookup <ns> | ustream ...      the same, restricted to the keys moved unsafely (F6 class)

Object token: `ns;name;labels;sel;outs;ref;val` (labels/sel `k=v,k=v`, outs `k,k`).
Event token: `A~key~val`, `U~key~old~new`, `D~key~old`.
-/
namespace IstioModel.C16
open IstioModel.Wire

def splitNonEmpty (s : String) (sep : String) : List String := (s.splitOn sep).filter (· ≠ "")

def parsePairs (s : String) : List (String × String) :=
  (splitNonEmpty s ",").map (fun kv =>
    match kv.splitOn "=" with
    | [k, v] => (k, v)
    | k :: _ => (k, "")
    | [] => ("", ""))

def parseObj (t : String) : Option Obj :=
  match t.splitOn ";" with
  | [ns, name, labels, sel, outs, ref, val] =>
    some { ns := ns, name := name, labels := parsePairs labels, sel := parsePairs sel,
           outs := splitNonEmpty outs ",", ref := ref, val := val }
  | _ => none

def parseAtom (t : String) : Option FAtom :=
  match t with
  | "key" => some .key
  | "selects" => some .selects
  | "selectsNE" => some .selectsNE
  | "label" => some .label
  | "nsIndex" => some .nsIndex
  | "valIndex" => some .valIndex
  | _ => if t.startsWith "g" then (t.drop 1).toString.toNat?.map FAtom.generic else none

/-- `multi:gate:fetch;fetch` with `fetch = atom+atom`, e.g. `1:0:key+label;selects`. -/
def parseTransform (t : String) : Option Transform :=
  match t.splitOn ":" with
  | [m, g, fs] =>
    let fetches := (splitNonEmpty fs ";").map (fun f => (splitNonEmpty f "+").filterMap parseAtom)
    some { multi := m == "1", gate := g == "1", fetches := fetches }
  | _ => none

def parseEvent (t : String) : Option Event :=
  match t.splitOn "~" with
  | ["A", k, v] => some (.add k v)
  | ["U", k, o, n] => some (.update k o n)
  | ["D", k, o] => some (.delete k o)
  | _ => none

def parseEvents : List String → Option (List Event)
  | [] => some []
  | t :: r =>
    match parseEvent t, parseEvents r with
    | some e, some l => some (e :: l)
    | _, _ => none

/-! ### source collections -/

def ogetD (l : List Obj) (k : Key) : Option Obj := l.find? (fun o => o.key == k)
def odelD (l : List Obj) (k : Key) : List Obj := l.filter (fun o => o.key != k)
def osetD (l : List Obj) (o : Obj) : List Obj := o :: odelD l o.key

/-! ### the barrier discipline (see notes/C16.md): keys that moved between parents without a
    barrier in between are the F6 class -/

def dedupS (l : List String) : List String :=
  l.foldr (fun x acc => if acc.contains x then acc else x :: acc) []

def claimsOf (T : Transform) (o : Obj) : List Key := if T.multi then dedupS o.outs else []

structure DState where
  T       : Transform := {}
  stream  : String := ""
  flagged : Bool := false
  /-- the observed collection is a second derived collection chained behind the first -/
  chain   : Bool := false
  started : Bool := false
  prim    : List Obj := []
  sec     : List Obj := []
  /-- per parent: the output keys it has claimed since the last barrier -/
  claimed : AMap (List Key) := []
  /-- keys that changed parent without a barrier in between -/
  unsafeK : List Key := []
  /-- subscribers: what they held when they registered -/
  subs    : AMap FinMap := []

def claimedByOther (claimed : AMap (List Key)) (p : Key) (k : Key) : Bool :=
  claimed.any (fun e => e.1 != p && e.2.contains k)

def noteSet (d : DState) (o : Obj) : DState :=
  if !d.started then d else
  let cl := claimsOf d.T o
  let bad := cl.filter (fun k => claimedByOther d.claimed o.key k && !d.unsafeK.contains k)
  let old := (AMap.lookup d.claimed o.key).getD []
  { d with unsafeK := d.unsafeK ++ bad,
           claimed := AMap.set d.claimed o.key (dedupS (old ++ cl)) }

def barrier (d : DState) : DState :=
  { d with claimed := d.prim.map (fun o => (o.key, claimsOf d.T o)) }

def primSet (d : DState) (o : Obj) : DState :=
  let d' := noteSet d o
  { d' with prim := osetD d'.prim o }

def primReset (d : DState) (objs : List Obj) : DState :=
  let d' := objs.foldl noteSet d
  { d' with prim := objs.foldl osetD [] }

/-! ### answers -/

def sortDedupPairs (m : FinMap) : FinMap :=
  let s := m.mergeSort (fun a b => decide (a.1 ≤ b.1))
  s.foldr (fun x acc => match acc with
    | y :: _ => if x.1 = y.1 then acc else x :: acc
    | [] => [x]) []

/-- first binding per key (= `AMap.lookup`), sorted by key -/
def canon (m : FinMap) : FinMap :=
  sortDedupPairs ((dedupS (m.map (·.1))).filterMap (fun k => (AMap.lookup m k).map (fun v => (k, v))))

def showMap (m : FinMap) : String :=
  let c := canon m
  s!"n={c.length}" ++ String.join (c.map (fun kv => " " ++ kv.1 ++ "~" ++ kv.2))

/-- keys of the F6 class in this case: the unsafely moved keys, and the empty key under which the
    zero-valued delete of a missing output is delivered -/
def inU (d : DState) (k : Key) : Bool := d.flagged && (d.unsafeK.contains k || k == "")

/-- `krt.NewCollection(derived, o ↦ o with Val ++ "|c")`: the chained collection's transformation. -/
def chainMap (m : FinMap) : FinMap := m.map (fun kv => (kv.1, kv.2 ++ "|c"))

def spec (d : DState) : FinMap :=
  if d.chain then chainMap (specContents d.T d.prim d.sec) else specContents d.T d.prim d.sec

def specLk (d : DState) (ns : String) : FinMap :=
  if d.chain then chainMap (specLookup d.T d.prim d.sec ns) else specLookup d.T d.prim d.sec ns

/-- No two current inputs claim the same output key (input-level form of the unique-key contract). -/
def uniqueClaimsB (T : Transform) (prim : List Obj) : Bool :=
  prim.all (fun i => prim.all (fun j => i.key == j.key ||
    (claimsOf T i).all (fun k => !(claimsOf T j).contains k)))

/-- `none` = answer normally; `some s` = the case is outside the checked class at this point. -/
def guard (d : DState) : Option String :=
  if !d.started then some "not-started"
  else if !d.flagged && !d.unsafeK.isEmpty then some "undisciplined"
  else if !uniqueClaimsB d.T d.prim then some "ambiguous"
  else none

def showVerdict (m0 : FinMap) (evs : List Event) (m : FinMap) : String :=
  if monitorFromB m0 evs m then "accept"
  else match firstBad m0 evs 0 with
    | some i => s!"reject:event:{i}"
    | none => "reject:contents:" ++ showMap (replayFrom m0 evs)

def answer (d : DState) (u : Bool) (body : DState → String) : String :=
  match guard d with
  | some g => g
  | none => if u && !d.flagged then "not-flagged" else body d

def stepD (d : DState) (toks : List String) : DState × String :=
  match toks with
  | "case" :: _ :: stream :: t :: rest =>
    match parseTransform t with
    | none => ({}, "bad-op")
    | some T => ({ T := T, stream := stream, flagged := rest.contains "f6", chain := rest.contains "chain" }, "ok")
  | ["p.set", o] =>
    match parseObj o with
    | none => (d, "bad-op")
    | some o => (primSet d o, "ok")
  | ["p.del", k] => ({ d with prim := odelD d.prim k }, "ok")
  | "p.reset" :: os =>
    (primReset d (os.filterMap parseObj), "ok")
  | ["s.set", o] =>
    match parseObj o with
    | none => (d, "bad-op")
    | some o => ({ d with sec := osetD d.sec o }, "ok")
  | ["s.del", k] => ({ d with sec := odelD d.sec k }, "ok")
  | "s.reset" :: os => ({ d with sec := (os.filterMap parseObj).foldl osetD [] }, "ok")
  | ["start"] => (barrier { d with started := true, unsafeK := [] }, "ok")
  | ["sync"] => (barrier d, "ok")
  | ["sub", name, kind] =>
    if !d.started then (d, "ok")
    else if kind == "nostate" then
      let d := barrier d
      ({ d with subs := AMap.set d.subs name (spec d) }, "ok")
    else ({ d with subs := AMap.set d.subs name [] }, "ok")
  | ["list"] =>
    let d := barrier d
    (d, "list " ++ answer d false (fun d => showMap (restrictMap (fun k => !inU d k) (spec d))))
  | ["ulist"] =>
    let d := barrier d
    (d, "ulist " ++ answer d true (fun d => showMap (restrictMap (inU d) (spec d))))
  | ["get", k] =>
    let d := barrier d
    (d, "get " ++ answer d false (fun d =>
      if inU d k then "masked" else
      match AMap.lookup (spec d) k with
      | none => "none"
      | some v => v))
  | ["lookup", ns] =>
    let d := barrier d
    (d, "lookup " ++ answer d false (fun d =>
      showMap (restrictMap (fun k => !inU d k) (specLk d ns))))
  | ["ulookup", ns] =>
    let d := barrier d
    (d, "ulookup " ++ answer d true (fun d =>
      showMap (restrictMap (inU d) (specLk d ns))))
  | "stream" :: name :: evs =>
    let d := barrier d
    (d, "stream " ++ answer d false (fun d =>
      match parseEvents evs, AMap.lookup d.subs name with
      | some es, some m0 =>
        let p := fun k => !inU d k
        showVerdict (restrictMap p m0) (restrictStream p es) (restrictMap p (spec d))
      | none, _ => "reject:malformed-event"
      | _, none => "unknown-subscriber"))
  | "ustream" :: name :: evs =>
    let d := barrier d
    (d, "ustream " ++ answer d true (fun d =>
      match parseEvents evs, AMap.lookup d.subs name with
      | some es, some m0 =>
        showVerdict (restrictMap (inU d) m0) (restrictStream (inU d) es) (restrictMap (inU d) (spec d))
      | none, _ => "reject:malformed-event"
      | _, none => "unknown-subscriber"))
  | _ => (d, "bad-op")

end IstioModel.C16
