import IstioModel.Common.Wire
import IstioModel.C16.Spec
import IstioModel.C16.Discipline
import IstioModel.C16.StaticModel

/-!
Line-protocol driver for C16 (streams `krt`, `krtf6`).  Input = the *trace* written by
`harness/c16 exec`: the history ops of a case, with the observed event streams appended to the
`stream` / `ustream` lines.  The driver keeps the current inputs itself, recomputes
`specContents` at every query and runs the verified monitor on every recorded stream.

    case <n> <stream> <transform> [f6]      reset
    p.set <obj> | p.del <key> | p.reset <obj>*     primary (input) collection
    s.set <obj> | s.del <key> | s.reset <obj>*     secondary (fetched) collection
    start                                   the derived collection is created here
    sub <name> single|batch|nostate         subscriber registered here (`nostate` implies a barrier)
    sync                                    barrier (quiescence)
    list | get <key> | lookup <ns>          queries (imply a barrier); answers = specification
    stream <name> <event>*                  answer = verdict of `monitorB`
    ulist | ulookup <ns> | ustream ...      the same, restricted to the keys moved unsafely (F6 class)

Object token: `ns;name;labels;sel;outs;ref;val` (labels/sel `k=v,k=v`, outs `k,k`).
Event token: `A~key~val`, `U~key~old~new`, `D~key~old`.
-/
namespace IstioModel.C16
open IstioModel.Wire

def splitNonEmpty (s : String) (sep : String) : List String := (s.splitOn sep).filter (· ≠ "")

def parsePairs (s : String) : List (String × String) :=
  (splitNonEmpty s ",").map (fun kv =>
    match kv.splitOn "=" with
    | [k, v] => (k, v)
    | k :: _ => (k, "")
    | [] => ("", ""))

def parseObj (t : String) : Option Obj :=
  match t.splitOn ";" with
  | [ns, name, labels, sel, outs, ref, val] =>
    some { ns := ns, name := name, labels := if labels == "nil" then [] else parsePairs labels,
           labelsNil := labels == "nil", sel := parsePairs sel,
           outs := splitNonEmpty outs ",", ref := ref, val := val }
  | _ => none

def parseAtom (t : String) : Option FAtom :=
  match t with
  | "key" => some .key
  | "selects" => some .selects
  | "selectsNE" => some .selectsNE
  | "label" => some .label
  | "nsIndex" => some .nsIndex
  | "valIndex" => some .valIndex
  | "outIndex" => some .outIndex
  | "nokeys" => some .noKeys
  | "nilkeys" => some .nilKeys
  | "keys" => some .keys
  | "objName" => some .objName
  | _ => if t.startsWith "g" then (t.drop 1).toString.toNat?.map FAtom.generic else none

/-- `multi:gate:fetch;fetch` with `fetch = atom+atom`, e.g. `1:0:key+label;selects`. -/
def parseTransform (t : String) : Option Transform :=
  match t.splitOn ":" with
  | [m, g, fs] =>
    let fetches := (splitNonEmpty fs ";").map (fun f => (splitNonEmpty f "+").filterMap parseAtom)
    some { multi := m == "1", byVal := m == "2", gate := g == "1", fetches := fetches }
  | _ => none

def parseEvent (t : String) : Option Event :=
  match t.splitOn "~" with
  | ["A", k, v] => some (.add k v)
  | ["U", k, o, n] => some (.update k o n)
  | ["D", k, o] => some (.delete k o)
  | _ => none

def parseEvents : List String → Option (List Event)
  | [] => some []
  | t :: r =>
    match parseEvent t, parseEvents r with
    | some e, some l => some (e :: l)
    | _, _ => none

/-! ### source collections -/

def ogetD (l : List Obj) (k : Key) : Option Obj := l.find? (fun o => o.key == k)
def odelD (l : List Obj) (k : Key) : List Obj := l.filter (fun o => o.key != k)
def osetD (l : List Obj) (o : Obj) : List Obj := o :: odelD l o.key

/-! ### the barrier discipline (Discipline.lean: `claimBad / claimAdd / resetClaims`, proved to imply
    DisjointAtApply): keys that moved between parents without a barrier in between are the F6 class -/

def dedupS (l : List String) : List String :=
  l.foldr (fun x acc => if acc.contains x then acc else x :: acc) []

structure DState where
  T       : Transform := {}
  stream  : String := ""
  flagged : Bool := false
  /-- the observed collection is a second derived collection chained behind the first -/
  chain   : Bool := false
  /-- `krt.NewSingleton` case -/
  single1 : Bool := false
  /-- where the transformation fetches from: "" the static collection `sec`; "sd" a derived copy of
      it; "sj" `JoinCollection[sec, sec2]`; "s2" fetches at odd positions go to `sec2` -/
  secmode : String := ""
  started : Bool := false
  prim    : List Obj := []
  sec     : List Obj := []
  sec2    : List Obj := []
  /-- per parent: the output keys it has claimed since the last barrier -/
  claimed : AMap (List Key) := []
  /-- keys that changed parent without a barrier in between (flagged cases: ... and whose new parent can have
      been applied before the old parent released them, see `noteSet`) -/
  unsafeK : List Key := []
  /-- a fetched collection changed since the last barrier and the transformation fetches: an input can be
      recomputed out of the order of the input changes -/
  secDirty : Bool := false
  /-- "sj": fetched keys changed by sec (0) / sec2 (1) since the last barrier, and whether a key was
      changed by both (finding F10 could then lose or garble the join's events) -/
  touched : AMap (List Nat) := []
  unsafeJ : Bool := false
  /-- the late multi-key index exists -/
  lateIdx : Bool := false
  /-- subscribers: what they held when they registered -/
  subs    : AMap FinMap := []
  psubs   : AMap FinMap := []
  dsubs   : AMap FinMap := []
  /-- subscribers of the primary collection whose handler was unregistered: the contents at that moment -/
  pfrozen : AMap FinMap := []
  /-- the runtime model of the primary static collection (StaticModel.lean), stepped with every `p.*` op; per
      subscriber of the primary collection: where the model's stream was when it registered, whether it got the
      existing state, that state, and where the stream was when it was unregistered -/
  pm      : SSys := {}
  ppos    : AMap (Nat × Bool × FinMap) := []
  pend    : AMap Nat := []

/-- another current input claims `k` -/
def currentByOther (T : Transform) (prim : List Obj) (p k : Key) : Bool :=
  prim.any (fun q => q.key != p && (claimsOf T q).contains k)

/-- Keys leaving the checked class when input `o` is set.  Unflagged cases (stream `krt`): every key another
    input has claimed since the last barrier (the discipline of `disciplined_runOK`).  Flagged cases (`krtf6`):
    the known class F6 exactly - of those keys only the ones whose new parent can be APPLIED before the old
    parent released them: another input claims the key right now (new parent first, or both in one Reset
    batch), or a fetched collection changed since the barrier (its event, processed first, recomputes the new
    parent from the latest inputs).  A move whose old parent released the key in an earlier change is
    applied in that order by the collection's queue: it stays on the normally compared lines. -/
def noteSet (d : DState) (o : Obj) : DState :=
  if !d.started then d else
  let cl := claimsOf d.T o
  let since := claimBad d.claimed o.key cl
  let since := if d.flagged then since.filter (fun k => d.secDirty || currentByOther d.T d.prim o.key k) else since
  let bad := dedupS (since.filter (fun k => !d.unsafeK.contains k))
  { d with unsafeK := d.unsafeK ++ bad, claimed := claimAdd d.claimed o.key cl }

def barrier (d : DState) : DState :=
  { d with claimed := resetClaims d.T d.prim, touched := [], secDirty := false }

def isSecOp (op : String) : Bool := op.startsWith "s." || op.startsWith "t."

def primSet (d : DState) (o : Obj) : DState :=
  let d' := noteSet d o
  { d' with prim := osetD d'.prim o }

def primReset (d : DState) (objs : List Obj) : DState :=
  let d' := objs.foldl noteSet d
  { d' with prim := objs.foldl osetD [] }

def touchS (d : DState) (k : Key) (i : Nat) : DState :=
  if !d.started || d.secmode != "sj" then d else
  let l := (AMap.lookup d.touched k).getD []
  if l.contains i then d else
  { d with touched := AMap.set d.touched k (l ++ [i]), unsafeJ := d.unsafeJ || !l.isEmpty }

def renderPairs (l : List (String × String)) : String := ",".intercalate (l.map (fun kv => kv.1 ++ "=" ++ kv.2))

/-- the object token (inverse of `parseObj` on the tokens the harness writes) -/
def Obj.token (o : Obj) : String :=
  ";".intercalate [o.ns, o.name, (if o.labelsNil then "nil" else renderPairs o.labels), renderPairs o.sel, ",".intercalate o.outs, o.ref, o.val]

/-- contents of the primary static collection (the constant input of a singleton is not in it) -/
def primContents (d : DState) : FinMap :=
  ((if d.single1 then d.prim.filter (fun o => o.key != "n1/s") else d.prim)).map (fun o => (o.key, o.token))

/-! ### answers -/

def sortDedupPairs (m : FinMap) : FinMap :=
  let s := m.mergeSort (fun a b => decide (a.1 ≤ b.1))
  s.foldr (fun x acc => match acc with
    | y :: _ => if x.1 = y.1 then acc else x :: acc
    | [] => [x]) []

/-- first binding per key (= `AMap.lookup`), sorted by key -/
def canon (m : FinMap) : FinMap :=
  sortDedupPairs ((dedupS (m.map (·.1))).filterMap (fun k => (AMap.lookup m k).map (fun v => (k, v))))

def showMap (m : FinMap) : String :=
  let c := canon m
  s!"n={c.length}" ++ String.join (c.map (fun kv => " " ++ kv.1 ++ "~" ++ kv.2))

/-- keys of the F6 class in this case: the unsafely moved keys, and the empty key under which the
    zero-valued delete of a missing output is delivered -/
def inU (d : DState) (k : Key) : Bool := d.flagged && (d.unsafeK.contains k || k == "")

/-- `krt.NewCollection(derived, o ↦ o with Val ++ "|c")`: the chained collection's transformation. -/
def chainMap (m : FinMap) : FinMap := m.map (fun kv => (kv.1, kv.2 ++ "|c"))

/-- first collection wins (`JoinCollection[sec, sec2]`) -/
def mergeFirst (a b : List Obj) : List Obj := a ++ b.filter (fun o => (ogetD a o.key).isNone)

/-- `JoinWithMergeCollection[sec, sec2]` / `NestedJoinWithMergeCollection` with the harness's order independent
    merge function: one object per key, its value the sorted values joined by `+`, nothing else kept -/
def mergeStrip (a b : List Obj) : List Obj :=
  let strip (o : Obj) (v : String) : Obj := { ns := o.ns, name := o.name, val := v }
  a.map (fun o => match ogetD b o.key with
    | some p => strip o (if p.val < o.val then p.val ++ "+" ++ o.val else o.val ++ "+" ++ p.val)
    | none => strip o o.val) ++
  (b.filter (fun o => (ogetD a o.key).isNone)).map (fun o => strip o o.val)

/-- contents of the first-level derived collection -/
def baseContents (d : DState) : FinMap :=
  if d.secmode == "sj" then specContents d.T d.prim (mergeFirst d.sec d.sec2)
  else if d.secmode == "sm" || d.secmode == "sn" then specContents d.T d.prim (mergeStrip d.sec d.sec2)
  -- the transformation fetches from its own primary collection (ss) or from a copy derived from it (sp: a diamond)
  else if d.secmode == "sp" || d.secmode == "ss" then
    specContents d.T d.prim (if d.single1 then d.prim.filter (fun o => o.key != "n1/s") else d.prim)
  else if d.secmode == "s2" then specContentsAlt d.T d.prim d.sec d.sec2
  else specContents d.T d.prim d.sec

def spec (d : DState) : FinMap := if d.chain then chainMap (baseContents d) else baseContents d

def specLk (d : DState) (ns : String) : FinMap := (spec d).filter (fun kv => outNs kv.2 == ns)

def specLkF (d : DState) (k : String) : FinMap := (spec d).filter (fun kv => (outFetched kv.2).contains k)

/-- No two current inputs claim the same output key (input-level form of the unique-key contract). -/
def uniqueClaimsB (T : Transform) (prim : List Obj) : Bool :=
  prim.all (fun i => prim.all (fun j => i.key == j.key ||
    (claimsOf T i).all (fun k => !(claimsOf T j).contains k)))

/-- `none` = answer normally; `some s` = the case is outside the checked class at this point. -/
def guard (d : DState) : Option String :=
  if !d.started then some "not-started"
  else if (!d.flagged && !d.unsafeK.isEmpty) || d.unsafeJ then some "undisciplined"
  else if !uniqueClaimsB d.T d.prim then some "ambiguous"
  else none

def showVerdict (m0 : FinMap) (evs : List Event) (m : FinMap) : String :=
  if monitorFromB m0 evs m then "accept"
  else match firstBad m0 evs 0 with
    | some i => s!"reject:event:{i}"
    | none => "reject:contents:" ++ showMap (replayFrom m0 evs)

def answer (d : DState) (u : Bool) (body : DState → String) : String :=
  match guard d with
  | some g => g
  | none => if u && !d.flagged then "not-flagged" else body d

/-- the constant input of the singleton cases (`case ... single1`) -/
def singletonInput : Obj :=
  { ns := "n1", name := "s", labels := [("l1", "1")], sel := [("l1", "1")], outs := ["k1", "k3"],
    ref := "n1/x", val := "v1" }

def stepD1 (d : DState) (toks : List String) : DState × String :=
  let primIsSec := d.secmode == "sp" || d.secmode == "ss"
  let d := if d.started && !d.T.fetches.isEmpty &&
      (isSecOp (toks.headD "") || (primIsSec && (toks.headD "").startsWith "p.")) then { d with secDirty := true } else d
  match toks with
  | "case" :: _ :: stream :: t :: rest =>
    match parseTransform t with
    | none => ({}, "bad-op")
    | some T =>
      let sm := (["sd", "sj", "s2", "sm", "sn", "sp", "ss"].find? (fun m => rest.contains m)).getD ""
      -- `krt.NewSingleton`: the transformation of one constant (dummy) input
      let prim0 : List Obj := if rest.contains "single1" then [singletonInput] else []
      ({ T := T, stream := stream, flagged := rest.contains "f6", chain := rest.contains "chain", secmode := sm,
         prim := prim0, single1 := rest.contains "single1" }, "ok")
  | ["p.set", o] =>
    match parseObj o with
    | none => (d, "bad-op")
    | some o => (primSet d o, "ok")
  | ["p.cset", o] =>
    match parseObj o with
    | none => (d, "bad-op")
    | some o => (primSet d o, "ok")
  | ["p.del", k] => ({ d with prim := odelD d.prim k }, "ok")
  | ["p.delwhere", ns] => ({ d with prim := d.prim.filter (fun o => o.ns != ns) }, "ok")
  | "p.reset" :: os =>
    (primReset d (os.filterMap parseObj), "ok")
  | ["s.set", o] =>
    match parseObj o with
    | none => (d, "bad-op")
    | some o => let d := touchS d o.key 0; ({ d with sec := osetD d.sec o }, "ok")
  | ["s.cset", o] =>
    match parseObj o with
    | none => (d, "bad-op")
    | some o => let d := touchS d o.key 0; ({ d with sec := osetD d.sec o }, "ok")
  | ["s.del", k] => let d := touchS d k 0; ({ d with sec := odelD d.sec k }, "ok")
  | ["s.delwhere", ns] =>
    let d := (d.sec.filter (fun o => o.ns == ns)).foldl (fun d o => touchS d o.key 0) d
    ({ d with sec := d.sec.filter (fun o => o.ns != ns) }, "ok")
  | "s.reset" :: os =>
    let objs := os.filterMap parseObj
    let d := (d.sec ++ objs).foldl (fun d o => touchS d o.key 0) d
    ({ d with sec := objs.foldl osetD [] }, "ok")
  | ["t.set", o] =>
    match parseObj o with
    | none => (d, "bad-op")
    | some o => let d := touchS d o.key 1; ({ d with sec2 := osetD d.sec2 o }, "ok")
  | ["t.del", k] => let d := touchS d k 1; ({ d with sec2 := odelD d.sec2 k }, "ok")
  | ["start"] => (barrier { d with started := true, unsafeK := [], unsafeJ := false }, "ok")
  | ["lateindex"] => if d.started then ({ d with lateIdx := true }, "ok") else (d, "ok")
  | ["flookup", k] =>
    let d := barrier d
    (d, "flookup " ++ answer d false (fun d =>
      if !d.lateIdx then "no-index" else showMap (restrictMap (fun k => !inU d k) (specLkF d k))))
  | ["psub", name, kind] =>
    ({ d with psubs := AMap.set d.psubs name (if kind == "nostate" then primContents d else []) }, "ok")
  | ["punsub", name] =>
    -- `UnregisterHandler` at a quiescent point: the subscriber keeps what it has, nothing more arrives
    let d := barrier d
    (if (AMap.lookup d.psubs name).isSome && (AMap.lookup d.pfrozen name).isNone
      then { d with pfrozen := AMap.set d.pfrozen name (primContents d) } else d, "ok")
  | ["burst", o, n] =>
    -- n updates of one input in a row (values b0 / b1 alternating)
    match parseObj o, n.toNat? with
    | some o, some n =>
      if !d.started || d.T.byVal then (d, "bad-op")
      else ((List.range n).foldl (fun d j => primSet d { o with val := "b" ++ toString (j % 2) }) d, "ok")
    | _, _ => (d, "bad-op")
  | "pstream" :: name :: evs =>
    let d := barrier d
    (d, "pstream " ++ match parseEvents evs, AMap.lookup d.psubs name with
      | some es, some m0 => showVerdict m0 es ((AMap.lookup d.pfrozen name).getD (primContents d))
      | none, _ => "reject:malformed-event"
      | _, none => "unknown-subscriber")
  | ["dsub", name, kind] =>
    if !d.started then (d, "ok")
    else if kind == "nostate" then
      let d := barrier d
      ({ d with dsubs := AMap.set d.dsubs name (baseContents d) }, "ok")
    else ({ d with dsubs := AMap.set d.dsubs name [] }, "ok")
  | "dstream" :: name :: evs =>
    let d := barrier d
    (d, "dstream " ++ answer d false (fun d =>
      match parseEvents evs, AMap.lookup d.dsubs name with
      | some es, some m0 =>
        let p := fun k => !inU d k
        showVerdict (restrictMap p m0) (restrictStream p es) (restrictMap p (baseContents d))
      | none, _ => "reject:malformed-event"
      | _, none => "unknown-subscriber"))
  | ["sync"] => (barrier d, "ok")
  | ["sub", name, kind] =>
    if !d.started then (d, "ok")
    else if kind == "nostate" then
      let d := barrier d
      ({ d with subs := AMap.set d.subs name (spec d) }, "ok")
    else ({ d with subs := AMap.set d.subs name [] }, "ok")
  | ["list"] =>
    let d := barrier d
    (d, "list " ++ answer d false (fun d => showMap (restrictMap (fun k => !inU d k) (spec d))))
  | ["ulist"] =>
    let d := barrier d
    (d, "ulist " ++ answer d true (fun d => showMap (restrictMap (inU d) (spec d))))
  | ["get", k] =>
    let d := barrier d
    (d, "get " ++ answer d false (fun d =>
      if inU d k then "masked" else
      match AMap.lookup (spec d) k with
      | none => "none"
      | some v => v))
  | ["lookup", ns] =>
    let d := barrier d
    (d, "lookup " ++ answer d false (fun d =>
      showMap (restrictMap (fun k => !inU d k) (specLk d ns))))
  | ["ulookup", ns] =>
    let d := barrier d
    (d, "ulookup " ++ answer d true (fun d =>
      showMap (restrictMap (inU d) (specLk d ns))))
  | "stream" :: name :: evs =>
    let d := barrier d
    (d, "stream " ++ answer d false (fun d =>
      match parseEvents evs, AMap.lookup d.subs name with
      | some es, some m0 =>
        let p := fun k => !inU d k
        showVerdict (restrictMap p m0) (restrictStream p es) (restrictMap p (spec d))
      | none, _ => "reject:malformed-event"
      | _, none => "unknown-subscriber"))
  | "ustream" :: name :: evs =>
    let d := barrier d
    (d, "ustream " ++ answer d true (fun d =>
      match parseEvents evs, AMap.lookup d.subs name with
      | some es, some m0 =>
        showVerdict (restrictMap (inU d) m0) (restrictStream (inU d) es) (restrictMap (inU d) (spec d))
      | none, _ => "reject:malformed-event"
      | _, none => "unknown-subscriber"))
  | _ => (d, "bad-op")

/-! ### the static collection model executed next to the specification (tie of StaticModel.lean) -/

def insEvK (e : Event) : List Event → List Event
  | [] => [e]
  | x :: l => if e.key < x.key then e :: x :: l else x :: insEvK e l

/-- stable by key: the events of one key keep their order (the order across keys of one batch - the Deletes of
    a Reset, the Adds of a snapshot - is Go map order) -/
def sortEvK (l : List Event) : List Event := l.foldl (fun acc e => insEvK e acc) []

/-- the primitive changes of one `p.*` op -/
def staticOps (d : DState) (toks : List String) : List SOp :=
  match toks with
  | ["p.set", o] => (parseObj o).toList.map (fun o => SOp.set o.key o.token)
  | ["p.cset", o] => (parseObj o).toList.map (fun o => SOp.cset o.key o.token)
  | ["p.del", k] => [SOp.del k]
  | ["p.delwhere", ns] => (d.pm.vals.filter (fun kv => kv.1.startsWith (ns ++ "/"))).map (fun kv => SOp.del kv.1)
  | "p.reset" :: os => resetPrims d.pm.vals ((os.filterMap parseObj).map (fun o => (o.key, o.token)))
  | ["burst", o, n] =>
    match parseObj o, n.toNat? with
    | some o, some n =>
      if !d.started || d.T.byVal then []
      else (List.range n).map (fun j => let o' := { o with val := "b" ++ toString (j % 2) }; SOp.set o'.key o'.token)
    | _, _ => []
  | _ => []

def stepD (d : DState) (toks : List String) : DState × String :=
  let r := stepD1 d toks
  let pm := sexec d.pm (staticOps d toks)
  let d' := { r.1 with pm := pm }
  match toks with
  | "case" :: _ => (r.1, r.2)
  | ["psub", name, kind] =>
    ({ d' with ppos := AMap.set d'.ppos name (pm.out.length, kind != "nostate", canon pm.vals) }, r.2)
  | ["punsub", name] =>
    (if (AMap.lookup d'.pend name).isNone then { d' with pend := AMap.set d'.pend name pm.out.length } else d', r.2)
  | "pstream" :: name :: evs =>
    if r.2 != "pstream accept" then (d', r.2) else
    match parseEvents evs, AMap.lookup d'.ppos name with
    | some es, some (n0, withState, snap) =>
      let upto := (AMap.lookup d'.pend name).getD pm.out.length
      let expected := (if withState then snap.map (fun kv => Event.add kv.1 kv.2) else []) ++
        (pm.out.take upto).drop n0
      -- the model is exact: per key the very same events in the very same order
      if sortEvK expected == sortEvK es then (d', r.2) else (d', "pstream model-differs")
    | _, _ => (d', r.2)
  | _ => (d', r.2)

end IstioModel.C16
