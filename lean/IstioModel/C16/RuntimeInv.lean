import IstioModel.C16.RuntimeLemmas

/-!
C16 - invariants of the collection state under one item of `handleChangedPrimaryInputEvents`
(helper file of RuntimeTheorems).
-/
namespace IstioModel.C16
open AMap

/-- Structural invariant of `collectionState` / `dependencyState`. -/
structure ColInv (c : Col) : Prop where
  /-- every mapped key has an output -/
  sub : ∀ i ks k, lookup c.mappings i = some ks → k ∈ ks → (lookup c.outputs k).isSome = true
  /-- every output belongs to some input's mapping -/
  sup : ∀ k, (lookup c.outputs k).isSome = true → ∃ i ks, lookup c.mappings i = some ks ∧ k ∈ ks
  /-- no key is mapped by two inputs -/
  disj : ∀ i j ks ks' k, lookup c.mappings i = some ks → lookup c.mappings j = some ks' →
    k ∈ ks → k ∈ ks' → i = j
  nodup : ∀ i ks, lookup c.mappings i = some ks → ks.Nodup
  /-- mappings and dependencies are recorded for the same inputs -/
  dom : ∀ i, (lookup c.mappings i).isSome = (lookup c.deps i).isSome

theorem colInv_init : ColInv {} := by
  constructor <;> simp [lookup]

/-- What `itemOK` says, in terms of lookups. -/
theorem itemOK_recompute {T : Transform} {sec : List Obj} {c : Col} {i : Obj}
    (h : itemOK T sec c (.recompute i) = true) :
    ∀ j ks k, lookup c.mappings j = some ks → j ≠ i.key → k ∈ newKeysOf T sec i → k ∉ ks := by
  intro j ks k hj hne hk hmem
  simp only [itemOK, List.all_eq_true, Bool.or_eq_true, beq_iff_eq, Bool.not_eq_true',
    List.contains_eq_mem, decide_eq_false_iff_not] at h
  rcases h (j, ks) (lookup_some_mem hj) with h | h
  · exact hne h
  · exact h k hk hmem

theorem oldKeysOf_eq {c : Col} {i : Key} {ks : List Key} (h : lookup c.mappings i = some ks) :
    oldKeysOf c i = ks := by simp [oldKeysOf, h]

theorem oldKeysOf_none {c : Col} {i : Key} (h : lookup c.mappings i = none) : oldKeysOf c i = [] := by
  simp [oldKeysOf, h]

/-- keys of another input's mapping are not among the old keys of `i` -/
theorem not_mem_oldKeys {c : Col} (hc : ColInv c) {i j : Key} {ks : List Key} {k : Key}
    (hj : lookup c.mappings j = some ks) (hne : j ≠ i) (hk : k ∈ ks) : k ∉ oldKeysOf c i := by
  intro hold
  cases hi : lookup c.mappings i with
  | none => simp [oldKeysOf_none hi] at hold
  | some ks' =>
    rw [oldKeysOf_eq hi] at hold
    exact hne (hc.disj j i ks ks' k hj hi hk hold)

theorem colInv_recompute {T : Transform} {sec : List Obj} {c : Col} {i : Obj} (hc : ColInv c)
    (hok : itemOK T sec c (.recompute i) = true) : ColInv (recomputeCol T sec c i) := by
  have hok' := itemOK_recompute hok
  constructor
  · intro j ks k hj hk
    rw [recomputeCol_mappings, lookup_set] at hj
    rw [lookup_recomputeCol_outputs]
    by_cases hji : j = i.key
    · simp only [hji, if_true, Option.some.injEq] at hj
      subst hj
      simp [hk]
    · simp only [hji, if_false] at hj
      have h1 : k ∉ newKeysOf T sec i := fun h => hok' j ks k hj hji h hk
      have h2 : k ∉ oldKeysOf c i.key := not_mem_oldKeys hc hj hji hk
      simp only [h1, h2, if_false]
      exact hc.sub j ks k hj hk
  · intro k hk
    rw [lookup_recomputeCol_outputs] at hk
    by_cases h1 : k ∈ newKeysOf T sec i
    · exact ⟨i.key, newKeysOf T sec i, by rw [recomputeCol_mappings, lookup_set_self], h1⟩
    · by_cases h2 : k ∈ oldKeysOf c i.key
      · simp [h1, h2] at hk
      · simp only [h1, h2, if_false] at hk
        obtain ⟨j, ks, hj, hkj⟩ := hc.sup k hk
        have hji : j ≠ i.key := by
          intro e; subst e
          exact h2 (by rw [oldKeysOf_eq hj]; exact hkj)
        exact ⟨j, ks, by rw [recomputeCol_mappings, lookup_set_other _ _ _ _ hji]; exact hj, hkj⟩
  · intro a b ks ks' k ha hb hka hkb
    rw [recomputeCol_mappings, lookup_set] at ha hb
    by_cases hai : a = i.key <;> by_cases hbi : b = i.key
    · rw [hai, hbi]
    · simp only [hai, if_true, Option.some.injEq] at ha
      simp only [hbi, if_false] at hb
      subst ha
      exact absurd hkb (hok' b ks' k hb hbi hka)
    · simp only [hbi, if_true, Option.some.injEq] at hb
      simp only [hai, if_false] at ha
      subst hb
      exact absurd hka (hok' a ks k ha hai hkb)
    · simp only [hai, if_false] at ha
      simp only [hbi, if_false] at hb
      exact hc.disj a b ks ks' k ha hb hka hkb
  · intro j ks hj
    rw [recomputeCol_mappings, lookup_set] at hj
    by_cases hji : j = i.key
    · simp only [hji, if_true, Option.some.injEq] at hj
      subst hj; exact nodup_dedup _
    · simp only [hji, if_false] at hj
      exact hc.nodup j ks hj
  · intro j
    rw [recomputeCol_mappings, recomputeCol_deps, lookup_set, lookup_set]
    by_cases hji : j = i.key
    · simp [hji]
    · simp only [hji, if_false]; exact hc.dom j

theorem colInv_delete {c : Col} (hc : ColInv c) (i : Key) : ColInv (deleteCol c i) := by
  constructor
  · intro j ks k hj hk
    rw [deleteCol_mappings, lookup_erase] at hj
    by_cases hji : j = i
    · simp [hji] at hj
    · simp only [hji, if_false] at hj
      rw [lookup_deleteCol_outputs]
      simp only [not_mem_oldKeys hc hj hji hk, if_false]
      exact hc.sub j ks k hj hk
  · intro k hk
    rw [lookup_deleteCol_outputs] at hk
    by_cases h2 : k ∈ oldKeysOf c i
    · simp [h2] at hk
    · simp only [h2, if_false] at hk
      obtain ⟨j, ks, hj, hkj⟩ := hc.sup k hk
      have hji : j ≠ i := by
        intro e; subst e
        exact h2 (by rw [oldKeysOf_eq hj]; exact hkj)
      exact ⟨j, ks, by rw [deleteCol_mappings, lookup_erase_other _ _ _ hji]; exact hj, hkj⟩
  · intro a b ks ks' k ha hb hka hkb
    rw [deleteCol_mappings, lookup_erase] at ha hb
    by_cases hai : a = i
    · simp [hai] at ha
    · by_cases hbi : b = i
      · simp [hbi] at hb
      · simp only [hai, if_false] at ha
        simp only [hbi, if_false] at hb
        exact hc.disj a b ks ks' k ha hb hka hkb
  · intro j ks hj
    rw [deleteCol_mappings, lookup_erase] at hj
    by_cases hji : j = i
    · simp [hji] at hj
    · simp only [hji, if_false] at hj
      exact hc.nodup j ks hj
  · intro j
    rw [deleteCol_mappings, deleteCol_deps, lookup_erase, lookup_erase]
    by_cases hji : j = i
    · simp [hji]
    · simp only [hji, if_false]; exact hc.dom j

theorem colInv_applyItem {T : Transform} {sec : List Obj} {c : Col} (hc : ColInv c) (it : Item)
    (hok : itemOK T sec c it = true) : ColInv (applyItem T sec c it) := by
  cases it with
  | recompute i => exact colInv_recompute hc hok
  | delete k => exact colInv_delete hc k

/-! ## up-to-date inputs -/

/-- Input `i` is reflected exactly: its recorded mapping, dependencies and outputs are those of the
    transformation applied to its current object (and nothing is recorded for a vanished input). -/
def UpToDate (T : Transform) (prim sec : List Obj) (c : Col) (i : Key) : Prop :=
  match oget prim i with
  | some o =>
    lookup c.mappings i = some (newKeysOf T sec o) ∧ lookup c.deps i = some (depsOf T sec o) ∧
    ∀ kv ∈ transform T sec o, lookup c.outputs kv.1 = some kv.2
  | none => lookup c.mappings i = none ∧ lookup c.deps i = none

/-- The other inputs are not disturbed by an item that respects DisjointAtApply. -/
theorem applyItem_frame {T : Transform} {sec : List Obj} {c : Col} (hc : ColInv c) (it : Item)
    (hok : itemOK T sec c it = true) (j : Key) (hj : j ≠ it.key) :
    lookup (applyItem T sec c it).mappings j = lookup c.mappings j ∧
    lookup (applyItem T sec c it).deps j = lookup c.deps j ∧
    ∀ ks k, lookup c.mappings j = some ks → k ∈ ks →
      lookup (applyItem T sec c it).outputs k = lookup c.outputs k := by
  cases it with
  | recompute i =>
    simp only [Item.key] at hj
    simp only [applyItem, recomputeCol_mappings, recomputeCol_deps, lookup_set_other _ _ _ _ hj,
      true_and]
    intro ks k hks hk
    rw [lookup_recomputeCol_outputs]
    have h1 : k ∉ newKeysOf T sec i := fun h => itemOK_recompute hok j ks k hks hj h hk
    have h2 : k ∉ oldKeysOf c i.key := not_mem_oldKeys hc hks hj hk
    simp [h1, h2]
  | delete i =>
    simp only [Item.key] at hj
    simp only [applyItem, deleteCol_mappings, deleteCol_deps, lookup_erase_other _ _ _ hj, true_and]
    intro ks k hks hk
    rw [lookup_deleteCol_outputs]
    simp [not_mem_oldKeys hc hks hj hk]

theorem upToDate_frame {T : Transform} {prim sec : List Obj} {c : Col} (hc : ColInv c) (it : Item)
    (hok : itemOK T sec c it = true) (j : Key) (hj : j ≠ it.key)
    (h : UpToDate T prim sec c j) : UpToDate T prim sec (applyItem T sec c it) j := by
  obtain ⟨f1, f2, f3⟩ := applyItem_frame hc it hok j hj
  simp only [UpToDate] at h ⊢
  cases ho : oget prim j with
  | none =>
    simp only [ho] at h ⊢
    rw [f1, f2]; exact h
  | some o =>
    simp only [ho] at h ⊢
    obtain ⟨h1, h2, h3⟩ := h
    refine ⟨by rw [f1]; exact h1, by rw [f2]; exact h2, ?_⟩
    intro kv hkv
    rw [f3 _ kv.1 h1 (mem_newKeysOf.2 ⟨kv.2, hkv⟩)]
    exact h3 kv hkv

/-- Recomputing an input on its current object makes it up to date. -/
theorem upToDate_recompute {T : Transform} {prim sec : List Obj} (c : Col) {o : Obj}
    (ho : oget prim o.key = some o) : UpToDate T prim sec (recomputeCol T sec c o) o.key := by
  simp only [UpToDate, ho]
  refine ⟨by rw [recomputeCol_mappings, lookup_set_self], by rw [recomputeCol_deps, lookup_set_self], ?_⟩
  intro kv hkv
  rw [lookup_recomputeCol_outputs]
  have : kv.1 ∈ newKeysOf T sec o := mem_newKeysOf.2 ⟨kv.2, hkv⟩
  simp only [this, if_true]
  rw [transform_val (k := kv.1) (v := kv.2) hkv]

/-- Deleting a vanished input makes it up to date. -/
theorem upToDate_delete {T : Transform} {prim sec : List Obj} (c : Col) {i : Key}
    (ho : oget prim i = none) : UpToDate T prim sec (deleteCol c i) i := by
  simp only [UpToDate, ho]
  exact ⟨by rw [deleteCol_mappings, lookup_erase_self], by rw [deleteCol_deps, lookup_erase_self]⟩

/-! ## the events of one item -/

theorem noDupKeys_erase {m : FinMap} (h : NoDupKeys m) (k : Key) : NoDupKeys (erase m k) := by
  induction m with
  | nil => simpa [erase] using h
  | cons p m ih =>
    obtain ⟨c, v⟩ := p
    simp only [NoDupKeys, keys, List.map_cons, List.nodup_cons] at h
    by_cases hk : k = c
    · simp only [erase, hk, if_true]; rw [← hk]; exact ih h.2
    · simp only [erase, hk, if_false, NoDupKeys, keys, List.map_cons, List.nodup_cons]
      refine ⟨?_, ih h.2⟩
      intro hm
      apply h.1
      have : (lookup (erase m k) c).isSome = true := lookup_isSome_of_mem_keys hm
      rw [lookup_erase_other _ _ _ (fun e => hk e.symm)] at this
      cases hl : lookup m c with
      | none => rw [hl] at this; simp at this
      | some w => exact mem_keys_of_lookup_some hl

theorem noDupKeys_set {m : FinMap} (h : NoDupKeys m) (k : Key) (v : Val) : NoDupKeys (AMap.set m k v) := by
  simp only [AMap.set, NoDupKeys, keys, List.map_cons, List.nodup_cons]
  refine ⟨?_, noDupKeys_erase h k⟩
  intro hm
  have : (lookup (erase m k) k).isSome = true := lookup_isSome_of_mem_keys hm
  rw [lookup_erase_self] at this
  simp at this

theorem noDupKeys_applyEv {m : FinMap} (h : NoDupKeys m) (e : Event) : NoDupKeys (applyEv m e) := by
  cases e <;> simp only [applyEv] <;> first | exact noDupKeys_set h _ _ | exact noDupKeys_erase h _

/-- Outside the "mapped key without output and without new result" corner, one loop iteration
    changes `outputs` exactly as its event says, and the event is legal. -/
theorem keyStep_ok (r o : FinMap) (key : Key) (h : lookup r key ≠ none ∨ lookup o key ≠ none) :
    match keyEvent r o key with
    | none => keyOutputs r o key = o
    | some e => (stepB o e).isSome = true ∧ keyOutputs r o key = applyEv o e := by
  simp only [keyEvent, keyOutputs]
  cases hr : lookup r key with
  | none =>
    cases ho : lookup o key with
    | none => simp [hr, ho] at h
    | some ov => simp [stepB, ho, applyEv]
  | some n =>
    cases ho : lookup o key with
    | none => simp [stepB, ho, applyEv]
    | some ov =>
      by_cases hn : n = ov
      · subst hn; simp
      · have hn' : ¬ (ov = n) := fun e => hn e.symm
        simp [hn, hn', stepB, ho, applyEv]

/-- The events of the per-key loop form a well-formed continuation of `outputs` and replay to the
    new `outputs`. -/
theorem loop_stream (r : FinMap) (ks : List Key) (c : Col) (hnd : ks.Nodup)
    (h : ∀ k ∈ ks, lookup r k ≠ none ∨ lookup c.outputs k ≠ none) :
    WellFormedFrom c.outputs (loopEvs r c ks) ∧
    replayFrom c.outputs (loopEvs r c ks) = (loopCol r c ks).outputs := by
  induction ks generalizing c with
  | nil => exact ⟨wellFormedFrom_nil _, rfl⟩
  | cons k ks ih =>
    simp only [List.nodup_cons] at hnd
    have hstep := keyStep_ok r c.outputs k (h k (List.mem_cons_self ..))
    have hrest : ∀ k' ∈ ks, lookup r k' ≠ none ∨ lookup (stepKey r c k).outputs k' ≠ none := by
      intro k' hk'
      have hne : k' ≠ k := fun e => hnd.1 (e ▸ hk')
      have := h k' (List.mem_cons_of_mem _ hk')
      simp only [stepKey, lookup_keyOutputs, hne, if_false]
      exact this
    obtain ⟨ih1, ih2⟩ := ih (stepKey r c k) hnd.2 hrest
    simp only [loopEvs, loopCol, List.foldl_cons]
    cases he : keyEvent r c.outputs k with
    | none =>
      simp only [he] at hstep
      have hout : (stepKey r c k).outputs = c.outputs := by simp [stepKey, hstep]
      simp only [Option.toList, List.nil_append]
      rw [hout] at ih1 ih2
      exact ⟨ih1, ih2⟩
    | some e =>
      simp only [he] at hstep
      have hout : (stepKey r c k).outputs = applyEv c.outputs e := by simp [stepKey, hstep.2]
      simp only [Option.toList, List.singleton_append]
      rw [hout] at ih1 ih2
      exact ⟨(wellFormedFrom_cons _ _ _).2 ⟨hstep.1, ih1⟩, by rw [replayFrom_cons]; exact ih2⟩

theorem delKeys_stream (ks : List Key) (c : Col) :
    WellFormedFrom c.outputs (delKeyEvs c ks) ∧
    replayFrom c.outputs (delKeyEvs c ks) = (ks.foldl delKey c).outputs := by
  induction ks generalizing c with
  | nil => exact ⟨wellFormedFrom_nil _, rfl⟩
  | cons k ks ih =>
    obtain ⟨ih1, ih2⟩ := ih (delKey c k)
    simp only [delKeyEvs, List.foldl_cons]
    cases ho : lookup c.outputs k with
    | none =>
      have : delKey c k = c := by simp [delKey, ho]
      rw [this] at ih1 ih2
      simp only [List.nil_append]
      rw [this]
      exact ⟨ih1, ih2⟩
    | some old =>
      have hout : (delKey c k).outputs = applyEv c.outputs (Event.delete k old) := by
        simp [delKey, ho, applyEv]
      rw [hout] at ih1 ih2
      simp only [List.singleton_append]
      refine ⟨(wellFormedFrom_cons _ _ _).2 ⟨by simp [stepB, ho], ih1⟩, ?_⟩
      rw [replayFrom_cons]; exact ih2

theorem nodup_allKeysOf {T : Transform} {sec : List Obj} {c : Col} (hc : ColInv c) (i : Obj) :
    (allKeysOf T sec c i).Nodup := by
  simp only [allKeysOf]
  apply List.nodup_append.2
  refine ⟨nodup_dedup _, ?_, ?_⟩
  · apply List.Nodup.sublist List.filter_sublist
    cases hi : lookup c.mappings i.key with
    | none => simp [oldKeysOf_none hi]
    | some ks => rw [oldKeysOf_eq hi]; exact hc.nodup _ _ hi
  · intro a ha b hb
    simp only [List.mem_filter, Bool.not_eq_true', List.contains_eq_mem, decide_eq_false_iff_not] at hb
    intro e; subst e
    exact hb.2 ha

/-- **Events of one item**: a well-formed continuation of the current contents that replays to the
    new contents. -/
theorem item_stream {T : Transform} {sec : List Obj} {c : Col} (hc : ColInv c) (it : Item) :
    WellFormedFrom c.outputs (itemEvs T sec c it) ∧
    replayFrom c.outputs (itemEvs T sec c it) = (applyItem T sec c it).outputs := by
  cases it with
  | recompute i =>
    simp only [itemEvs, applyItem, recomputeEvs, recomputeCol]
    have := loop_stream (transform T sec i) (allKeysOf T sec c i) (recordCol T sec c i)
      (nodup_allKeysOf hc i) (by
        intro k hk
        rcases mem_allKeysOf.1 hk with h | h
        · left; rw [lookup_transform]; simp [h]
        · right
          cases hi : lookup c.mappings i.key with
          | none => simp [oldKeysOf_none hi] at h
          | some ks =>
            rw [oldKeysOf_eq hi] at h
            have := hc.sub _ _ _ hi h
            simp only [recordCol]
            intro e; rw [e] at this; simp at this)
    simpa [recordCol] using this
  | delete k =>
    simp only [itemEvs, applyItem, deleteEvs, deleteCol]
    have := delKeys_stream (oldKeysOf c k) c
    simpa [forgetCol] using this

end IstioModel.C16
