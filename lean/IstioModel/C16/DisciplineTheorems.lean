import IstioModel.C16.Discipline
import IstioModel.C16.RuntimeTheorems

/-!
C16 - the input-level discipline implies the library contract on every schedule:
`disciplined_runOK : Disciplined T run = true → runOK T {} run = true`, hence
`state_correct_disciplined` / `stream_wellformed_disciplined` with no hypothesis about the
collection's internal state.
-/
namespace IstioModel.C16
open AMap

def clGet (cl : AMap (List Key)) (p : Key) : List Key := (lookup cl p).getD []

theorem newKeys_sub_claims {T : Transform} {sec : List Obj} {o : Obj} {k : Key}
    (h : k ∈ newKeysOf T sec o) : k ∈ claimsOf T o := by
  obtain ⟨v, hv⟩ := mem_newKeysOf.1 h
  simp only [transform] at hv
  split at hv
  · simp at hv
  · simp only [List.mem_map, Prod.mk.injEq] at hv
    obtain ⟨x, hx, hxk, _⟩ := hv
    subst hxk; exact hx

theorem clGet_claimAdd (cl : AMap (List Key)) (p : Key) (ks : List Key) (q : Key) :
    clGet (claimAdd cl p ks) q = if q = p then clGet cl p ++ ks else clGet cl q := by
  simp only [clGet, claimAdd, lookup_set]
  by_cases h : q = p <;> simp [h]

theorem lookup_resetClaims (T : Transform) (prim : List Obj) (p : Key) :
    lookup (resetClaims T prim) p = (oget prim p).map (claimsOf T) := by
  induction prim with
  | nil => rfl
  | cons o l ih =>
    simp only [resetClaims, List.map_cons, lookup, oget] at ih ⊢
    by_cases h : p = o.key <;> simp [h, ih]

theorem nodup_keys_erase {α : Type} {m : AMap α} (h : (keys m).Nodup) (k : Key) : (keys (erase m k)).Nodup := by
  induction m with
  | nil => simpa [erase] using h
  | cons p m ih =>
    obtain ⟨c, v⟩ := p
    simp only [keys, List.map_cons, List.nodup_cons] at h
    by_cases hk : k = c
    · simp only [erase, hk, if_true]; rw [← hk]; exact ih h.2
    · simp only [erase, hk, if_false, keys, List.map_cons, List.nodup_cons]
      refine ⟨?_, ih h.2⟩
      intro hm
      apply h.1
      have : (lookup (erase m k) c).isSome = true := lookup_isSome_of_mem_keys hm
      rw [lookup_erase_other _ _ _ (fun e => hk e.symm)] at this
      cases hl : lookup m c with
      | none => rw [hl] at this; simp at this
      | some w => exact mem_keys_of_lookup_some hl

theorem nodup_keys_set {α : Type} {m : AMap α} (h : (keys m).Nodup) (k : Key) (v : α) :
    (keys (AMap.set m k v)).Nodup := by
  simp only [AMap.set, keys, List.map_cons, List.nodup_cons]
  refine ⟨?_, nodup_keys_erase h k⟩
  intro hm
  have : (lookup (erase m k) k).isSome = true := lookup_isSome_of_mem_keys hm
  rw [lookup_erase_self] at this
  simp at this

theorem lookup_of_mem_nodup {α : Type} {m : AMap α} (h : (keys m).Nodup) {e : Key × α} (he : e ∈ m) :
    lookup m e.1 = some e.2 := by
  induction m with
  | nil => simp at he
  | cons p m ih =>
    obtain ⟨c, v⟩ := p
    simp only [keys, List.map_cons, List.nodup_cons] at h
    rcases List.mem_cons.1 he with he | he
    · subst he; simp [lookup]
    · have hne : e.1 ≠ c := by
        intro e'
        apply h.1
        simp only [List.mem_map]
        exact ⟨e, he, e'⟩
      simp only [lookup, hne, if_false]
      exact ih h.2 he

/-- the invariant that links the recorded mappings to the input-level claims table -/
structure DInv (T : Transform) (prim : List Obj) (c : Col) (cl : AMap (List Key)) : Prop where
  nd : (keys c.mappings).Nodup
  /-- recorded mappings stay inside what the input has claimed since the last quiescent point -/
  sub : ∀ p ks k, lookup c.mappings p = some ks → k ∈ ks → k ∈ clGet cl p
  /-- no key is claimed by two inputs -/
  disj : ∀ p q k, k ∈ clGet cl p → k ∈ clGet cl q → p = q
  /-- the claims of the current objects are in the table -/
  cur : ∀ p o, oget prim p = some o → ∀ k ∈ claimsOf T o, k ∈ clGet cl p

/-- a recompute item works on the current object of its key -/
def RecValid (prim : List Obj) : Item → Prop
  | .recompute o => oget prim o.key = some o
  | .delete _ => True

theorem itemsOK_of_dinv {T : Transform} {prim sec : List Obj} {cl : AMap (List Key)} (its : List Item)
    {c : Col} (h : DInv T prim c cl) (hv : ∀ it ∈ its, RecValid prim it) :
    itemsOK T sec c its = true ∧ DInv T prim (applyItems T sec c its) cl := by
  induction its generalizing c with
  | nil => exact ⟨rfl, h⟩
  | cons it its ih =>
    have hv' : ∀ x ∈ its, RecValid prim x := fun x hx => hv x (List.mem_cons_of_mem _ hx)
    have hit := hv it (List.mem_cons_self ..)
    have step : itemOK T sec c it = true ∧ DInv T prim (applyItem T sec c it) cl := by
      cases it with
      | delete k =>
        refine ⟨rfl, ⟨by simp only [applyItem, deleteCol_mappings]; exact nodup_keys_erase h.nd k, ?_, h.disj, h.cur⟩⟩
        intro p ks x hp hx
        simp only [applyItem, deleteCol_mappings, lookup_erase] at hp
        by_cases hpk : p = k
        · simp [hpk] at hp
        · simp only [hpk, if_false] at hp; exact h.sub p ks x hp hx
      | recompute o =>
        simp only [RecValid] at hit
        constructor
        · simp only [itemOK, List.all_eq_true, Bool.or_eq_true, beq_iff_eq, Bool.not_eq_true',
            List.contains_eq_mem, decide_eq_false_iff_not]
          intro e he
          by_cases hek : e.1 = o.key
          · exact Or.inl hek
          · right
            intro k hk hke
            have hl := lookup_of_mem_nodup h.nd he
            have hk1 : k ∈ clGet cl o.key := h.cur o.key o hit k (newKeys_sub_claims hk)
            have hk2 : k ∈ clGet cl e.1 := h.sub e.1 e.2 k hl hke
            exact hek (h.disj o.key e.1 k hk1 hk2).symm
        · refine ⟨by simp only [applyItem, recomputeCol_mappings]; exact nodup_keys_set h.nd _ _, ?_, h.disj, h.cur⟩
          intro p ks x hp hx
          simp only [applyItem, recomputeCol_mappings, lookup_set] at hp
          by_cases hpk : p = o.key
          · simp only [hpk, if_true, Option.some.injEq] at hp
            subst hp; rw [hpk]
            exact h.cur o.key o hit x (newKeys_sub_claims hx)
          · simp only [hpk, if_false] at hp; exact h.sub p ks x hp hx
    have := ih step.2 hv'
    exact ⟨by simp [itemsOK, step.1, this.1], by simpa [applyItems] using this.2⟩

/-! ### source changes -/

theorem claimBad_nil {cl : AMap (List Key)} {p : Key} {ks : List Key} (h : claimBad cl p ks = [])
    {k : Key} (hk : k ∈ ks) {q : Key} (hq : k ∈ clGet cl q) : q = p := by
  apply Classical.byContradiction
  intro hne
  have : k ∈ claimBad cl p ks := by
    simp only [claimBad, List.mem_filter, claimedByOther, List.any_eq_true, Bool.and_eq_true,
      bne_iff_ne, ne_eq, List.contains_eq_mem, decide_eq_true_eq]
    refine ⟨hk, ?_⟩
    cases hl : lookup cl q with
    | none => simp [clGet, hl] at hq
    | some l =>
      simp only [clGet, hl, Option.getD_some] at hq
      exact ⟨(q, l), lookup_some_mem hl, hne, hq⟩
  rw [h] at this; simp at this

/-- one batch of source changes keeps the claims table consistent with the new source contents -/
theorem dinv_ops {T : Transform} (ops : List SrcOp) {prim : List Obj} {c : Col} {cl : AMap (List Key)}
    (h : DInv T prim c cl) (hb : discBad T cl ops = []) :
    DInv T (srcSteps prim ops) c (discClaims T cl ops) := by
  induction ops generalizing prim cl with
  | nil => exact h
  | cons op ops ih =>
    cases op with
    | del k =>
      simp only [discBad] at hb
      simp only [discClaims, srcSteps, List.foldl_cons]
      apply ih _ hb
      refine ⟨h.nd, h.sub, h.disj, ?_⟩
      intro p o hp
      simp only [srcStep, oget_odel] at hp
      by_cases hpk : p = k
      · simp [hpk] at hp
      · simp only [hpk, if_false] at hp; exact h.cur p o hp
    | set o =>
      simp only [discBad, List.append_eq_nil_iff] at hb
      simp only [discClaims, srcSteps, List.foldl_cons]
      apply ih _ hb.2
      refine ⟨h.nd, ?_, ?_, ?_⟩
      · intro p ks k hp hk
        rw [clGet_claimAdd]
        have := h.sub p ks k hp hk
        by_cases hpo : p = o.key
        · simp only [hpo, if_true, List.mem_append]; left; rw [← hpo]; exact this
        · simp [hpo, this]
      · intro p q k hp hq
        rw [clGet_claimAdd] at hp hq
        by_cases hpo : p = o.key <;> by_cases hqo : q = o.key
        · rw [hpo, hqo]
        · simp only [hpo, if_true, List.mem_append] at hp
          simp only [hqo, if_false] at hq
          rcases hp with hp | hp
          · rw [hpo]; exact h.disj o.key q k hp hq
          · exact absurd (claimBad_nil hb.1 hp hq) hqo
        · simp only [hqo, if_true, List.mem_append] at hq
          simp only [hpo, if_false] at hp
          rcases hq with hq | hq
          · rw [hqo]; exact h.disj p o.key k hp hq
          · exact absurd (claimBad_nil hb.1 hq hp) hpo
        · simp only [hpo, if_false] at hp
          simp only [hqo, if_false] at hq
          exact h.disj p q k hp hq
      · intro p x hp k hk
        simp only [srcStep, oget_oset] at hp
        rw [clGet_claimAdd]
        by_cases hpo : p = o.key
        · simp only [hpo, if_true, Option.some.injEq] at hp
          subst hp
          simp only [hpo, if_true, List.mem_append]; exact Or.inr hk
        · simp only [hpo, if_false] at hp ⊢
          exact h.cur p x hp k hk

/-- at a quiescent point the table can be reset to the claims of the current objects -/
theorem dinv_reset {T : Transform} {s : Sys} {cl : AMap (List Key)} (hs : SysInv T s)
    (hq : s.quiescent = true) (h : DInv T s.prim s.col cl) :
    DInv T s.prim s.col (resetClaims T s.prim) := by
  have hget : ∀ p, clGet (resetClaims T s.prim) p = ((oget s.prim p).map (claimsOf T)).getD [] := by
    intro p; simp [clGet, lookup_resetClaims]
  refine ⟨h.nd, ?_, ?_, ?_⟩
  · intro p ks k hp hk
    have hu := quiescent_upToDate hs hq p
    simp only [UpToDate] at hu
    rw [hget]
    cases ho : oget s.prim p with
    | none => simp only [ho] at hu; rw [hu.1] at hp; simp at hp
    | some o =>
      simp only [ho] at hu
      rw [hu.1] at hp
      simp only [Option.some.injEq] at hp
      subst hp
      simp only [Option.map_some, Option.getD_some]
      exact newKeys_sub_claims hk
  · intro p q k hp hq'
    rw [hget] at hp hq'
    cases ho : oget s.prim p with
    | none => simp [ho] at hp
    | some o =>
      cases ho' : oget s.prim q with
      | none => simp [ho'] at hq'
      | some o' =>
        simp only [ho, Option.map_some, Option.getD_some] at hp
        simp only [ho', Option.map_some, Option.getD_some] at hq'
        exact h.disj p q k (h.cur p o ho k hp) (h.cur q o' ho' k hq')
  · intro p o hp k hk
    rw [hget]; simp [hp, hk]

theorem actItems_recValid (s : Sys) (a : Act) : ∀ it ∈ actItems s a, RecValid s.prim it := by
  intro it hit
  cases a with
  | envP ops => simp [actItems] at hit
  | envS ops => simp [actItems] at hit
  | procP =>
    simp only [actItems] at hit
    cases hq : s.qP with
    | nil => simp [hq] at hit
    | cons b rest =>
      simp only [hq, List.mem_map] at hit
      obtain ⟨e, _, rfl⟩ := hit
      simp only [refresh]
      cases ho : oget s.prim e.key with
      | none => trivial
      | some o =>
        simp only
        split
        · trivial
        · simp only [RecValid, oget_key ho, ho]
  | procS =>
    simp only [actItems] at hit
    cases hq : s.qS with
    | nil => simp [hq] at hit
    | cons b rest =>
      simp only [hq] at hit
      have := secItems_valid it hit
      cases it with
      | recompute o => exact this
      | delete k => trivial

/-- main induction: system invariant + claims invariant + discipline give DisjointAtApply -/
theorem disciplined_runOK_aux {T : Transform} (run : List Act) {s : Sys} {cl : AMap (List Key)}
    (hs : SysInv T s) (hd : DInv T s.prim s.col cl) (h : disciplined T s cl run = true) :
    runOK T s run = true := by
  induction run generalizing s cl with
  | nil => rfl
  | cons a run ih =>
    obtain ⟨hok, hd'⟩ := itemsOK_of_dinv (T := T) (sec := s.sec) (actItems s a) hd (actItems_recValid s a)
    have hs' := sysInv_step hs a hok
    simp only [runOK, hok, Bool.true_and]
    cases a with
    | envP ops =>
      simp only [disciplined, Bool.and_eq_true, List.isEmpty_iff] at h
      apply ih hs' _ h.2
      have := dinv_ops (T := T) ops hd h.1
      simpa [step] using this
    | envS ops =>
      simp only [disciplined] at h
      apply ih hs' _ h
      simpa [step] using hd
    | procP =>
      simp only [disciplined] at h
      have hd2 : DInv T (step T s .procP).prim (step T s .procP).col cl := by simpa [step] using hd'
      by_cases hq : (step T s .procP).quiescent = true
      · rw [if_pos hq] at h
        exact ih hs' (dinv_reset hs' hq hd2) h
      · rw [if_neg hq] at h
        exact ih hs' hd2 h
    | procS =>
      simp only [disciplined] at h
      have hd2 : DInv T (step T s .procS).prim (step T s .procS).col cl := by simpa [step] using hd'
      by_cases hq : (step T s .procS).quiescent = true
      · rw [if_pos hq] at h
        exact ih hs' (dinv_reset hs' hq hd2) h
      · rw [if_neg hq] at h
        exact ih hs' hd2 h

/-- **The input-level discipline implies DisjointAtApply on every schedule.**  `Disciplined` reads the
    source operations and the emptiness of the queues only: between two quiescent points every output
    key is claimed (`claimsOf`: the keys an input object can produce) by at most one input. -/
theorem disciplined_runOK (T : Transform) (run : List Act) (h : Disciplined T run = true) :
    runOK T {} run = true :=
  disciplined_runOK_aux run (sysInv_init T)
    ⟨by simp [keys], by intro p ks k hp; simp [lookup] at hp,
     by intro p q k hp; simp [clGet, lookup] at hp, by intro p o hp; simp [oget] at hp⟩ h

/-- `state_correct` with an input-level hypothesis only. -/
theorem state_correct_disciplined (T : Transform) (run : List Act) (h : Disciplined T run = true)
    (hq : (exec T {} run).quiescent = true) :
    MapEq (exec T {} run).col.outputs (specContents T (exec T {} run).prim (exec T {} run).sec) :=
  state_correct_partial T run (disciplined_runOK T run h) hq

theorem stream_wellformed_disciplined (T : Transform) (run : List Act) (h : Disciplined T run = true) :
    WellFormed (exec T {} run).out ∧ MapEq (replay (exec T {} run).out) (exec T {} run).col.outputs :=
  stream_wellformed T run (disciplined_runOK T run h)

/-- non-vacuity: the example run of RuntimeTheorems (a key moves after its parent released it and the
    queues drained) is disciplined; the key-move witness of F6 is not. -/
example : Disciplined exT exRun = true := by decide
example : Disciplined keyMoveT keyMoveRun = false := by decide

end IstioModel.C16
