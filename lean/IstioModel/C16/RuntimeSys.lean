import IstioModel.C16.RuntimeInv

/-!
C16 - the system invariant (sources, queues, collection, emitted stream) and its preservation
by every step (helper file of RuntimeTheorems).
-/
namespace IstioModel.C16
open AMap

/-! ## dependency completeness (pure part) -/

theorem objectChanged_false {deps : List Dep} {e : SrcEv} (h : objectChanged deps e = false) :
    ∀ d ∈ deps, ∀ o ∈ e.items, d.matches o = false := by
  intro d hd o ho
  simp only [objectChanged, List.any_eq_false, List.any_eq_true, not_exists, not_and,
    Bool.not_eq_true] at h
  exact h d hd o ho

theorem depsOf_i {T : Transform} {sec : List Obj} {i : Obj} {d : Dep} (h : d ∈ depsOf T sec i) : d.i = i := by
  simp only [depsOf] at h
  split at h
  · simp at h
  · split at h
    · simp only [List.mem_singleton] at h; subst h; rfl
    · simp only [List.mem_map] at h
      obtain ⟨g, _, hg⟩ := h; subst hg; rfl

/-- The result of the transformation of `i` (and the set of fetches it performs) is determined by
    the results of the fetches it performed. -/
theorem transform_stable {T : Transform} {sec sec' : List Obj} {i : Obj}
    (h : ∀ d ∈ depsOf T sec i, fetch sec' i d.f = fetch sec i d.f) :
    transform T sec' i = transform T sec i ∧ depsOf T sec' i = depsOf T sec i := by
  cases hf : T.fetches with
  | nil => simp [transform, gated, depsOf, outVal, hf]
  | cons f rest =>
    have hfirst : fetch sec' i f = fetch sec i f := by
      apply h ⟨i, f⟩
      simp only [depsOf, hf]
      split <;> simp
    by_cases hg : (T.gate && (fetch sec i f).isEmpty) = true
    · have hg' : (T.gate && (fetch sec' i f).isEmpty) = true := by rw [hfirst]; exact hg
      simp [transform, gated, depsOf, hf, hg, hg']
    · have hg' : ¬ (T.gate && (fetch sec' i f).isEmpty) = true := by rw [hfirst]; exact hg
      have hall : ∀ g ∈ f :: rest, fetch sec' i g = fetch sec i g := by
        intro g hgm
        apply h ⟨i, g⟩
        simp only [depsOf, hf, hg, if_false, Bool.false_eq_true, List.mem_map]
        exact ⟨g, hgm, rfl⟩
      have hval : outVal T sec' i = outVal T sec i := by
        simp only [outVal, hf]
        congr 2
        apply List.map_congr_left
        intro g hgm
        rw [hall g hgm]
      simp only [transform, gated, depsOf, hf, hg, hg', hval]
      simp

/-- A batch of changes of the fetched collection that hits none of the recorded filters of `i`
    (neither with an old nor with a new object) leaves the transformation of `i` unchanged. -/
theorem transform_unchanged_of_no_hit {T : Transform} {sec : List Obj} (hs : SrcOK sec)
    (ops : List SrcOp) (i : Obj)
    (h : ∀ e ∈ srcEvents sec ops, objectChanged (depsOf T sec i) e = false) :
    transform T (srcSteps sec ops) i = transform T sec i ∧
    depsOf T (srcSteps sec ops) i = depsOf T sec i := by
  apply transform_stable
  intro d hd
  have hdi := depsOf_i hd
  simp only [fetch]
  apply filter_srcSteps _ hs
  intro e he o ho
  have := objectChanged_false (h e he) d hd o ho
  simpa [Dep.matches, hdi] using this

/-! ## pending work -/

def PendingP (q : List SrcEv) (i : Key) : Prop := ∃ e ∈ q, e.key = i

def Hit (deps : AMap (List Dep)) (b : List SrcEv) (i : Key) : Prop :=
  ∃ e ∈ b, objectChanged ((lookup deps i).getD []) e = true

def PendingS (qS : List (List SrcEv)) (deps : AMap (List Dep)) (i : Key) : Prop := ∃ b ∈ qS, Hit deps b i

/-- the last pending primary event of key `i` -/
def lastFor : List SrcEv → Key → Option SrcEv
  | [], _ => none
  | e :: q, i =>
    match lastFor q i with
    | some x => some x
    | none => if e.key = i then some e else none

theorem lastFor_none_of_not_pending {q : List SrcEv} {i : Key} (h : ¬ PendingP q i) : lastFor q i = none := by
  induction q with
  | nil => rfl
  | cons e q ih =>
    have h1 : ¬ PendingP q i := fun ⟨x, hx, hk⟩ => h ⟨x, List.mem_cons_of_mem _ hx, hk⟩
    have h2 : e.key ≠ i := fun hk => h ⟨e, List.mem_cons_self .., hk⟩
    simp [lastFor, ih h1, h2]

theorem lastFor_append_singleton (q : List SrcEv) (ev : SrcEv) (i : Key) :
    lastFor (q ++ [ev]) i = if ev.key = i then some ev else lastFor q i := by
  induction q with
  | nil => simp [lastFor]
  | cons e q ih =>
    simp only [List.cons_append, lastFor, ih]
    by_cases h : ev.key = i
    · simp [h]
    · simp [h]

theorem pendingS_congr {qS : List (List SrcEv)} {d d' : AMap (List Dep)} {i : Key}
    (h : lookup d' i = lookup d i) : PendingS qS d' i ↔ PendingS qS d i := by
  simp only [PendingS, Hit, h]

theorem pendingS_enqueue {qS : List (List SrcEv)} {b : List SrcEv} {d : AMap (List Dep)} {i : Key} :
    PendingS (enqueue qS b) d i ↔ PendingS qS d i ∨ Hit d b i := by
  by_cases hb : b.isEmpty = true
  · have : b = [] := by simpa using hb
    subst this
    simp [enqueue, PendingS, Hit]
  · have hq : enqueue qS b = qS ++ [b] := by simp [enqueue, hb]
    rw [hq]
    simp only [PendingS, List.mem_append, List.mem_singleton]
    constructor
    · rintro ⟨x, hx | hx, hh⟩
      · exact Or.inl ⟨x, hx, hh⟩
      · subst hx; exact Or.inr hh
    · rintro (⟨x, hx, hh⟩ | hh)
      · exact ⟨x, Or.inl hx, hh⟩
      · exact ⟨b, Or.inr rfl, hh⟩

theorem flatten_enqueue (q : List (List SrcEv)) (b : List SrcEv) :
    (enqueue q b).flatten = q.flatten ++ b := by
  simp only [enqueue]
  by_cases hb : b.isEmpty = true
  · have : b = [] := by simpa using hb
    subst this; simp
  · simp [hb]

theorem refresh_key (prim : List Obj) (e : SrcEv) : (refresh prim e).key = e.key := by
  simp only [refresh]
  cases h : oget prim e.key with
  | none => rfl
  | some o =>
    simp only
    split
    · rfl
    · simp [Item.key, oget_key h]

/-- An item is valid when it recomputes on the current object or deletes a vanished input. -/
def Item.valid (prim : List Obj) : Item → Prop
  | .recompute o => oget prim o.key = some o
  | .delete k => oget prim k = none

theorem upToDate_valid {T : Transform} {prim sec : List Obj} (c : Col) {it : Item}
    (hv : it.valid prim) : UpToDate T prim sec (applyItem T sec c it) it.key := by
  cases it with
  | recompute o => exact upToDate_recompute c hv
  | delete k => exact upToDate_delete c hv

/-! ## the invariant, item by item -/

structure MInv (T : Transform) (prim sec : List Obj) (q : List SrcEv) (qS : List (List SrcEv))
    (c : Col) : Prop where
  col : ColInv c
  /-- an input without pending work is up to date -/
  clean : ∀ i, ¬ PendingP q i → ¬ PendingS qS c.deps i → UpToDate T prim sec c i
  /-- if the last pending event of a key is a Delete, the object is gone -/
  last : ∀ i e, lastFor q i = some e → e.isDelete = true → oget prim i = none
  /-- state recorded for a vanished input still has a pending event -/
  absent : ∀ i, oget prim i = none → (lookup c.deps i).isSome = true → PendingP q i

theorem minv_stepP {T : Transform} {prim sec : List Obj} {e : SrcEv} {q : List SrcEv}
    {qS : List (List SrcEv)} {c : Col} (h : MInv T prim sec (e :: q) qS c)
    (hok : itemOK T sec c (refresh prim e) = true) :
    MInv T prim sec q qS (applyItem T sec c (refresh prim e)) := by
  have hkey := refresh_key prim e
  constructor
  · exact colInv_applyItem h.col _ hok
  · intro i hp hs
    by_cases hi : i = e.key
    · subst hi
      -- the item settles its own key
      cases ho : oget prim e.key with
      | none =>
        have : refresh prim e = .delete e.key := by simp [refresh, ho]
        rw [this]; exact upToDate_delete c ho
      | some o =>
        by_cases hd : e.isDelete = true
        · exfalso
          have hl : lastFor (e :: q) e.key = some e := by
            simp [lastFor, lastFor_none_of_not_pending hp]
          have := h.last e.key e hl hd
          rw [ho] at this; simp at this
        · have : refresh prim e = .recompute o := by simp [refresh, ho, hd]
          rw [this]
          have hk := oget_key ho
          have := upToDate_recompute (T := T) (sec := sec) c (prim := prim) (o := o) (by rw [hk]; exact ho)
          rw [hk] at this; exact this
    · have hne : i ≠ (refresh prim e).key := by rw [hkey]; exact hi
      obtain ⟨_, f2, _⟩ := applyItem_frame h.col _ hok i hne
      have hp' : ¬ PendingP (e :: q) i := by
        rintro ⟨x, hx, hk⟩
        rcases List.mem_cons.1 hx with hx | hx
        · subst hx; exact hi hk.symm
        · exact hp ⟨x, hx, hk⟩
      have hs' : ¬ PendingS qS c.deps i := fun hh => hs ((pendingS_congr f2).2 hh)
      exact upToDate_frame h.col _ hok i hne (h.clean i hp' hs')
  · intro i x hl hd
    apply h.last i x _ hd
    simp [lastFor, hl]
  · intro i ho hdep
    by_cases hi : i = e.key
    · subst hi
      have : refresh prim e = .delete e.key := by simp [refresh, ho]
      rw [this] at hdep
      simp [applyItem, deleteCol_deps, lookup_erase_self] at hdep
    · have hne : i ≠ (refresh prim e).key := by rw [hkey]; exact hi
      obtain ⟨_, f2, _⟩ := applyItem_frame h.col _ hok i hne
      rw [f2] at hdep
      obtain ⟨x, hx, hk⟩ := h.absent i ho hdep
      rcases List.mem_cons.1 hx with hx | hx
      · subst hx; exact absurd hk.symm hi
      · exact ⟨x, hx, hk⟩

theorem minv_batchP {T : Transform} {prim sec : List Obj} (b : List SrcEv) {q : List SrcEv}
    {qS : List (List SrcEv)} {c : Col} (h : MInv T prim sec (b ++ q) qS c)
    (hok : itemsOK T sec c (b.map (refresh prim)) = true) :
    MInv T prim sec q qS (applyItems T sec c (b.map (refresh prim))) := by
  induction b generalizing c with
  | nil => simpa [applyItems] using h
  | cons e b ih =>
    simp only [List.map_cons, itemsOK, Bool.and_eq_true] at hok
    simp only [List.map_cons, applyItems, List.foldl_cons]
    exact ih (minv_stepP h hok.1) hok.2

/-- loop invariant while the items of one secondary batch are applied -/
structure SLoop (T : Transform) (prim sec : List Obj) (q : List SrcEv) (qS : List (List SrcEv))
    (hit : Key → Prop) (rem : List Item) (c : Col) : Prop where
  col : ColInv c
  clean : ∀ i, ¬ PendingP q i → ¬ PendingS qS c.deps i → (hit i → ∀ it ∈ rem, it.key ≠ i) →
    UpToDate T prim sec c i
  last : ∀ i e, lastFor q i = some e → e.isDelete = true → oget prim i = none
  absent : ∀ i, oget prim i = none → (lookup c.deps i).isSome = true → PendingP q i
  valid : ∀ it ∈ rem, it.valid prim

theorem sloop_step {T : Transform} {prim sec : List Obj} {q : List SrcEv} {qS : List (List SrcEv)}
    {hit : Key → Prop} {it : Item} {rem : List Item} {c : Col}
    (h : SLoop T prim sec q qS hit (it :: rem) c) (hok : itemOK T sec c it = true) :
    SLoop T prim sec q qS hit rem (applyItem T sec c it) := by
  have hv : it.valid prim := h.valid it (List.mem_cons_self ..)
  constructor
  · exact colInv_applyItem h.col _ hok
  · intro i hp hs hrem
    by_cases hi : i = it.key
    · subst hi; exact upToDate_valid c hv
    · obtain ⟨_, f2, _⟩ := applyItem_frame h.col _ hok i hi
      have hs' : ¬ PendingS qS c.deps i := fun hh => hs ((pendingS_congr f2).2 hh)
      apply upToDate_frame h.col _ hok i hi
      apply h.clean i hp hs'
      intro hh x hx
      rcases List.mem_cons.1 hx with hx | hx
      · subst hx; exact fun e => hi e.symm
      · exact hrem hh x hx
  · exact h.last
  · intro i ho hdep
    by_cases hi : i = it.key
    · subst hi
      cases it with
      | recompute o => simp only [Item.valid] at hv; simp only [Item.key] at ho; rw [hv] at ho; simp at ho
      | delete k => simp [applyItem, deleteCol_deps, Item.key, lookup_erase_self] at hdep
    · obtain ⟨_, f2, _⟩ := applyItem_frame h.col _ hok i hi
      rw [f2] at hdep
      exact h.absent i ho hdep
  · intro x hx; exact h.valid x (List.mem_cons_of_mem _ hx)

theorem sloop_run {T : Transform} {prim sec : List Obj} {q : List SrcEv} {qS : List (List SrcEv)}
    {hit : Key → Prop} (rem : List Item) {c : Col}
    (h : SLoop T prim sec q qS hit rem c) (hok : itemsOK T sec c rem = true) :
    SLoop T prim sec q qS hit [] (applyItems T sec c rem) := by
  induction rem generalizing c with
  | nil => simpa [applyItems] using h
  | cons it rem ih =>
    simp only [itemsOK, Bool.and_eq_true] at hok
    simp only [applyItems, List.foldl_cons]
    exact ih (sloop_step h hok.1) hok.2

/-- `changedInputKeys` is complete: every input with a recorded filter that matches the old or the
    new object of some event of the batch is in the set. -/
theorem mem_changedInputKeys_of_hit {deps : AMap (List Dep)} {b : List SrcEv} {i : Key}
    (h : Hit deps b i) : i ∈ changedInputKeys deps b := by
  obtain ⟨e, he, hc⟩ := h
  cases hl : lookup deps i with
  | none => simp [hl, objectChanged] at hc
  | some ds =>
    simp only [hl, Option.getD_some] at hc
    simp only [changedInputKeys, mem_dedup, List.mem_map, List.mem_filter, List.any_eq_true]
    exact ⟨(i, ds), ⟨lookup_some_mem hl, e, he, hc⟩, rfl⟩

theorem secItems_valid {prim : List Obj} {c : Col} {b : List SrcEv} :
    ∀ it ∈ secItems prim c b, it.valid prim := by
  intro it hit
  simp only [secItems, List.mem_flatMap] at hit
  obtain ⟨i, _, hi⟩ := hit
  cases ho : oget prim i with
  | none =>
    simp only [ho, List.mem_map] at hi
    obtain ⟨_, _, rfl⟩ := hi
    exact ho
  | some o =>
    simp only [ho, List.mem_singleton] at hi
    subst hi
    simp only [Item.valid, oget_key ho, ho]

theorem minv_batchS {T : Transform} {prim sec : List Obj} {b : List SrcEv} {q : List SrcEv}
    {qS : List (List SrcEv)} {c : Col} (h : MInv T prim sec q (b :: qS) c)
    (hok : itemsOK T sec c (secItems prim c b) = true) :
    MInv T prim sec q qS (applyItems T sec c (secItems prim c b)) := by
  have start : SLoop T prim sec q qS (Hit c.deps b) (secItems prim c b) c := by
    constructor
    · exact h.col
    · intro i hp hs hrem
      by_cases hh : Hit c.deps b i
      · exfalso
        have hmem := mem_changedInputKeys_of_hit hh
        cases ho : oget prim i with
        | some o =>
          have : Item.recompute o ∈ secItems prim c b := by
            simp only [secItems, List.mem_flatMap]
            exact ⟨i, hmem, by simp [ho]⟩
          exact hrem hh _ this (by simp [Item.key, oget_key ho])
        | none =>
          apply hp
          apply h.absent i ho
          obtain ⟨e, _, hc⟩ := hh
          cases hl : lookup c.deps i with
          | none => simp [hl, objectChanged] at hc
          | some _ => rfl
      · apply h.clean i hp
        rintro ⟨x, hx, hxh⟩
        rcases List.mem_cons.1 hx with hx | hx
        · subst hx; exact hh hxh
        · exact hs ⟨x, hx, hxh⟩
    · exact h.last
    · exact h.absent
    · exact secItems_valid
  have fin := sloop_run _ start hok
  exact ⟨fin.col, fun i hp hs => fin.clean i hp hs (fun _ x hx => by simp at hx), fin.last, fin.absent⟩

/-! ## environment steps -/

theorem upToDate_congr_prim {T : Transform} {prim prim' sec : List Obj} {c : Col} {i : Key}
    (h : oget prim' i = oget prim i) (hu : UpToDate T prim sec c i) : UpToDate T prim' sec c i := by
  simp only [UpToDate, h] at hu ⊢; exact hu

theorem minv_envS {T : Transform} {prim sec : List Obj} {q : List SrcEv} {qS : List (List SrcEv)}
    {c : Col} (h : MInv T prim sec q qS c) (hs : SrcOK sec) (ops : List SrcOp) :
    MInv T prim (srcSteps sec ops) q (enqueue qS (srcEvents sec ops)) c := by
  refine ⟨h.col, ?_, h.last, h.absent⟩
  intro i hp hps
  rw [pendingS_enqueue] at hps
  have hu := h.clean i hp (fun hh => hps (Or.inl hh))
  have hnh : ¬ Hit c.deps (srcEvents sec ops) i := fun hh => hps (Or.inr hh)
  simp only [UpToDate] at hu ⊢
  cases ho : oget prim i with
  | none => simpa [ho] using hu
  | some o =>
    simp only [ho] at hu ⊢
    obtain ⟨h1, h2, h3⟩ := hu
    have hno : ∀ e ∈ srcEvents sec ops, objectChanged (depsOf T sec o) e = false := by
      intro e he
      cases hc : objectChanged (depsOf T sec o) e with
      | false => rfl
      | true => exact absurd ⟨e, he, by simp [h2, hc]⟩ hnh
    obtain ⟨e1, e2⟩ := transform_unchanged_of_no_hit hs ops o hno
    simp only [newKeysOf, e1, e2]
    exact ⟨h1, h2, h3⟩

theorem minv_envP_one {T : Transform} {prim sec : List Obj} {q : List SrcEv} {qS : List (List SrcEv)}
    {c : Col} (h : MInv T prim sec q qS c) (op : SrcOp) :
    MInv T (srcStep prim op) sec (q ++ srcEvent prim op) qS c := by
  refine ⟨h.col, ?_, ?_, ?_⟩
  · intro i hp hs
    have hp' : ¬ PendingP q i := fun ⟨x, hx, hk⟩ => hp ⟨x, List.mem_append_left _ hx, hk⟩
    have hno : ∀ e ∈ srcEvent prim op, e.key ≠ i :=
      fun e he hk => hp ⟨e, List.mem_append_right _ he, hk⟩
    exact upToDate_congr_prim (oget_srcStep_other hno) (h.clean i hp' hs)
  · intro i x hl hd
    cases op with
    | set o =>
      simp only [srcEvent] at hl
      rw [lastFor_append_singleton] at hl
      by_cases hi : (⟨oget prim o.key, some o⟩ : SrcEv).key = i
      · simp only [hi, if_true, Option.some.injEq] at hl
        subst hl; simp [SrcEv.isDelete] at hd
      · simp only [hi, if_false] at hl
        have hne : i ≠ o.key := by simpa [SrcEv.key, eq_comm] using hi
        simp only [srcStep, oget_oset, hne, if_false]
        exact h.last i x hl hd
    | del k =>
      simp only [srcEvent, srcStep, oget_odel] at hl ⊢
      by_cases hi : i = k
      · simp [hi]
      · simp only [hi, if_false]
        cases hg : oget prim k with
        | none =>
          simp only [hg, List.append_nil] at hl
          exact h.last i x hl hd
        | some old =>
          simp only [hg] at hl
          rw [lastFor_append_singleton] at hl
          have hk : (⟨some old, none⟩ : SrcEv).key ≠ i := by
            simp only [SrcEv.key, oget_key hg]; exact fun e => hi e.symm
          simp only [hk, if_false] at hl
          exact h.last i x hl hd
  · intro i ho hdep
    cases op with
    | set o =>
      simp only [srcStep, oget_oset] at ho
      by_cases hi : i = o.key
      · simp [hi] at ho
      · simp only [hi, if_false] at ho
        obtain ⟨x, hx, hk⟩ := h.absent i ho hdep
        exact ⟨x, List.mem_append_left _ hx, hk⟩
    | del k =>
      simp only [srcStep, oget_odel] at ho
      by_cases hi : i = k
      · subst hi
        cases hg : oget prim i with
        | none =>
          obtain ⟨x, hx, hk⟩ := h.absent i hg hdep
          exact ⟨x, List.mem_append_left _ hx, hk⟩
        | some old =>
          refine ⟨⟨some old, none⟩, ?_, ?_⟩
          · simp [srcEvent, hg]
          · simp [SrcEv.key, oget_key hg]
      · simp only [hi, if_false] at ho
        obtain ⟨x, hx, hk⟩ := h.absent i ho hdep
        exact ⟨x, List.mem_append_left _ hx, hk⟩

theorem minv_envP {T : Transform} {prim sec : List Obj} {q : List SrcEv} {qS : List (List SrcEv)}
    {c : Col} (h : MInv T prim sec q qS c) (ops : List SrcOp) :
    MInv T (srcSteps prim ops) sec (q ++ srcEvents prim ops) qS c := by
  induction ops generalizing prim q with
  | nil => simpa [srcSteps, srcEvents] using h
  | cons op ops ih =>
    have := ih (minv_envP_one h op)
    simpa [srcSteps, srcEvents, List.append_assoc] using this

/-! ## the emitted stream -/

structure StreamInv (out : List Event) (c : Col) : Prop where
  wf : WellFormed out
  rep : MapEq (replay out) c.outputs
  nd : NoDupKeys c.outputs

theorem noDupKeys_replayFrom {m : FinMap} (h : NoDupKeys m) (s : List Event) : NoDupKeys (replayFrom m s) := by
  induction s generalizing m with
  | nil => exact h
  | cons e s ih => exact ih (noDupKeys_applyEv h e)

theorem streamInv_item {T : Transform} {sec : List Obj} {out : List Event} {c : Col}
    (h : StreamInv out c) (hc : ColInv c) (it : Item) :
    StreamInv (out ++ itemEvs T sec c it) (applyItem T sec c it) := by
  obtain ⟨w, r⟩ := item_stream (T := T) (sec := sec) hc it
  constructor
  · rw [WellFormed, wellFormedFrom_append]
    exact ⟨h.wf, (wellFormedFrom_congr h.rep _).2 w⟩
  · rw [replay, replayFrom_append, ← r]
    exact replayFrom_congr h.rep _
  · rw [← r]; exact noDupKeys_replayFrom h.nd _

theorem streamInv_items {T : Transform} {sec : List Obj} (its : List Item) {out : List Event} {c : Col}
    (h : StreamInv out c) (hc : ColInv c) (hok : itemsOK T sec c its = true) :
    StreamInv (out ++ itemsEvs T sec c its) (applyItems T sec c its) := by
  induction its generalizing out c with
  | nil => simpa [itemsEvs, applyItems] using h
  | cons it its ih =>
    simp only [itemsOK, Bool.and_eq_true] at hok
    have := ih (streamInv_item (T := T) (sec := sec) h hc it) (colInv_applyItem hc it hok.1) hok.2
    simpa [itemsEvs, applyItems, List.append_assoc] using this

/-! ## the system invariant -/

structure SysInv (T : Transform) (s : Sys) : Prop where
  m : MInv T s.prim s.sec s.qP.flatten s.qS s.col
  srcP : SrcOK s.prim
  srcS : SrcOK s.sec
  stream : StreamInv s.out s.col

theorem sysInv_init (T : Transform) : SysInv T {} := by
  refine ⟨⟨colInv_init, ?_, ?_, ?_⟩, ?_, ?_, ⟨?_, ?_, ?_⟩⟩
  · intro i _ _; simp [UpToDate, oget, lookup]
  · intro i e h; simp [lastFor] at h
  · intro i _ h; simp [lookup] at h
  · simp [SrcOK]
  · simp [SrcOK]
  · exact wellFormedFrom_nil _
  · exact MapEq.refl _
  · simp [NoDupKeys, keys]

theorem sysInv_step {T : Transform} {s : Sys} (h : SysInv T s) (a : Act)
    (hok : itemsOK T s.sec s.col (actItems s a) = true) : SysInv T (step T s a) := by
  cases a with
  | envP ops =>
    refine ⟨?_, srcOK_srcSteps h.srcP ops, h.srcS, h.stream⟩
    simp only [step, flatten_enqueue]
    exact minv_envP h.m ops
  | envS ops =>
    refine ⟨?_, h.srcP, srcOK_srcSteps h.srcS ops, h.stream⟩
    simp only [step]
    exact minv_envS h.m h.srcS ops
  | procP =>
    cases hq : s.qP with
    | nil =>
      have hi : actItems s .procP = [] := by simp [actItems, hq]
      refine ⟨?_, h.srcP, h.srcS, ?_⟩
      · have := h.m
        simp only [step, hi, hq, applyItems, List.foldl_nil, List.tail_nil] at this ⊢
        simpa [hq] using this
      · simpa [step, hi, itemsEvs, applyItems] using h.stream
    | cons b rest =>
      have hi : actItems s .procP = b.map (refresh s.prim) := by simp [actItems, hq]
      rw [hi] at hok
      refine ⟨?_, h.srcP, h.srcS, ?_⟩
      · have hm := h.m
        rw [hq, List.flatten_cons] at hm
        simp only [step, hi, hq, List.tail_cons]
        exact minv_batchP b hm hok
      · simp only [step, hi]
        exact streamInv_items _ h.stream h.m.col hok
  | procS =>
    cases hq : s.qS with
    | nil =>
      have hi : actItems s .procS = [] := by simp [actItems, hq]
      refine ⟨?_, h.srcP, h.srcS, ?_⟩
      · have := h.m
        simp only [step, hi, hq, applyItems, List.foldl_nil, List.tail_nil] at this ⊢
        simpa [hq] using this
      · simpa [step, hi, itemsEvs, applyItems] using h.stream
    | cons b rest =>
      have hi : actItems s .procS = secItems s.prim s.col b := by simp [actItems, hq]
      rw [hi] at hok
      refine ⟨?_, h.srcP, h.srcS, ?_⟩
      · have hm := h.m
        rw [hq] at hm
        simp only [step, hi, hq, List.tail_cons]
        exact minv_batchS hm hok
      · simp only [step, hi]
        exact streamInv_items _ h.stream h.m.col hok

theorem sysInv_exec {T : Transform} {s : Sys} (h : SysInv T s) (run : List Act)
    (hok : runOK T s run = true) : SysInv T (exec T s run) := by
  induction run generalizing s with
  | nil => exact h
  | cons a run ih =>
    simp only [runOK, Bool.and_eq_true] at hok
    simp only [exec, List.foldl_cons]
    exact ih (sysInv_step h a hok.1) hok.2

end IstioModel.C16
