/-
C16 - event streams of krt collections: the property as a specification (`WellFormed`, `replay`)
and the executable stream monitor (`monitorB`) that the check runs on every stream recorded from
the real `krt` collections (Register / RegisterBatch handlers).

Core Lean only (this file is linked into the compiled driver `drv_c16`).

Go view: `krt.Event[T]{Old, New, Event}` with `controllers.EventAdd|EventUpdate|EventDelete`
(pkg/kube/krt/core.go).  An object is abstracted to its canonical rendering (`Val`), its key is
`krt.GetKey` (`Key`).
-/
namespace IstioModel.C16

abbrev Key := String
abbrev Val := String

/-! ## Association maps (Go `map[Key]α`), read through `lookup` only -/

abbrev AMap (α : Type) := List (Key × α)

namespace AMap
variable {α : Type}

def lookup : AMap α → Key → Option α
  | [], _ => none
  | (c, v) :: m, k => if k = c then some v else lookup m k

def erase : AMap α → Key → AMap α
  | [], _ => []
  | (c, v) :: m, k => if k = c then erase m k else (c, v) :: erase m k

/-- `m[k] = v`: the old binding is dropped, so a map built with `set`/`erase` never holds a key twice. -/
def set (m : AMap α) (k : Key) (v : α) : AMap α := (k, v) :: erase m k

def keys (m : AMap α) : List Key := m.map (·.1)

def contains (m : AMap α) (k : Key) : Bool := (lookup m k).isSome

end AMap

abbrev FinMap := AMap Val

/-- One notification delivered to a subscriber. -/
inductive Event where
  | add (k : Key) (v : Val)
  | update (k : Key) (old new : Val)
  | delete (k : Key) (old : Val)
  deriving DecidableEq, Repr, Inhabited

def Event.key : Event → Key
  | .add k _ => k
  | .update k _ _ => k
  | .delete k _ => k

/-! ## Specification -/

/-- The effect of one event on a subscriber's copy of the collection. -/
def applyEv (m : FinMap) : Event → FinMap
  | .add k v => AMap.set m k v
  | .update k _ v => AMap.set m k v
  | .delete k _ => AMap.erase m k

/-- Replaying a stream on top of a copy `m`. -/
def replayFrom (m : FinMap) (s : List Event) : FinMap := s.foldl applyEv m

/-- Replaying a stream from nothing: what a subscriber that started empty ends up holding. -/
def replay (s : List Event) : FinMap := replayFrom [] s

/-- Events of one key, in stream order. -/
def proj (k : Key) (s : List Event) : List Event := s.filter (fun e => e.key == k)

/-- The legal words of one key, starting from "present with value v" (`some v`) or "absent"
    (`none`): a prefix of `(Add Update* Delete)*` in which every `Old` is the value the key had
    just before (the previous `New`).  Hence: no duplicate add, no update or delete of an unknown
    key, nothing but an add after a delete. -/
inductive KeyWord : Option Val → List Event → Prop
  | nil (st : Option Val) : KeyWord st []
  | add {k : Key} {v : Val} {w : List Event} :
      KeyWord (some v) w → KeyWord none (Event.add k v :: w)
  | update {k : Key} {old new : Val} {w : List Event} :
      KeyWord (some new) w → KeyWord (some old) (Event.update k old new :: w)
  | delete {k : Key} {old : Val} {w : List Event} :
      KeyWord none w → KeyWord (some old) (Event.delete k old :: w)

/-- A stream is well formed on top of the contents `m0` (what the subscriber already holds). -/
def WellFormedFrom (m0 : FinMap) (s : List Event) : Prop :=
  ∀ k, KeyWord (AMap.lookup m0 k) (proj k s)

/-- The property's stream clause for a subscriber that starts empty. -/
def WellFormed (s : List Event) : Prop := WellFormedFrom [] s

/-- Two association lists denote the same map. -/
def MapEq (a b : FinMap) : Prop := ∀ k, AMap.lookup a k = AMap.lookup b k

/-! ## The executable monitor -/

/-- One monitor step: `none` = the event is illegal in state `m`. -/
def stepB (m : FinMap) : Event → Option FinMap
  | .add k v => if (AMap.lookup m k).isNone then some (AMap.set m k v) else none
  | .update k old new => if AMap.lookup m k = some old then some (AMap.set m k new) else none
  | .delete k old => if AMap.lookup m k = some old then some (AMap.erase m k) else none

def runB : FinMap → List Event → Option FinMap
  | m, [] => some m
  | m, e :: s =>
    match stepB m e with
    | none => none
    | some m' => runB m' s

def mapEqB (a b : FinMap) : Bool :=
  a.all (fun p => AMap.lookup b p.1 == AMap.lookup a p.1) &&
  b.all (fun p => AMap.lookup a p.1 == AMap.lookup b p.1)

/-- Monitor for a subscriber that already holds `m0`: accepts iff the stream is well formed on top
    of `m0` and replays to the contents `m`. -/
def monitorFromB (m0 : FinMap) (s : List Event) (m : FinMap) : Bool :=
  match runB m0 s with
  | none => false
  | some m' => mapEqB m' m

/-- The monitor of the check (`monitorB_iff`). -/
def monitorB (s : List Event) (m : FinMap) : Bool := monitorFromB [] s m

/-- Index of the first illegal event (diagnostics only). -/
def firstBad : FinMap → List Event → Nat → Option Nat
  | _, [], _ => none
  | m, e :: s, i =>
    match stepB m e with
    | none => some i
    | some m' => firstBad m' s (i + 1)

/-- Restriction of a map / a stream to the keys satisfying `p` (used to classify the known finding
    F6, which is confined to keys that moved between parents without a barrier). -/
def restrictMap (p : Key → Bool) (m : FinMap) : FinMap := m.filter (fun kv => p kv.1)
def restrictStream (p : Key → Bool) (s : List Event) : List Event := s.filter (fun e => p e.key)

end IstioModel.C16
