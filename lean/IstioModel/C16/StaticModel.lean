import IstioModel.C16.Monitor

/-!
C16 - runtime model of krt's static collection (`static.go`: `StaticCollection` - the inputs of almost every
derived collection in istio's tests and the memory config store - with `UpdateObject`,
`ConditionalUpdateObject`, `DeleteObject`, `DeleteObjects`, `Reset`): the contents and the events it
distributes, one primitive change at a time.  Core only: executed by the krt driver for every `p.*` op
and compared with the recorded streams of the primary collection's subscribers (`pstream`); the theorems are in
StaticTheorems.lean.
-/
namespace IstioModel.C16
open AMap

inductive SOp where
  /-- `UpdateObject`: Add, or Update (also when nothing changed: static collections emit it by design) -/
  | set (k : Key) (v : Val)
  /-- `ConditionalUpdateObject` / one object of `Reset`: nothing when the object is Equal to what is held -/
  | cset (k : Key) (v : Val)
  /-- `DeleteObject` / one object of `DeleteObjects` / an object `Reset` drops: nothing when the key is absent -/
  | del (k : Key)
  deriving DecidableEq, Repr, Inhabited

def SOp.key : SOp → Key
  | .set k _ => k
  | .cset k _ => k
  | .del k => k

structure SSys where
  vals : FinMap := []
  /-- everything distributed so far -/
  out : List Event := []
  deriving Repr, Inhabited

def sSetEvent (m : FinMap) (k : Key) (v : Val) : Event :=
  match lookup m k with
  | none => .add k v
  | some o => .update k o v

def sEvent (m : FinMap) : SOp → Option Event
  | .set k v => some (sSetEvent m k v)
  | .cset k v => if lookup m k = some v then none else some (sSetEvent m k v)
  | .del k => (lookup m k).map (fun o => Event.delete k o)

def sVals (m : FinMap) : SOp → FinMap
  | .set k v => AMap.set m k v
  | .cset k v => AMap.set m k v
  | .del k => erase m k

def sstep (s : SSys) (op : SOp) : SSys :=
  { vals := sVals s.vals op, out := s.out ++ (sEvent s.vals op).toList }

def sexec (s : SSys) (ops : List SOp) : SSys := ops.foldl sstep s

/-- `Reset(newState)`: every object of `newState` in order (compared with what is held, or with an earlier
    occurrence of the same key: the later object wins), then what is left is deleted -/
def resetPrims (m : FinMap) (objs : List (Key × Val)) : List SOp :=
  objs.map (fun kv => SOp.cset kv.1 kv.2) ++
  ((m.map (·.1)).filter (fun k => !(objs.any (fun kv => kv.1 == k)))).map SOp.del

end IstioModel.C16
