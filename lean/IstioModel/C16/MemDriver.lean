import IstioModel.Common.Wire
import IstioModel.C16.JoinDriver
import IstioModel.C16.ExactDriver
import IstioModel.C16.MiscDriver

/-!
Driver part for the stream `mem`: the in-memory config store `pilot/pkg/config/memory`
(`store.go` Create / Update / Delete / Get / List, `controller.go` RegisterEventHandler), a thin layer
over one `krt.StaticCollection[config.Config]` + namespace index per kind.

    case <n> mem
    m.create <ns> <name> <val> <rv>            ok:<rv> | exists
    m.update <ns> <name> <val> <rv|-> <newrv>  ok:<newrv> | notfound | conflict     (`-` = no resource version given)
    m.delete <ns> <name>                       ok | notfound
    m.get <ns> <name>                          <val>@<rv> | none
    m.list <ns|*>                              contents (namespace index, `*` = List of the collection)
    m.handler <name>                           RegisterEventHandler (no existing state is replayed)
    stream <name> <event>*                     verdict of the monitor on the handler's events

Specification = a map key ↦ (val, rv) with the store's documented error cases.
-/
namespace IstioModel.C16
open IstioModel.Wire

structure MObj where
  ns  : String
  val : String
  rv  : String
  deriving DecidableEq, Repr, Inhabited

structure MState where
  objs : AMap MObj := []
  subs : AMap FinMap := []

def MObj.tok (o : MObj) : Val := o.val ++ "@" ++ o.rv

def memContents (m : MState) : FinMap := m.objs.map (fun kv => (kv.1, kv.2.tok))

def memList (m : MState) (ns : String) : FinMap :=
  (m.objs.filter (fun kv => ns == "*" || kv.2.ns == ns)).map (fun kv => (kv.1, kv.2.tok))

/-- `krt.GetKey(config.Config)`: `namespace/name`, or `name` for a cluster-scoped object (`-` = no namespace) -/
def memKey (ns name : String) : Key := if ns == "-" then name else ns ++ "/" ++ name

/-- `Store.Create`. -/
def memCreate (m : MState) (ns name val rv : String) : MState × String :=
  let k := memKey ns name
  match AMap.lookup m.objs k with
  | some _ => (m, "exists")
  | none => ({ m with objs := AMap.set m.objs k ⟨ns, val, rv⟩ }, "ok:" ++ rv)

/-- `Store.Update` with `hasConflict`. -/
def memUpdate (m : MState) (ns name val rv newrv : String) : MState × String :=
  let k := memKey ns name
  match AMap.lookup m.objs k with
  | none => (m, "notfound")
  | some old =>
    if rv != "-" && rv != old.rv then (m, "conflict")
    else ({ m with objs := AMap.set m.objs k ⟨ns, val, newrv⟩ }, "ok:" ++ newrv)

/-- `Store.Delete`. -/
def memDelete (m : MState) (ns name : String) : MState × String :=
  let k := memKey ns name
  match AMap.lookup m.objs k with
  | none => (m, "notfound")
  | some _ => ({ m with objs := AMap.erase m.objs k }, "ok")

def stepM (m : MState) (toks : List String) : MState × String :=
  match toks with
  | "case" :: _ => ({}, "ok")
  | ["m.create", ns, name, val, rv] => memCreate m ns name val rv
  | ["m.update", ns, name, val, rv, newrv] => memUpdate m ns name val rv newrv
  | ["m.status", ns, name, val, rv, newrv] => memUpdate m ns name val rv newrv   -- `UpdateStatus`
  | ["m.run"] => (m, "ok")   -- `Run` marks the static collections synced: no effect on contents or streams
  | ["m.delete", ns, name] => memDelete m ns name
  | ["m.get", ns, name] =>
    (m, "m.get " ++ match AMap.lookup m.objs (memKey ns name) with
      | none => "none"
      | some o => o.tok)
  | ["m.list", ns] => (m, "m.list " ++ showMap (memList m ns))
  | ["m.handler", name] => ({ m with subs := AMap.set m.subs name (memContents m) }, "ok")
  | "stream" :: name :: evs =>
    (m, "stream " ++ match parseEvents evs, AMap.lookup m.subs name with
      | some es, some m0 => showVerdict m0 es (memContents m)
      | none, _ => "reject:malformed-event"
      | _, none => "unknown-subscriber")
  | _ => (m, "bad-op")

/-- The driver state of `drv_c16`: one of the sub-drivers, selected by the case header. -/
structure TopState where
  mode : Nat := 0
  a : AllState := {}
  m : MState := {}
  x : XState := {}
  jx : JXState := {}
  mi : MiscState := {}
  ix : IdxcState := {}
  inf : InfState := {}

def stepTop (t : TopState) (toks : List String) : TopState × String :=
  match toks with
  | "case" :: _ :: stream :: _ =>
    if stream.startsWith "mem" then
      let r := stepM {} toks
      ({ mode := 1, m := r.1 }, r.2)
    else if stream.startsWith "misc" then
      let r := stepMisc {} toks
      ({ mode := 4, mi := r.1 }, r.2)
    else if stream.startsWith "inf" then
      let r := stepInf {} toks
      ({ mode := 6, inf := r.1 }, r.2)
    else if stream.startsWith "idxc" then
      let r := stepIdxc {} toks
      ({ mode := 5, ix := r.1 }, r.2)
    else if stream.startsWith "joinx" then
      let r := stepJX {} toks
      ({ mode := 3, jx := r.1 }, r.2)
    else if stream.startsWith "exact" then
      let r := stepXL {} toks
      ({ mode := 2, x := r.1 }, r.2)
    else
      let r := stepAll {} toks
      ({ mode := 0, a := r.1 }, r.2)
  | _ =>
    if t.mode == 1 then
      let r := stepM t.m toks
      ({ t with m := r.1 }, r.2)
    else if t.mode == 2 then
      let r := stepXL t.x toks
      ({ t with x := r.1 }, r.2)
    else if t.mode == 3 then
      let r := stepJX t.jx toks
      ({ t with jx := r.1 }, r.2)
    else if t.mode == 4 then
      let r := stepMisc t.mi toks
      ({ t with mi := r.1 }, r.2)
    else if t.mode == 5 then
      let r := stepIdxc t.ix toks
      ({ t with ix := r.1 }, r.2)
    else if t.mode == 6 then
      let r := stepInf t.inf toks
      ({ t with inf := r.1 }, r.2)
    else
      let r := stepAll t.a toks
      ({ t with a := r.1 }, r.2)

end IstioModel.C16
