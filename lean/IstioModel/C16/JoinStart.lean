import IstioModel.C16.JoinInflight

/-!
C16 - a join created over collections that ALREADY hold objects, the same key possibly in several of them
(the start of almost every join in istio).  `jrunOK` rejects such a start (whichever initial Add of the
shared key is handled first, the other collection still has its own unhandled: the subscribers that are
registered THEN can get an Update for a key they do not hold - finding F10, `join_overlap_at_start_witness`),
so `join_populated_correct` does not speak about it.  What does hold, for every order in which the initial
Adds are handled:

* `join_start_processed` : once all initial events are handled, `processedState` is exactly the
  first-collection-wins contents;
* `join_start_late_subscriber` : a subscriber that registers at that quiescent point (it receives the Adds
  of `processedState`) is served a well-formed stream that replays to the contents, for every later run
  that respects `jrunOK` (in particular under the discipline of stream `join`).
-/
namespace IstioModel.C16
open AMap

/-- what `processedState` holds for `k` while the initial Adds are being handled: the object of the first
    collection that has `k`, once that collection's own Add has been handled; nothing before -/
def startSeen : List (List JEv) → List (List JObj) → Key → Option Val
  | q :: qs, c :: cs, k =>
    match jget c k with
    | some o => if q.any (fun e => e.key == k) then none else some o.tok
    | none => startSeen qs cs k
  | _, _, _ => none

/-- every queue is what is left of the initial Adds of its collection; a collection is a map -/
def SufAll : List (List JEv) → List (List JObj) → Prop
  | q :: qs, c :: cs => (∃ pre, pre ++ q = jaddsOf c) ∧ (c.map (·.key)).Nodup ∧ SufAll qs cs
  | [], [] => True
  | _, _ => False

theorem sufAll_start (cols : List (List JObj)) (hnd : ∀ c ∈ cols, (c.map (·.key)).Nodup) :
    SufAll (cols.map jaddsOf) cols := by
  induction cols with
  | nil => trivial
  | cons c cs ih =>
    exact ⟨⟨[], rfl⟩, hnd c (List.mem_cons_self ..), ih (fun c' hc' => hnd c' (List.mem_cons_of_mem _ hc'))⟩

theorem jget_of_mem {c : List JObj} (hnd : (c.map (·.key)).Nodup) {o : JObj} (ho : o ∈ c) : jget c o.key = some o := by
  induction c with
  | nil => simp at ho
  | cons x l ih =>
    simp only [List.map_cons, List.nodup_cons] at hnd
    simp only [jget]
    rcases List.mem_cons.1 ho with rfl | hm
    · rw [if_pos rfl]
    · have hne : o.key ≠ x.key := fun h => hnd.1 (by rw [← h]; exact List.mem_map_of_mem (f := (·.key)) hm)
      rw [if_neg hne]; exact ih hnd.2 hm

theorem any_key_jaddsOf {c : List JObj} {k : Key} {o : JObj} (h : jget c k = some o) :
    (jaddsOf c).any (fun e => e.key == k) = true := by
  induction c with
  | nil => simp [jget] at h
  | cons x l ih =>
    simp only [jget] at h
    simp only [jaddsOf, List.map_cons, List.any_cons, Bool.or_eq_true]
    by_cases hk : k = x.key
    · left; rw [jaddsOf_key]; simp [hk]
    · rw [if_neg hk] at h; right; exact ih h

theorem startSeen_start (cols : List (List JObj)) (k : Key) : startSeen (cols.map jaddsOf) cols k = none := by
  induction cols with
  | nil => rfl
  | cons c cs ih =>
    simp only [List.map_cons, startSeen]
    cases h : jget c k with
    | none => exact ih
    | some o => simp only []; rw [any_key_jaddsOf h]; rfl

theorem startSeen_quiescent (qs : List (List JEv)) (cols : List (List JObj)) (k : Key) (hs : SufAll qs cols)
    (hq : qs.all (·.isEmpty) = true) : startSeen qs cols k = joinGetSpec cols k := by
  induction qs generalizing cols with
  | nil => cases cols with
    | nil => rfl
    | cons c cs => exact absurd hs (by simp [SufAll])
  | cons q qs ih =>
    cases cols with
    | nil => exact absurd hs (by simp [SufAll])
    | cons c cs =>
      simp only [List.all_cons, Bool.and_eq_true, List.isEmpty_iff] at hq
      simp only [startSeen, joinGetSpec]
      cases h : jget c k with
      | none => exact ih cs hs.2.2 hq.2
      | some o => simp [hq.1]

/-- what `SufAll` says about the head of queue `i`: an Add of an object that is live in collection `i`, and no
    other pending event of that key behind it -/
theorem sufAll_head (qs : List (List JEv)) (cols : List (List JObj)) (i : Nat) (e : JEv) (tl : List JEv)
    (hs : SufAll qs cols) (hh : (qs.drop i).headD [] = e :: tl) :
    ∃ o, e = ⟨none, some o⟩ ∧ jget (colAt cols i) o.key = some o ∧ tl.any (fun e' => e'.key == o.key) = false := by
  induction qs generalizing cols i with
  | nil => simp at hh
  | cons q qs ih =>
    cases cols with
    | nil => exact absurd hs (by simp [SufAll])
    | cons c cs =>
      cases i with
      | succ n =>
        simp only [List.drop_succ_cons] at hh
        simpa [colAt] using ih cs n hs.2.2 hh
      | zero =>
        simp only [List.drop_zero, List.headD_cons] at hh
        obtain ⟨⟨pre, hpre⟩, hnd, _⟩ := hs
        rw [hh] at hpre
        have hmem : e ∈ jaddsOf c := by rw [← hpre]; simp
        simp only [jaddsOf, List.mem_map] at hmem
        obtain ⟨o, ho, rfl⟩ := hmem
        refine ⟨o, rfl, by simpa [colAt] using jget_of_mem hnd ho, ?_⟩
        -- keys of pre ++ e :: tl are the keys of c: no duplicates
        have hk : ((pre ++ (⟨none, some o⟩ : JEv) :: tl).map JEv.key).Nodup := by
          rw [hpre]
          have : (jaddsOf c).map JEv.key = c.map (·.key) := by
            simp only [jaddsOf, List.map_map]; rfl
          rw [this]; exact hnd
        simp only [List.map_append, List.map_cons] at hk
        have hk2 := (List.nodup_append.1 hk).2.1
        simp only [List.nodup_cons] at hk2
        rw [Bool.eq_false_iff]
        intro hany
        simp only [List.any_eq_true, beq_iff_eq] at hany
        obtain ⟨e', he', hke⟩ := hany
        exact hk2.1 (by rw [jaddsOf_key, ← hke]; exact List.mem_map_of_mem (f := JEv.key) he')

theorem sufAll_pop (qs : List (List JEv)) (cols : List (List JObj)) (i : Nat) (hs : SufAll qs cols) :
    SufAll (updAt qs i List.tail) cols := by
  induction qs generalizing cols i with
  | nil => cases cols <;> simpa [updAt] using hs
  | cons q qs ih =>
    cases cols with
    | nil => exact absurd hs (by simp [SufAll])
    | cons c cs =>
      cases i with
      | succ n => exact ⟨hs.1, hs.2.1, ih cs n hs.2.2⟩
      | zero =>
        refine ⟨?_, hs.2.1, hs.2.2⟩
        obtain ⟨pre, hpre⟩ := hs.1
        cases q with
        | nil => exact ⟨pre, by simpa using hpre⟩
        | cons e tl => exact ⟨pre ++ [e], by simpa using hpre⟩

/-- popping an event of another key changes nothing for `k` -/
theorem startSeen_pop_other (qs : List (List JEv)) (cols : List (List JObj)) (i : Nat) (e : JEv) (tl : List JEv) (k : Key)
    (hh : (qs.drop i).headD [] = e :: tl) (hk : e.key ≠ k) :
    startSeen (updAt qs i List.tail) cols k = startSeen qs cols k := by
  induction qs generalizing cols i with
  | nil => simp at hh
  | cons q qs ih =>
    cases cols with
    | nil => simp [updAt, startSeen]
    | cons c cs =>
      cases i with
      | succ n =>
        simp only [List.drop_succ_cons] at hh
        simp only [updAt, startSeen]
        rw [ih cs n hh]
      | zero =>
        simp only [List.drop_zero, List.headD_cons] at hh
        simp only [updAt, startSeen, hh, List.tail_cons, List.any_cons]
        have : (e.key == k) = false := by simpa using hk
        rw [this, Bool.false_or]

/-- a higher-priority collection holds the key: handling (dropping) the Add changes nothing -/
theorem startSeen_pop_higher (qs : List (List JEv)) (cols : List (List JObj)) (i : Nat) (k : Key)
    (hh : hasHigher cols i k = true) : startSeen (updAt qs i List.tail) cols k = startSeen qs cols k := by
  induction qs generalizing cols i with
  | nil => simp [updAt]
  | cons q qs ih =>
    cases cols with
    | nil => simp [updAt, startSeen]
    | cons c cs =>
      cases i with
      | zero => simp [hasHigher] at hh
      | succ n =>
        simp only [hasHigher, Bool.or_eq_true] at hh
        simp only [updAt, startSeen]
        cases hc : jget c k with
        | some o => rfl
        | none =>
          simp only []
          rcases hh with h | h
          · rw [hc] at h; simp at h
          · exact ih cs n h

/-- no higher-priority collection holds the key: after its Add is handled the key shows this collection's object -/
theorem startSeen_pop_winner (qs : List (List JEv)) (cols : List (List JObj)) (i : Nat) (e : JEv) (tl : List JEv)
    (o : JObj) (hl : qs.length = cols.length) (hh : (qs.drop i).headD [] = e :: tl)
    (hhi : hasHigher cols i o.key = false) (hlive : jget (colAt cols i) o.key = some o)
    (hno : tl.any (fun e' => e'.key == o.key) = false) :
    startSeen (updAt qs i List.tail) cols o.key = some o.tok := by
  induction qs generalizing cols i with
  | nil => simp at hh
  | cons q qs ih =>
    cases cols with
    | nil => simp at hl
    | cons c cs =>
      cases i with
      | zero =>
        simp only [List.drop_zero, List.headD_cons] at hh
        simp only [colAt, List.headD_cons] at hlive
        simp only [updAt, startSeen, hlive, hh, List.tail_cons, hno]
        rfl
      | succ n =>
        simp only [hasHigher, Bool.or_eq_false_iff] at hhi
        simp only [List.drop_succ_cons] at hh
        simp only [colAt, List.tail_cons] at hlive
        simp only [updAt, startSeen]
        have hc : jget c o.key = none := by
          cases h : jget c o.key with
          | none => rfl
          | some x => rw [h] at hhi; simp at hhi
        rw [hc]
        exact ih cs n (by simpa using hl) hh hhi.2 hlive

theorem sufAll_length {qs : List (List JEv)} {cols : List (List JObj)} (hs : SufAll qs cols) : qs.length = cols.length := by
  induction qs generalizing cols with
  | nil => cases cols with
    | nil => rfl
    | cons c cs => exact absurd hs (by simp [SufAll])
  | cons q qs ih =>
    cases cols with
    | nil => exact absurd hs (by simp [SufAll])
    | cons c cs => simp only [List.length_cons]; rw [ih hs.2.2]

/-- the invariant while the initial Adds are handled (in any order) -/
structure JS (cols : List (List JObj)) (s : JSys) : Prop where
  hcols : s.cols = cols
  suf : SufAll s.qs cols
  seen : ∀ k, lookup s.processed k = startSeen s.qs cols k

theorem js_start (cols : List (List JObj)) (hnd : ∀ c ∈ cols, (c.map (·.key)).Nodup) : JS cols (JSys.start cols) :=
  ⟨rfl, sufAll_start cols hnd, fun k => by
    show lookup [] k = startSeen (cols.map jaddsOf) cols k
    rw [startSeen_start]; rfl⟩

theorem js_proc {cols : List (List JObj)} {s : JSys} (h : JS cols s) (i : Nat) : JS cols (jproc s i) := by
  unfold jproc
  cases hh : (s.qs.drop i).headD [] with
  | nil => exact h
  | cons e tl =>
    simp only []
    obtain ⟨o, rfl, hlive, hno⟩ := sufAll_head s.qs cols i e tl h.suf hh
    have hkey : (⟨none, some o⟩ : JEv).key = o.key := rfl
    have hother : ∀ k, k ≠ o.key →
        startSeen (updAt s.qs i List.tail) cols k = startSeen s.qs cols k :=
      fun k hk => startSeen_pop_other s.qs cols i _ tl k hh (by rw [hkey]; exact fun h' => hk h'.symm)
    cases hhi : hasHigher cols i o.key with
    | true =>
      have hr : refreshOne s.cols i ⟨none, some o⟩ = none := by
        simp only [refreshOne, hkey, h.hcols, hhi, if_true]
      rw [hr]
      refine ⟨h.hcols, sufAll_pop _ _ i h.suf, fun k => ?_⟩
      show lookup s.processed k = _
      rw [h.seen k]
      by_cases hk : k = o.key
      · subst hk; exact (startSeen_pop_higher s.qs cols i _ hhi).symm
      · exact (hother k hk).symm
    | false =>
      have hwin := startSeen_pop_winner s.qs cols i _ tl o (sufAll_length h.suf) hh hhi hlive hno
      have hr : ∃ ev, refreshOne s.cols i ⟨none, some o⟩ = some ev ∧
          ∀ m, jApplyProcessed m ev = AMap.set m o.key o.tok := by
        simp only [refreshOne, hkey, h.hcols, hhi]
        cases firstFrom cols (i + 1) o.key with
        | none => exact ⟨_, rfl, fun _ => rfl⟩
        | some f => exact ⟨_, rfl, fun _ => rfl⟩
      obtain ⟨ev, hev, hap⟩ := hr
      rw [hev]
      refine ⟨h.hcols, sufAll_pop _ _ i h.suf, fun k => ?_⟩
      show lookup (jApplyProcessed s.processed ev) k = _
      rw [hap, lookup_set]
      by_cases hk : k = o.key
      · subst hk; rw [if_pos rfl, hwin]
      · rw [if_neg hk, h.seen k, hother k hk]

def procsOnly (run : List JAct) : Bool := run.all (fun a => match a with | .proc _ => true | .env _ _ => false)

theorem js_exec {cols : List (List JObj)} {s : JSys} (h : JS cols s) (run : List JAct) (hp : procsOnly run = true) :
    JS cols (jexec s run) := by
  induction run generalizing s with
  | nil => exact h
  | cons a run ih =>
    simp only [procsOnly, List.all_cons, Bool.and_eq_true] at hp
    cases a with
    | env i op => simp at hp
    | proc i =>
      simp only [jexec, List.foldl_cons, jstep]
      exact ih (js_proc h i) (by simpa [procsOnly] using hp.2)

/-- **join_start_processed**: a join created over populated collections (each a map; a key MAY be in several of
    them): in whatever order the initial Adds are handled, once all are handled `processedState` - what a
    subscriber registering now receives - is the first-collection-wins contents. -/
theorem join_start_processed (cols : List (List JObj)) (hnd : ∀ c ∈ cols, (c.map (·.key)).Nodup)
    (run : List JAct) (hp : procsOnly run = true) (hq : (jexec (JSys.start cols) run).quiescent = true) :
    (jexec (JSys.start cols) run).cols = cols ∧
    MapEq (jexec (JSys.start cols) run).processed (joinContents cols) := by
  have h := js_exec (js_start cols hnd) run hp
  refine ⟨h.hcols, fun k => ?_⟩
  rw [h.seen k, startSeen_quiescent _ _ k h.suf hq]
  exact (joinGet_first_wins cols k).symm

/-! ### the subscriber that registers at that point -/

theorem chainAll_empty (qs : List (List JEv)) (cols : List (List JObj)) (hq : qs.all (·.isEmpty) = true) :
    chainAll qs cols := by
  induction qs generalizing cols with
  | nil => cases cols <;> trivial
  | cons q qs ih =>
    cases cols with
    | nil => trivial
    | cons c cs =>
      simp only [List.all_cons, Bool.and_eq_true, List.isEmpty_iff] at hq
      exact ⟨fun k => by rw [hq.1]; trivial, ih cs hq.2⟩

/-- the system as a subscriber that registers now sees it: it has received the Adds of `processedState`
    (`out` is write-only in the model: `jenv` / `jproc` never read it) -/
def JSys.lateView (s : JSys) : JSys := { s with out := addsOf s.processed }

/-- **join_start_late_subscriber**: after the populated start has been handled (`r1`, any order; keys may be
    shared between the collections), a subscriber registers with `RegisterBatch(f, true)`; for every later run
    `r2` in which an event is never handled while another collection has an unhandled event of the same key, its
    stream (the Adds of `processedState`, then everything delivered) is well formed at every moment and replays
    to the first-collection-wins contents whenever the join is quiescent. -/
theorem join_start_late_subscriber (cols : List (List JObj)) (hnd : ∀ c ∈ cols, (c.map (·.key)).Nodup)
    (r1 : List JAct) (hp : procsOnly r1 = true) (hq : (jexec (JSys.start cols) r1).quiescent = true)
    (r2 : List JAct) (hok : jrunOK (jexec (JSys.start cols) r1).lateView r2 = true) :
    WellFormed (jexec (jexec (JSys.start cols) r1).lateView r2).out ∧
    ((jexec (jexec (JSys.start cols) r1).lateView r2).quiescent = true →
      monitorB (jexec (jexec (JSys.start cols) r1).lateView r2).out
        (joinContents (jexec (jexec (JSys.start cols) r1).lateView r2).cols) = true) := by
  have hjs := js_exec (js_start cols hnd) r1 hp
  obtain ⟨hcols, hproc⟩ := join_start_processed cols hnd r1 hp hq
  have hrep : (jexec (JSys.start cols) r1).processed = replayFrom [] (jexec (JSys.start cols) r1).out :=
    processed_eq_replay _ r1 rfl
  have nd : NoDupKeys (jexec (JSys.start cols) r1).processed := by
    rw [hrep]; exact noDupKeys_replayFrom (by simp [NoDupKeys, keys]) _
  have hacc := (monitorB_iff _ _).1 (addsOf_accepted _ nd)
  have hlen := sufAll_length hjs.suf
  have hq' : (jexec (JSys.start cols) r1).qs.all (·.isEmpty) = true := hq
  have hg : JG (jexec (JSys.start cols) r1).lateView := by
    refine ⟨?_, chainAll_empty _ _ hq', ?_, hacc.1, fun k => ?_⟩
    · show (jexec (JSys.start cols) r1).qs.length = (jexec (JSys.start cols) r1).cols.length
      rw [hcols]; exact hlen
    · intro q hqm e he
      simp only [List.all_eq_true, List.isEmpty_iff] at hq'
      rw [hq' q hqm] at he; simp at he
    · show lookup (replay (addsOf (jexec (JSys.start cols) r1).processed)) k = _
      rw [hacc.2 k, hproc k]
      show _ = specOpt (dvec (jexec (JSys.start cols) r1).qs (jexec (JSys.start cols) r1).cols k)
      rw [dvec_quiescent _ _ _ (by rw [hcols]; exact hlen) hq', ← joinGetSpec_liveV, hcols]
      exact joinGet_first_wins cols k
  have h := jg_exec hg r2 hok
  refine ⟨h.wf, fun hq2 => ?_⟩
  rw [monitorB_iff]
  refine ⟨h.wf, fun k => ?_⟩
  rw [h.rep k, dvec_quiescent _ _ _ h.len hq2, ← joinGetSpec_liveV]
  exact (joinGet_first_wins _ k).symm

/-- the review's example: `k` in both collections at the start; both handling orders end with `processedState`
    = the first collection's object, and the subscriber registering then is served correctly while the first
    collection drops `k` (fallback to the second collection's object) -/
theorem join_start_shared_key_example :
    [[JAct.proc 0, .proc 1], [.proc 1, .proc 0]].all (fun r1 =>
      jrunOK (JSys.start [[f10k0], [f10k1]]) r1 == false &&
      (jexec (JSys.start [[f10k0], [f10k1]]) r1).processed == [("n/k", "from-c0")] &&
      jrunOK (jexec (JSys.start [[f10k0], [f10k1]]) r1).lateView [.env 0 (.del "n/k"), .proc 0] &&
      monitorB (jexec (jexec (JSys.start [[f10k0], [f10k1]]) r1).lateView [.env 0 (.del "n/k"), .proc 0]).out
        [("n/k", "from-c1")]) = true := by
  decide

end IstioModel.C16
