import IstioModel.C16.JoinSpec
import IstioModel.C16.MonitorTheorems

/-!
C16 - the join specification is "first collection wins" (`joinGet_first_wins`).
-/
namespace IstioModel.C16
open AMap

/-- `join.GetKey` read off the code: the first collection that has the key answers. -/
def joinGetSpec : List (List JObj) → Key → Option Val
  | [], _ => none
  | c :: cs, k =>
    match jget c k with
    | some o => some o.tok
    | none => joinGetSpec cs k

theorem lookup_map_jobj (c : List JObj) (k : Key) :
    lookup (c.map (fun o => (o.key, o.tok))) k = (jget c k).map (·.tok) := by
  induction c with
  | nil => rfl
  | cons o c ih =>
    simp only [List.map_cons, lookup, jget]
    by_cases h : k = o.key <;> simp [h, ih]

theorem lookup_append {α : Type} (a b : AMap α) (k : Key) :
    lookup (a ++ b) k = match lookup a k with
      | some v => some v
      | none => lookup b k := by
  induction a with
  | nil => simp [lookup]
  | cons p a ih =>
    obtain ⟨c, v⟩ := p
    simp only [List.cons_append, lookup]
    by_cases h : k = c <;> simp [h, ih]

theorem lookup_filter_keep (l : List JObj) (p : JObj → Bool) (k : Key)
    (h : ∀ o ∈ l, o.key = k → p o = true) :
    lookup ((l.filter p).map (fun o => (o.key, o.tok))) k = lookup (l.map (fun o => (o.key, o.tok))) k := by
  induction l with
  | nil => rfl
  | cons o l ih =>
    have ih' := ih (fun x hx => h x (List.mem_cons_of_mem _ hx))
    by_cases hk : o.key = k
    · have hp := h o (List.mem_cons_self ..) hk
      simp [hp, lookup, hk]
    · have hk' : ¬ k = o.key := fun e => hk e.symm
      by_cases hp : p o = true
      · simp [hp, lookup, hk', ih']
      · simp [hp, lookup, hk', ih']

theorem jget_key {c : List JObj} {k : Key} {o : JObj} (h : jget c k = some o) : o.key = k := by
  induction c with
  | nil => simp [jget] at h
  | cons x c ih =>
    simp only [jget] at h
    by_cases hk : k = x.key
    · simp [hk] at h; subst h; exact hk.symm
    · simp [hk] at h; exact ih h

/-- **The join specification is first-collection-wins**: `joinContents` (what `List()` must return)
    read as a map answers every key like `join.GetKey` does. -/
theorem joinGet_first_wins (cols : List (List JObj)) (k : Key) : joinGet cols k = joinGetSpec cols k := by
  induction cols with
  | nil => rfl
  | cons c cs ih =>
    simp only [joinGet, joinContents, joinObjs, List.map_append, lookup_append, lookup_map_jobj,
      joinGetSpec] at ih ⊢
    cases hc : jget c k with
    | some o => simp
    | none =>
      simp only [Option.map_none]
      rw [← lookup_map_jobj, lookup_filter_keep, lookup_map_jobj]
      · exact ih
      · intro o _ hk
        simp [hk, hc]

/-- An object of a lower-priority collection is in the join only if no earlier collection holds its key. -/
theorem joinGet_shadowed (c : List JObj) (cs : List (List JObj)) (k : Key) (o : JObj)
    (h : jget c k = some o) : joinGet (c :: cs) k = some o.tok := by
  rw [joinGet_first_wins]; simp [joinGetSpec, h]

example : joinGet [[{ key := "n/k", ns := "n", tok := "from-c0" }], [{ key := "n/k", ns := "n", tok := "from-c1" }, { key := "n/m", ns := "n", tok := "only-c1" }]] "n/k"
    = some "from-c0" := by decide
example : (joinLookup [[{ key := "n/k", ns := "n", tok := "from-c0" }], [{ key := "n/k", ns := "n", tok := "from-c1" }, { key := "n/m", ns := "n", tok := "only-c1" }]] "n").length
    = 2 := by decide

end IstioModel.C16
