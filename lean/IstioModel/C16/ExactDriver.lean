import IstioModel.Common.Wire
import IstioModel.C16.Model
import IstioModel.C16.IndexModel
import IstioModel.C16.Driver
import IstioModel.C16.JoinModel
import IstioModel.C16.JoinDriver

/-!
Driver part for the stream `exact`: the runtime model `Model.lean` (the object of the runtime
theorems) is executed on the same history as the real krt collections, one operation at a time with
a barrier after each (so that the schedule is the sequential one), and must reproduce **exactly**
what the real collection does at every step: the set of events delivered for the step, the contents
(`List`), and the index (`Index.Lookup`) - including the behaviour of finding F6, which the model has
too (no classification is needed in this stream).

    case <n> exact <transform>
    p.set <obj> | p.del <key> | s.set <obj> | s.del <key>     one source change, processed to quiescence
    p.reset <obj>* | s.reset <obj>*                           one atomic multi-event batch (`Reset`)
    start                                                     the derived collection is created (initial batch)
    pause <obj> ... resume                                    the queue is held while the changes in between are
                                                              made: schedule [env, ..., env, proc, ..., proc]
    lookup <ns>
    lateindex | flookup <key>                                 an index created late, any number of keys per object

Answer of every line after `start`: `<sorted events of the step> | <contents>`.
-/
namespace IstioModel.C16
open IstioModel.Wire

structure XState where
  T       : Transform := {}
  started : Bool := false
  prim0   : List Obj := []
  sec0    : List Obj := []
  sys     : Sys := {}
  /-- the collection's queue is held (`pause` ... `resume`): source changes only enqueue batches -/
  paused  : Bool := false
  /-- the queued batches in arrival order: `true` = primary -/
  order   : List Bool := []
  /-- state when the queue was held (the events of the whole block are printed at `resume`) -/
  held    : Sys := {}
  /-- the index created late (`lateindex`; extractor `outFetched`: 0, 1 or several keys per output):
      `idxBackfill` at creation, then `idxUpdateG` with every delivered event -/
  late    : Option (AMap (List Key)) := none
  /-- case flag `hk`: the queue is held although the transformation has key / index atoms (the reverse index,
      which the model does not have, recomputes a superset of inputs earlier): the events of a held block are
      not compared, its contents are -/
  loose   : Bool := false

def evTok : Event → String
  | .add k v => "A~" ++ k ++ "~" ++ v
  | .update k o n => "U~" ++ k ++ "~" ++ o ++ "~" ++ n
  | .delete k o => "D~" ++ k ++ "~" ++ o

def insertEvByKey (e : Event) : List Event → List Event
  | [] => [e]
  | x :: l => if e.key < x.key then e :: x :: l else x :: insertEvByKey e l

/-- stable sort by key only: events of one key keep their order (the order across keys inside one
    batch is Go map order) -/
def sortEvsByKey (l : List Event) : List Event := l.foldl (fun acc e => insertEvByKey e acc) []

/-- the Update (if not Equal) / Add changes of `StaticCollection.Reset(newState)`, in the order of `newState`;
    a key that occurs twice is compared with its earlier occurrence (the later object wins) -/
def resetSets : List Obj → List Obj → List SrcOp
  | _, [] => []
  | cur, o :: objs =>
    (if oget cur o.key == some o then [] else [SrcOp.set o]) ++ resetSets (o :: cur.filter (fun c => c.key != o.key)) objs

/-- the changes `StaticCollection.Reset(newState)` distributes, as one batch: Update (if not Equal) /
    Add in the order of `newState`, then Delete of what is left -/
def resetOps (cur objs : List Obj) : List SrcOp :=
  resetSets cur objs ++
  ((cur.filter (fun o => (oget objs o.key).isNone)).map (fun o => SrcOp.del o.key))

def showStep (before after : Sys) : String :=
  let sorted := (sortEvsByKey (after.out.drop before.out.length)).map evTok
  s!"e={sorted.length}" ++ String.join (sorted.map (fun t => " " ++ t)) ++ " | " ++ showMap after.col.outputs

/-- one source change followed by the processing of the batch it produced -/
def xApply (T : Transform) (s : Sys) (prim : Bool) (ops : List SrcOp) : Sys :=
  if prim then step T (step T s (.envP ops)) .procP
  else step T (step T s (.envS ops)) .procS

def stepX (x : XState) (toks : List String) : XState × String :=
  let changes (prim : Bool) (ops : List SrcOp) : XState × String :=
    if x.started && x.paused then
      -- schedule [env, env, ..., proc, proc, ...]: only the environment step now
      let s' := step x.T x.sys (if prim then .envP ops else .envS ops)
      let queued := if prim then s'.qP.length > x.sys.qP.length else s'.qS.length > x.sys.qS.length
      ({ x with sys := s', order := if queued then x.order ++ [prim] else x.order }, "ok")
    else if x.started then
      let s' := xApply x.T x.sys prim ops
      ({ x with sys := s' }, showStep x.sys s')
    else if prim then ({ x with prim0 := srcSteps x.prim0 ops }, "ok")
    else ({ x with sec0 := srcSteps x.sec0 ops }, "ok")
  let change (prim : Bool) (op : SrcOp) : XState × String := changes prim [op]
  match toks with
  | "case" :: _ :: _ :: t :: rest =>
    match parseTransform t with
    | none => ({}, "bad-op")
    | some T => ({ T := T, loose := rest.contains "hk" }, "ok")
  | ["p.set", o] =>
    match parseObj o with
    | none => (x, "bad-op")
    | some o => change true (.set o)
  | ["p.del", k] => change true (.del k)
  | ["s.set", o] =>
    match parseObj o with
    | none => (x, "bad-op")
    | some o => change false (.set o)
  | ["s.del", k] => change false (.del k)
  | "p.reset" :: os =>
    changes true (resetOps (if x.started then x.sys.prim else x.prim0) (os.filterMap parseObj))
  | "s.reset" :: os =>
    changes false (resetOps (if x.started then x.sys.sec else x.sec0) (os.filterMap parseObj))
  | ["start"] =>
    if x.started then (x, "bad-op") else
    let s0 : Sys := { sec := x.sec0 }
    -- `RegisterBatch(.., runExistingState = true)` on the primary: one batch of Adds
    let s1 := step x.T (step x.T s0 (.envP (x.prim0.reverse.map SrcOp.set))) .procP
    ({ x with started := true, sys := s1 }, showStep s0 s1)
  | ["pause", o] =>
    -- the queue worker is held inside the transformation of the blocker input `o`: that batch is
    -- processed now (it reads the sources as they are now), its effects become visible at `resume`
    match parseObj o with
    | none => (x, "bad-op")
    | some o =>
      if !x.started || x.paused then (x, "bad-op") else
      let s' := xApply x.T x.sys true [.set o]
      ({ x with sys := s', paused := true, order := [], held := x.sys }, "ok")
  | ["resume"] =>
    if !x.paused then (x, "bad-op") else
    let s' := x.order.foldl (fun s p => step x.T s (if p then .procP else .procS)) x.sys
    ({ x with sys := s', paused := false, order := [] },
      if x.loose then "e=* | " ++ showMap s'.col.outputs else showStep x.held s')
  | ["lookup", ns] =>
    if x.started then (x, "lookup " ++ showMap (idxLookup x.sys.col ns)) else (x, "lookup not-started")
  | _ => (x, "bad-op")

/-- `stepX` plus the late multi-key index: the functions of `late_index_correct` (IndexModel.lean) are executed
    on the events the runtime model delivers and compared with the real `Index.Lookup`
        lateindex            krt.NewIndex on the populated collection
        flookup <key>        Index.Lookup -/
def stepXL (x : XState) (toks : List String) : XState × String :=
  match toks with
  | ["lateindex"] =>
    if x.started && !x.paused && x.late.isNone then
      ({ x with late := some (idxBackfill outFetched x.sys.col.outputs) }, "ok")
    else (x, "bad-op")
  | ["flookup", ik] =>
    match x.late with
    | none => (x, "flookup no-index")
    | some ix => (x, "flookup " ++ showMap (idxLookupG ix x.sys.col.outputs ik))
  | _ =>
    let r := stepX x toks
    let evs := r.1.sys.out.drop x.sys.out.length
    ({ r.1 with late := r.1.late.map (fun ix => evs.foldl (idxUpdateG outFetched) ix) }, r.2)

/-! ### stream `joinx`: the join event-path model (JoinModel.lean) against the real JoinCollection, one
    change at a time (sequential schedule): events of the step and `List()` must be equal. -/

structure JXState where
  started : Bool := false
  sys : JSys := {}

def stepJX (x : JXState) (toks : List String) : JXState × String :=
  let show_ (before after : JSys) : String :=
    let evs := (after.out.drop before.out.length).map evTok
    s!"e={evs.length}" ++ String.join (evs.map (fun t => " " ++ t)) ++ " | " ++ showMap (joinContents after.cols)
  match toks with
  | "case" :: _ :: _ :: n :: _ => ({ sys := JSys.init (n.toNat?.getD 2) }, "ok")
  | ["start"] => ({ x with started := true }, "ok")
  | ["c.set", i, o] =>
    match i.toNat?, parseJObj o with
    | some i, some o =>
      if !x.started || i ≥ x.sys.cols.length then (x, "bad-op") else
      let s' := jproc (jenv x.sys i (.set o)) i
      ({ x with sys := s' }, show_ x.sys s')
    | _, _ => (x, "bad-op")
  | ["c.del", i, k] =>
    match i.toNat? with
    | some i =>
      if !x.started || i ≥ x.sys.cols.length then (x, "bad-op") else
      let s' := jproc (jenv x.sys i (.del k)) i
      ({ x with sys := s' }, show_ x.sys s')
    | none => (x, "bad-op")
  | _ => (x, "bad-op")

end IstioModel.C16
