import IstioModel.Common.Wire
import IstioModel.C16.Model
import IstioModel.C16.Driver

/-!
Driver part for the stream `exact`: the runtime model `Model.lean` (the object of the runtime
theorems) is executed on the same history as the real krt collections, one operation at a time with
a barrier after each (so that the schedule is the sequential one), and must reproduce **exactly**
what the real collection does at every step: the set of events delivered for the step, the contents
(`List`), and the index (`Index.Lookup`) - including the behaviour of finding F6, which the model has
too (no classification is needed in this stream).

    case <n> exact <transform>
    p.set <obj> | p.del <key> | s.set <obj> | s.del <key>     one source change, processed to quiescence
    start                                                     the derived collection is created (initial batch)
    lookup <ns>

Answer of every line after `start`: `<sorted events of the step> | <contents>`.
-/
namespace IstioModel.C16
open IstioModel.Wire

structure XState where
  T       : Transform := {}
  started : Bool := false
  prim0   : List Obj := []
  sec0    : List Obj := []
  sys     : Sys := {}

def evTok : Event → String
  | .add k v => "A~" ++ k ++ "~" ++ v
  | .update k o n => "U~" ++ k ++ "~" ++ o ++ "~" ++ n
  | .delete k o => "D~" ++ k ++ "~" ++ o

def showStep (before after : Sys) : String :=
  let evs := (after.out.drop before.out.length).map evTok
  let sorted := sortStrings evs
  s!"e={sorted.length}" ++ String.join (sorted.map (fun t => " " ++ t)) ++ " | " ++ showMap after.col.outputs

/-- one source change followed by the processing of the batch it produced -/
def xApply (T : Transform) (s : Sys) (prim : Bool) (op : SrcOp) : Sys :=
  if prim then step T (step T s (.envP [op])) .procP
  else step T (step T s (.envS [op])) .procS

def stepX (x : XState) (toks : List String) : XState × String :=
  let change (prim : Bool) (op : SrcOp) : XState × String :=
    if x.started then
      let s' := xApply x.T x.sys prim op
      ({ x with sys := s' }, showStep x.sys s')
    else if prim then ({ x with prim0 := srcStep x.prim0 op }, "ok")
    else ({ x with sec0 := srcStep x.sec0 op }, "ok")
  match toks with
  | "case" :: _ :: _ :: t :: _ =>
    match parseTransform t with
    | none => ({}, "bad-op")
    | some T => ({ T := T }, "ok")
  | ["p.set", o] =>
    match parseObj o with
    | none => (x, "bad-op")
    | some o => change true (.set o)
  | ["p.del", k] => change true (.del k)
  | ["s.set", o] =>
    match parseObj o with
    | none => (x, "bad-op")
    | some o => change false (.set o)
  | ["s.del", k] => change false (.del k)
  | ["start"] =>
    if x.started then (x, "bad-op") else
    let s0 : Sys := { sec := x.sec0 }
    -- `RegisterBatch(.., runExistingState = true)` on the primary: one batch of Adds
    let s1 := step x.T (step x.T s0 (.envP (x.prim0.reverse.map SrcOp.set))) .procP
    ({ x with started := true, sys := s1 }, showStep s0 s1)
  | ["lookup", ns] =>
    if x.started then (x, "lookup " ++ showMap (idxLookup x.sys.col ns)) else (x, "lookup not-started")
  | _ => (x, "bad-op")

end IstioModel.C16
