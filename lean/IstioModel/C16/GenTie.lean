import IstioModel.Generated.C16RegFacts

/-!
C16 - regenerated source-level facts (T-gen, `harness/c16 table regfacts`, go/ast over the checked
tree): every `eventHandlers.Insert` (registration: snapshot + insertion of the handler) and every
`eventHandlers.Distribute` (delivery of a batch) in collection.go, static.go, join.go, mergejoin.go,
nestedjoinmerge.go is called while the collection lock taken earlier in the same function is still
held.  This is the atomicity hypothesis of `reg_atomic_accepted` (Registration.lean).
-/
namespace IstioModel.C16
open IstioModel.Generated.C16

/-- the call sites that must exist (a refactoring that moves them is a broken tie, not a pass) -/
def requiredSites : List (String × String × String) :=
  [ ("collection.go", "manyCollection.RegisterBatch", "Insert"),
    ("collection.go", "manyCollection.handleChangedPrimaryInputEvents", "Distribute"),
    ("static.go", "staticList.RegisterBatch", "Insert"),
    ("static.go", "staticList.updateObject", "Distribute"),
    ("static.go", "staticList.DeleteObject", "Distribute"),
    ("join.go", "join.RegisterBatch", "Insert"),
    ("join.go", "join.handleSubCollectionEvents", "Distribute"),
    ("mergejoin.go", "mergejoin.RegisterBatch", "Insert"),
    ("mergejoin.go", "mergejoin.onSubCollectionEventHandler", "Distribute") ]

/-- every Insert / Distribute call found in the sources is made with the collection lock held -/
theorem registration_under_lock : regFacts.all (fun f => f.2.2.2) = true := by decide

/-- all the call sites the model speaks about were found -/
theorem registration_sites_present :
    requiredSites.all (fun r => regFacts.any (fun f => f.1 == r.1 && f.2.1 == r.2.1 && f.2.2.1 == r.2.2)) = true := by
  decide

end IstioModel.C16
