import IstioModel.Generated.C16RegFacts

/-!
C16 - regenerated source-level facts (T-gen, `harness/c16 table regfacts`, go/ast over the checked
tree): every `eventHandlers.Insert` (registration: snapshot + insertion of the handler) and every
`eventHandlers.Distribute` (delivery of a batch) in collection.go, static.go, join.go, mergejoin.go,
nestedjoinmerge.go is called while the collection lock taken earlier in the same function is still
held, that critical section is the only one opened on the path to the call, and the snapshot an `Insert`
carries is read from the collection state inside that same critical section (a snapshot taken under the
lock, `Unlock`, `Lock` again, `Insert` is the registration gap of `reg_gap_witness`); every `Distribute` and
every write to the collection state happens under the WRITE lock (a writer under `RLock` would run next to
a registration that holds the read lock).  This is the
atomicity hypothesis of `reg_atomic_accepted` (Registration.lean).
-/
namespace IstioModel.C16
open IstioModel.Generated.C16

/-- the call sites that must exist (a refactoring that moves them is a broken tie, not a pass) -/
def requiredSites : List (String × String × String) :=
  [ ("collection.go", "manyCollection.RegisterBatch", "Insert"),
    ("collection.go", "manyCollection.handleChangedPrimaryInputEvents", "Distribute"),
    ("static.go", "staticList.RegisterBatch", "Insert"),
    ("static.go", "staticList.updateObject", "Distribute"),
    ("static.go", "staticList.DeleteObject", "Distribute"),
    ("join.go", "join.RegisterBatch", "Insert"),
    ("join.go", "join.handleSubCollectionEvents", "Distribute"),
    ("mergejoin.go", "mergejoin.RegisterBatch", "Insert"),
    ("mergejoin.go", "mergejoin.onSubCollectionEventHandler", "Distribute") ]

/-- the functions without receiver that may touch the state: the constructor of the join (the collection is not
    published yet). Any other receiver-less function that writes the state breaks the theorems below. -/
def isCtor (f : String × String × String × Bool × Bool × String × Bool) : Bool := f.2.1 == "func.JoinCollection"

/-- every Insert / Distribute call and every write to the collection state found in the sources happens with the
    collection lock held -/
theorem registration_under_lock : regFacts.all (fun f => isCtor f || f.2.2.2.1) = true := by decide

/-- ... and that critical section is the only one the function opened on the way there: no
    `Unlock` + second `Lock` between computing the events / the snapshot and handing them over -/
theorem registration_one_critical_section : regFacts.all (fun f => isCtor f || f.2.2.2.2.1) = true := by decide

/-- every `Distribute` and every write to the state (`collectionState.outputs / mappings / inputs`,
    `processedState`, `vals`, `outputs`) is made under the WRITE lock (`Lock()`, not `RLock()`): a registration,
    which holds at least the read lock while it snapshots and inserts, excludes them -/
theorem writers_hold_the_write_lock :
    regFacts.all (fun f => f.2.2.1 == "Insert" || isCtor f || f.2.2.2.2.2.2) = true := by decide

/-- every `Insert` either carries no initial events or reads the collection state it snapshots
    (`collectionState.outputs` / `processedState` / `vals` / `outputs`) inside the critical section of the
    `Insert` itself and nowhere else before it -/
theorem registration_snapshot_in_same_span :
    regFacts.all (fun f => f.2.2.1 != "Insert" || f.2.2.2.2.2.1 == "nil" || f.2.2.2.2.2.1 == "same-span") = true := by
  decide

/-- each of the four `RegisterBatch` implementations has an `Insert` that carries such a snapshot -/
theorem registration_snapshot_sites_present :
    ["manyCollection.RegisterBatch", "staticList.RegisterBatch", "join.RegisterBatch", "mergejoin.RegisterBatch"].all
      (fun m => regFacts.any (fun f => f.2.1 == m && f.2.2.1 == "Insert" && f.2.2.2.2.2.1 == "same-span")) = true := by
  decide

/-- the writes the facts speak about were found (a refactoring that hides them from the extractor is a broken tie) -/
theorem state_write_sites_present :
    [("manyCollection.handleChangedPrimaryInputEvents", "write collectionState.outputs"),
     ("manyCollection.handleChangedPrimaryInputEvents", "write collectionState.mappings"),
     ("staticList.updateObject", "write vals"), ("StaticCollection.Reset", "write vals"),
     ("join.handleSubCollectionEvents", "write processedState"),
     ("mergejoin.onSubCollectionEventHandler", "write outputs"),
     ("nestedjoinmerge.handleCollectionUpdate", "write outputs")].all
      (fun r => regFacts.any (fun f => f.2.1 == r.1 && f.2.2.1 == r.2)) = true := by
  decide

/-- all the call sites the model speaks about were found -/
theorem registration_sites_present :
    requiredSites.all (fun r => regFacts.any (fun f => f.1 == r.1 && f.2.1 == r.2.1 && f.2.2.1 == r.2.2)) = true := by
  decide

end IstioModel.C16
