import IstioModel.C16.Monitor

/-
C16 - the data-described transformation language shared by the Lean specification and the Go
harness (harness/c16), and the specification `specContents`: the contents a derived collection
must have = the transformation applied to the current inputs.

A derived collection is `krt.NewManyCollection(prim, f)` / `krt.NewCollection(prim, f)` where the
Go function `f` *interprets* a `Transform` value: for an input object it performs the listed
`krt.Fetch`es on a second collection `sec` (filters built from the input's own fields) and builds
its outputs from the input and the fetched objects.  Core Lean only.
-/
namespace IstioModel.C16

/-- The object type of both input collections (Go: `harness/c16.Obj`; implements
    `ResourceName`, `GetLabels`, `GetLabelSelector`, `GetName`, `GetNamespace`). -/
structure Obj where
  ns     : String
  name   : String
  labels : List (String × String) := []
  /-- the Go label map is nil (not just empty): `krt.FilterSelects(nil)` does not filter at all -/
  labelsNil : Bool := false
  sel    : List (String × String) := []
  /-- output keys this object produces when it is the input of a one-to-many transformation -/
  outs   : List String := []
  /-- key of the object it refers to (`krt.FilterKey`) -/
  ref    : String := ""
  val    : String := ""
  deriving DecidableEq, Repr, Inhabited

/-- `krt.Named.ResourceName`: `namespace/name`. -/
def Obj.key (o : Obj) : Key := o.ns ++ "/" ++ o.name

def lget (l : List (String × String)) (k : String) : Option String :=
  match l with
  | [] => none
  | (c, v) :: r => if k = c then some v else lget r k

/-- `labels.Instance.SubsetOf` (pkg/config/labels/instance.go) on label maps with distinct keys. -/
def subsetOf (a b : List (String × String)) : Bool := a.all (fun kv => lget b kv.1 == some kv.2)

/-- One conjunct of a `krt.Fetch` filter; `i` is the input object being transformed. -/
inductive FAtom where
  /-- `krt.FilterKey(i.ref)` -/
  | key
  /-- `krt.FilterSelects(i.labels)`: the fetched object's selector is a subset of the input's labels -/
  | selects
  /-- `krt.FilterSelectsNonEmpty(i.labels)`: as `selects`, but an empty selector selects nothing -/
  | selectsNE
  /-- `krt.FilterLabel(i.sel)`: the input's selector is a subset of the fetched object's labels -/
  | label
  /-- `krt.FilterIndex(namespaceIndex(sec), i.ns)` -/
  | nsIndex
  /-- `krt.FilterIndex(valueIndex(sec), i.val)`: an index whose key changes when the object changes -/
  | valIndex
  /-- `krt.FilterIndex(outsIndex(sec), outKeyOf i)`: an index whose extractor returns SEVERAL keys per
      object (`o.outs`); the fetched objects are those with the key anywhere among them -/
  | outIndex
  /-- `krt.FilterKeys(i.ref, i.ns/x)`: several keys -/
  | keys
  /-- `krt.FilterObjectName({Namespace: i.ns, Name: "y"})` -/
  | objName
  /-- `krt.FilterKeys(empty...)` with an empty, non-nil slice: an empty set of keys matches nothing -/
  | noKeys
  /-- `krt.FilterKeys()` without arguments (a nil slice): krt treats the nil set as "no key filter": everything -/
  | nilKeys
  /-- `krt.FilterGeneric(pred n i)` -/
  | generic (n : Nat)
  deriving DecidableEq, Repr, Inhabited

/-- The generic predicates (by id). -/
def genericPred (n : Nat) (i o : Obj) : Bool :=
  match n % 3 with
  | 0 => o.val == i.val
  | 1 => o.name == i.name
  | _ => !o.outs.isEmpty

/-- the key looked up in the multi-key index: chosen by the input's value -/
def outKeyOf (i : Obj) : String :=
  if i.val == "v1" then "k1" else if i.val == "v2" then "k2" else if i.val == "v3" then "k3" else "k4"

/-- `filter.Matches` for one conjunct. -/
def FAtom.matches (i : Obj) : FAtom → Obj → Bool
  | .key, o => o.key == i.ref
  | .selects, o => i.labelsNil || subsetOf o.sel i.labels
  | .selectsNE, o => !o.sel.isEmpty && subsetOf o.sel i.labels
  | .label, o => subsetOf i.sel o.labels
  | .nsIndex, o => o.ns == i.ns
  | .valIndex, o => o.val == i.val
  | .outIndex, o => o.outs.contains (outKeyOf i)
  | .keys, o => o.key == i.ref || o.key == i.ns ++ "/x"
  | .objName, o => o.key == i.ns ++ "/y"
  | .noKeys, _ => false
  | .nilKeys, _ => true
  | .generic n, o => genericPred n i o

/-- A fetch = a conjunction of atoms. -/
abbrev FetchSpec := List FAtom

def FetchSpec.matches (f : FetchSpec) (i o : Obj) : Bool := f.all (fun a => a.matches i o)

/-- The data description of a transformation. -/
structure Transform where
  /-- `true`: `NewManyCollection`, one output per element of `i.outs` (that element is the output
      key, so keys can move between parents); `false`: `NewCollection`, one output keyed like the input -/
  multi   : Bool := false
  /-- `NewCollection` whose output key is NOT the input's key: `val/<i.val>` (one-to-one, but the key
      moves to another parent when another input takes the value) -/
  byVal   : Bool := false
  /-- the fetches performed on the secondary collection, in order -/
  fetches : List FetchSpec := []
  /-- `true`: no output at all while the first fetch returns nothing -/
  gate    : Bool := false
  deriving DecidableEq, Repr, Inhabited

/-- `krt.Fetch(ctx, sec, filters...)`: the objects of `sec` that match. -/
def fetch (sec : List Obj) (i : Obj) (f : FetchSpec) : List Obj := sec.filter (fun o => f.matches i o)

def insertSorted (x : String) : List String → List String
  | [] => [x]
  | y :: l => if x ≤ y then x :: y :: l else y :: insertSorted x l

/-- insertion sort (structural recursion, so that closed examples evaluate in the kernel) -/
def sortStrings (l : List String) : List String := l.foldr insertSorted []

/-- Canonical rendering of one fetch result (krt's `List` order is undefined: sorted). -/
def renderFetch (l : List Obj) : String :=
  "[" ++ ",".intercalate (sortStrings (l.map (fun o => o.key ++ "=" ++ o.val))) ++ "]"

/-- The value of every output of input `i`: `ns|key:val|[fetch1][fetch2]...`. -/
def outVal (T : Transform) (sec : List Obj) (i : Obj) : Val :=
  i.ns ++ "|" ++ i.key ++ ":" ++ i.val ++ "|" ++ String.join (T.fetches.map (fun f => renderFetch (fetch sec i f)))

/-- Namespace of an output value (the derived collection is indexed by it). -/
def outNs (v : Val) : String := (v.splitOn "|").headD ""

/-- The keys of the fetched objects rendered in an output value: the derived collection is also
    indexed by them (an extractor that returns no, one or several index keys). -/
def outFetched (v : Val) : List String :=
  ((v.splitOn "[").drop 1).flatMap (fun seg =>
    ((((seg.splitOn "]").headD "").splitOn ",").filter (· ≠ "")).map (fun e => (e.splitOn "=").headD ""))

def gated (T : Transform) (sec : List Obj) (i : Obj) : Bool :=
  T.gate && match T.fetches with
    | [] => false
    | f :: _ => (fetch sec i f).isEmpty

def outKeys (T : Transform) (i : Obj) : List Key :=
  if T.multi then i.outs else if T.byVal then ["val/" ++ i.val] else [i.key]

/-- The transformation function: outputs `(key, value)` of input `i` given the secondary collection. -/
def transform (T : Transform) (sec : List Obj) (i : Obj) : List (Key × Val) :=
  if gated T sec i then [] else (outKeys T i).map (fun k => (k, outVal T sec i))

/-- **The specification**: the derived collection's contents = the transformation applied to the
    current inputs (read through `AMap.lookup`). -/
def specContents (T : Transform) (prim sec : List Obj) : FinMap := prim.flatMap (transform T sec)

/-- `Collection.GetKey`. -/
def specGet (T : Transform) (prim sec : List Obj) (k : Key) : Option Val :=
  AMap.lookup (specContents T prim sec) k

/-- `Index.Lookup` of the namespace index on the derived collection. -/
def specLookup (T : Transform) (prim sec : List Obj) (ns : String) : FinMap :=
  (specContents T prim sec).filter (fun kv => outNs kv.2 == ns)

/-- `Index.Lookup` of the fetched-keys index on the derived collection. -/
def specLookupF (T : Transform) (prim sec : List Obj) (k : String) : FinMap :=
  (specContents T prim sec).filter (fun kv => (outFetched kv.2).contains k)

/-! ### two fetched collections: fetches at even positions go to `sec`, at odd positions to `sec2` -/

def fetchAlt (sec sec2 : List Obj) (i : Obj) (n : Nat) (f : FetchSpec) : List Obj :=
  fetch (if n % 2 == 0 then sec else sec2) i f

def outValAlt (T : Transform) (sec sec2 : List Obj) (i : Obj) : Val :=
  i.ns ++ "|" ++ i.key ++ ":" ++ i.val ++ "|" ++
    String.join (T.fetches.mapIdx (fun n f => renderFetch (fetchAlt sec sec2 i n f)))

def gatedAlt (T : Transform) (sec : List Obj) (i : Obj) : Bool := gated T sec i

def transformAlt (T : Transform) (sec sec2 : List Obj) (i : Obj) : List (Key × Val) :=
  if gatedAlt T sec i then [] else (outKeys T i).map (fun k => (k, outValAlt T sec sec2 i))

def specContentsAlt (T : Transform) (prim sec sec2 : List Obj) : FinMap :=
  prim.flatMap (transformAlt T sec sec2)

/-- The library's unique-key contract on the *current* inputs: two different inputs never produce
    the same output key. -/
def uniqueKeysB (T : Transform) (prim sec : List Obj) : Bool :=
  prim.all (fun i => prim.all (fun j => i.key == j.key ||
    (transform T sec i).all (fun kv => !((transform T sec j).map (·.1)).contains kv.1)))

end IstioModel.C16
