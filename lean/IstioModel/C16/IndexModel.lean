import IstioModel.C16.Model

/-!
C16 - index maintenance for ANY extractor (`extract : O → []string`: no, one or several index keys per
object), created at ANY time: `manyCollection.index()` fills a new index from the current outputs
(`idxBackfill`), `collectionIndex.update` keeps it with every delivered event (`idxUpdateG`).
Core only: these are the functions `late_index_correct` (IndexGenTheorems.lean) speaks about AND the ones
the driver of the stream `exact` executes for `lateindex` / `flookup` (ExactDriver.lean, `stepXL`).
-/
namespace IstioModel.C16
open AMap

/-- `sets.DeleteCleanupLast(c.index, ik, k)` -/
def idxDel1 (ix : AMap (List Key)) (ik : String) (k : Key) : AMap (List Key) :=
  match lookup ix ik with
  | none => ix
  | some ks =>
    if (ks.filter (fun x => x != k)).isEmpty then erase ix ik
    else AMap.set ix ik (ks.filter (fun x => x != k))

/-- `sets.InsertOrNew(c.index, ik, k)` -/
def idxIns1 (ix : AMap (List Key)) (ik : String) (k : Key) : AMap (List Key) :=
  match lookup ix ik with
  | none => AMap.set ix ik [k]
  | some ks => if ks.contains k then ix else AMap.set ix ik (k :: ks)

/-- `collectionIndex.delete(o, k)`: for every extracted index key -/
def idxDelG (ext : Val → List String) (ix : AMap (List Key)) (v : Val) (k : Key) : AMap (List Key) :=
  (ext v).foldl (fun ix ik => idxDel1 ix ik k) ix

def idxInsG (ext : Val → List String) (ix : AMap (List Key)) (v : Val) (k : Key) : AMap (List Key) :=
  (ext v).foldl (fun ix ik => idxIns1 ix ik k) ix

/-- `collectionIndex.update(ev, key)` -/
def idxUpdateG (ext : Val → List String) (ix : AMap (List Key)) : Event → AMap (List Key)
  | .add k v => idxInsG ext ix v k
  | .update k o n => idxInsG ext (idxDelG ext ix o k) n k
  | .delete k o => idxDelG ext ix o k

/-- `manyCollection.index()`: a new index is filled from the current outputs -/
def idxBackfill (ext : Val → List String) (m : FinMap) : AMap (List Key) :=
  m.foldl (fun ix kv => idxInsG ext ix kv.2 kv.1) []

/-- `Index.Lookup(ik)`: the keys filed under `ik`, with the current objects -/
def idxLookupG (ix : AMap (List Key)) (outputs : FinMap) (ik : String) : FinMap :=
  ((lookup ix ik).getD []).filterMap (fun k => (lookup outputs k).map (fun v => (k, v)))

end IstioModel.C16
