import IstioModel.Common.Wire
import IstioModel.C16.JoinSpec
import IstioModel.C16.Driver

/-!
Driver part for the streams `join`, `joinr` (krt.JoinCollection over 2-3 static collections).

    case <n> join|joinr <ncols> [jr]
    c.set <i> <obj> | c.del <i> <key>     change of sub-collection i
    start | sub | sync | list | get | lookup | stream | ulist | ulookup | ustream    as for `krt`

Barrier discipline: a key changed in two different sub-collections since the last barrier, while a
subscriber is registered (or registers), is *unsafe* (`U`): the join converts and drops events of one
sub-collection by looking at the live contents of the others, not at what it has delivered
(finding F10). Cases flagged `jr` answer split by `U`; other cases must stay disciplined.
-/
namespace IstioModel.C16
open IstioModel.Wire

structure JState where
  /-- `krt.JoinWithMergeCollection` (stream `joinm`): events come from the collection's own cache, no
      discipline is needed -/
  merge   : Bool := false
  /-- `krt.NestedJoinWithMergeCollection` (stream `joinn`): `member i` = collection i is in the outer collection -/
  nested  : Bool := false
  member  : List Bool := []
  /-- nested: nothing happened since the last barrier / an outer change waits for its barrier / the rule
      "the outer collection changes at quiescent points only" was broken (finding F13 otherwise) -/
  quiet   : Bool := false
  needSync : Bool := false
  undisc  : Bool := false
  /-- flagged nested cases (F13): the keys the race can have touched, instead of "every key".  `pending`: the
      collections whose outer change awaits its barrier; `involved`: the collections that took part in an outer
      change made with events in flight (their membership handling can stay wrong for good); `flight`: the keys
      changed since the last barrier; `window`: such an outer change happened since the last barrier -/
  tainted : List Key := []
  pending : List Nat := []
  involved : List Nat := []
  flight  : List Key := []
  window  : Bool := false
  flagged : Bool := false
  started : Bool := false
  cols    : List (List JObj) := []
  /-- per key: the sub-collections that changed it since the last barrier -/
  touched : AMap (List Nat) := []
  unsafeK : List Key := []
  nsubs   : Nat := 0
  subs    : AMap FinMap := []
  /-- subscribers whose handler was unregistered: the contents at that moment -/
  jfrozen : AMap FinMap := []

def parseJObj (t : String) : Option JObj :=
  match t.splitOn ";" with
  | [ns, name, _, _, _, _, val] => some { key := ns ++ "/" ++ name, ns := ns, tok := t, name := name, val := val }
  | _ => none

def updCol (cols : List (List JObj)) (i : Nat) (f : List JObj → List JObj) : List (List JObj) :=
  cols.mapIdx (fun j c => if j = i then f c else c)

def multi (j : JState) : List Key :=
  (j.touched.filter (fun e => e.2.length ≥ 2)).map (·.1)

def addUnsafe (j : JState) (ks : List Key) : JState :=
  { j with unsafeK := j.unsafeK ++ dedupS (ks.filter (fun k => !j.unsafeK.contains k)) }

/-- the collections that take part: all of them, or the members of the outer collection -/
def activeCols (j : JState) : List (List JObj) :=
  if j.nested then (j.cols.zip j.member).filterMap (fun p => if p.2 then some p.1 else none) else j.cols

def jobjs (j : JState) : List JObj :=
  if j.nested then nmergeObjs (activeCols j) else if j.merge then mergeObjs j.cols else joinObjs j.cols

def jcontents (j : JState) : FinMap := (jobjs j).map (fun o => (o.key, o.tok))
def jlookup (j : JState) (ns : String) : FinMap := ((jobjs j).filter (fun o => o.ns == ns)).map (fun o => (o.key, o.tok))

/-- `Index.Lookup` of the value index (extract = the `+`-separated parts of the value: one key for a plain
    join, several for a merged object; the bucket changes when the object changes) -/
def jvlookup (j : JState) (v : String) : FinMap :=
  (((jobjs j).filter (fun o => (o.val.splitOn "+").contains v)).map (fun o => (o.key, o.tok)))

def touch (j : JState) (k : Key) (i : Nat) : JState :=
  if !j.started || j.merge then j else
  let l := (AMap.lookup j.touched k).getD []
  if l.contains i then j else
  let j' := { j with touched := AMap.set j.touched k (l ++ [i]) }
  if l.length + 1 ≥ 2 && j.nsubs > 0 then addUnsafe j' [k] else j'

def jbarrier (j : JState) : JState :=
  { j with touched := [], quiet := true, needSync := false, pending := [], flight := [], window := false }

def taint (j : JState) (ks : List Key) : JState :=
  { j with tainted := j.tainted ++ dedupS (ks.filter (fun k => !j.tainted.contains k)) }

def keysOfCol (j : JState) (i : Nat) : List Key := (j.cols.getD i []).map (·.key)

/-- an outer change meets events in flight: the collections whose outer change is pending are involved, their
    keys and the keys in flight are tainted, and so is every key changed before the next barrier -/
def raced (j : JState) : JState :=
  let j1 := { j with involved := j.involved ++ j.pending.filter (fun i => !j.involved.contains i), window := true }
  taint j1 (j.pending.flatMap (keysOfCol j) ++ j.flight)

/-- an operation on joined collection `i` that changes key `k` (a registration: no key) -/
def innerOp (j : JState) (k : Option Key := none) (i : Nat := 0) : JState :=
  if j.nested && j.started then
    let j1 := { j with quiet := false, undisc := j.undisc || j.needSync,
                       flight := match k with | some k => k :: j.flight | none => j.flight }
    let j2 := if j.needSync then raced j1 else j1
    match k with
    | some k => if j2.window || j2.involved.contains i then taint j2 [k] else j2
    | none => j2
  else j

/-- a change of the outer collection that concerns collection `i` -/
def outerOp (j : JState) (i : Nat) : JState :=
  if j.nested && j.started then
    let bad := !j.quiet || j.needSync
    let j1 := { j with undisc := j.undisc || bad, quiet := false, needSync := true,
                       pending := if j.pending.contains i then j.pending else i :: j.pending }
    let j2 := if bad then raced j1 else j1
    if j2.involved.contains i then taint j2 (keysOfCol j2 i) else j2
  else j

def startTouched (cols : List (List JObj)) : AMap (List Nat) :=
  let keys := dedupS (cols.flatMap (fun c => c.map (·.key)))
  keys.map (fun k => (k, (List.range cols.length).filter (fun i => ((cols.getD i []).any (fun o => o.key == k)))))

/-- the keys of the known class of a flagged case: F10 - the keys changed by two collections between barriers;
    F13 (nested) - the tainted keys, and the key of the zero-valued object (`/`) under which a Delete with a
    zero-valued Old arrives -/
def jInU (j : JState) (k : Key) : Bool :=
  j.flagged && (if j.nested then j.tainted.contains k || k == "" || k == "/" else j.unsafeK.contains k)

def jguard (j : JState) : Option String :=
  if !j.started then some "not-started"
  else if !j.flagged && (!j.unsafeK.isEmpty || j.undisc) then some "undisciplined"
  else none

def janswer (j : JState) (u : Bool) (body : JState → String) : String :=
  match jguard j with
  | some g => g
  | none => if u && !j.flagged then "not-flagged" else body j

def stepJ (j : JState) (toks : List String) : JState × String :=
  match toks with
  | "case" :: _ :: stream :: n :: rest =>
    let nn := stream.startsWith "joinn"
    ({ cols := List.replicate (n.toNat?.getD 2) [], flagged := rest.contains "jr",
       merge := stream.startsWith "joinm" || nn, nested := nn, member := List.replicate (n.toNat?.getD 2) false }, "ok")
  | ["o.add", i] =>
    match i.toNat? with
    | some i => if i < j.cols.length then ({ outerOp j i with member := j.member.set i true }, "ok") else (j, "bad-op")
    | none => (j, "bad-op")
  | ["o.del", i] =>
    match i.toNat? with
    | some i => if i < j.cols.length then ({ outerOp j i with member := j.member.set i false }, "ok") else (j, "bad-op")
    | none => (j, "bad-op")
  | ["o.touch", i] =>
    match i.toNat? with
    | some i => if i < j.cols.length then ((if j.member.getD i false then outerOp j i else j), "ok") else (j, "bad-op")
    | none => (j, "bad-op")
  | ["c.set", i, o] =>
    match i.toNat?, parseJObj o with
    | some i, some o =>
      if i < j.cols.length then
        let j' := touch (innerOp j (some o.key) i) o.key i
        ({ j' with cols := updCol j'.cols i (fun c => jset c o) }, "ok")
      else (j, "bad-op")
    | _, _ => (j, "bad-op")
  | ["c.del", i, k] =>
    match i.toNat? with
    | some i =>
      if i < j.cols.length then
        if (jget (j.cols.getD i []) k).isSome then
          let j' := touch (innerOp j (some k) i) k i
          ({ j' with cols := updCol j'.cols i (fun c => jdel c k) }, "ok")
        else (j, "ok")
      else (j, "bad-op")
    | none => (j, "bad-op")
  | ["start"] =>
    if j.started then (j, "ok")
    else ({ j with started := true, unsafeK := [], touched := if j.merge then [] else startTouched j.cols }, "ok")
  | ["sync"] => (jbarrier j, "ok")
  | ["sub", name, kind] =>
    if !j.started then (j, "ok") else
    let j := if kind == "nostate" then jbarrier j else innerOp j
    let j := addUnsafe j (multi j)
    ({ j with nsubs := j.nsubs + 1,
              subs := AMap.set j.subs name (if kind == "nostate" then jcontents j else []) }, "ok")
  | ["junsub", name] =>
    if !j.started then (j, "ok") else
    let j := jbarrier j
    (if (AMap.lookup j.subs name).isSome && (AMap.lookup j.jfrozen name).isNone
      then { j with jfrozen := AMap.set j.jfrozen name (jcontents j) } else j, "ok")
  | ["list"] =>
    let j := jbarrier j
    (j, "list " ++ janswer j false (fun j => showMap (restrictMap (fun k => !jInU j k) (jcontents j))))
  | ["ulist"] =>
    let j := jbarrier j
    (j, "ulist " ++ janswer j true (fun j => showMap (restrictMap (jInU j) (jcontents j))))
  | ["get", k] =>
    let j := jbarrier j
    (j, "get " ++ janswer j false (fun j =>
      if jInU j k then "masked" else
      match AMap.lookup (jcontents j) k with
      | none => "none"
      | some v => v))
  | ["lookup", ns] =>
    let j := jbarrier j
    (j, "lookup " ++ janswer j false (fun j => showMap (restrictMap (fun k => !jInU j k) (jlookup j ns))))
  | ["vlookup", v] =>
    let j := jbarrier j
    (j, "vlookup " ++ janswer j false (fun j => showMap (restrictMap (fun k => !jInU j k) (jvlookup j v))))
  | ["ulookup", ns] =>
    let j := jbarrier j
    (j, "ulookup " ++ janswer j true (fun j => showMap (restrictMap (jInU j) (jlookup j ns))))
  | "stream" :: name :: evs =>
    let j := jbarrier j
    (j, "stream " ++ janswer j false (fun j =>
      match parseEvents evs, AMap.lookup j.subs name with
      | some es, some m0 =>
        let p := fun k => !jInU j k
        showVerdict (restrictMap p m0) (restrictStream p es) (restrictMap p ((AMap.lookup j.jfrozen name).getD (jcontents j)))
      | none, _ => "reject:malformed-event"
      | _, none => "unknown-subscriber"))
  | "ustream" :: name :: evs =>
    let j := jbarrier j
    (j, "ustream " ++ janswer j true (fun j =>
      match parseEvents evs, AMap.lookup j.subs name with
      | some es, some m0 =>
        showVerdict (restrictMap (jInU j) m0) (restrictStream (jInU j) es)
          (restrictMap (jInU j) ((AMap.lookup j.jfrozen name).getD (jcontents j)))
      | none, _ => "reject:malformed-event"
      | _, none => "unknown-subscriber"))
  | _ => (j, "bad-op")

/-- The driver state of `drv_c16`: one of the two sub-drivers, selected by the case header. -/
structure AllState where
  join : Bool := false
  k : DState := {}
  j : JState := {}

def stepAll (a : AllState) (toks : List String) : AllState × String :=
  match toks with
  | "case" :: _ :: stream :: _ =>
    if stream.startsWith "join" then
      let r := stepJ {} toks
      ({ join := true, j := r.1 }, r.2)
    else
      let r := stepD {} toks
      ({ join := false, k := r.1 }, r.2)
  | _ =>
    if a.join then
      let r := stepJ a.j toks
      ({ a with j := r.1 }, r.2)
    else
      let r := stepD a.k toks
      ({ a with k := r.1 }, r.2)

end IstioModel.C16
