import IstioModel.Common.Wire
import IstioModel.C16.JoinSpec
import IstioModel.C16.Driver

/-!
Driver part for the streams `join`, `joinr` (krt.JoinCollection over 2-3 static collections).

    case <n> join|joinr <ncols> [jr]
    c.set <i> <obj> | c.del <i> <key>     change of sub-collection i
    start | sub | sync | list | get | lookup | stream | ulist | ulookup | ustream    as for `krt`

Barrier discipline: a key changed in two different sub-collections since the last barrier, while a
subscriber is registered (or registers), is *unsafe* (`U`): the join converts and drops events of one
sub-collection by looking at the live contents of the others, not at what it has delivered
(finding F10). Cases flagged `jr` answer split by `U`; other cases must stay disciplined.
-/
namespace IstioModel.C16
open IstioModel.Wire

structure JState where
  /-- `krt.JoinWithMergeCollection` (stream `joinm`): events come from the collection's own cache, no
      discipline is needed -/
  merge   : Bool := false
  flagged : Bool := false
  started : Bool := false
  cols    : List (List JObj) := []
  /-- per key: the sub-collections that changed it since the last barrier -/
  touched : AMap (List Nat) := []
  unsafeK : List Key := []
  nsubs   : Nat := 0
  subs    : AMap FinMap := []

def parseJObj (t : String) : Option JObj :=
  match t.splitOn ";" with
  | [ns, name, _, _, _, _, val] => some { key := ns ++ "/" ++ name, ns := ns, tok := t, name := name, val := val }
  | _ => none

def updCol (cols : List (List JObj)) (i : Nat) (f : List JObj → List JObj) : List (List JObj) :=
  cols.mapIdx (fun j c => if j = i then f c else c)

def multi (j : JState) : List Key :=
  (j.touched.filter (fun e => e.2.length ≥ 2)).map (·.1)

def addUnsafe (j : JState) (ks : List Key) : JState :=
  { j with unsafeK := j.unsafeK ++ dedupS (ks.filter (fun k => !j.unsafeK.contains k)) }

def jcontents (j : JState) : FinMap := if j.merge then mergeContents j.cols else joinContents j.cols
def jlookup (j : JState) (ns : String) : FinMap := if j.merge then mergeLookup j.cols ns else joinLookup j.cols ns

def touch (j : JState) (k : Key) (i : Nat) : JState :=
  if !j.started || j.merge then j else
  let l := (AMap.lookup j.touched k).getD []
  if l.contains i then j else
  let j' := { j with touched := AMap.set j.touched k (l ++ [i]) }
  if l.length + 1 ≥ 2 && j.nsubs > 0 then addUnsafe j' [k] else j'

def jbarrier (j : JState) : JState := { j with touched := [] }

def startTouched (cols : List (List JObj)) : AMap (List Nat) :=
  let keys := dedupS (cols.flatMap (fun c => c.map (·.key)))
  keys.map (fun k => (k, (List.range cols.length).filter (fun i => ((cols.getD i []).any (fun o => o.key == k)))))

def jInU (j : JState) (k : Key) : Bool := j.flagged && j.unsafeK.contains k

def jguard (j : JState) : Option String :=
  if !j.started then some "not-started"
  else if !j.flagged && !j.unsafeK.isEmpty then some "undisciplined"
  else none

def janswer (j : JState) (u : Bool) (body : JState → String) : String :=
  match jguard j with
  | some g => g
  | none => if u && !j.flagged then "not-flagged" else body j

def stepJ (j : JState) (toks : List String) : JState × String :=
  match toks with
  | "case" :: _ :: stream :: n :: rest =>
    ({ cols := List.replicate (n.toNat?.getD 2) [], flagged := rest.contains "jr", merge := stream.startsWith "joinm" }, "ok")
  | ["c.set", i, o] =>
    match i.toNat?, parseJObj o with
    | some i, some o =>
      if i < j.cols.length then
        let j' := touch j o.key i
        ({ j' with cols := updCol j'.cols i (fun c => jset c o) }, "ok")
      else (j, "bad-op")
    | _, _ => (j, "bad-op")
  | ["c.del", i, k] =>
    match i.toNat? with
    | some i =>
      if i < j.cols.length then
        if (jget (j.cols.getD i []) k).isSome then
          let j' := touch j k i
          ({ j' with cols := updCol j'.cols i (fun c => jdel c k) }, "ok")
        else (j, "ok")
      else (j, "bad-op")
    | none => (j, "bad-op")
  | ["start"] =>
    if j.started then (j, "ok")
    else ({ j with started := true, unsafeK := [], touched := if j.merge then [] else startTouched j.cols }, "ok")
  | ["sync"] => (jbarrier j, "ok")
  | ["sub", name, kind] =>
    if !j.started then (j, "ok") else
    let j := if kind == "nostate" then jbarrier j else j
    let j := addUnsafe j (multi j)
    ({ j with nsubs := j.nsubs + 1,
              subs := AMap.set j.subs name (if kind == "nostate" then jcontents j else []) }, "ok")
  | ["list"] =>
    let j := jbarrier j
    (j, "list " ++ janswer j false (fun j => showMap (restrictMap (fun k => !jInU j k) (jcontents j))))
  | ["ulist"] =>
    let j := jbarrier j
    (j, "ulist " ++ janswer j true (fun j => showMap (restrictMap (jInU j) (jcontents j))))
  | ["get", k] =>
    let j := jbarrier j
    (j, "get " ++ janswer j false (fun j =>
      if jInU j k then "masked" else
      match AMap.lookup (jcontents j) k with
      | none => "none"
      | some v => v))
  | ["lookup", ns] =>
    let j := jbarrier j
    (j, "lookup " ++ janswer j false (fun j => showMap (restrictMap (fun k => !jInU j k) (jlookup j ns))))
  | ["ulookup", ns] =>
    let j := jbarrier j
    (j, "ulookup " ++ janswer j true (fun j => showMap (restrictMap (jInU j) (jlookup j ns))))
  | "stream" :: name :: evs =>
    let j := jbarrier j
    (j, "stream " ++ janswer j false (fun j =>
      match parseEvents evs, AMap.lookup j.subs name with
      | some es, some m0 =>
        let p := fun k => !jInU j k
        showVerdict (restrictMap p m0) (restrictStream p es) (restrictMap p (jcontents j))
      | none, _ => "reject:malformed-event"
      | _, none => "unknown-subscriber"))
  | "ustream" :: name :: evs =>
    let j := jbarrier j
    (j, "ustream " ++ janswer j true (fun j =>
      match parseEvents evs, AMap.lookup j.subs name with
      | some es, some m0 =>
        showVerdict (restrictMap (jInU j) m0) (restrictStream (jInU j) es) (restrictMap (jInU j) (jcontents j))
      | none, _ => "reject:malformed-event"
      | _, none => "unknown-subscriber"))
  | _ => (j, "bad-op")

/-- The driver state of `drv_c16`: one of the two sub-drivers, selected by the case header. -/
structure AllState where
  join : Bool := false
  k : DState := {}
  j : JState := {}

def stepAll (a : AllState) (toks : List String) : AllState × String :=
  match toks with
  | "case" :: _ :: stream :: _ =>
    if stream.startsWith "join" then
      let r := stepJ {} toks
      ({ join := true, j := r.1 }, r.2)
    else
      let r := stepD {} toks
      ({ join := false, k := r.1 }, r.2)
  | _ =>
    if a.join then
      let r := stepJ a.j toks
      ({ a with j := r.1 }, r.2)
    else
      let r := stepD a.k toks
      ({ a with k := r.1 }, r.2)

end IstioModel.C16
