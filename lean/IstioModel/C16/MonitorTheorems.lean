import IstioModel.C16.Monitor

/-!
C16 - the stream monitor is sound and complete for the property's stream clause
(`monitorB_iff`), for every stream, plus the algebra of `replay` used by the runtime proofs.
-/
namespace IstioModel.C16

namespace AMap
variable {α : Type}

theorem lookup_erase (m : AMap α) (k k' : Key) :
    lookup (erase m k) k' = if k' = k then none else lookup m k' := by
  induction m with
  | nil => simp [erase, lookup]
  | cons p m ih =>
    obtain ⟨c, v⟩ := p
    by_cases hkc : k = c
    · subst hkc
      simp only [erase, if_true, ih, lookup]
      by_cases h : k' = k <;> simp [h]
    · simp only [erase, hkc, if_false, lookup, ih]
      by_cases h : k' = k
      · subst h; simp [hkc]
      · simp [h]

theorem lookup_set (m : AMap α) (k : Key) (v : α) (k' : Key) :
    lookup (set m k v) k' = if k' = k then some v else lookup m k' := by
  simp only [set, lookup, lookup_erase]
  by_cases h : k' = k <;> simp [h]

theorem lookup_set_self (m : AMap α) (k : Key) (v : α) : lookup (set m k v) k = some v := by
  simp [lookup_set]

theorem lookup_set_other (m : AMap α) (k : Key) (v : α) (k' : Key) (h : k' ≠ k) :
    lookup (set m k v) k' = lookup m k' := by
  simp [lookup_set, h]

theorem lookup_erase_self (m : AMap α) (k : Key) : lookup (erase m k) k = none := by
  simp [lookup_erase]

theorem lookup_erase_other (m : AMap α) (k k' : Key) (h : k' ≠ k) :
    lookup (erase m k) k' = lookup m k' := by
  simp [lookup_erase, h]

theorem lookup_some_mem {m : AMap α} {k : Key} {v : α} (h : lookup m k = some v) : (k, v) ∈ m := by
  induction m with
  | nil => simp [lookup] at h
  | cons p m ih =>
    obtain ⟨c, w⟩ := p
    simp only [lookup] at h
    by_cases hkc : k = c
    · subst hkc; simp at h; subst h; simp
    · simp [hkc] at h; exact List.mem_cons_of_mem _ (ih h)

theorem lookup_none_of_not_mem_keys {m : AMap α} {k : Key} (h : k ∉ keys m) : lookup m k = none := by
  induction m with
  | nil => simp [lookup]
  | cons p m ih =>
    obtain ⟨c, w⟩ := p
    simp only [keys, List.map_cons, List.mem_cons, not_or] at h
    simp only [lookup, h.1, if_false]
    exact ih h.2

theorem mem_keys_of_lookup_some {m : AMap α} {k : Key} {v : α} (h : lookup m k = some v) :
    k ∈ keys m := by
  have := lookup_some_mem h
  simp only [keys, List.mem_map]
  exact ⟨(k, v), this, rfl⟩

theorem lookup_isSome_of_mem_keys {m : AMap α} {k : Key} (h : k ∈ keys m) :
    (lookup m k).isSome = true := by
  induction m with
  | nil => simp [keys] at h
  | cons p m ih =>
    obtain ⟨c, w⟩ := p
    simp only [keys, List.map_cons, List.mem_cons] at h
    simp only [lookup]
    by_cases hkc : k = c
    · simp [hkc]
    · simp only [hkc, if_false]
      rcases h with h | h
      · exact absurd h hkc
      · exact ih h

end AMap

open AMap

/-! ## `mapEqB` decides `MapEq` -/

theorem mapEqB_iff (a b : FinMap) : mapEqB a b = true ↔ MapEq a b := by
  constructor
  · intro h k
    simp only [mapEqB, Bool.and_eq_true, List.all_eq_true, beq_iff_eq] at h
    obtain ⟨ha, hb⟩ := h
    cases hla : lookup a k with
    | some v =>
      have := ha (k, v) (lookup_some_mem hla)
      simp only at this
      rw [this, hla]
    | none =>
      cases hlb : lookup b k with
      | none => rfl
      | some w =>
        have := hb (k, w) (lookup_some_mem hlb)
        simp only at this
        rw [hla, hlb] at this
        exact this
  · intro h
    simp only [mapEqB, Bool.and_eq_true, List.all_eq_true, beq_iff_eq]
    exact ⟨fun p _ => (h p.1).symm, fun p _ => h p.1⟩

theorem MapEq.refl (a : FinMap) : MapEq a a := fun _ => rfl
theorem MapEq.symm {a b : FinMap} (h : MapEq a b) : MapEq b a := fun k => (h k).symm
theorem MapEq.trans {a b c : FinMap} (h : MapEq a b) (g : MapEq b c) : MapEq a c :=
  fun k => (h k).trans (g k)

/-! ## `replay` algebra -/

theorem replayFrom_nil (m : FinMap) : replayFrom m [] = m := rfl

theorem replayFrom_cons (m : FinMap) (e : Event) (s : List Event) :
    replayFrom m (e :: s) = replayFrom (applyEv m e) s := rfl

theorem replayFrom_append (m : FinMap) (s t : List Event) :
    replayFrom m (s ++ t) = replayFrom (replayFrom m s) t := by
  simp [replayFrom, List.foldl_append]

/-- Replaying a concatenation = replaying the second part on top of the first. -/
theorem replay_append (s t : List Event) : replay (s ++ t) = replayFrom (replay s) t :=
  replayFrom_append [] s t

theorem lookup_applyEv_other (m : FinMap) (e : Event) (k : Key) (h : k ≠ e.key) :
    lookup (applyEv m e) k = lookup m k := by
  cases e <;> simp only [applyEv, Event.key] at * <;>
    first | exact lookup_set_other _ _ _ _ h | exact lookup_erase_other _ _ _ h

/-- Events of other keys never change what a subscriber holds for `k`. -/
theorem lookup_replayFrom_proj (k : Key) (s : List Event) (m : FinMap) :
    lookup (replayFrom m s) k = lookup (replayFrom m (proj k s)) k := by
  induction s generalizing m with
  | nil => rfl
  | cons e s ih =>
    by_cases h : e.key = k
    · have : proj k (e :: s) = e :: proj k s := by simp [proj, h]
      rw [this, replayFrom_cons, replayFrom_cons, ih]
    · have hp : proj k (e :: s) = proj k s := by simp [proj, h]
      rw [hp, replayFrom_cons, ih]
      have hne : k ≠ e.key := fun x => h x.symm
      -- replaying `proj k s` only touches key k; the two starting maps agree on k
      have aux : ∀ (t : List Event) (m1 m2 : FinMap), lookup m1 k = lookup m2 k →
          (∀ e ∈ t, e.key = k) → lookup (replayFrom m1 t) k = lookup (replayFrom m2 t) k := by
        intro t
        induction t with
        | nil => intro m1 m2 h _; exact h
        | cons e' t iht =>
          intro m1 m2 h12 hall
          rw [replayFrom_cons, replayFrom_cons]
          apply iht
          · have hk : e'.key = k := hall e' (List.mem_cons_self ..)
            cases e' <;> simp only [Event.key] at hk <;> subst hk <;>
              simp [applyEv, lookup_set_self, lookup_erase_self]
          · intro e'' he''; exact hall e'' (List.mem_cons_of_mem _ he'')
      apply aux
      · exact lookup_applyEv_other m e k hne
      · intro e' he'
        simp only [proj, List.mem_filter, beq_iff_eq] at he'
        exact he'.2

/-! ## Soundness and completeness of the monitor -/

theorem stepB_eq_applyEv {m m' : FinMap} {e : Event} (h : stepB m e = some m') : m' = applyEv m e := by
  cases e <;> simp only [stepB] at h <;> split at h <;> simp at h <;> simp [applyEv, h]

/-- `stepB` accepts exactly the events that are legal for their key in state `m`. -/
theorem stepB_isSome_iff (m : FinMap) (e : Event) :
    (stepB m e).isSome = true ↔
      (match e with
       | .add k _ => lookup m k = none
       | .update k old _ => lookup m k = some old
       | .delete k old => lookup m k = some old) := by
  cases e with
  | add k v =>
    simp only [stepB]
    cases h : lookup m k <;> simp
  | update k old new =>
    simp only [stepB]
    by_cases h : lookup m k = some old <;> simp [h]
  | delete k old =>
    simp only [stepB]
    by_cases h : lookup m k = some old <;> simp [h]

theorem proj_cons_self (e : Event) (s : List Event) : proj e.key (e :: s) = e :: proj e.key s := by
  simp [proj]

theorem proj_cons_other (k : Key) (e : Event) (s : List Event) (h : e.key ≠ k) :
    proj k (e :: s) = proj k s := by
  simp [proj, h]

/-- Head inversion of a key word. -/
theorem keyWord_cons_iff (st : Option Val) (e : Event) (w : List Event) :
    KeyWord st (e :: w) ↔
      (match e with
       | .add _ v => st = none ∧ KeyWord (some v) w
       | .update _ old new => st = some old ∧ KeyWord (some new) w
       | .delete _ old => st = some old ∧ KeyWord none w) := by
  constructor
  · intro h
    cases h with
    | add h => exact ⟨rfl, h⟩
    | update h => exact ⟨rfl, h⟩
    | delete h => exact ⟨rfl, h⟩
  · intro h
    cases e with
    | add k v => obtain ⟨h1, h2⟩ := h; subst h1; exact KeyWord.add h2
    | update k old new => obtain ⟨h1, h2⟩ := h; subst h1; exact KeyWord.update h2
    | delete k old => obtain ⟨h1, h2⟩ := h; subst h1; exact KeyWord.delete h2

/-- One step of the specification: a stream `e :: s` is well formed on `m` iff `e` is legal for
    its key in `m` and `s` is well formed on the updated copy. -/
theorem wellFormedFrom_cons (m : FinMap) (e : Event) (s : List Event) :
    WellFormedFrom m (e :: s) ↔ (stepB m e).isSome = true ∧ WellFormedFrom (applyEv m e) s := by
  rw [stepB_isSome_iff]
  constructor
  · intro h
    have hk := h e.key
    rw [proj_cons_self, keyWord_cons_iff] at hk
    refine ⟨?_, ?_⟩
    · cases e <;> simp only [Event.key] at hk ⊢ <;> exact hk.1
    · intro k
      by_cases hke : e.key = k
      · subst hke
        cases e <;> simp only [Event.key, applyEv] at hk ⊢ <;>
          simp only [lookup_set_self, lookup_erase_self] <;> exact hk.2
      · have := h k
        rw [proj_cons_other k e s hke] at this
        rw [lookup_applyEv_other m e k (fun x => hke x.symm)]
        exact this
  · intro ⟨h1, h2⟩ k
    by_cases hke : e.key = k
    · subst hke
      rw [proj_cons_self, keyWord_cons_iff]
      have := h2 e.key
      cases e <;> simp only [Event.key, applyEv] at this h1 ⊢ <;>
        simp only [lookup_set_self, lookup_erase_self] at this <;> exact ⟨h1, this⟩
    · rw [proj_cons_other k e s hke]
      have := h2 k
      rw [lookup_applyEv_other m e k (fun x => hke x.symm)] at this
      exact this

theorem wellFormedFrom_nil (m : FinMap) : WellFormedFrom m [] := fun _ => KeyWord.nil _

/-- The monitor's run succeeds exactly on the well-formed streams, and then returns the replay. -/
theorem runB_eq_some_iff (m : FinMap) (s : List Event) (m' : FinMap) :
    runB m s = some m' ↔ WellFormedFrom m s ∧ m' = replayFrom m s := by
  induction s generalizing m with
  | nil =>
    simp only [runB, replayFrom_nil, Option.some.injEq]
    constructor
    · intro h; exact ⟨wellFormedFrom_nil m, h.symm⟩
    · intro h; exact h.2.symm
  | cons e s ih =>
    rw [wellFormedFrom_cons, replayFrom_cons]
    simp only [runB]
    cases hs : stepB m e with
    | none => simp
    | some m1 =>
      have := stepB_eq_applyEv hs
      subst this
      simp [ih]

theorem runB_isSome_iff (m : FinMap) (s : List Event) :
    (runB m s).isSome = true ↔ WellFormedFrom m s := by
  constructor
  · intro h
    cases hr : runB m s with
    | none => rw [hr] at h; simp at h
    | some m' => exact ((runB_eq_some_iff m s m').1 hr).1
  · intro h
    have := (runB_eq_some_iff m s (replayFrom m s)).2 ⟨h, rfl⟩
    simp [this]

/-- **Monitor theorem (general form)**: for a subscriber that already holds `m0`. -/
theorem monitorFromB_iff (m0 : FinMap) (s : List Event) (m : FinMap) :
    monitorFromB m0 s m = true ↔ WellFormedFrom m0 s ∧ MapEq (replayFrom m0 s) m := by
  simp only [monitorFromB]
  cases hr : runB m0 s with
  | none =>
    simp only [Bool.false_eq_true, false_iff, not_and]
    intro hwf
    have := (runB_isSome_iff m0 s).2 hwf
    rw [hr] at this; simp at this
  | some m' =>
    obtain ⟨hwf, hm'⟩ := (runB_eq_some_iff m0 s m').1 hr
    subst hm'
    simp only [mapEqB_iff]
    exact ⟨fun h => ⟨hwf, h⟩, fun h => h.2⟩

/-- **Monitor theorem**: `monitorB` accepts a stream against contents `m` iff the stream satisfies
    the property's stream clause (`WellFormed`) and replaying it reproduces `m` (as maps).
    Sound and complete, for all streams. -/
theorem monitorB_iff (s : List Event) (m : FinMap) :
    monitorB s m = true ↔ WellFormed s ∧ MapEq (replay s) m :=
  monitorFromB_iff [] s m

/-- Splitting a stream at a quiescent point: the prefix is checked against the contents at that
    point, the rest on top of them. -/
theorem wellFormedFrom_append (m : FinMap) (s t : List Event) :
    WellFormedFrom m (s ++ t) ↔ WellFormedFrom m s ∧ WellFormedFrom (replayFrom m s) t := by
  induction s generalizing m with
  | nil => simp [wellFormedFrom_nil, replayFrom_nil]
  | cons e s ih =>
    rw [List.cons_append, wellFormedFrom_cons, wellFormedFrom_cons, ih, replayFrom_cons]
    exact and_assoc.symm

/-- Well-formedness only depends on the map denoted by the starting copy. -/
theorem wellFormedFrom_congr {m1 m2 : FinMap} (h : MapEq m1 m2) (s : List Event) :
    WellFormedFrom m1 s ↔ WellFormedFrom m2 s := by
  simp only [WellFormedFrom]
  constructor <;> intro hw k
  · rw [← h k]; exact hw k
  · rw [h k]; exact hw k

theorem applyEv_congr {m1 m2 : FinMap} (h : MapEq m1 m2) (e : Event) :
    MapEq (applyEv m1 e) (applyEv m2 e) := by
  intro k
  cases e <;> simp only [applyEv, lookup_set, lookup_erase] <;> split <;> first | rfl | exact h k

theorem replayFrom_congr {m1 m2 : FinMap} (h : MapEq m1 m2) (s : List Event) :
    MapEq (replayFrom m1 s) (replayFrom m2 s) := by
  induction s generalizing m1 m2 with
  | nil => exact h
  | cons e s ih => exact ih (applyEv_congr h e)

/-- The initial `Add` events of a late registration (`RegisterBatch(.., runExistingState=true)`):
    one add per held object. -/
def addsOf (m : FinMap) : List Event := m.map (fun kv => Event.add kv.1 kv.2)

/-- A duplicate-free association list (what `set`/`erase` maintain). -/
def NoDupKeys (m : FinMap) : Prop := (keys m).Nodup

theorem runB_addsOf_aux (acc m : FinMap) (hnd : (keys m).Nodup) (hdis : ∀ k ∈ keys m, lookup acc k = none) :
    ∃ r, runB acc (addsOf m) = some r ∧ ∀ k, lookup r k = (lookup m k).or (lookup acc k) := by
  induction m generalizing acc with
  | nil => exact ⟨acc, rfl, fun k => by simp [lookup]⟩
  | cons p m ih =>
    obtain ⟨c, v⟩ := p
    simp only [keys, List.map_cons, List.nodup_cons] at hnd
    have hc : lookup acc c = none := hdis c (by simp [keys])
    have hstep : stepB acc (Event.add c v) = some (AMap.set acc c v) := by simp [stepB, hc]
    have hdis' : ∀ k ∈ keys m, lookup (AMap.set acc c v) k = none := by
      intro k hk
      have hne : k ≠ c := fun h => hnd.1 (h ▸ hk)
      rw [lookup_set_other _ _ _ _ hne]
      exact hdis k (by simp only [keys, List.map_cons, List.mem_cons]; exact Or.inr hk)
    obtain ⟨r, hr, hl⟩ := ih (AMap.set acc c v) hnd.2 hdis'
    refine ⟨r, ?_, ?_⟩
    · simp only [addsOf, List.map_cons, runB, hstep]; exact hr
    · intro k
      rw [hl k]
      simp only [lookup]
      by_cases hkc : k = c
      · subst hkc
        have : lookup m k = none := lookup_none_of_not_mem_keys hnd.1
        simp [this, lookup_set_self]
      · simp [hkc, lookup_set_other _ _ _ _ hkc]

/-- The initial adds of a late registration are a well-formed stream replaying to the contents. -/
theorem addsOf_accepted (m : FinMap) (h : NoDupKeys m) : monitorB (addsOf m) m = true := by
  obtain ⟨r, hr, hl⟩ := runB_addsOf_aux [] m h (fun _ _ => rfl)
  simp only [monitorB, monitorFromB, hr, mapEqB_iff]
  intro k
  rw [hl k]; simp [lookup]

/-- **Late subscriber**: initial adds of the contents `m0` followed by a stream `t` are accepted
    against `m` iff `t` is well formed on top of `m0` and replays from `m0` to `m`. -/
theorem monitorB_late_iff (m0 : FinMap) (h : NoDupKeys m0) (t : List Event) (m : FinMap) :
    monitorB (addsOf m0 ++ t) m = true ↔ WellFormedFrom m0 t ∧ MapEq (replayFrom m0 t) m := by
  have hacc := addsOf_accepted m0 h
  rw [monitorB_iff] at hacc
  obtain ⟨hwf0, hrep0⟩ := hacc
  rw [monitorB_iff, WellFormed, wellFormedFrom_append, replay, replayFrom_append]
  have hrep0' : MapEq (replayFrom [] (addsOf m0)) m0 := hrep0
  constructor
  · intro ⟨⟨_, hwt⟩, hm⟩
    exact ⟨(wellFormedFrom_congr hrep0' t).1 hwt,
           MapEq.trans (MapEq.symm (replayFrom_congr hrep0' t)) hm⟩
  · intro ⟨hwt, hm⟩
    exact ⟨⟨hwf0, (wellFormedFrom_congr hrep0' t).2 hwt⟩,
           MapEq.trans (replayFrom_congr hrep0' t) hm⟩

/-! ## Readable consequences of `WellFormed` (the clauses of the statement) -/

/-- Position-wise reading: an event at any position of a well-formed stream is legal with respect
    to what the preceding events left for its key. -/
theorem wellFormed_at (p : List Event) (e : Event) (q : List Event) (h : WellFormed (p ++ e :: q)) :
    (stepB (replay p) e).isSome = true := by
  have := (wellFormedFrom_append [] p (e :: q)).1 h
  exact ((wellFormedFrom_cons _ e q).1 this.2).1

/-- No duplicate add: an `Add k` never arrives while the subscriber holds `k`. -/
theorem no_duplicate_add (p q : List Event) (k : Key) (v : Val) (h : WellFormed (p ++ Event.add k v :: q)) :
    lookup (replay p) k = none := by
  have := wellFormed_at p _ q h
  rwa [stepB_isSome_iff] at this

/-- No update of an unknown key, and `Old` is the value delivered last. -/
theorem update_old_is_previous (p q : List Event) (k : Key) (old new : Val)
    (h : WellFormed (p ++ Event.update k old new :: q)) : lookup (replay p) k = some old := by
  have := wellFormed_at p _ q h
  rwa [stepB_isSome_iff] at this

/-- No delete of an unknown key, and `Old` is the value delivered last. -/
theorem delete_old_is_previous (p q : List Event) (k : Key) (old : Val)
    (h : WellFormed (p ++ Event.delete k old :: q)) : lookup (replay p) k = some old := by
  have := wellFormed_at p _ q h
  rwa [stepB_isSome_iff] at this

/-- Conversely, position-wise legality of every event is well-formedness. -/
theorem wellFormed_of_all_positions (s : List Event)
    (h : ∀ p e q, s = p ++ e :: q → (stepB (replay p) e).isSome = true) : WellFormed s := by
  have aux : ∀ (t pre : List Event), s = pre ++ t → WellFormedFrom (replay pre) t := by
    intro t
    induction t with
    | nil => intro pre _; exact wellFormedFrom_nil _
    | cons e t ih =>
      intro pre hs
      rw [wellFormedFrom_cons]
      refine ⟨h pre e t hs, ?_⟩
      have := ih (pre ++ [e]) (by simp [hs])
      rw [replay, replayFrom_append] at this
      exact this
  exact aux s [] rfl

/-! ## splitting a check by keys (used to confine the known finding F6 to the moved keys) -/

theorem lookup_restrictMap (p : Key → Bool) (m : FinMap) (k : Key) :
    lookup (restrictMap p m) k = if p k = true then lookup m k else none := by
  induction m with
  | nil => simp [restrictMap, lookup]
  | cons q m ih =>
    obtain ⟨c, v⟩ := q
    simp only [restrictMap] at ih
    by_cases hpc : p c = true
    · simp only [restrictMap, List.filter_cons, hpc, if_true, lookup, ih]
      by_cases hk : k = c
      · subst hk; simp [hpc]
      · simp [hk]
    · have hpc' : p c = false := by simpa using hpc
      simp only [restrictMap, List.filter_cons, hpc', Bool.false_eq_true, if_false, lookup]
      by_cases hk : k = c
      · subst hk; rw [ih]; simp [hpc']
      · rw [ih]; simp [hk]

theorem proj_restrictStream (p : Key → Bool) (s : List Event) (k : Key) :
    proj k (restrictStream p s) = if p k = true then proj k s else [] := by
  induction s with
  | nil => simp [proj, restrictStream]
  | cons e s ih =>
    simp only [proj, restrictStream] at ih
    by_cases hpe : p e.key = true
    · simp only [proj, restrictStream, List.filter_cons, hpe, if_true]
      by_cases hk : e.key = k
      · subst hk; simp only [beq_self_eq_true, if_true, hpe] at ih ⊢; rw [ih]
      · have : (e.key == k) = false := by simpa using hk
        simp only [this]; exact ih
    · simp only [proj, restrictStream, List.filter_cons, hpe]
      by_cases hk : e.key = k
      · subst hk; simp only [hpe, if_false] at ih ⊢; simpa using ih
      · have : (e.key == k) = false := by simpa using hk
        simp only [this]; exact ih

/-- replaying events that all carry key `k` from two copies that agree on `k` -/
theorem lookup_replayFrom_sameKey (k : Key) (t : List Event) (m1 m2 : FinMap)
    (h12 : lookup m1 k = lookup m2 k) (hall : ∀ e ∈ t, e.key = k) :
    lookup (replayFrom m1 t) k = lookup (replayFrom m2 t) k := by
  induction t generalizing m1 m2 with
  | nil => exact h12
  | cons e' t iht =>
    rw [replayFrom_cons, replayFrom_cons]
    apply iht
    · have hk : e'.key = k := hall e' (List.mem_cons_self ..)
      cases e' <;> simp only [Event.key] at hk <;> subst hk <;>
        simp [applyEv, lookup_set_self, lookup_erase_self]
    · intro e'' he''; exact hall e'' (List.mem_cons_of_mem _ he'')

theorem lookup_replayFrom_restrict (p : Key → Bool) (m0 : FinMap) (s : List Event) (k : Key) :
    lookup (replayFrom (restrictMap p m0) (restrictStream p s)) k =
      if p k = true then lookup (replayFrom m0 s) k else none := by
  rw [lookup_replayFrom_proj, proj_restrictStream]
  by_cases hp : p k = true
  · simp only [hp, if_true]
    rw [lookup_replayFrom_proj k s m0]
    apply lookup_replayFrom_sameKey
    · rw [lookup_restrictMap]; simp [hp]
    · intro e he
      simp only [proj, List.mem_filter, beq_iff_eq] at he
      exact he.2
  · simp only [hp]
    simp [replayFrom_nil, lookup_restrictMap, hp]

theorem wellFormedFrom_restrict (p : Key → Bool) (m0 : FinMap) (s : List Event) :
    WellFormedFrom (restrictMap p m0) (restrictStream p s) ↔
      ∀ k, p k = true → KeyWord (lookup m0 k) (proj k s) := by
  simp only [WellFormedFrom, lookup_restrictMap, proj_restrictStream]
  constructor
  · intro h k hp; have := h k; simpa [hp] using this
  · intro h k
    by_cases hp : p k = true
    · simpa [hp] using h k hp
    · simp only [hp]; exact KeyWord.nil _

/-- **Per-key decomposition of the monitor**: checking a stream against contents is the same as
    checking, for any set of keys `p`, the restriction to `p` and the restriction to the rest. -/
theorem monitorFromB_split (p : Key → Bool) (m0 : FinMap) (s : List Event) (m : FinMap) :
    monitorFromB m0 s m = true ↔
      monitorFromB (restrictMap p m0) (restrictStream p s) (restrictMap p m) = true ∧
      monitorFromB (restrictMap (fun k => !p k) m0) (restrictStream (fun k => !p k) s)
        (restrictMap (fun k => !p k) m) = true := by
  simp only [monitorFromB_iff, wellFormedFrom_restrict, MapEq, lookup_replayFrom_restrict,
    lookup_restrictMap]
  constructor
  · rintro ⟨hw, hm⟩
    refine ⟨⟨fun k _ => hw k, fun k => ?_⟩, ⟨fun k _ => hw k, fun k => ?_⟩⟩
    · by_cases hp : p k = true <;> simp [hp, hm k]
    · by_cases hp : p k = true <;> simp [hp, hm k]
  · rintro ⟨⟨hw1, hm1⟩, ⟨hw2, hm2⟩⟩
    refine ⟨fun k => ?_, fun k => ?_⟩
    · by_cases hp : p k = true
      · exact hw1 k hp
      · exact hw2 k (by simpa using hp)
    · by_cases hp : p k = true
      · have := hm1 k; simpa [hp] using this
      · have := hm2 k; simpa [hp] using this

/-! ## Non-vacuity -/

example : monitorB [.add "a" "1", .update "a" "1" "2", .add "b" "x", .delete "a" "2", .add "a" "3"]
    [("b", "x"), ("a", "3")] = true := by decide

example : monitorB [.add "a" "1", .add "a" "1"] [("a", "1")] = false := by decide
example : monitorB [.update "a" "1" "2"] [("a", "2")] = false := by decide
example : monitorB [.add "a" "1", .update "a" "0" "2"] [("a", "2")] = false := by decide
example : monitorB [.add "a" "1", .delete "a" "1", .update "a" "1" "2"] [("a", "2")] = false := by decide
example : monitorB [.add "a" "1"] [] = false := by decide
example : WellFormed [.add "a" "1", .update "a" "1" "2"] :=
  ((monitorB_iff _ [("a", "2")]).1 (by decide)).1

end IstioModel.C16
